(* gpmodel: reads one s-expression case per line on stdin, runs the extracted
   Coq model on it and prints one s-expression result per line. *)
let handlers : (Sexp.t -> Sexp.t option) list ref = ref [ Fam_cli.handle; Fam_fs.handle; Fam_discover.handle; Fam_section.handle; Fam_engine.handle; Fam_augment.handle; Fam_comments.handle; Fam_astdiff.handle; Fam_loader.handle ]

let () =
  let rec loop () =
    match input_line stdin with
    | exception End_of_file -> ()
    | line ->
      if String.length line > 0 then begin
        let out =
          try
            let x = Sexp.parse line in
            let rec try_all = function
              | [] -> Sexp.L [Sexp.A "error"; Sexp.A "unknown-case"]
              | h :: tl -> (match h x with Some r -> r | None -> try_all tl) in
            try_all !handlers
          with
          | Sexp.Parse_error m -> Sexp.L [Sexp.A "error"; Sexp.A ("parse:" ^ String.map (fun c -> if c = ' ' then '_' else c) m)]
          | Failure m -> Sexp.L [Sexp.A "error"; Sexp.A ("failure:" ^ String.map (fun c -> if c = ' ' then '_' else c) m)]
          | Stack_overflow -> Sexp.L [Sexp.A "error"; Sexp.A "stack-overflow"]
        in
        print_string (Sexp.to_string out); print_newline ()
      end;
      loop () in
  loop ()
