(* Driver for the Augment model (pgo/augment: find + rewrite). *)
open Gpmodel
open Sexp

let akind_of = function
  | "ident" -> AK_IDENT | "ellipsis" -> AK_ELLIPSIS | "func" -> AK_FUNC | "package" -> AK_PACKAGE
  | "import" -> AK_IMPORT | "lparen" -> AK_LPAREN | "rparen" -> AK_RPAREN | "period" -> AK_PERIOD
  | "comma" -> AK_COMMA | "type" -> AK_TYPE | "const" -> AK_CONST | "var" -> AK_VAR | "lbrace" -> AK_LBRACE
  | "eof" -> AK_EOF | _ -> AK_OTHER

let sx_bool b = A (if b then "1" else "0")

let sx_aug = function
  | FakePackage o -> L [A "pkg"; sx_int (int_of_nat o)]
  | FakeFunc (o, b) -> L [A "func"; sx_int (int_of_nat o); sx_bool b]
  | ADots (s, e, n) -> L [A "dots"; sx_int (int_of_nat s); sx_int (int_of_nat e); sx_bool n]

(* (augment SRC ELINE SCANERRS (toks (KIND OFF LINE)...)) *)
let augment_case (fs : t list) : t =
  match fs with
  | src :: eline :: serr :: rest ->
    let toks = List.map (fun x -> match x with
        | L [A k; o; l] -> { a_kind = akind_of k; a_off = nat_of_int (int_of o); a_line = nat_of_int (int_of l) }
        | _ -> raise (Parse_error "atok")) (field "toks" rest) in
    let srcb = bytes_of src in
    let shape = match find (nat_of_int (List.length srcb)) (nat_of_int (int_of eline)) toks with
      | Some augs -> sx_bool (augs_okb (nat_of_int (List.length srcb)) augs)
      | None -> A "diverges" in
    (match augment srcb toks (nat_of_int (int_of eline)) (int_of serr <> 0) with
     | AugScanError -> L [A "result"; A "scan-error"]
     | AugDiverges -> L [A "result"; A "diverges"]
     | AugPanics -> L [A "result"; A "panics"]
     | AugOk (out, augs, adjs) ->
       L [A "result"; A "ok"; sx_bytes out; L (List.map sx_aug augs);
          L (List.map (fun a -> L [sx_int (int_of_nat a.adj_off); sx_int (int_of_nat a.adj_reduce)]) adjs); shape;
          sx_bool (wfb (nat_of_int (List.length srcb)) toks)])
  | _ -> raise (Parse_error "augment")

let handle (x : t) : t option =
  match x with
  | L (A "augment" :: fs) -> Some (augment_case fs)
  | _ -> None
