(* Driver for the FsProto model: is an observed operation trace a run of the write
   protocol, and is every prefix of it safe? *)
open Gpmodel
open Sexp

let op_of_sx (x : t) : fsop =
  match x with
  | L [A "create"; p] -> OCreate (bytes_of p)
  | L [A "append"; p; b] -> OAppend (bytes_of p, bytes_of b)
  | L [A "chmod"; p] -> OChmod (bytes_of p)
  | L [A "rename"; s; d] -> ORename (bytes_of s, bytes_of d)
  | L [A "unlink"; p] -> OUnlink (bytes_of p)
  | L [A "truncate"; p] -> OTruncate (bytes_of p)
  | _ -> raise (Parse_error ("fsop: " ^ to_string x))

let wr_of_sx (x : t) : wr =
  match x with
  | L [tmp; target; L chunks; fail] ->
    { w_tmp = bytes_of tmp; w_target = bytes_of target; w_chunks = List.map bytes_of chunks;
      w_fail = (match fail with A "none" -> None | y -> Some (nat_of_int (int_of y))) }
  | _ -> raise (Parse_error "wr")

(* (fsrun (orig (P C)...) (watched P...) (writes WR...) (ops OP...)) *)
let fsrun (fs : t list) : t =
  let orig = List.map (fun x -> match x with L [p; c] -> (bytes_of p, bytes_of c)
                                           | _ -> raise (Parse_error "orig")) (field "orig" fs) in
  let watched = List.map bytes_of (field "watched" fs) in
  let ws = List.map wr_of_sx (field "writes" fs) in
  let ops = List.map op_of_sx (field "ops" fs) in
  let (c, s) = check_run orig watched ws ops in
  L [A "result"; sx_bool c; sx_bool s]

let handle (x : t) : t option =
  match x with
  | L (A "fsrun" :: fs) -> Some (fsrun fs)
  | _ -> None
