(* Driver for the Section model: split a patch file into changes. *)
open Gpmodel
open Sexp

let sx_line (l : line) : t = L [sx_int (int_of_nat l.l_off); sx_bytes l.l_text]

let sx_serr = function
  | EBadName o -> L [A "badname"; sx_int (int_of_nat o)]
  | EBadHeader o -> L [A "badheader"; sx_int (int_of_nat o)]
  | ENoMetaEnd o -> L [A "nometaend"; sx_int (int_of_nat o)]
  | ENoChange o -> L [A "nochange"; sx_int (int_of_nat o)]

let sx_version (v : version) : t =
  L [sx_bytes v.v_contents;
     L (List.map (fun (a, b) -> L [sx_int (int_of_nat a); sx_int (int_of_nat b)]) v.v_lines)]

(* (split HEX) *)
let split_case (content : t) : t =
  let (cs, es) = split (bytes_of content) in
  L [A "result";
     L (A "changes" :: List.map (fun c ->
         let (m, p) = split_patch c.c_patch in
         L [L [A "header"; sx_int (int_of_nat c.c_header)];
            L [A "name"; sx_bytes c.c_name];
            L (A "meta" :: List.map sx_line c.c_meta);
            L [A "at"; (match c.c_at with Some o -> sx_int (int_of_nat o) | None -> A "none")];
            L (A "patch" :: List.map sx_line c.c_patch);
            L (A "comments" :: List.map sx_bytes c.c_comments);
            L [A "minus"; sx_version m];
            L [A "plus"; sx_version p]]) cs);
     L (A "errors" :: List.map sx_serr es)]

let tkind_of = function
  | "var" -> TVar | "ident" -> TIdent | "comma" -> TComma | "semi" -> TSemi | _ -> TOther

let sx_merr = function
  | MExpectedVar o -> L [A "expected-var"; sx_int (int_of_nat o)]
  | MExpectedIdent o -> L [A "expected-ident"; sx_int (int_of_nat o)]
  | MExpectedSemi o -> L [A "expected-semi"; sx_int (int_of_nat o)]
  | MUnknownType (o, t) -> L [A "unknown-type"; sx_int (int_of_nat o); sx_bytes t]
  | MDuplicate (o, n, f) -> L [A "duplicate"; sx_int (int_of_nat o); sx_bytes n; sx_int (int_of_nat f)]

let merr_off = function
  | MExpectedVar o | MExpectedIdent o | MExpectedSemi o | MUnknownType (o, _) | MDuplicate (o, _, _) -> o

(* (meta CONTENT (lines (OFF TEXT)...) (toks (OFF KIND TEXT)...)) :
   parse + compile the metavariable section, report errors with their patch-file (line, col) *)
let meta_case (fs : t list) : t =
  let content = match fs with c :: _ -> bytes_of c | [] -> raise (Parse_error "meta") in
  let ls = List.map (fun x -> match x with
      | L [o; t] -> { l_off = nat_of_int (int_of o); l_text = bytes_of t }
      | _ -> raise (Parse_error "line")) (field "lines" fs) in
  let toks = List.map (fun x -> match x with
      | L [o; A k; t] -> { t_off = nat_of_int (int_of o); t_kind = tkind_of k; t_text = bytes_of t }
      | _ -> raise (Parse_error "tok")) (field "toks" fs) in
  let (scratch, _) = to_bytes ls in
  let eof = nat_of_int (List.length scratch) in
  let (ds, es) = parse_meta (S (nat_of_int (List.length toks))) toks eof in
  let (tbl, ces) = compile_meta ds in
  let pos e = let (l, c) = meta_position content ls (merr_off e) in
    L [sx_merr e; sx_int (int_of_nat l); sx_int (int_of_nat c)] in
  L [A "result";
     L (A "parse-errors" :: List.map pos es);
     L (A "compile-errors" :: (match es with [] -> List.map pos ces | _ -> []));
     L (A "table" :: List.map (fun (n, (k, _)) -> L [sx_bytes n; A (match k with KExpr -> "expr" | KIdent -> "ident")]) tbl)]

let handle (x : t) : t option =
  match x with
  | L [A "split"; c] -> Some (split_case c)
  | L (A "meta" :: fs) -> Some (meta_case fs)
  | _ -> None
