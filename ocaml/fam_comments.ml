(* Driver for the Comments model (changelog intervals + cleanupFilePos). *)
open Gpmodel
open Sexp

let iv_of = function L [a; b] -> (z_of_int (int_of a), z_of_int (int_of b)) | _ -> raise (Parse_error "iv")
let sx_iv (a, b) = L [sx_int (int_of_z a); sx_int (int_of_z b)]
let cmt_of = function
  | L [i; p; e] -> { c_id = n_of_int (int_of i); c_pos = z_of_int (int_of p); c_end = z_of_int (int_of e) }
  | _ -> raise (Parse_error "cmt")

(* (comments (cs (ID POS END)...) (lines OFF...) (steps ((plus IV...) (minus IV...))...))
   -> per step: intervals, ids of the comments left, lines merged *)
let comments_case (fs : t list) : t =
  let cs = List.map cmt_of (field "cs" fs) in
  let starts = List.map (fun x -> z_of_int (int_of x)) (field "lines" fs) in
  let steps = List.map (fun st -> match st with
      | L sfs -> (List.map iv_of (field "plus" sfs), List.map iv_of (field "minus" sfs))
      | _ -> raise (Parse_error "step")) (field "steps" fs) in
  let rec go cs = function
    | [] -> []
    | (p, m) :: rest ->
      let ivs = changed_intervals p m in
      let cs' = cleanup ivs cs in
      L [L (A "intervals" :: List.map sx_iv ivs);
         L (A "left" :: List.map (fun c -> sx_int (int_of_n c.c_id)) cs');
         L (A "merge" :: List.map (fun l -> sx_int (int_of_nat l)) (lines_to_merge starts ivs))] :: go cs' rest in
  let per = go cs steps in
  let final = run_steps steps cs in
  L [A "result"; L (A "steps" :: per); L (A "final" :: List.map (fun c -> sx_int (int_of_n c.c_id)) final)]

let handle (x : t) : t option =
  match x with
  | L (A "comments" :: fs) -> Some (comments_case fs)
  | _ -> None
