(* Driver for the astdiff model (Model/AstDiff.v): snapshots as rendered by the hook
   astdiff.Snapshot.VerifSexp. *)
open Gpmodel
open Sexp

let zi x = z_of_int (int_of x)

let rec pairs = function
  | a :: b :: tl -> (zi a, zi b) :: pairs tl
  | [] -> []
  | _ -> raise (Parse_error "comment group")

let rec value_of (x : t) : value =
  match x with
  | L [A "n"; t] -> VNil (n_of_int (int_of t))
  | L [A "p"; p] -> VPos (zi p)
  | L [A "a"; t; a] -> VAtom (n_of_int (int_of t), n_of_int (int_of a))
  | L [A "r"; t; nd; p; e; L gs; el] ->
    VRef (n_of_int (int_of t),
          { n_isnode = bool_of nd; n_pos = zi p; n_end = zi e; n_cmts = List.map (fun g -> pairs (list_of g)) gs },
          value_of el)
  | L (A "s" :: t :: en :: cs) -> VSlice (n_of_int (int_of t), bool_of en, List.map value_of cs)
  | L (A "t" :: t :: cs) -> VStruct (n_of_int (int_of t), List.map value_of cs)
  | _ -> raise (Parse_error "value")

let sz z = sx_int (int_of_z z)

let rec sx_value (v : value) : t =
  match v with
  | VNil t -> L [A "n"; sx_int (int_of_n t)]
  | VPos p -> L [A "p"; sz p]
  | VAtom (t, a) -> L [A "a"; sx_int (int_of_n t); sx_int (int_of_n a)]
  | VRef (t, i, e) ->
    L [A "r"; sx_int (int_of_n t); sx_bool i.n_isnode; sz i.n_pos; sz i.n_end;
       L (List.map (fun g -> L (List.concat_map (fun (a, b) -> [sz a; sz b]) g)) i.n_cmts); sx_value e]
  | VSlice (t, en, cs) -> L (A "s" :: sx_int (int_of_n t) :: sx_bool en :: List.map sx_value cs)
  | VStruct (t, cs) -> L (A "t" :: sx_int (int_of_n t) :: List.map sx_value cs)

(* (astdiff (from V) (to V)) -> (result (calls (P E)...) (to V') (equal B) (plus (P E)...) (report OK ((J ATTACHED CLEAR)...))) | (result fuel) *)
(* the new tree as snapshot(n, nil) builds it: no comments anywhere *)
let rec strip (v : value) : value =
  match v with
  | VRef (t, i, e) -> VRef (t, { i with n_cmts = [] }, strip e)
  | VSlice (t, en, cs) -> VSlice (t, en, List.map strip cs)
  | VStruct (t, cs) -> VStruct (t, List.map strip cs)
  | _ -> v

let astdiff_case (fs : t list) : t =
  let from = value_of (List.hd (field "from" fs)) in
  let to_ = strip (value_of (List.hd (field "to" fs))) in
  match diff_snapshot from to_ with
  | None -> L [A "result"; A "fuel"]
  | Some w ->
    (if Sys.getenv_opt "GP_DEBUG" <> None then
       match file_decls from with
       | None -> ()
       | Some (r, xs) ->
         let es = xedits (the_script xs (file_decls_to to_)) in
         Printf.eprintf "r=(%s,%s)\n" (string_of_int (int_of_z (fst r))) (string_of_int (int_of_z (snd r)));
         List.iteri (fun i (x, rg) ->
           Printf.eprintf " #%d pos=%s end=%s rg=(%s,%s) e=%s\n" i (string_of_int (int_of_z (vpos x))) (string_of_int (int_of_z (vend x)))
             (string_of_int (int_of_z (fst rg))) (string_of_int (int_of_z (snd rg)))
             (match List.nth_opt es i with Some Identity -> "I" | Some Modified -> "M" | Some UniqueX -> "X" | Some UniqueY -> "Y" | None -> "-"))
           (List.combine xs (elem_regions r None xs)));
    let rep = match decl_report from to_ w.w_log with
      | None -> L [A "report"; A "none"]
      | Some (ok, ds) ->
        L [A "report"; sx_bool ok; A ("c" ^ String.concat "" (List.map (fun b -> if b then "1" else "0") (decl_conditions from to_)));
           L (List.map (fun ((j, att), unclear) -> L [sx_int (int_of_nat j); sx_bool att; sx_bool (unclear = []);
                                                       L (List.map (fun (a, b) -> L [sz a; sz b]) unclear)]) ds)] in
    L [A "result";
       L (A "calls" :: List.map (fun (p, e) -> L [sz p; sz e]) w.w_log);
       L [A "to"; sx_value w.w_to];
       L [A "equal"; sx_bool w.w_equal];
       L (A "plus" :: List.map (fun (p, e) -> L [sz p; sz e]) (record_changed w.w_log));
       rep]

let handle (x : t) : t option =
  match x with
  | L (A "astdiff" :: fs) -> Some (astdiff_case fs)
  | _ -> None
