(* Minimal s-expression reader/printer and conversions between OCaml values
   and the extracted datatypes (N, nat, byte lists). *)
type t = A of string | L of t list

exception Parse_error of string

let parse (s : string) : t =
  let n = String.length s in
  let pos = ref 0 in
  let rec skip () =
    if !pos < n && (s.[!pos] = ' ' || s.[!pos] = '\n' || s.[!pos] = '\t' || s.[!pos] = '\r')
    then (incr pos; skip ()) in
  let rec item () =
    skip ();
    if !pos >= n then raise (Parse_error "eof");
    if s.[!pos] = '(' then begin
      incr pos;
      let items = ref [] in
      let rec loop () =
        skip ();
        if !pos >= n then raise (Parse_error "unclosed");
        if s.[!pos] = ')' then incr pos
        else (items := item () :: !items; loop ()) in
      loop ();
      L (List.rev !items)
    end else begin
      let st = !pos in
      while !pos < n && not (s.[!pos] = ' ' || s.[!pos] = '(' || s.[!pos] = ')'
                             || s.[!pos] = '\n' || s.[!pos] = '\t' || s.[!pos] = '\r') do incr pos done;
      A (String.sub s st (!pos - st))
    end in
  item ()

let rec print (b : Buffer.t) (x : t) : unit =
  match x with
  | A s -> Buffer.add_string b s
  | L xs ->
    Buffer.add_char b '(';
    List.iteri (fun i y -> if i > 0 then Buffer.add_char b ' '; print b y) xs;
    Buffer.add_char b ')'

let to_string x = let b = Buffer.create 256 in print b x; Buffer.contents b

(* ---- numbers ---- *)
open Gpmodel
type string = Stdlib.String.t

let rec pos_of_int (i : int) : positive =
  if i = 1 then XH
  else if i land 1 = 0 then XO (pos_of_int (i lsr 1))
  else XI (pos_of_int (i lsr 1))

let n_of_int (i : int) : n = if i = 0 then N0 else Npos (pos_of_int i)

let rec int_of_pos (p : positive) : int =
  match p with XH -> 1 | XO q -> 2 * int_of_pos q | XI q -> 2 * int_of_pos q + 1

let int_of_n (x : n) : int = match x with N0 -> 0 | Npos p -> int_of_pos p

let rec nat_of_int (i : int) : nat = if i <= 0 then O else S (nat_of_int (i - 1))
let rec int_of_nat (x : nat) : int = match x with O -> 0 | S y -> 1 + int_of_nat y

(* ---- bytes: atoms "x" followed by hex digits ---- *)
let hexval c =
  match c with
  | '0'..'9' -> Char.code c - 48
  | 'a'..'f' -> Char.code c - 87
  | 'A'..'F' -> Char.code c - 55
  | _ -> raise (Parse_error "hex")

let bytes_of_atom (s : string) : n list =
  if String.length s = 0 || s.[0] <> 'x' then raise (Parse_error ("bytes atom: " ^ s));
  let m = (String.length s - 1) / 2 in
  let rec go i acc =
    if i < 0 then acc
    else go (i - 1) (n_of_int (16 * hexval s.[1 + 2 * i] + hexval s.[2 + 2 * i]) :: acc) in
  go (m - 1) []

let atom_of_bytes (bs : n list) : string =
  let b = Buffer.create (1 + 2 * List.length bs) in
  Buffer.add_char b 'x';
  List.iter (fun x -> Buffer.add_string b (Printf.sprintf "%02x" (int_of_n x))) bs;
  Buffer.contents b

let bytes_of (x : t) : n list =
  match x with A s -> bytes_of_atom s | _ -> raise (Parse_error "bytes expected")
let sx_bytes (bs : n list) : t = A (atom_of_bytes bs)

let bool_of (x : t) : bool =
  match x with A "1" | A "true" -> true | A "0" | A "false" -> false
             | _ -> raise (Parse_error "bool expected")
let sx_bool b = A (if b then "1" else "0")
let int_of (x : t) : int =
  match x with A s -> int_of_string s | _ -> raise (Parse_error "int expected")
let sx_int i = A (string_of_int i)

let list_of (x : t) : t list =
  match x with L xs -> xs | _ -> raise (Parse_error "list expected")

(* (tag a b c) -> items after the tag *)
let tagged (tag : string) (x : t) : t list =
  match x with
  | L (A t :: rest) when t = tag -> rest
  | _ -> raise (Parse_error ("expected (" ^ tag ^ " ...), got " ^ to_string x))

let field (tag : string) (xs : t list) : t list =
  let rec go = function
    | [] -> raise (Parse_error ("missing field " ^ tag))
    | L (A t :: rest) :: _ when t = tag -> rest
    | _ :: tl -> go tl in
  go xs

let opt_bytes_of (x : t) : n list option =
  match x with A "none" -> None | y -> Some (bytes_of y)

(* (ok HEX) | (err HEX) *)
let sum_of (x : t) : (n list, n list) sum =
  match x with
  | L [A "ok"; b] -> Inl (bytes_of b)
  | L [A "err"; b] -> Inr (bytes_of b)
  | _ -> raise (Parse_error "sum expected")
let sx_sum (s : (n list, n list) sum) : t =
  match s with Inl b -> L [A "ok"; sx_bytes b] | Inr b -> L [A "err"; sx_bytes b]

(* ---- Z ---- *)
let z_of_int (i : int) : z = if i = 0 then Z0 else if i > 0 then Zpos (pos_of_int i) else Zneg (pos_of_int (- i))
let int_of_z (x : z) : int = match x with Z0 -> 0 | Zpos p -> int_of_pos p | Zneg p -> - (int_of_pos p)
