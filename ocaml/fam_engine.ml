(* Driver for the engine model: apply a patch (list of changes) to a parsed file. *)
open Gpmodel
open Sexp

let n_of (x : t) : n = n_of_int (int_of x)

let rec val_of_sx (x : t) : val0 =
  match x with
  | L [A "nil"; t] -> Nil (n_of t)
  | L [A "pos"; b] -> Pos (bool_of b)
  | L [A "atom"; t; a] -> Atom (n_of t, n_of a)
  | L (A "struct" :: t :: fs) -> Struct (n_of t, List.map val_of_sx fs)
  | L [A "ptr"; t; v] -> Ptr (n_of t, val_of_sx v)
  | L [A "iface"; t; v] -> Iface (n_of t, val_of_sx v)
  | L (A "slice" :: t :: vs) -> Slice (n_of t, List.map val_of_sx vs)
  | _ -> raise (Parse_error ("val: " ^ String.sub (to_string x) 0 (min 60 (String.length (to_string x)))))

let rec sx_val (v : val0) : t =
  match v with
  | Nil t -> L [A "nil"; sx_int (int_of_n t)]
  | Pos b -> L [A "pos"; sx_bool b]
  | Atom (t, a) -> L [A "atom"; sx_int (int_of_n t); sx_int (int_of_n a)]
  | Struct (t, fs) -> L (A "struct" :: sx_int (int_of_n t) :: List.map sx_val fs)
  | Ptr (t, v) -> L [A "ptr"; sx_int (int_of_n t); sx_val v]
  | Iface (t, v) -> L [A "iface"; sx_int (int_of_n t); sx_val v]
  | Slice (t, vs) -> L (A "slice" :: sx_int (int_of_n t) :: List.map sx_val vs)

let opt_n (x : t) : n option = match x with A "none" -> None | y -> Some (n_of y)

let imp_of_sx (x : t) : imp =
  match x with
  | L [nm; p; b] -> { i_name = opt_n nm; i_path = n_of p; i_base = n_of b }
  | _ -> raise (Parse_error "imp")

let pimp_of_sx (x : t) : pimp =
  match x with
  | L [nm; p; b] -> { p_name = opt_n nm; p_path = n_of p; p_base = n_of b }
  | _ -> raise (Parse_error "pimp")

let npat_of_sx (xs : t list) : npat =
  match xs with
  | [L [A "node"; v]] -> PNode (val_of_sx v)
  | [L (A "stmts" :: s :: e :: vs)] -> PStmts (n_of s, n_of e, List.map val_of_sx vs)
  | _ -> raise (Parse_error "npat")

let dpos_of_sx (x : t) : dpos =
  match x with
  | L [i; l; c] -> { dp_id = n_of i; dp_line = n_of l; dp_col = n_of c }
  | _ -> raise (Parse_error "dpos")

exception Compile_error of string

let change_of_sx (x : t) : cchange =
  let fs = tagged "change" x in
  let mk = List.map (fun e -> match e with
      | L [nm; A "expr"] -> (n_of nm, KExpr)
      | L [nm; A "ident"] -> (n_of nm, KIdent)
      | _ -> raise (Parse_error "mk")) (field "mk" fs) in
  let mdots = List.map dpos_of_sx (field "mdots" fs) in
  let pdots = List.map dpos_of_sx (field "pdots" fs) in
  let minus = npat_of_sx (field "minus" fs) in
  let plus = npat_of_sx (field "plus" fs) in
  let assoc = match change_assoc minus plus mdots pdots with
    | Some m -> m
    | None -> raise (Compile_error "dots") in
  { ch_mk = mk;
    ch_minus_pkg = (match field "mpkg" fs with [p] -> opt_n p | _ -> None);
    ch_plus_pkg = (match field "ppkg" fs with [p] -> opt_n p | _ -> None);
    ch_minus_imports = List.map pimp_of_sx (field "mimports" fs);
    ch_plus_imports = List.map pimp_of_sx (field "pimports" fs);
    ch_minus = minus;
    ch_plus = plus;
    ch_assoc = assoc;
    ch_blank = (match field "blank" fs with [p] -> n_of p | _ -> n_of (A "0"));
    ch_dot = (match field "dot" fs with [p] -> n_of p | _ -> n_of (A "0")) }

let sx_imp (i : imp) : t =
  L [(match i.i_name with None -> A "none" | Some n -> sx_int (int_of_n n)); sx_int (int_of_n i.i_path)]

let sx_step = function
  | SNoMatch -> A "nomatch"
  | SErr _ -> A "err"
  | SOk -> A "ok"

(* (engine (file (imports ...) (tree V)) (changes ...)) [abort flag in a sibling field] *)
let engine_case (fs : t list) : t =
  let ffs = field "file" fs in
  let g = { g_imports = List.map imp_of_sx (field "imports" ffs);
            g_tree = (match field "tree" ffs with [v] -> val_of_sx v | _ -> raise (Parse_error "tree")) } in
  match (try Some (List.map change_of_sx (field "changes" fs)) with Compile_error _ -> None) with
  | None -> L [A "result"; L [A "compile-error"; A "dots"]]
  | Some cs ->
    let abort = (try bool_of (List.hd (field "abort" fs)) with _ -> false) in
    let st = run_changes abort cs g in
    L [A "result";
       L (A "steps" :: List.map sx_step st.ps_steps);
       L [A "matched"; sx_bool st.ps_matched];
       L [A "errors"; sx_int (List.length st.ps_errs)];
       L (A "imports" :: List.map sx_imp st.ps_file.g_imports);
       L [A "tree"; sx_val st.ps_file.g_tree]]

let handle (x : t) : t option =
  match x with
  | L (A "engine" :: fs) -> Some (engine_case fs)
  | _ -> None
