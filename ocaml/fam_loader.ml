(* Driver for the loader model (Model/Loader.v): which patch files are loaded, in which order. *)
open Gpmodel
open Sexp

(* (loader (patches HEX...) (list none|HEX) (stdin ok|bad) (files (PATH (ok ID)|bad)...))
   -> (result (ok ID...)) | (result (err STAGE PATH))
   a program is represented by the number the check gave its file; the content of a file is that number (or "bad") *)
let loader_case (fs : t list) : t =
  let patches = List.map bytes_of (field "patches" fs) in
  let plist = match field "list" fs with [A "none"] -> None | [x] -> Some (bytes_of x) | _ -> raise (Parse_error "list") in
  let files = List.map (function
      | L [p; L [A "ok"; id]] -> (bytes_of p, Some (bytes_of id))
      | L [p; L [A "list"; c]] -> (bytes_of p, Some (bytes_of c))
      | L [p; A "bad"] -> (bytes_of p, Some [])          (* readable, does not compile *)
      | _ -> raise (Parse_error "file")) (field "files" fs) in
  let read p = match List.assoc_opt p files with Some c -> c | None -> None in
  let compile _ c = match c with [] -> None | _ -> Some c in
  let stdin = match field "stdin" fs with [A "none"] -> [] | [x] -> bytes_of x | _ -> raise (Parse_error "stdin") in
  match load_patches read compile patches plist stdin with
  | LOk prs -> L [A "result"; L (A "ok" :: List.map sx_bytes prs)]
  | LErr (st, p) -> L [A "result"; L [A "err"; sx_int (int_of_n st); sx_bytes p]]

let handle (x : t) : t option =
  match x with
  | L (A "loader" :: fs) -> Some (loader_case fs)
  | _ -> None
