(* Driver for the Discover model: findFiles on an abstract tree. *)
open Gpmodel
open Sexp

let rec node_of_sx (x : t) : node =
  match x with
  | A "f" -> File
  | A "s" -> Sym
  | A "o" -> Other
  | L (A "d" :: es) ->
    Dir (List.map (fun e -> match e with
        | L [nm; c] -> (bytes_of nm, node_of_sx c)
        | _ -> raise (Parse_error "entry")) es)
  | _ -> raise (Parse_error ("node: " ^ to_string x))

(* (discover (tree NODE) (cwd NAME...) (args ARG...)) *)
let discover (fs : t list) : t =
  let tree = match field "tree" fs with [n] -> node_of_sx n | _ -> raise (Parse_error "tree") in
  let cwd = List.map bytes_of (field "cwd" fs) in
  let args = List.map bytes_of (field "args" fs) in
  let (found, errs) = find_files tree cwd args in
  L [A "result";
     L (A "files" :: List.map (fun f -> L [sx_bytes (abs_string f.f_abs); sx_bytes f.f_provided]) found);
     L (A "errs" :: List.map sx_bytes errs)]

let handle (x : t) : t option =
  match x with
  | L (A "discover" :: fs) -> Some (discover fs)
  | _ -> None
