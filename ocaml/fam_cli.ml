(* Driver for the Cli model family: run / api_apply / check_generated_code. *)
open Gpmodel
open Sexp

let header_of_sx (x : t) : header =
  let fs = list_of x in
  let groups = List.map (fun g ->
      List.map (fun c -> match c with
          | L [a; txt] -> { c_after_pkg = bool_of a; c_text = bytes_of txt }
          | _ -> raise (Parse_error "comment")) (list_of g))
      (field "groups" fs) in
  let doc = List.map bytes_of (field "doc" fs) in
  { h_groups = groups; h_doc = doc }

let outcome_of_sx (x : t) : outcome =
  match x with
  | A "nomatch" -> NoMatch
  | L [A "rerr"; m] -> ReplaceErr (bytes_of m)
  | L [A "matched"; L cs; f] -> Matched (List.map bytes_of cs, sum_of f)
  | _ -> raise (Parse_error ("outcome: " ^ to_string x))

let table (conv : t -> 'a) (rows : t list) : (n list -> 'a) =
  let h = Hashtbl.create 16 in
  List.iter (fun r -> match r with
      | L [A k; v] -> Hashtbl.replace h k (conv v)
      | _ -> raise (Parse_error "table row")) rows;
  fun key ->
    let k = atom_of_bytes key in
    match Hashtbl.find_opt h k with
    | Some v -> v
    | None -> failwith ("oracle table has no entry for " ^ k)

let target_of_sx (x : t) : target =
  match x with
  | L [a; p; r; w] ->
    { t_abs = bytes_of a; t_provided = bytes_of p; t_read = sum_of r;
      t_write_err = opt_bytes_of w }
  | _ -> raise (Parse_error "target")

let opts_of_sx (xs : t list) : opts =
  match List.map bool_of xs with
  | [d; p; si; sg; v] ->
    { o_diff = d; o_print = p; o_skip_imports = si; o_skip_generated = sg; o_verbose = v }
  | _ -> raise (Parse_error "opts")

let sx_log = function
  | LGenSkipped -> A "gen_skipped" | LSkipped -> A "skipped"
  | LFailed m -> L [A "failed"; sx_bytes m] | LPatched -> A "patched"

let sx_event = function
  | EvLog (i, p, l) -> L [A "log"; sx_int (int_of_nat i); sx_bytes p; sx_log l]
  | EvOut (i, e, b) -> L [A "out"; sx_int (int_of_nat i); sx_bool e; sx_bytes b]
  | EvDiff (i, p, o, n) -> L [A "diff"; sx_int (int_of_nat i); sx_bytes p; sx_bytes o; sx_bytes n]
  | EvDesc (i, p, c) -> L [A "desc"; sx_int (int_of_nat i); sx_bytes p; sx_bytes c]
  | EvWrite (i, p, b, f) -> L [A "write"; sx_int (int_of_nat i); sx_bytes p; sx_bytes b; sx_bool f]

let sx_err = function
  | ErrRead (p, m) -> L [A "read"; sx_bytes p; sx_bytes m]
  | ErrParse (p, m) -> L [A "parse"; sx_bytes p; sx_bytes m]
  | ErrUpdate (p, m) -> L [A "update"; sx_bytes p; sx_bytes m]
  | ErrRewrite (p, m) -> L [A "rewrite"; sx_bytes p; sx_bytes m]
  | ErrReformat (p, m) -> L [A "reformat"; sx_bytes p; sx_bytes m]
  | ErrWrite (p, m) -> L [A "write"; sx_bytes p; sx_bytes m]

let oracles fs =
  let parses = table opt_bytes_of (field "parses" fs) in
  let header_of = table header_of_sx (field "headers" fs) in
  let engine = table outcome_of_sx (field "engine" fs) in
  let process = table sum_of (field "process" fs) in
  (parses, header_of, engine, process)

(* (cli (opts ...) (targets ...) (parses ...) (headers ...) (engine ...) (process ...)) *)
let run_case (fs : t list) : t =
  let o = opts_of_sx (field "opts" fs) in
  let ts = List.map target_of_sx (field "targets" fs) in
  let (parses, header_of, engine, process) = oracles fs in
  let r = run parses header_of engine process o ts in
  L [A "result";
     L (A "events" :: List.map sx_event r.r_events);
     L (A "errors" :: List.map sx_err (all_errors r));
     L [A "exit"; sx_int (int_of_n (exit_status r))]]

(* (api (srcs HEX...) (parses ...) (engine ...) (process ...)) *)
let api_case (fs : t list) : t =
  let parses = table opt_bytes_of (field "parses" fs) in
  let engine = table outcome_of_sx (field "engine" fs) in
  let process = table sum_of (field "process" fs) in
  L (A "result" :: List.map (fun s -> sx_sum (api_apply parses engine process (bytes_of s)))
       (field "srcs" fs))

(* (generated HEADER...) *)
let generated_case (hs : t list) : t =
  L (A "result" :: List.map (fun h -> sx_bool (check_generated_code (header_of_sx h))) hs)

let handle (x : t) : t option =
  match x with
  | L (A "cli" :: fs) -> Some (run_case fs)
  | L (A "api" :: fs) -> Some (api_case fs)
  | L (A "generated" :: hs) -> Some (generated_case hs)
  | _ -> None
