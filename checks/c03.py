"""C03 — rewritten code is the '+' pattern instantiated with what was captured."""
import re
import vlib, enginecorr, enginegen, enginecheck
from c01 import TRUSTED

FAMILIES = [
    ("dup", "var x expression", "foo(x)", "bar(x, x)"),
    ("swap", "var x, y expression", "foo(x, y)", "foo(y, x)"),
    ("drop", "var x, y expression", "pick(x, y)", "y"),
    ("nest", "var x expression", "foo(x)", "bar(baz(x), 1)"),
    ("precedence", "var x expression", "twice(x)", "x * 2"),
    ("unary", "var x expression", "neg(x)", "-x"),
    ("selector-of", "var x expression", "name(x)", "x.Name"),
    ("index-of", "var x, y expression", "at(x, y)", "x[y]"),
    ("ident-rename", "var f identifier", "f(old)", "f(new, f)"),
    ("inadmissible-selector", "", "target", "pkg.target"),
    ("inadmissible-call", "", "target", "mk()"),
    ("complit", "var x, y expression", "pair(x, y)", "Pair{First: x, Second: y}"),
    ("closure", "var x expression", "later(x)", "func() { use(x) }"),
    ("dots-keep", "var x expression", "foo(x, ...)", "bar(..., x, x)"),
    # operands that go/printer prints without parentheses of its own (repo fix 0731148)
    ("deref", "var x expression", "ptr(x)", "*x"),
    ("chan-of", "var x expression", "mk(x)", "make(chan x)"),
    ("recv-chan-of", "var x expression", "mk(x)", "make(<-chan x, 1)"),
]
FILL_OF = {"chan-of": ["int", "<-chan int", "chan<- int", "chan int", "[]T", "<-chan <-chan int", "func() <-chan int", "*T"],
           "recv-chan-of": ["int", "<-chan int", "chan<- int", "chan int", "map[K]V"]}
FILL = ["a", "a + b", "f(1)", "-n", "<-ch", "m[k]", "*p", "a.b", "func() int { return 1 }", "T{1}", "x.(I)", "a || b", "\"s\"", "c ? 1 : 2"]
FILL = [f for f in FILL if "?" not in f]
# places in which the identifier `target` is syntactically an identifier-only slot or an expression slot
TARGET_SLOTS = ["var target int", "func target() {}", "type S struct { target int }", "func f() { target := 1; _ = target }",
                "func g() { x.target() }", "func h() { goto target; target: }", "var v = S{target: 1}", "func k() { _ = target + 1 }",
                "func l(target int) {}", "type target struct{}", "func m() { use(target) }", "func (target T) n() {}"]


def case(rng, k):
    name, meta, minus, plus = FAMILIES[k % len(FAMILIES)]
    patch = "@@\n%s\n@@\n-%s\n+%s\n" % (meta, minus, plus) if meta else "@@\n@@\n-%s\n+%s\n" % (minus, plus)
    decls = []
    if "target" in minus:
        for j, s in enumerate(rng.sample(TARGET_SLOTS, 5)):
            decls.append(re.sub(r"\b([fghklmn]|S|v)\b", lambda m: m.group(1) + str(j), s))
    else:
        inner = re.sub(r"\b[xy]\b", lambda m: rng.choice(["3", "q", "a.b"]), minus)
        inner = re.sub(r"\bf\b", "alpha", inner); inner = re.sub(r",?\s*\.\.\.", "", inner)
        NEST = ["wrap(%s)" % inner, "a + %s*2" % inner, "func() { _ = %s }" % inner, "[]any{%s, 1}" % inner, "(%s)" % inner, "m[%s]" % inner]
        for j in range(rng.randint(2, 6)):
            code = minus
            # sometimes the captured code itself contains an instance, one or more levels down
            fill = FILL_OF.get(name, FILL)
            code = re.sub(r"\bx\b", lambda m: rng.choice(NEST) if (rng.random() < 0.3 and name not in FILL_OF) else rng.choice(fill), code, count=1)
            code = re.sub(r"\by\b", lambda m: rng.choice(FILL), code)
            code = re.sub(r"\bf\b", lambda m: rng.choice(["alpha", "beta"]), code)
            code = re.sub(r"\.\.\.", lambda m: ", ".join(rng.choice(FILL) for _ in range(rng.randint(0, 3))), code)
            code = re.sub(r",\s*\)", ")", code)
            slot = rng.choice(["func h%d() { _ = %s }", "var v%d = wrap(%s)", "func h%d() { use(1 + %s) }", "func h%d() { go run(%s) }",
                               "func h%d() { if ok(%s) { } }", "func h%d() { _ = []any{%s} }", "func h%d() { (%s).M() }"])
            decls.append(slot % (j, code))
    src = "package p\n\n" + "\n\n".join(decls) + "\n"
    return ("c03:%s#%d" % (name, k), patch.encode(), src.encode(), {"family": name})


def main():
    ck = vlib.Check("C03")
    coq_ok, coq_log = vlib.build()
    ok, log, info = vlib.prove("C03")
    ck.proof_obligations(ok, log, info, coq_ok, coq_log)
    thorough = ck.tier == "thorough"
    pairs, names, metas = [], [], []
    for nm, pn, ps, fn, fs in enginegen.golden_pairs():
        pairs.append((pn, ps, fn, fs)); names.append("golden:" + nm); metas.append(None)
    n = 4000 if thorough else 600
    for k in range(n):
        nm, p, f, meta = case(ck.rng, k)
        pairs.append(("p.patch", p, "a.go", f)); names.append(nm); metas.append(meta)
    lone = [i for i, f in enumerate(enginegen.EXPR_FAMILIES) if f[0] in ("unwrap-lone-mv", "drop-mv", "binary-zero", "method-to-func")]
    for k in range(800 if thorough else 160):
        nm, p, f, meta = enginegen.grammar_case(ck.rng, lone[k % len(lone)] + len(enginegen.EXPR_FAMILIES) * (k // len(lone)))
        pairs.append(("p.patch", p, "a.go", f)); names.append(nm); metas.append(meta)
    for k in range(800 if thorough else 160):
        nm, p, f, meta = enginegen.stmt_case(ck.rng, k)
        pairs.append(("p.patch", p, "a.go", f)); names.append(nm); metas.append(meta)
    for k in range(300 if thorough else 60):
        nm, p, f, meta = enginegen.chain_case(ck.rng, k)
        pairs.append(("p.patch", p, "a.go", f)); names.append(nm); metas.append(meta)
    for k in range(480 if thorough else 96):
        nm, p, f, meta = enginegen.decl_case(ck.rng, k)
        pairs.append(("p.patch", p, "a.go", f)); names.append(nm); metas.append(meta)
    for nm, p, f, meta in enginegen.extra_pairs():
        pairs.append(("p.patch", p, "a.go", f)); names.append(nm); metas.append(meta)
    res = enginecorr.run(pairs)
    for name, pair, o, meta in zip(names, pairs, res, metas):
        ck.count((pair[1], pair[3]), nontrivial=not o["skipped"])
        if meta:
            ck.tally("family", meta["family"])
        if not o["skipped"] and o.get("mtree") is not None:
            a = enginecheck.analyse(o)
            if a:
                ck.tally("sites_per_file", min(len(a["model_sites"]), 8))
        enginecheck.report(ck, name, pair, o, "content", meta)
    g = len(pairs) - n + 4
    ck.sample({"case": names[g], "patch": pairs[g][1].decode(), "file": pairs[g][3].decode()})
    ck.sample({"case": names[g + 5], "patch": pairs[g + 5][1].decode(), "file": pairs[g + 5][3].decode()})
    ck.cov["rule"] = ("%d cases from %d '+' side families (metavariable used twice, swapped, dropped, nested, placed where the printer must "
                      "add parentheses, as selector operand / index / composite literal / closure body; identifier metavariable reused; "
                      "replacements that are inadmissible in identifier-only slots: declaration names, field names, selectors, labels, "
                      "parameters, receivers), 2-6 sites with different bindings per file; golden cases. The subtree at every rewritten slot "
                      "of the re-parsed output is compared with the extracted model's instantiation, parentheses stripped on both sides. "
                      "distinct = distinct (patch, file) texts" % (n, len(FAMILIES)))
    ck.cov["trusted_base"] = TRUSTED
    ck.assumptions = ["go/printer inserts the parentheses precedence requires and no others that change the tree (oracle, exercised by the re-parse)"]
    return ck.finish()


if __name__ == "__main__":
    import sys
    sys.exit(main())
