"""C17 — comments in untouched declarations survive; none are invented or duplicated."""
import collections, difflib, os, re, shutil
import vlib, corpus
from c01 import TRUSTED
from vlib import b64, unb64

CORR = "corr:comments (Model/Comments.v vs engine.Changelog.ChangedIntervals + cleanupFilePos, through the verif hook trace)"
CORR_AD = "corr:astdiff (Model/AstDiff.v vs internal/astdiff + internal/diff, on the snapshots the verif hook renders at every step)"
NOPOS = -(1 << 40)
COND_NAMES = ["every declaration starts after NoPos and ends after it starts", "the declarations are in source order",
              "every changed declaration's subtree lies within its extent (nodes have positions, lists of nodes hold nodes only)",
              "the list's region starts after NoPos", "... and not after the first declaration", "the file ends after every declaration starts",
              "every field of the file other than its declarations (package clause, position fields, File.Unresolved, File.Comments) is the same in both snapshots"]

PATCHES = {
    "expr": "@@\nvar x expression\n@@\n-foo(x)\n+bar(x)\n",
    "expr-grow": "@@\nvar x expression\n@@\n-foo(x)\n+bar(x, extra(\n+  1,\n+  2,\n+))\n",
    "stmt-insert": "@@\nvar x expression\n@@\n foo(x)\n+after(x)\n",
    "stmt-delete": "@@\nvar x expression\n@@\n-foo(x)\n-drop()\n+foo(x)\n",
    "stmt-replace2": "@@\nvar x expression\n@@\n-foo(x)\n+first(x)\n+second(x)\n",
    "lock": "@@\nvar m expression\n@@\n-m.Lock()\n ...\n-m.Unlock()\n+m.With()\n",
    "if-err": "@@\nvar x expression\n@@\n-if err := foo(x); err != nil {\n-  return err\n-}\n+must(foo(x))\n",
    "import-add": "@@\nvar x expression\n@@\n+import \"example.com/newpkg\"\n\n-foo(x)\n+newpkg.Foo(x)\n",
    "import-replace": "@@\nvar x expression\n@@\n-import \"os\"\n+import \"example.com/newos\"\n\n-os.Exit(x)\n+newos.Exit(x)\n",
    "func-rename": "@@\n@@\n-func target() error {\n+func renamed() error {\n   ...\n }\n",
    "func-sig": "@@\n@@\n-func target() error {\n+func target(ctx Context) error {\n   ...\n }\n",
    "func-delete-body": "@@\n@@\n func target() error {\n-  ...\n+  return nil\n }\n",
    "type-kind": "@@\n@@\n-type T struct {\n-  ...\n-}\n+type T interface{}\n",
    "var-to-const": "@@\nvar v identifier\nvar x expression\n@@\n-var v = wrap(x)\n+const v = 1\n",
    "plus-comments": "@@\nvar x expression\n@@\n-foo(x)\n+bar(x) // plus-eol\n+/* plus-block */\n+baz()\n",
    "two-stmts-away": "@@\nvar x expression\n@@\n-foo(x)\n ...\n-return nil\n+return wrapped(x)\n",
    "const-block-to-var": "@@\nvar name identifier\nvar value expression\n@@\n-const (\n+var (\n   name = value\n )\n",
    "var-to-func": "@@\nvar v identifier\nvar x expression\n@@\n-var v = wrap(x)\n+func v() int { return wrap(x) }\n",
    "method-to-func": "@@\n@@\n-func (r R) target() error {\n+func target() error {\n   ...\n }\n",
    "field": "@@\n@@\n type T struct {\n   ...\n-  Old int\n+  New int\n   ...\n }\n",
    # a token that was not there before (result parentheses, an ellipsis, a declaration group's parentheses) next to elided runs
    "sig-results": "@@\nvar f identifier\n@@\n-func f() error {\n+func f() (int, error) {\n   ...\n }\n",
    "sig-results-params": "@@\nvar f identifier\n@@\n-func f(...) error {\n+func f(...) (res int, err error) {\n   ...\n }\n",
    "call-ellipsis": "@@\nvar x expression\n@@\n-foo(x)\n+foo(x...)\n",
    "var-group": "@@\nvar v identifier\nvar x expression\n@@\n-var v = wrap(x)\n+var (\n+  v = wrap(x)\n+)\n",
    # the imports edited by two changes of one run (the specs astutil adds carry the position of a neighbour and the length of their path)
    "import-two-changes": "@@\nvar x expression\n@@\n+import \"example.com/newpkg\"\n\n-foo(x)\n+newpkg.Foo(x)\n\n@@\nvar x expression\n@@\n-import \"os\"\n+import \"example.com/a/much/longer/path/newos\"\n\n-os.Exit(x)\n+newos.Exit(x)\n",
    "import-three-changes": "@@\nvar x expression\n@@\n+import \"example.com/some/long/path/newpkg\"\n\n-foo(x)\n+newpkg.Foo(x)\n\n@@\nvar x expression\n@@\n+import \"example.com/another/long/path/kept\"\n\n-keep(x)\n+kept.Keep(x)\n\n@@\nvar x expression\n@@\n-import \"os\"\n+import \"example.com/newos\"\n\n-os.Exit(x)\n+newos.Exit(x)\n",
    # several import declarations, the middle one deleted
    "import-delete-middle": "@@\nvar x expression\n@@\n-import \"os\"\n\n-os.Exit(x)\n+exit(x)\n",
    # a replacement much longer than what it replaces, rewritten again by a later change of the same run
    "grow-then-shrink": "@@\nvar x expression\n@@\n-foo(x)\n+\"" + "L" * 400 + "\"\n\n@@\n@@\n-\"" + "L" * 400 + "\"\n+short()\n",
    "grow-then-edit": "@@\nvar x expression\n@@\n-foo(x)\n+pad(\"" + "L" * 300 + "\", x)\n\n@@\nvar y expression\nvar s expression\n@@\n-pad(s, y)\n+padded(y)\n",
    # the package clause itself rewritten (its comments are the file's, whatever happens to the name)
    "pkg-rename": "@@\nvar x expression\n@@\n-package p\n+package renamed\n\n foo(x)\n",
    # comments on the '+' side that go/parser attaches to nodes (Doc / Comment fields of fields, specs and declarations)
    "field-plus-comments": "@@\n@@\n type T struct {\n   ...\n-  Old int\n+  // New: doc from the patch.\n+  New int // was Old (patch)\n   ...\n }\n",
    "var-to-func-plus-doc": "@@\nvar v identifier\nvar x expression\n@@\n-var v = wrap(x)\n+// v: doc from the patch.\n+func v() int { return wrap(x) } // trailing from the patch\n",
    "two-changes": "@@\nvar x expression\n@@\n-foo(x)\n+bar(x)\n\n@@\nvar y expression\n@@\n-bar(y)\n+baz(y, 1)\n",
    "three-changes": "@@\nvar x expression\n@@\n-keep(x)\n+kept(x)\n\n@@\n@@\n-func target() error {\n+func renamed() error {\n   ...\n }\n\n@@\nvar y expression\n@@\n-foo(y)\n+bar(y)\n",
}


NEED = {"import-delete-middle": 7, "stmt-delete": 4, "lock": 5, "if-err": 6, "import-replace": 7, "two-stmts-away": 0, "import-two-changes": 7, "import-three-changes": 7, "grow-then-shrink": 9, "grow-then-edit": 9, "pkg-rename": 0}


def body_site(rng, i, need=None):
    forms = ["\tfoo(%d)", "\t_ = wrap(foo(%d))", "\tif ok {\n\t\tfoo(%d)\n\t}", "\tgo foo(%d)", "\tfoo(%d)\n\tdrop()", "\tmu.Lock()\n\tfoo(%d)\n\tmu.Unlock()",
             "\tif err := foo(%d); err != nil {\n\t\treturn err\n\t}", "\tos.Exit(%d)", "\tdefer func() {\n\t\tfoo(%d)\n\t}()",
             "\tm := map[string]string{\"k\": foo(%d)}\n\t_ = m"]
    if need is not None and rng.random() < 0.7:
        return forms[need] % i
    return rng.choice(forms) % i


def body_plain(rng, i):
    forms = ["\tkeep(%d)", "\t_ = other(%d)", "\tfor i := 0; i < %d; i++ {\n\t\tkeep(i)\n\t}", "\tswitch v {\n\tcase %d:\n\t\tkeep(v)\n\t}",
             "\tx := T{\n\t\tA: %d,\n\t}\n\t_ = x"]
    return rng.choice(forms) % i


def comment_lines(rng, tag, i):
    k = rng.random()
    if k < 0.5:
        return "// %s %d" % (tag, i)
    if k < 0.7:
        return "/* %s %d */" % (tag, i)
    if k < 0.85:
        return "// %s %d line one\n// %s %d line two" % (tag, i, tag, i)
    return "/*\n%s %d\nblock\n*/" % (tag, i)


def decorate_body(rng, body, i):
    out = []
    for j, l in enumerate(body.split("\n")):
        if rng.random() < 0.25:
            ind = l[:len(l) - len(l.lstrip("\t"))]
            out.append(ind + "// inside-free %d.%d" % (i, j))
        eol = (rng.random() < 0.35 and not l.rstrip().endswith("{")) or rng.random() < 0.1
        if rng.random() < 0.08 and "(" in l and not l.rstrip().endswith("{"):
            l = l.replace("(", "( /* in-expr %d.%d */ " % (i, j), 1)
        out.append(l + (" // eol %d.%d" % (i, j) if eol else ""))
    if rng.random() < 0.2:
        out.append("\t// last-in-body %d" % i)
    return "\n".join(out)


def gen_file(rng, pn=""):
    pns = pn.split("+") if pn.startswith("combo:") else [pn]
    pns[0] = pns[0].replace("combo:", "")
    n = rng.randint(max(3, len(pns)), 8)
    where = dict(zip(rng.sample(range(n), len(pns)), pns))      # declaration index -> patch kind it must contain a site for
    DECL_LEVEL = ("const-block-to-var", "var-to-const", "var-to-func", "type-kind", "method-to-func", "func-sig", "func-rename")
    # the first declaration, right below a commented package line and without a doc comment, changed at declaration level
    first_special = rng.random() < 0.35 and any(x in DECL_LEVEL for x in pns)
    if first_special:
        kx = next(x for x in pns if x in DECL_LEVEL)
        where = {i: v for i, v in where.items() if v != kx and i != 0}
        where[0] = kx
    parts = []
    hdr = ""
    if rng.random() < 0.5:
        hdr += "// Copyright header.\n// Second header line.\n\n"
    if rng.random() < 0.3:
        hdr += "//go:build linux\n\n"
    if rng.random() < 0.5:
        hdr += "// Package p is documented.\n"
    pkg_trailing = rng.random() < 0.3 or first_special
    hdr += "package p" + (" // pkg-trailing" if pkg_trailing else "") + "\n"
    if pkg_trailing and rng.random() < 0.4:
        # the comment on the package clause's line goes on over further lines
        hdr += "// pkg-more one\n// pkg-more two\n"
    parts.append(hdr)
    if "import-delete-middle" in pns:
        parts.append("import \"fmt\" // fmt-trailing\n\n// about os\nimport \"os\"\n\n// doc strings\nimport \"strings\" // strings-trailing\n\nvar _ = fmt.Sprint(strings.ToUpper(\"x\"))\n")
    elif rng.random() < 0.1 and not first_special and not any(x.startswith("import-") for x in pns):
        # one import in parentheses, with comments of every kind inside and after them
        parts.append("// import doc\nimport (\n\t// about fmt\n\t\"fmt\" // fmt-trailing\n\t// after fmt\n) // after import\n\nvar _ = fmt.Sprint()\n")
    elif rng.random() < 0.12 and not first_special and not any(x.startswith("import-") for x in pns):
        # several import declarations with comments of their own
        parts.append("import \"fmt\" // fmt-trailing\n\n// doc strings\nimport \"strings\" // strings-trailing\n\nvar _ = fmt.Sprint(strings.ToUpper(\"x\"))\n")
    elif (rng.random() < 0.6 and not first_special) or any(x.startswith("import-") and x != "import-add" for x in pns):
        parts.append("import (\n\t\"fmt\" // fmt-trailing\n\t// about os\n\t\"os\"\n)\n")
    for i in range(n):
        d = ""
        if rng.random() < 0.35 and not (first_special and i == 0):
            d += "// free-between %d\n\n" % i
        r_doc = rng.random()
        if r_doc < 0.5 and not (first_special and i == 0):
            d += comment_lines(rng, "doc", i) + "\n"
        if rng.random() < 0.15 or (0.5 <= r_doc < 0.65 and not (first_special and i == 0)):
            d += rng.choice(["//go:generate tool %d\n", "//go:noinline\n//nolint:dir%d\n", "//nolint:all // %d\n"]) % i
        kind = rng.random()
        pk = where.get(i)
        need = NEED.get(pk)
        site = rng.random() < 0.45 or pk is not None
        if pk is not None:
            kind = 0.75 if pk in ("type-kind", "field", "field-plus-comments") else 0.9 if pk in ("var-to-const", "var-to-func", "var-to-func-plus-doc") else 0.99 if pk == "const-block-to-var" else 0.1
        if kind < 0.7:
            name = "target" if (site and (rng.random() < 0.3 or (pk or "").startswith(("func-", "three-", "method-")))) else "f%d" % i
            if name == "target" and pk == "method-to-func":
                name = "(r R) target"
            body = "\n".join((body_site(rng, i * 10 + k, need) if site and k == 0 else body_plain(rng, i * 10 + k)) for k in range(rng.randint(1, 3)))
            d += "func %s() error {\n%s\n\treturn nil\n}" % (name, decorate_body(rng, body, i))
        elif kind < 0.85:
            d += "type T%d struct {\n\tA int // field-eol %d\n\t// field-doc %d\n\t%s int\n\tC string\n}" % (i, i, i, "Old" if site else "B")
            if site:
                d = d.replace("type T%d" % i, "type T")
        elif kind >= 0.97:
            d += "const (\n\tK%d = %d // const-eol %d\n)" % (i, i, i)
        else:
            d += "var v%d = %s" % (i, "wrap(foo(%d))" % i if site else "other(%d)" % i)
            d += rng.choice([" // var-eol %d" % i, " // var-eol %d" % i, " //nolint:unused%d" % i, "", ""])
        if rng.random() < 0.25 and "var v%d =" % i not in d:
            d += " // trailing %d" % i
        elif rng.random() < 0.12 and "var v%d =" % i not in d:
            d += "/* tight-after %d */" % i        # no byte between the declaration and the comment
        if rng.random() < 0.1 and not (first_special and i == 0) and (d.startswith(("func ", "type ", "var ", "const "))):
            d = "/* tight-before %d */" % i + d     # ... nor between the comment and the declaration
        parts.append(d + "\n")
    if rng.random() < 0.3:
        parts.append("// free-at-end\n")
    return "\n".join(parts)


def model_steps(r):
    """the matched, successful steps of a hook trace as a model case; returns (case, steps, comment table)"""
    steps = [s for s in (r["steps"] or []) if s["matched"] and not s["replace_err"]]
    if not steps:
        return None, [], []
    cs = [(c["off"], c["text"]) for c in (steps[0]["cbefore"] or [])]
    tab = " ".join("(%d %d %d)" % (k, off, off + len(t.encode())) for k, (off, t) in enumerate(cs))
    st = " ".join("((plus %s) (minus %s))" % (" ".join("(%d %d)" % tuple(i) for i in (s.get("changed") or [])),
                                               " ".join("(%d %d)" % tuple(i) for i in (s.get("unchanged") or [])))
                  for s in steps)
    return "(comments (cs %s) (lines) (steps %s))" % (tab, st), steps, cs


def merge_ivs(ivs):
    """non-empty intervals, sorted and merged (what an interval set holds)"""
    out = []
    for a, b in sorted((a, b) for a, b in ivs if a < b):
        if out and a <= out[-1][1]:
            out[-1] = (out[-1][0], max(out[-1][1], b))
        else:
            out.append((a, b))
    return out


def align(I, O):
    di = [d["digest"] for d in I["decls"]]
    do = [d["digest"] for d in O["decls"]]
    sm = difflib.SequenceMatcher(None, di, do, autojunk=False)
    return [(a + k, b + k) for a, b, n in sm.get_matching_blocks() for k in range(n)]


def judge_output(r, patch="", src=""):
    """property text on the re-parsed output vs the (gofmt-ed) input; -> [(what, finding_class)]"""
    I, O = (r.get("in_fmt") or r["in"]), r["out_owned"]
    bad = []
    ci, co = collections.Counter(I["all"] or []), collections.Counter(O["all"] or [])
    for t, n in co.items():
        if n > ci[t]:
            bad.append(("comment %r occurs %d time(s) in the input and %d in the output" % (t[:40], ci[t], n), None))
    if (I["header"] or []) != (O["header"] or []):
        bad.append(("header / package comments changed: %r -> %r" % (I["header"], O["header"]), None))
    # import declarations the patch says nothing about: their comments stay attached to import declarations
    if "import" not in patch:
        own = lambda X: collections.Counter(t for d in X["decls"] if d.get("import") for cls in ("doc", "inside", "trailing") for t in (d[cls] or []))
        oi, oo = own(I), own(O)
        if oi != oo:
            moved = [t for t in oi if oo[t] < oi[t]]
            merged = sum(1 for d in O["decls"] if d.get("import")) < sum(1 for d in I["decls"] if d.get("import"))
            bad.append(("the comments %r of import declarations, which the patch does not mention, are no longer attached to an import declaration" % moved[:4],
                        "imports-process-merges-import-declarations" if merged and all(co[t] >= ci[t] for t in moved) else None))
    for a, b in align(I, O):
        x, y = I["decls"][a], O["decls"][b]
        for cls in ("doc", "inside", "trailing"):
            if (x[cls] or []) != (y[cls] or []):
                fc = None
                # F16: an import added to a file without imports whose package line carries a comment
                if cls == "doc" and a == 0 and "+import" in patch and re.search(r"(?m)^import\b", src) is None and \
                        re.search(r"(?m)^package \w+[ \t]*(//|/\*)", src):
                    fc = "import-added-below-commented-package-line"
                bad.append(("the %s comments of untouched declaration #%d changed: %r -> %r" % (cls, a, x[cls], y[cls]), fc))
    return bad


def main():
    ck = vlib.Check("C17")
    coq_ok, coq_log = vlib.build()
    ok, log, info = vlib.prove("C17")
    ck.proof_obligations(ok, log, info, coq_ok, coq_log)
    thorough = ck.tier == "thorough"
    rng = ck.rng
    names = list(PATCHES)
    n = 8000 if thorough else 1200
    cases = []
    singles = [x for x in names if not x.endswith("-changes")]
    for k in range(n):
        if k % 3 == 2:
            # several changes in one run: state (snapshot, comment map, positions) is carried from one to the next
            ks = rng.sample(singles, rng.choice([2, 2, 3]))
            if rng.random() < 0.5:      # a declaration-level change last
                ks = [x for x in ks if x not in ("var-to-const", "var-to-func", "type-kind", "method-to-func", "const-block-to-var")][:2] + [rng.choice(["var-to-const", "var-to-func", "var-to-func", "type-kind", "method-to-func", "const-block-to-var", "const-block-to-var"])]
            if rng.random() < 0.15:     # the package clause first, then a change at the head of the file
                ks = ["pkg-rename", rng.choice(["import-replace", "import-delete-middle", "const-block-to-var", "var-to-func", "type-kind", "import-add", "stmt-delete"])]
            pn = "combo:" + "+".join(ks)
            cases.append((pn, "\n".join(PATCHES[x] for x in ks), gen_file(rng, pn)))
        else:
            pn = names[k % len(names)]
            cases.append((pn, PATCHES[pn], gen_file(rng, pn)))
        if k % 23 == 7:
            # the same file without any comment (nothing may appear from nowhere: the comments of '+' lines are not emitted)
            pn0, pt0, f0 = cases[-1]
            bare = re.sub(r"(?s)/\*.*?\*/", "", f0)
            bare = "\n".join(l for l in (re.sub(r"[ \t]*//.*$", "", l0) for l0 in bare.split("\n")))
            cases.append((pn0 + "[no comments]", pt0, re.sub(r"\n{3,}", "\n\n", bare)))
            for extra in ("plus-comments", "field-plus-comments", "var-to-func-plus-doc"):
                if pn0 != extra:
                    f1 = gen_file(rng, extra)
                    b1 = re.sub(r"(?s)/\*.*?\*/", "", f1)
                    b1 = "\n".join(re.sub(r"[ \t]*//.*$", "", l0) for l0 in b1.split("\n"))
                    cases.append((extra + "[no comments]", PATCHES[extra], re.sub(r"\n{3,}", "\n\n", b1)))
    # golden cases with comments in the inputs
    for c in corpus.golden():
        for fn, data in sorted(c["inputs"].items()):
            if b"//" in data or b"/*" in data:
                for pname, p in c["patches"][:1]:
                    cases.append(("golden:" + c["name"], p.decode("utf-8", "replace"), data.decode("utf-8", "replace")))
    req = {"snapshots": True, "cases": [{"patches": [{"name": "p.patch", "src": b64(p.encode())}], "file": {"name": "a.go", "src": b64(f.encode())}} for _, p, f in cases]}
    res = vlib.harness("comments", req)["results"]
    mcases, midx = [], []
    for i, r in enumerate(res):
        if r.get("panic") or r["load_err"] or r["parse_err"]:
            continue
        mc, steps, cs = model_steps(r)
        if mc:
            mcases.append(mc); midx.append(i)
    models = dict(zip(midx, vlib.model(mcases)))
    # the astdiff model on the snapshots of every successful step
    ad_cases, ad_idx = [], []
    for i, r in enumerate(res):
        for si, s in enumerate(r.get("steps") or []):
            if s.get("snap_from") and s.get("snap_to"):
                ad_cases.append("(astdiff (from %s) (to %s))" % (s["snap_from"], s["snap_to"])); ad_idx.append((i, si))
    if os.environ.get("C17_DUMP_AD"):
        open(os.environ["C17_DUMP_AD"], "w").write("\n".join(ad_cases[:400]) + "\n")
    ad_models = dict(zip(ad_idx, vlib.model(ad_cases))) if ad_cases else {}
    cli_sample = []
    for i, ((pn, p, f), r) in enumerate(zip(cases, res)):
        rep = {"case": "c17#%d" % i, "kind": pn, "patch": p, "file": f, "gopatch_output": unb64(r["out"]).decode("utf-8", "replace") if r.get("out") else None}
        if r.get("panic"):
            ck.count((p, f), nontrivial=False); ck.mismatch("harness panic: %s" % r["panic"][:200], rep, CORR); continue
        if r["load_err"] or r["parse_err"]:
            ck.count((p, f), nontrivial=False); ck.tally("outcome", "patch rejected" if r["load_err"] else "file does not parse"); continue
        steps = [s for s in (r["steps"] or []) if s["matched"] and not s["replace_err"]]
        if r.get("api_err") and steps and not r.get("out_err") and not any(s["replace_err"] for s in (r["steps"] or [])):
            ck.violation("patch.File.Apply fails (%s) although every change applies step by step" % r["api_err"][:160], rep)
        if r.get("api_differs"):
            ck.tally("outcome", "library output differs from the step-by-step run (judged on the library's)")
        ck.count((p, f), nontrivial=bool(steps) and bool(r.get("out_owned")))
        ck.tally("patch_kind", pn if not pn.startswith(("combo:", "golden:")) else pn.split(":")[0])
        if not steps or not r.get("out_owned"):
            ck.tally("outcome", "no change applied" if not steps else "output not produced: " + (r.get("out_err") or "")[:40])
            continue
        ck.tally("comments_in_file", min(len(r["in"]["all"] or []), 30) // 5 * 5)
        # ---- (1) the bookkeeping: model vs trace, step by step
        m = models.get(i)
        trace_ok = True
        if not m or m[0] != "result":
            ck.mismatch("model error %r" % (m,), rep, CORR); trace_ok = False
        else:
            cs = [(c["off"], c["text"]) for c in (steps[0]["cbefore"] or [])]
            prev_after = None
            for k, (s, ms) in enumerate(zip(steps, vlib.field(m[1:], "steps"))):
                before = [(c["off"], c["text"]) for c in (s["cbefore"] or [])]
                after = [(c["off"], c["text"]) for c in (s["cafter"] or [])]
                if prev_after is not None and before != prev_after:
                    ck.mismatch("step %d starts with other comments than step %d left" % (k, k - 1), rep, CORR); trace_ok = False; break
                prev_after = after
                miv = sorted((int(a), int(b)) for a, b in vlib.field(ms, "intervals"))
                iiv = sorted(tuple(x) for x in (s["intervals"] or []))
                if miv != iiv:
                    rep2 = dict(rep, step=k, model_intervals=miv, gopatch_intervals=iiv, changed=s.get("changed"), unchanged=s.get("unchanged"))
                    ck.mismatch("step %d: ChangedIntervals differ: model %s, gopatch %s" % (k, miv[:4], iiv[:4]), rep2, CORR); trace_ok = False; break
                left = [cs[int(j)] for j in vlib.field(ms, "left")]
                if left != after:
                    gone_m = [c for c in before if c not in left]; gone_i = [c for c in before if c not in after]
                    rep2 = dict(rep, step=k, intervals=iiv, removed_by_model=gone_m, removed_by_gopatch=gone_i)
                    ck.mismatch("step %d: the cleanup removed %s, the model removes %s" % (k, gone_i[:3], gone_m[:3]), rep2, CORR); trace_ok = False; break
        # ---- (1b) astdiff: the Changed calls, the snapshot handed to the next step and what the changelog keeps of the calls
        for si, s in enumerate(r.get("steps") or []):
            am = ad_models.get((i, si))
            if am is None:
                continue
            if am[0] != "result" or am[1] == "fuel":
                ck.mismatch("astdiff model error %r" % (am[:2],), dict(rep, step=si), CORR_AD); trace_ok = False; break
            calls = [[int(a), int(b)] for a, b in vlib.field(am[1:], "calls")]
            if calls != (s["changed_calls"] or []):
                ck.mismatch("step %d: astdiff reports the spans %s, the model %s" % (si, (s["changed_calls"] or [])[:6], calls[:6]),
                            dict(rep, step=si, model_calls=calls, gopatch_calls=s["changed_calls"]), CORR_AD); trace_ok = False; break
            if vlib.sx(vlib.field(am[1:], "to")[0]) != vlib.sx(vlib.parse_sx(s["snap_to"])):
                ck.mismatch("step %d: the snapshot astdiff hands to the next change (comments carried over to unchanged nodes) differs from the model's" % si,
                            dict(rep, step=si), CORR_AD); trace_ok = False; break
            plus_m = merge_ivs([(int(a), int(b)) for a, b in vlib.field(am[1:], "plus")])
            plus_i = merge_ivs([tuple(x) for x in (s.get("changed") or [])])
            if plus_m != plus_i:
                ck.mismatch("step %d: the changelog keeps %s of astdiff's calls, the model (calls that do not start at NoPos) %s" % (si, plus_i[:5], plus_m[:5]),
                            dict(rep, step=si, calls=calls), CORR_AD); trace_ok = False; break
            rp = vlib.field(am[1:], "report")
            if rp[0] == "none":
                ck.tally("astdiff_theorem", "no declaration list found"); continue
            ck.tally("astdiff_theorem", "side conditions of C17_identical_declaration hold" if rp[0] == "1" else "side conditions not met (a nested comment beyond its declaration, rewritten positions)")
            conds = rp[1][1:]
            rp = [rp[0]] + list(rp[2:])
            for nm, b in zip(COND_NAMES, conds):
                if b == "0":
                    ck.tally("astdiff_side_condition_failed", nm)
            gone = set(c["off"] for c in (s["cbefore"] or [])) - set(c["off"] for c in (s["cafter"] or []))
            for j, att, clr, unclear in rp[1]:
                ck.tally("identical_declarations", "comments attached=%s, all spans clear of them=%s, side conditions=%s" % (att, clr, rp[0]))
                if rp[0] == "1" and att == "1" and clr != "1":
                    ck.mismatch("step %d: declaration #%s is paired as identical, the side conditions of C17_identical_declaration_is_clear_of_every_span "
                                "hold, yet a span reaches one of its comments: the executable model contradicts its theorem" % (si, j), dict(rep, step=si), CORR_AD)
                # direct oracle at the level of the spans: a comment the comment map attaches to a declaration in which
                # nothing changed (paired as identical) is deleted by this step
                lost = [int(a) for a, b in unclear if int(a) in gone]
                if lost:
                    texts = [c["text"] for c in (s["cbefore"] or []) if c["off"] in lost]
                    ck.violation("step %d: top-level declaration #%s did not change (astdiff pairs it as identical) but its comment(s) %s lie inside a span "
                                 "astdiff reports as changed and are deleted" % (si, j, texts[:3]), dict(rep, step=si, lost=texts))
        # ---- (2) the hypothesis of C17_untouched_general: nothing reported as changed reaches into an untouched declaration or the header
        I0, O = r["in"], r["out_owned"]
        al = align(I0, O)
        untouched = [I0["decls"][a] for a, _ in al]
        first_decl = min([d["start"] for d in I0["decls"]] or [len(f)])
        protected = [(0, first_decl if not I0["decls"] else min(first_decl, len(f)))] if False else []
        for d in untouched:
            protected.append((d["start"], d["end"], d))
        spans = [tuple(x) for s in steps for x in (s.get("changed") or []) if x[0] < x[1]]
        for (a, b) in spans:
            for (lo, hi, d) in protected:
                if a < hi and lo < b and (d["doc"] or d["inside"] or d["trailing"]):
                    ck.tally("hypothesis", "a changed span overlaps an untouched declaration")
                    rep2 = dict(rep, span=[a, b], declaration=[lo, hi])
                    # decided below by the output judge; recorded here when nothing is lost
                    rep["span_overlap"] = rep2["span"]
        # ---- (3) the property on the output
        bad = judge_output(r, p, f)
        for what, fc in bad:
            ck.violation(what, rep, finding_class=fc)
        if not bad:
            ck.tally("outcome", "ok, %d step(s)" % len(steps))
            if rep.get("span_overlap") and trace_ok:
                ck.tally("hypothesis", "overlap without loss")
        multi = len(steps) >= 2 or p.count("\n@@\n") >= 2
        if (i % 25 == 0 or (multi and i % 4 == 0)) and not pn.startswith("golden"):
            cli_sample.append((i, p, f, unb64(r["out"])))
    # ---- (4) the command line has its own copy of the cleanup: same bytes as the library path
    def cli(item):
        i, p, f, want = item
        d = vlib.scratch("c17")
        try:
            open(os.path.join(d, "p.patch"), "w").write(p); open(os.path.join(d, "a.go"), "w").write(f)
            rc, so, se = vlib.run_gopatch(["-p", "p.patch", "a.go"], d)
            got = open(os.path.join(d, "a.go"), "rb").read()
            # the changes of one patch file, each given as a patch file of its own (-p c0 -p c1 ...): the same bytes again
            import c13
            chs = c13.split_changes(p.encode())
            if chs and len(chs) >= 2 and rc == 0:
                open(os.path.join(d, "a.go"), "w").write(f)
                argv = []
                for j, ch in enumerate(chs):
                    open(os.path.join(d, "c%d.patch" % j), "wb").write(c13.render([ch])); argv += ["-p", "c%d.patch" % j]
                rc2, so2, se2 = vlib.run_gopatch(argv + ["a.go"], d)
                got2 = open(os.path.join(d, "a.go"), "rb").read()
                if rc2 != 0 or got2 != got:
                    return rc2, got2, b"[each change as a patch file of its own] " + se2
            return rc, got, se
        finally:
            shutil.rmtree(d, ignore_errors=True)
    for (i, p, f, want), (rc, got, se) in zip(cli_sample, vlib.pmap(cli, cli_sample)):
        ck.count(("cli", p, f), nontrivial=True)
        ck.tally("outcome", "cli = library" if got == want else "cli differs")
        if got != want:
            ck.mismatch("the binary writes other bytes than patch.File.Apply's steps (main.go has its own cleanupFilePos)",
                        {"patch": p, "file": f, "cli_output": got.decode("utf-8", "replace"), "library_output": want.decode("utf-8", "replace"), "exit": rc,
                         "stderr": se.decode("utf-8", "replace")[:300]}, "corr:cli-vs-library")
    ck.sample({"kind": cases[0][0], "patch": cases[0][1], "file": cases[0][2]})
    ck.sample({"kind": cases[7][0], "patch": cases[7][1], "file": cases[7][2]})
    ck.cov["rule"] = ("%d generated cases: %d patch kinds (expression, growing multi-line expression, statement insert/delete/replace, elided runs, "
                      "if-err blocks, import add/replace, function rename / signature / body, type kind, var->const, '+' lines carrying comments, "
                      "several changes in one patch) x files of 3-8 declarations decorated with header, build-tag, package, doc (line, block, "
                      "multi-line, directive), end-of-line, free-standing, in-expression, last-in-body, trailing and between-declaration comments; "
                      "golden inputs that contain comments. Per case: (1) every step's ChangedIntervals and surviving comment list vs the extracted "
                      "model fed with the spans the code recorded; (2) overlap of changed spans with untouched declarations; (3) the re-parsed output "
                      "vs the gofmt-ed input: header/package comments, per-declaration doc/inside/trailing comment lists of syntactically unchanged "
                      "declarations (aligned by syntax digest), global multiset inclusion; (4) every 25th case through the binary, bytes compared "
                      "with the library path. non-trivial = a change applied and the output was produced" % (n, len(PATCHES)))
    ck.cov["trusted_base"] = TRUSTED + ["harness/comments.go: attribution of comments to declarations (doc / inside / trailing on the closing line / header) on go/parser's tree",
                                        "go/format.Source as the normal form of the input's comment text (gofmt re-indents block comments and separates directives)"]
    ck.assumptions = ["PARTIAL: astdiff (which spans are reported as changed) and go/printer + imports.Process (where the remaining comments are printed) are not modelled; "
                      "their effect is judged on the output of every case",
                      "the changelog's recorded spans are read after intervalset normalised them (merged, disjoint)"]
    return ck.finish()


if __name__ == "__main__":
    import sys
    sys.exit(main())
