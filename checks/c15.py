"""C15 — exactly the requested Go files are processed, each once."""
import os, re, shutil, stat
import vlib
from vlib import hx, unhx, sx

PATCH = b"@@\n@@\n-marker\n+marker+1\n"
GO = lambda pkg: ("package %s\n\nvar v = marker\n" % pkg).encode()

FILE_GO = ["a.go", "b.go", "m.go", "z_test.go", ".hidden.go", "_under.go", "x.go", "A.go", "a-b.go", "go.go", ".go"]
FILE_OTHER = ["README.md", "a.txt", "go", "a.gox", "b.go.bak", "Makefile", "c.GO", "d.go~", "a.go.123456789.tmp", "m.go.orig"]
DIR_OK = ["pkg", "sub", "a-b", "a", "internal", "x.go", "v.endor", "testdata2", "Vendor", "cmd", "b", "go", "odd.", "dots.."]
DIR_EXCL = ["vendor", "testdata", ".git", "_tmp", ".x", "_", "_gen.go", ".pb.go", "_.go", ".cache.go"]


def gen_tree(rng, depth=0, maxdepth=3):
    """-> dict name -> ('f', bytes) | ('s', target) | ('o',) | ('d', dict)"""
    t = {}
    names = set()
    def fresh(pool):
        for _ in range(10):
            n = rng.choice(pool)
            if n not in names:
                names.add(n)
                return n
        return None
    for _ in range(rng.randint(1, 4)):
        n = fresh(FILE_GO)
        if n:
            t[n] = ("f", GO("p"))
    for _ in range(rng.randint(0, 2)):
        n = fresh(FILE_OTHER)
        if n:
            t[n] = ("f", b"not go\n")
    if rng.random() < 0.35:
        n = fresh(["link.go", "l2.go"])
        if n:
            t[n] = ("s", rng.choice(["a.go", "nowhere.go", "."]))
    if rng.random() < 0.2:
        n = fresh(["linkdir", "ld"])
        if n:
            t[n] = ("s", rng.choice(["sub", "..", "pkg"]))
    if rng.random() < 0.15:
        n = fresh(["pipe.go"])
        if n:
            t[n] = ("o",)
    if depth < maxdepth:
        for _ in range(rng.randint(0, 3)):
            n = fresh(DIR_OK if rng.random() < 0.65 else DIR_EXCL)
            if n:
                t[n] = ("d", gen_tree(rng, depth + 1, maxdepth))
    return t


def materialise(t, path):
    os.makedirs(path, exist_ok=True)
    for n, v in t.items():
        p = os.path.join(path, n)
        if v[0] == "f":
            with open(p, "wb") as f:
                f.write(v[1])
        elif v[0] == "s":
            os.symlink(v[1], p)
        elif v[0] == "o":
            os.mkfifo(p)
        else:
            materialise(v[1], p)


def all_paths(t, prefix=""):
    out = []
    for n, v in sorted(t.items()):
        p = prefix + n
        out.append((p, v[0]))
        if v[0] == "d":
            out += all_paths(v[1], p + "/")
    return out


def gen_args(rng, t, cwd):
    paths = all_paths(t)
    dirs = [p for p, k in paths if k == "d"]
    files = [p for p, k in paths if k == "f"]
    syms = [p for p, k in paths if k in ("s", "o")]
    args = []
    for _ in range(rng.randint(1, 4)):
        r = rng.random()
        if r < 0.2:
            a = rng.choice([".", "./...", "./", "..."])
        elif r < 0.45 and dirs:
            d = rng.choice(dirs)
            # also: arguments that END in dots which are not the "..." wildcard (a parent directory, a name ending in a dot)
            a = rng.choice([d, d + "/...", "./" + d, d + "/", d + "/.", os.path.join(cwd, d), os.path.join(cwd, d) + "/...",
                            d + "/..", d + "/../...", os.path.join(cwd, d) + "/..", d + "/./.."])
        elif r < 0.75 and files:
            f = rng.choice(files)
            dn, bn = os.path.dirname(f), os.path.basename(f)
            spellings = [f, "./" + f, os.path.join(cwd, f), cwd + "/./" + f, cwd + "//" + f, "./" + (dn + "/" if dn else "") + "./" + bn]
            if dn:
                spellings += [os.path.join(cwd, dn, "..", os.path.basename(dn), bn), dn + "/../" + os.path.basename(dn) + "/" + bn]
            a = rng.choice(spellings)
            if rng.random() < 0.4:
                # the same file reached a second way in the same run (another spelling, or its directory)
                args.append(rng.choice(spellings + [dn or "."]))
        elif r < 0.85 and syms:
            a = rng.choice(syms)
        elif r < 0.93 and dirs:
            d = rng.choice(dirs)
            a = d + "/../" + d.split("/")[-1]  # x/../x style
            a = os.path.dirname(d) + ("/" if os.path.dirname(d) else "") + d.split("/")[-1] + "/../" + d.split("/")[-1]
        else:
            a = rng.choice(args) if args else "."
        args.append(a)
    return args


# ---------------- reference written from the property text (independent of model and code)
def excluded(name):
    return name in ("vendor", "testdata") or name.startswith(".") or name.startswith("_")


def ref_discover(t, cwd, args):
    """-> sorted list of absolute paths, or None when an argument does not exist"""
    found = {}
    def node_at(rel_parts):
        cur = ("d", t)
        for c in rel_parts:
            if cur[0] != "d" or c not in cur[1]:
                return None
            cur = cur[1][c]
        return cur
    def walk(abs_path, node):
        if node[0] == "f":
            if abs_path.endswith(".go"):
                found[abs_path] = True
        elif node[0] == "d":
            if excluded(os.path.basename(abs_path)):
                return
            for n in sorted(node[1]):
                walk(abs_path + "/" + n, node[1][n])
    for a in args:
        if a.endswith("..."):
            a = a[:-3]
        ab = os.path.normpath(os.path.join(cwd, a))
        if not (ab + "/").startswith(cwd + "/"):
            return "outside"
        rel = os.path.relpath(ab, cwd)
        node = node_at([] if rel == "." else rel.split("/"))
        if node is None:
            return None
        walk(ab, node)
    return sorted(found, key=lambda s: s.encode())


def tree_sx(t):
    items = []
    for n in sorted(t, key=lambda s: s.encode()):
        v = t[n]
        if v[0] == "f":
            items.append([hx(n), "f"])
        elif v[0] == "s":
            items.append([hx(n), "s"])
        elif v[0] == "o":
            items.append([hx(n), "o"])
        else:
            items.append([hx(n), tree_sx(v[1])])
    return ["d"] + items


def wrap_prefix(comps, inner):
    node = inner
    for c in reversed(comps):
        node = ["d", [hx(c), node]]
    return node


def run_case(case):
    t, wname, args = case["tree"], case["wname"], case["args"]
    root = vlib.scratch("disc")
    try:
        cwd = os.path.join(root, wname)
        materialise(t, cwd)
        with open(os.path.join(root, "p.patch"), "wb") as f:
            f.write(PATCH)
        real_args = [a.replace("<CWD>", cwd) for a in args]
        import clicorr
        snap_before = clicorr.snapshot(cwd)
        rc, out, err = vlib.run_gopatch(["-p", os.path.join(root, "p.patch"), "-v"] + real_args, cwd)
        snap_after = clicorr.snapshot(cwd)
        # a -v line names the file it is about; its wording is free: attribute each line to the longest path of the tree it contains
        known = sorted((os.path.join(d0, fn) for d0, _, fns in os.walk(cwd) for fn in fns), key=len, reverse=True)
        known += sorted((os.path.join(d0, dn) for d0, dns, _ in os.walk(cwd) for dn in dns), key=len, reverse=True)
        processed = []
        for l in out.decode("utf-8", "replace").split("\n"):
            hit = next((k for k in known if k in l), None)
            if hit:
                processed.append((hit, l))
        counts = {}
        for d, _, files in os.walk(cwd):
            for fn in files:
                p = os.path.join(d, fn)
                if os.path.islink(p) or not stat.S_ISREG(os.lstat(p).st_mode):
                    continue
                data = open(p, "rb").read()
                counts[p] = data.count(b"+ 1")
        # second run on a fresh copy in diff mode: names under which files are reported
        shutil.rmtree(cwd)
        materialise(t, cwd)
        rc2, out2, err2 = vlib.run_gopatch(["-p", os.path.join(root, "p.patch"), "-d"] + real_args, cwd)
        provided = re.findall(r"^--- (.*)$", out2.decode("utf-8", "replace"), re.M)
        return {"root": root, "cwd": cwd, "rc": rc, "stderr": err.decode("utf-8", "replace"), "processed": processed,
                "counts": counts, "provided": provided, "rc2": rc2, "real_args": real_args,
                "touched": sorted(rel for rel in set(snap_before) | set(snap_after)
                                  if (snap_before.get(rel) or ("?",))[:2] != (snap_after.get(rel) or ("!",))[:2])}
    finally:
        shutil.rmtree(root, ignore_errors=True)


def main():
    ck = vlib.Check("C15")
    coq_ok, coq_log = vlib.build()
    ok, log, info = vlib.prove("C15")
    ck.proof_obligations(ok, log, info, coq_ok, coq_log)
    thorough = ck.tier == "thorough"
    n = 400 if thorough else 90
    cases = []
    # hand-written cases first (ordering trap, excluded root, explicit file in excluded dir, duplicates)
    fixed = [
        ({"a": ("d", {"x.go": ("f", GO("p"))}), "a-b": ("d", {"x.go": ("f", GO("p"))}), "a.go": ("f", GO("p"))}, "w", ["."]),
        ({"vendor": ("d", {"v.go": ("f", GO("p")), "deep": ("d", {"w.go": ("f", GO("p"))})}), "m.go": ("f", GO("p"))}, "w",
         ["./...", "vendor/v.go", "vendor/deep", "vendor"]),
        ({"m.go": ("f", GO("p")), "sub": ("d", {"n.go": ("f", GO("p"))})}, "vendor", ["."]),
        ({"m.go": ("f", GO("p")), "sub": ("d", {"n.go": ("f", GO("p"))})}, "_w", ["./...", "sub"]),
        ({"m.go": ("f", GO("p")), "sub": ("d", {"n.go": ("f", GO("p"))})}, "w", ["sub", ".", "sub/n.go", "<CWD>/sub", "m.go", "m.go"]),
        ({"x.go": ("d", {"y.go": ("f", GO("p")), "z.txt": ("f", b"")}), "l.go": ("s", "x.go/y.go")}, "w", [".", "l.go"]),
        ({"m.go": ("f", GO("p"))}, "w", ["missing", "m.go"]),
        ({"m.go": ("f", GO("p")), "t": ("d", {"testdata": ("d", {"d.go": ("f", GO("p"))}), "ok": ("d", {"e.go": ("f", GO("p"))})})}, "w", ["t/..."]),
    ]
    for t, w, a in fixed:
        cases.append({"tree": t, "wname": w, "args": a, "kind": "fixed"})
    for k in range(n):
        t = gen_tree(ck.rng)
        wname = ck.rng.choice(["w", "w", "w", "w", "work", "_w", "vendor", "a.go"])
        args = gen_args(ck.rng, t, "<CWD>")
        cases.append({"tree": t, "wname": wname, "args": args, "kind": "random"})
    obs = vlib.pmap(run_case, cases)
    # model
    mcases = []
    for c, ob in zip(cases, obs):
        comps = [x for x in ob["cwd"].split("/") if x]
        mcases.append(sx(["discover", ["tree", wrap_prefix(comps, tree_sx(c["tree"]))], ["cwd"] + [hx(x) for x in comps],
                          ["args"] + [hx(a) for a in ob["real_args"]]]))
    preds = vlib.model(mcases)
    for c, ob, pr in zip(cases, obs, preds):
        cwd = ob["cwd"]
        ref = ref_discover(c["tree"], cwd, ob["real_args"])
        nfiles = len(all_paths(c["tree"]))
        ck.count(repr((sorted(all_paths(c["tree"])), c["wname"], c["args"])), nontrivial=nfiles > 1)
        ck.tally("args_per_run", len(c["args"]))
        ck.tally("wname", c["wname"])
        rep = {"tree": [p + ("/" if k == "d" else "@" if k == "s" else "|" if k == "o" else "") for p, k in all_paths(c["tree"])],
               "cwd_name": c["wname"], "args": c["args"], "rc": ob["rc"], "processed": [p.replace(cwd, "<CWD>") for p, _ in ob["processed"]],
               "stderr": ob["stderr"][:500].replace(ob["root"], "<ROOT>")}
        got = [p for p, _ in ob["processed"]]
        # ---- direct oracle
        if ref == "outside":
            ck.tally("class", "argument leaves the tree (not judged)")
        elif ref is None:
            ck.tally("class", "missing path")
            if ob["rc"] == 0:
                ck.violation("an argument names a missing path but the exit status is 0", rep)
            if any(v for v in ob["counts"].values()):
                ck.violation("an argument names a missing path, yet files were rewritten", rep)
        else:
            ck.tally("class", "ok")
            ck.tally("files_processed", min(len(ref), 10))
            if sorted(got) != sorted(ref) or len(got) != len(set(got)):
                extra = sorted(set(got) - set(ref)); missing = sorted(set(ref) - set(got))
                dup = sorted(set(p for p in got if got.count(p) > 1))
                ck.violation("processed set differs from the requested Go files: wrongly processed %s, missed %s, more than once %s"
                             % ([p.replace(cwd, "") for p in extra], [p.replace(cwd, "") for p in missing], [p.replace(cwd, "") for p in dup]),
                             dict(rep, expected=[p.replace(cwd, "<CWD>") for p in ref]))
            elif got != ref:
                ck.violation("files are not processed in ascending path order", dict(rep, expected=[p.replace(cwd, "<CWD>") for p in ref]))
            for p, cnt in ob["counts"].items():
                want = 1 if p in ref else 0
                if p.endswith(".go") or cnt:
                    if cnt != want and not (want == 1 and cnt == 0 and not p.endswith(".go")):
                        ck.violation("%s was rewritten %d times (expected %d)" % (p.replace(cwd, ""), cnt, want), rep)
            if ob["rc"] != 0:
                ck.violation("exit status %d on a clean tree: %s" % (ob["rc"], ob["stderr"][:200]), rep)
            stray = [rel for rel in ob["touched"] if os.path.join(cwd, rel) not in ref]
            if stray:
                ck.violation("paths that are not requested Go files were created, removed or modified: %s" % stray, rep)
        # ---- model
        if pr[0] != "result":
            ck.mismatch("model error %r" % (pr,), rep, "corr:discover")
            continue
        mfiles = [(unhx(a).decode("utf-8", "replace"), unhx(p).decode("utf-8", "replace")) for a, p in vlib.field(pr, "files")]
        merrs = vlib.field(pr, "errs")
        if ref == "outside":
            continue
        if merrs:
            if ob["rc"] == 0 or got:
                ck.mismatch("model: argument cannot be enumerated (%s) but gopatch processed files / exited 0" % [unhx(e) for e in merrs],
                            rep, "corr:discover (Model/Discover.v find_files vs main.go findFiles)")
            continue
        if [a for a, _ in mfiles] != got:
            ck.mismatch("model and gopatch disagree on the processed files or their order: model %s" %
                        [a.replace(cwd, "") for a, _ in mfiles], rep, "corr:discover (Model/Discover.v find_files vs main.go findFiles)")
        if ob["rc2"] == 0 and [p for _, p in mfiles] != ob["provided"]:
            ck.mismatch("model and gopatch disagree on the names files are reported under: model %s, gopatch %s" %
                        ([p for _, p in mfiles], ob["provided"]), rep, "corr:discover (provided paths)")
    # ---- a file reached under two names (through a directory that is a symbolic link), and a working directory entered through
    # a symbolic link ($PWD names the link): each regular .go file beneath the requested places is processed exactly once
    # (repo fix 504c7ca).  Outside the Discover model (which has no symlinked ancestors): judged directly.
    def run_link(c):
        nm, args, sub, use_pwd, want = c
        root = vlib.scratch("link")
        try:
            os.makedirs(os.path.join(root, "w", "real", "sub"))
            for rel in ("real/a.go", "real/sub/x.go", "real/sub/y.go", "top.go"):
                open(os.path.join(root, "w", rel), "wb").write(GO("p"))
            os.symlink("real", os.path.join(root, "w", "link"))
            os.symlink("real/sub", os.path.join(root, "w", "deep"))
            if nm.startswith("hard link"):
                # two names of one inode are two regular files: each is processed (once)
                os.link(os.path.join(root, "w", "real", "a.go"), os.path.join(root, "w", "hard.go"))
                os.link(os.path.join(root, "w", "real", "sub", "x.go"), os.path.join(root, "w", "real", "sub", "z.go"))
            open(os.path.join(root, "p.patch"), "wb").write(PATCH)
            cwd = os.path.join(root, "w", sub) if sub else os.path.join(root, "w")
            env = dict(os.environ, PWD=cwd) if use_pwd else None
            rc, out, err = vlib.run_gopatch(["-p", os.path.join(root, "p.patch"), "-v"] + [a.replace("<W>", os.path.join(root, "w")) for a in args], cwd, env=env)
            rels = ("real/a.go", "real/sub/x.go", "real/sub/y.go", "top.go") + (("hard.go", "real/sub/z.go") if nm.startswith("hard link") else ())
            counts = {rel: open(os.path.join(root, "w", rel), "rb").read().count(b"+ 1") for rel in rels}
            return {"rc": rc, "stderr": err.decode("utf-8", "replace")[:500], "stdout": out.decode("utf-8", "replace")[:1500], "counts": counts}
        finally:
            shutil.rmtree(root, ignore_errors=True)
    ALL_REAL = {"real/a.go": 1, "real/sub/x.go": 1, "real/sub/y.go": 1, "top.go": 0}
    SUB = {"real/a.go": 0, "real/sub/x.go": 1, "real/sub/y.go": 1, "top.go": 0}
    LINKS = [
        ("two names for a directory", ["real/sub", "link/sub"], "", False, SUB),
        ("two names for a file", ["real/sub/x.go", "link/sub/x.go"], "", False, {"real/a.go": 0, "real/sub/x.go": 1, "real/sub/y.go": 0, "top.go": 0}),
        ("three names for a file", ["deep/x.go", "link/sub/x.go", "<W>/real/sub/x.go"], "", False, {"real/a.go": 0, "real/sub/x.go": 1, "real/sub/y.go": 0, "top.go": 0}),
        ("a file beneath a symlinked directory", ["link/sub/y.go"], "", False, {"real/a.go": 0, "real/sub/x.go": 0, "real/sub/y.go": 1, "top.go": 0}),
        ("a directory beneath a symlinked directory", ["link/sub/..."], "", False, SUB),
        ("the tree and a second name", ["./...", "link/sub"], "", False, {"real/a.go": 1, "real/sub/x.go": 1, "real/sub/y.go": 1, "top.go": 1}),
        ("working directory entered through a link", ["./..."], "link", True, ALL_REAL),
        ("working directory entered through a link, '.'", ["."], "link", True, ALL_REAL),
        ("working directory entered through a link, a file", ["sub/x.go", "./sub"], "link", True, SUB),
        ("working directory entered through a deeper link", ["."], "deep", True, SUB),
        ("working directory through a link, PWD not set to it", ["./..."], "link", False, ALL_REAL),
        ("hard links: the tree", ["./..."], "", False, {"real/a.go": 1, "real/sub/x.go": 1, "real/sub/y.go": 1, "top.go": 1, "hard.go": 1, "real/sub/z.go": 1}),
        ("hard links: both names given", ["hard.go", "real/a.go", "real/sub"], "", False,
         {"real/a.go": 1, "real/sub/x.go": 1, "real/sub/y.go": 1, "top.go": 0, "hard.go": 1, "real/sub/z.go": 1}),
        ("hard links: one name given", ["hard.go"], "", False, {"real/a.go": 0, "real/sub/x.go": 0, "real/sub/y.go": 0, "top.go": 0, "hard.go": 1, "real/sub/z.go": 0}),
    ]
    for c, ob in zip(LINKS, vlib.pmap(run_link, LINKS)):
        ck.count(("links", c[0])); ck.tally("kind", "symlinked-ancestor")
        if ob["counts"] != c[4] or ob["rc"] != 0:
            ck.violation("%s (arguments %s%s): expected each requested file rewritten once %s, got %s (exit %d)"
                         % (c[0], c[1], ", in " + c[2] if c[2] else "", c[4], ob["counts"], ob["rc"]),
                         {"case": c[0], "args": c[1], "cwd": c[2] or ".", "PWD_set": c[3], "tree": "w/{top.go, real/{a.go, sub/{x.go, y.go}}, link -> real, deep -> real/sub}",
                          "expected": c[4], "got": ob["counts"], "stderr": ob["stderr"], "stdout": ob["stdout"]})
    ck.sample({"tree": [p for p, k in all_paths(cases[0]["tree"])], "args": cases[0]["args"], "cwd_name": cases[0]["wname"]})
    ck.sample({"tree": [p + ("/" if k == "d" else "@" if k == "s" else "") for p, k in all_paths(cases[len(fixed) + 1]["tree"])],
               "args": cases[len(fixed) + 1]["args"], "cwd_name": cases[len(fixed) + 1]["wname"]})
    ck.cov["rule"] = ("%d hand-written + %d random directory trees built on disk (nesting <= 4, excluded names vendor/testdata/.x/_x at any depth, "
                      "symlinks to files and directories, fifos, directories named x.go, non-Go files, a-b/ vs a/ ordering traps, working "
                      "directory itself named vendor/_w) x 1-4 arguments (relative, absolute, ./..., trailing slash, x/../x, overlapping, "
                      "duplicated, explicit files in excluded directories, symlinks, missing paths); a non-idempotent always-matching patch "
                      "(marker -> marker+1) makes double processing visible; observed: -v log order, per-file application count, names in "
                      "--diff; compared with a reference walk written from the property text and with the extracted Coq model. "
                      "non-trivial = tree with more than one entry; distinct = distinct (tree, cwd name, args)" % (len(fixed), n))
    ck.cov["trusted_base"] = [
        "Coq 8.16.1 kernel; no axioms (Properties/C15.v closed under the global context)",
        "Model/Discover.v models filepath.Walk (Lstat, lexical order, SkipDir) and Clean/Join/Rel on component lists; symlinked "
        "directories in the middle of an argument path and arguments resolving to '/' are outside the model",
        "extraction + ocaml/fam_discover.ml; the reference walk in checks/c15.py",
    ]
    ck.assumptions = ["os.ReadDir returns entries sorted by name; Lstat does not follow the final symlink (modelled)",
                      "directory read errors / permission errors during the walk are not modelled"]
    return ck.finish()


if __name__ == "__main__":
    import sys
    sys.exit(main())
