"""C11 — imports change only as the patch dictates; unrelated imports survive."""
import re
from collections import Counter
import vlib, enginecorr, enginecheck
from c01 import TRUSTED

# (path, package name)
TARGETS = [("example.com/old", "old"), ("example.com/deep/old", "old"), ("gopkg.in/yaml.v3", "yaml"), ("example.com/go-old", "old")]
NEW = [("example.com/new", "new"), ("example.com/v2/new", "new")]
OTHERS = [(None, "fmt"), (None, "os"), (None, "strings"), ("str", "strings"), ("_", "example.com/side/effect"), (".", "example.com/dsl"),
          ("zz", "example.com/zz"), (None, "example.com/other"), ("old2", "example.com/old2"), ("newer", "example.com/newer"),
          ("_", "embed"), (None, "net/http"), ("yaml2", "gopkg.in/yaml.v2"), (None, "example.com/old/sub")]
USES = {"fmt": "fmt.Println()", "os": "os.Exit(1)", "strings": "strings.ToUpper(s)", "str": "str.ToLower(s)", "zz": "zz.Z()", "other": "other.O()",
        "old2": "old2.F(1)", "newer": "newer.N()", "http": "http.Get(u)", "yaml2": "yaml2.Marshal(v)", "sub": "sub.S()"}

# kinds of patch; {T}: target path, {t}: the name under which the pattern refers to it, {N}/{n}: new path / name
KINDS = {
    "add": ("@@\nvar x expression\n@@\n+import \"{N}\"\n\n-legacy(x)\n+{n}.F(x)\n", []),
    "add-named": ("@@\nvar x expression\n@@\n+import nn \"{N}\"\n\n-legacy(x)\n+nn.F(x)\n", []),
    "replace": ("@@\nvar x expression\n@@\n-import {TS}\n+import \"{N}\"\n\n-{t}.F(x)\n+{n}.F(x)\n", ["minus"]),
    "replace-all-selectors": ("@@\nvar f identifier\n@@\n-import {TS}\n+import \"{N}\"\n\n-{t}.f\n+{n}.f\n", ["minus"]),
    "delete": ("@@\nvar x expression\n@@\n-import {TS}\n\n-{t}.F(x)\n+builtin(x)\n", ["minus"]),
    "rename": ("@@\nvar x expression\n@@\n-import {TS}\n+import renamed \"{T}\"\n\n-{t}.F(x)\n+renamed.F(x)\n", ["minus"]),
    "match-only": ("@@\nvar x expression\n@@\n import {TS}\n\n-{t}.F(x)\n+{t}.G(x)\n", ["context"]),
    "metavar-replace": ("@@\nvar x expression\nvar n identifier\n@@\n-import n \"{T}\"\n+import n \"{N}\"\n\n-n.F(x)\n+n.F2(x)\n", ["minus-mv"]),
    "metavar-match-add": ("@@\nvar x expression\nvar n identifier\n@@\n import n \"{T}\"\n+import \"{N}\"\n\n-n.F(x)\n+{n}.F(n.Conv(x))\n", ["context-mv"]),
    "metavar-unalias": ("@@\nvar x expression\nvar n identifier\n@@\n-import n \"{T}\"\n+import \"{T}\"\n\n-n.F(x)\n+{r}.F(x)\n", ["minus-mv"]),
    # the first match in source order sits where the replacement does not fit (a field name); later ones are rewritten
    "add-unfit-first": ("@@\n@@\n+import \"{N}\"\n\n-legacyName\n+{n}.Name\n", []),
    # a blank / dot import on a '-' line (nothing in the code refers to it by name)
    "delete-blank": ("@@\nvar x expression\n@@\n-import _ \"{T}\"\n\n-legacy(x)\n+builtin(x)\n", ["minus"]),
    "delete-dot": ("@@\nvar x expression\n@@\n-import . \"{T}\"\n\n-legacy(x)\n+builtin(x)\n", ["minus"]),
    "replace-blank": ("@@\nvar x expression\n@@\n-import _ \"{T}\"\n+import _ \"{N}\"\n\n-legacy(x)\n+builtin(x)\n", ["minus"]),
    # a blank / dot import on a context line - a guard, or the documented way to match any import: it stays (repo fix 6680ffc)
    "keep-blank": ("@@\nvar x expression\n@@\n import _ \"{T}\"\n\n-legacy(x)\n+builtin(x)\n", ["context"]),
    "keep-dot": ("@@\nvar x expression\n@@\n import . \"{T}\"\n\n-legacy(x)\n+builtin(x)\n", ["context"]),
    "keep-blank-twice": ("@@\nvar x expression\n@@\n import _ \"{T}\"\n\n-legacy(x)\n+mid(x)\n\n@@\nvar x expression\n@@\n import _ \"{T}\"\n\n-mid(x)\n+builtin(x)\n", ["context"]),
    # one side of the change is a single expression, the other a list of statements (the parser wraps the expression): the
    # imports of BOTH sides count
    "add-stmts-to-expr": ("@@\nvar x expression\n@@\n+import \"{N}\"\n\n-tmp := legacy(x)\n-use(tmp)\n+{n}.F(x)\n", []),
    "delete-expr-to-stmts": ("@@\nvar x expression\n@@\n-import {TS}\n\n-{t}.F(x)\n+tmp := builtin(x)\n+use(tmp)\n", ["minus"]),
    # the code a metavariable reproduces declares a variable of its own under the package's name: no reference to the package
    "delete-captured-shadow": ("@@\nvar x expression\n@@\n-import {TS}\n\n-{t}.F(x)\n+trace(x)\n", ["minus"]),
    # two changes add the same import; only the later one applies to the file
    "add-after-unmatched-add": ("@@\nvar x expression\n@@\n+import \"{N}\"\n\n-neverThere(x)\n+{n}.G(x)\n\n@@\nvar x expression\n@@\n+import \"{N}\"\n\n-legacy(x)\n+{n}.F(x)\n", []),
    # an earlier change of the run reproduces code in which a parameter has the package's name (trace(url.Host) -> url.Host)
    "delete-after-reproduce": ("@@\nvar y expression\n@@\n-trace(y)\n+y\n\n@@\nvar x expression\n@@\n-import {TS}\n\n-{t}.F(x)\n+builtin(x)\n", ["minus"]),
    # earlier changes of the run put in the only references to the package; a later one replaces the import and some of them
    "introduce-then-partial": ("@@\nvar x expression\n@@\n-legacyA(x)\n+{t}.A(x)\n\n@@\nvar x expression\n@@\n-legacyB(x)\n+{t}.B(x)\n\n"
                               "@@\nvar x expression\n@@\n-import {TS}\n+import \"{N}\"\n\n-{t}.B(x)\n+{n}.B(x)\n", ["minus"]),
    # the same path on two '-' lines, under two names
    "delete-two-names": ("@@\nvar x expression\n@@\n-import {TS}\n-import dup \"{T}\"\n\n-{t}.F(x)\n+builtin(x)\n", ["minus"]),
    "same-name-takeover": ("@@\nvar x expression\n@@\n-import {TS}\n+import {t} \"{N}\"\n\n-{t}.F(x)\n+{t}.F(x, 1)\n", ["minus"]),
}


def spec(name, path):
    return ("%s \"%s\"" % (name, path)) if name else "\"%s\"" % path


def gen(rng, k):
    kind = list(KINDS)[k % len(KINDS)]
    tmpl, roles = KINDS[kind]
    tpath, treal = TARGETS[(k // len(KINDS)) % len(TARGETS)]
    npath, nreal = NEW[(k // 7) % 2]
    # how the file imports the target; how the patch states it
    fform = rng.choice([None, None, "alias", treal])          # file-side name
    if kind in ("delete-blank", "replace-blank", "keep-blank", "keep-blank-twice"):
        fform = "_"
    if kind in ("delete-dot", "keep-dot"):
        fform = "."
    if kind == "delete-two-names":
        fform = rng.choice(["alias", treal])
    if "minus-mv" in roles or "context-mv" in roles:
        pform = "$n"
    else:
        pform = fform                                      # must be the same form to match
    t = fform or treal                                     # name used in code
    patch = tmpl.format(T=tpath, TS=spec(pform if pform != "$n" else "n", tpath), t=t, N=npath, n=nreal, r=treal)
    # the file
    others = rng.sample(OTHERS, rng.randint(0, 6))
    if rng.random() < 0.15 or kind == "delete-two-names":
        others.append(("dup", tpath))                      # the target path a second time under another name
    dup_used = kind != "delete-two-names" or rng.random() < 0.5
    if rng.random() < 0.1 and npath:
        others.append((rng.choice([None, "already", "_", "."]), npath))   # the '+' import is there already
    has_target = roles != [] or rng.random() < 0.3
    imps = list(others)
    if has_target:
        imps.insert(rng.randint(0, len(imps)), (fform, tpath))
    rng.shuffle(imps)
    layout = rng.choice(["grouped", "grouped", "single", "blocks", "commented", "mixed"])
    remaining = rng.random() < 0.5 and kind not in ("delete-after-reproduce", "delete-captured-shadow")    # a use of the target the patch does not rewrite
    body = []
    if kind == "add-unfit-first":
        body = ["type first struct {\n\tlegacyName int\n}", "func a(p int) { _ = legacyName; use(legacyName + p) }"]
        if has_target:
            body.append("func keep() { %s.Other() }" % t)
        body_fixed = True
    elif kind == "add-stmts-to-expr":
        body.append("func a() {\n\ttmp := legacy(1)\n\tuse(tmp)\n}")
        if has_target and fform not in ("_", "."):
            body.append("func keep() { %s.Other() }" % t)
    elif kind == "delete-expr-to-stmts":
        body.append("func a() {\n\t%s.F(1)\n\tother()\n\t%s.F(q)\n}" % (t, t))
        if remaining:
            body.append("func keep() { %s.Other(1) }" % t)
    elif kind == "delete-captured-shadow":
        body.append("func a() {\n\t%s.F(func() string {\n\t\t%s := newLogger()\n\t\treturn %s.Name()\n\t}())\n}" % (t, t, t))
    elif kind == "introduce-then-partial":
        body.append("func a() { legacyA(1); legacyB(2); legacyA(3) }")
        remaining = True           # the references change 1 put in stay
    elif kind in ("add", "add-named", "add-after-unmatched-add", "delete-blank", "delete-dot", "replace-blank", "keep-blank", "keep-dot", "keep-blank-twice"):
        body.append("func a() { legacy(1); legacy(a + b) }")
        if has_target and fform not in ("_", "."):
            body.append("func keep() { %s.Other() }" % t)
    else:
        body.append("func a() { %s.F(1); _ = %s.F(q) }" % (t, t))
        if remaining:
            forms = ["var v %s.Type", "%s.Other(1)", "_ = %s.Default().Timeout", "%s.Registry.Hooks.Run()", "_ = []%s.Item{}",
                     "_ = %s.Table[0].Name", "defer %s.Pool.Get().Close()", "_ = func(a %s.Arg) {}"]
            picked = rng.sample(forms, rng.choice([1, 1, 2, 3]))
            body.append("func keep() { %s }" % "; ".join(f % t for f in picked))
    for n, p in others:
        key = n if n not in (None, "_", ".") else p.rsplit("/", 1)[-1]
        if key in USES and rng.random() < 0.7:
            body.append("func u_%s() { %s }" % (re.sub(r"\W", "_", key), USES[key]))
        if n == "dup" and dup_used:
            body.append("func u_dup() { dup.D() }")
    # a local variable / parameter named like the package is not a reference to the package
    local_only = bool(roles) and ((kind in ("replace", "delete", "rename") and not remaining and rng.random() < 0.4) or kind == "delete-after-reproduce")
    if local_only:
        body.append(("func local(%s *Endpoint) string { return trace(%s.Host) + %s.Path }" if kind == "delete-after-reproduce" else
                     "func local(%s *Endpoint) string { return %s.Host + %s.Path }") % (t, t, t))
    if kind != "add-unfit-first":
        rng.shuffle(body)
    src = "package p\n\n" + render_imports(imps, layout, rng) + "\n\n".join(body) + "\n"
    return {"kind": kind, "patch": patch, "src": src, "imports": imps, "target": (fform, tpath, treal) if has_target else None, "roles": roles,
            "new": (npath, nreal), "t": t, "layout": layout, "remaining": remaining if roles else None, "local_only": local_only}


def render_imports(imps, layout, rng):
    if not imps:
        return ""
    if layout == "single":
        return "".join("import %s\n" % spec(n, p) for n, p in imps) + "\n"
    if layout == "grouped":
        return "import (\n" + "".join("\t%s\n" % spec(n, p) for n, p in imps) + ")\n\n"
    if layout == "blocks":
        h = max(1, len(imps) // 2)
        a = "import (\n" + "".join("\t%s\n" % spec(n, p) for n, p in imps[:h]) + ")\n\n"
        b = ("import (\n" + "".join("\t%s\n" % spec(n, p) for n, p in imps[h:]) + ")\n\n") if imps[h:] else ""
        return a + b
    if layout == "commented":
        out = "// imports\nimport (\n"
        for i, (n, p) in enumerate(imps):
            out += "\t// about %s\n" % p if i % 2 == 0 else ""
            out += "\t%s%s\n" % (spec(n, p), " // trailing" if i % 3 == 0 else "")
        return out + ")\n\n"
    # mixed: std group / blank line / rest
    std = [(n, p) for n, p in imps if "." not in p.split("/")[0]]
    rest = [(n, p) for n, p in imps if (n, p) not in std]
    out = "import (\n" + "".join("\t%s\n" % spec(n, p) for n, p in std)
    if std and rest:
        out += "\n"
    return out + "".join("\t%s\n" % spec(n, p) for n, p in rest) + ")\n\n"


def uses_name(text, name):
    """a selector on `name` outside the import declarations"""
    # comments and string literals cannot refer to a package (the printer may lay an import declaration out
    # over several lines with its comments in between, so the declarations are not removed by shape alone)
    code = re.sub(r'(?s)/\*.*?\*/|//[^\n]*|"(?:\\.|[^"\\\n])*"|`[^`]*`', " ", text)
    code = re.sub(r"(?s)import \(.*?\)\n", "", code)
    code = re.sub(r"(?m)^import .*$", "", code)
    return re.search(r"(?<![\w.])%s\.\w" % re.escape(name), code) is not None


def out_imports(r):
    at = r["atoms"]
    l = vlib.parse_sx(r["out_imports"])
    return [((None if e[0] == "none" else at[int(e[0]) - 1]), at[int(e[1]) - 1]) for e in l]


def judge(c, o):
    """the property text as an oracle; returns [(what, finding_class)]"""
    r = o["impl"]
    out = vlib.unb64(r["out"]).decode("utf-8", "replace") if r.get("out") else c["src"]
    I = Counter(c["imports"])
    O = Counter(out_imports(r))
    mentioned = set()
    if c["roles"]:
        mentioned.add(c["target"][1])
    if c["kind"] not in ("delete", "match-only", "metavar-unalias", "delete-two-names", "delete-after-reproduce", "keep-blank", "keep-dot", "keep-blank-twice",
                         "delete-expr-to-stmts", "delete-captured-shadow"):
        mentioned.add(c["new"][0])
    if c["kind"] in ("rename", "metavar-unalias"):
        mentioned.add(c["target"][1])
    bad = []
    for (n, p), cnt in I.items():
        if p not in mentioned and O[(n, p)] != cnt:
            bad.append(("import %s, which the patch does not mention, occurs %d time(s) before and %d after" % (spec(n, p), cnt, O[(n, p)]), None))
    for (n, p), cnt in O.items():
        if p not in mentioned and I[(n, p)] == 0:
            bad.append(("import %s, which the patch does not mention, was added" % spec(n, p), None))
    # '+' imports
    if c["kind"] in ("add", "add-stmts-to-expr", "add-unfit-first", "replace", "replace-all-selectors", "metavar-match-add", "add-after-unmatched-add", "introduce-then-partial"):
        if (None, c["new"][0]) not in O:
            bad.append(("the '+' import \"%s\" (unnamed) is missing from the output" % c["new"][0], None))
    if c["kind"] == "add-named" and ("nn", c["new"][0]) not in O:
        bad.append(("the '+' import nn \"%s\" is missing from the output" % c["new"][0], None))
    if c["kind"] == "rename" and ("renamed", c["target"][1]) not in O:
        bad.append(("the '+' import renamed \"%s\" is missing from the output" % c["target"][1], None))
    if c["kind"] == "metavar-replace":
        want = (c["target"][0], c["new"][0])       # under the captured name (none if the matched import was unnamed)
        if want not in O:
            bad.append(("the '+' import %s (name captured by the metavariable) is missing from the output" % spec(*want), None))
    if c["kind"] == "metavar-unalias" and (None, c["target"][1]) not in O:
        bad.append(("the '+' import \"%s\" (unnamed) is missing from the output" % c["target"][1], None))
    if c["kind"] == "same-name-takeover" and (c["t"], c["new"][0]) not in O:
        bad.append(("the '+' import %s is missing from the output" % spec(c["t"], c["new"][0]), None))
    # matched imports
    if c["roles"]:
        fform, tpath, treal = c["target"]
        key = (fform, tpath)
        name = fform or treal
        # selectors on a parameter of that name (func local(<name> *Endpoint)) do not refer to the package
        still = uses_name(re.sub(r"(?m)^func local\(.*$", "", out), name)
        if c["kind"] == "delete-captured-shadow":
            # the selectors that are left are on the variable the reproduced function literal declares
            still = uses_name(re.sub(r"(?s)func\(\) string \{.*?\}\(\)", "", re.sub(r"(?m)^func local\(.*$", "", out)), name)
        taken = c["kind"] == "same-name-takeover" or (c["kind"] == "metavar-replace") or \
            (c["kind"] == "metavar-unalias" and (fform is None or name == tpath.rsplit("/", 1)[-1]))    # the '+' import takes the name over
        base_differs = fform is None and tpath.rsplit("/", 1)[-1] != treal
        if still and not taken and O[key] < I[key]:
            bad.append(("the matched import %s was deleted although the rewritten file still refers to %s" % (spec(*key), name),
                        "unnamed-import-base-guess" if base_differs else None))
        if not still and c["roles"][0].startswith("minus") and O[key] >= I[key] and c["kind"] != "rename" and not (c["kind"] == "metavar-unalias" and fform is None):
            bad.append(("the import %s on a '-' line is still there although nothing refers to %s any more" % (spec(*key), name), None))
        if c["roles"] == ["context"] and fform in ("_", ".") and O[key] < I[key]:
            bad.append(("the import %s, which the patch has on a context line, was deleted" % spec(*key), None))
        if c["kind"] == "keep-blank-twice" and "legacy(" in out:
            bad.append(("the second change, guarded by the same context import %s, did not apply after the first" % spec(*key), None))
        if c["kind"] == "delete-two-names":
            k2 = ("dup", tpath)
            still2 = uses_name(out, "dup")
            if still2 and O[k2] < I[k2]:
                bad.append(("the matched import %s was deleted although the rewritten file still refers to dup" % spec(*k2), None))
            if not still2 and O[k2] >= I[k2]:
                bad.append(("the import %s on a '-' line is still there although nothing refers to dup any more" % spec(*k2), None))
    return bad


def main():
    ck = vlib.Check("C11")
    coq_ok, coq_log = vlib.build()
    ok, log, info = vlib.prove("C11")
    ck.proof_obligations(ok, log, info, coq_ok, coq_log)
    thorough = ck.tier == "thorough"
    n = 6000 if thorough else 800
    cases = [gen(ck.rng, k) for k in range(n)]
    pairs = [("p.patch", c["patch"].encode(), "a.go", c["src"].encode()) for c in cases]
    from enginegen import golden_pairs
    gp = [(nm, pn, ps, fn, fs) for nm, pn, ps, fn, fs in golden_pairs() if b"import" in ps]
    res = enginecorr.run(pairs + [(pn, ps, fn, fs) for nm, pn, ps, fn, fs in gp])
    for k, (c, pair, o) in enumerate(zip(cases, pairs, res)):
        ck.count((pair[1], pair[3]), nontrivial=not o["skipped"] and "ok" in (o.get("isteps") or []))
        ck.tally("kind", c["kind"]); ck.tally("layout", c["layout"]); ck.tally("other_imports", len(c["imports"]))
        if c.get("local_only"):
            ck.tally("local_shadow", c["kind"])
        ck.tally("target", "%s / remaining use: %s" % ("absent" if not c["target"] else ("unnamed" if c["target"][0] is None else "named"), c["remaining"]))
        if o["skipped"]:
            ck.tally("verdict", "skipped: " + o["skipped"][:50])
            continue
        r = o["impl"]
        rep = {"case": "c11#%d" % k, "patch": c["patch"], "file": c["src"], "kind": c["kind"], "steps_gopatch": o.get("isteps"),
               "gopatch_output": vlib.unb64(r["out"]).decode("utf-8", "replace") if r.get("out") else None}
        judged = False
        if "ok" in (o.get("isteps") or []) and not r.get("out_err"):
            for what, fc in judge(c, o):
                judged = True
                ck.violation(what, rep, finding_class=fc)
        elif "err" not in (o.get("isteps") or []) and r.get("out") and vlib.unb64(r["out"]) != pair[3]:
            judged = True
            ck.violation("the change does not apply but the file came back different", rep)
        if judged:
            continue
        enginecheck.report(ck, "c11#%d" % k, pair, o, "none", {"kind": c["kind"]})
    for (nm, pn, ps, fn, fs), o in zip(gp, res[len(pairs):]):
        ck.count((ps, fs), nontrivial=not o["skipped"])
        ck.tally("kind", "golden")
        if not o["skipped"]:
            enginecheck.report(ck, "golden:" + nm, (pn, ps, fn, fs), o, "none", None)
    ck.sample({"patch": cases[2]["patch"], "file": cases[2]["src"], "kind": cases[2]["kind"]})
    ck.sample({"patch": cases[17]["patch"], "file": cases[17]["src"], "kind": cases[17]["kind"]})
    ck.cov["rule"] = ("%d cases: %d kinds of patch (add, add named, replace, replace every selector, delete, rename, match only, "
                      "metavariable-named replace / match+add, new import taking over the old name) x 4 target paths (two whose last element is "
                      "not the package name) x file-side form (unnamed, alias, named as the package) x 0-8 other imports (named, blank, dot, "
                      "std, same prefix, the target path twice, the '+' path already present) in 6 layouts (single, grouped, two blocks, commented, "
                      "std/third-party groups) x with/without a remaining use of the matched package; golden import cases. Output import "
                      "multiset (name, path) judged by the property text (unmentioned kept with multiplicity, none added, '+' present under "
                      "the captured name, matched import gone iff no longer referred to) and by the extracted Coq model. "
                      "non-trivial = the change applies" % (n, len(KINDS)))
    ck.cov["trusted_base"] = TRUSTED + ["the reference judge() in checks/c11.py; 'refers to' = a selector on the name outside import declarations (regex)"]
    ck.assumptions = ["imports.Process(FormatOnly) neither adds nor removes specs (oracle; exercised: the multiset is read from the final output)"]
    return ck.finish()


if __name__ == "__main__":
    import sys
    sys.exit(main())
