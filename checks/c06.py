"""C06 — no match means no effect."""
import os
import vlib, clicorr, scen
from clicorr import Scenario
from vlib import b64, unb64


def main():
    ck = vlib.Check("C06")
    coq_ok, coq_log = vlib.build()
    ok, log, info = vlib.prove("C06")
    ck.proof_obligations(ok, log, info, coq_ok, coq_log)
    thorough = ck.tier == "thorough"
    pool = scen.parseable(scen.source_pool())
    names = sorted(pool)
    flagsets = scen.all_flagsets() if thorough else scen.QUICK_FLAGSETS
    scs, meta = [], []
    # group files 8 per run so that each run is a multi-file history
    groups = [names[i:i + 8] for i in range(0, len(names), 8)]
    for pi, (pname, ptxt) in enumerate(scen.NOMATCH_PATCHES):
        for gi, g in enumerate(groups):
            fss = flagsets if thorough else [flagsets[(pi + gi + k) % len(flagsets)] for k in range(3)]
            for fl in fss:
                files = {("d%d/" % (j % 3) if j % 2 else "") + n: pool[n] for j, n in enumerate(g)}
                mode = ["p", "stdin", "P"][(pi + gi) % 3]
                scs.append(Scenario([("p.patch", ptxt)], files, fl, name="%s/g%d" % (pname, gi), patch_mode=mode))
                meta.append((pname, gi))
    results = clicorr.run_scenarios(scs, api=True)
    for r, (pname, gi) in zip(results, meta):
        sc, ob = r["sc"], r["obs"]
        fl = sc.flags
        key = (pname, gi, tuple(sorted(k for k, v in fl.items() if v)))
        ck.count(key)
        ck.tally("flagsets", ",".join(sorted(k for k, v in fl.items() if v)) or "none")
        ck.tally("patch_mode", sc.patch_mode)
        rep = dict(sc.describe(), argv=ob["argv"], rc=ob["rc"], stdout=ob["stdout"].decode("utf-8", "replace")[:2000],
                   stderr=ob["stderr"].decode("utf-8", "replace")[:2000])
        if r.get("load_err"):
            ck.violation("the non-matching patch %s does not load: %s" % (pname, r["load_err"][:200]), rep)
            continue
        # premise check (generator sanity): the library agrees nothing matches, every file parses
        ff = r["facts"]["files"]
        # (a file on which the step-by-step run panics has no steps: nothing matched as far as it got; the oracle below decides)
        premise = all(not f["parse_err"] and not any(s["matched"] for s in (f.get("steps") or [])) for f in ff)
        if not premise:
            touched = clicorr.tree_changes(ob)
            if touched and all(not f["parse_err"] for f in ff):
                # the patch is built from identifiers that occur in no pool file: whatever the library says, nothing can match
                ck.violation("a patch whose '-' code occurs in no file (%s) is reported as matching and files were touched on disk: %s; flags %s"
                             % (pname, touched, fl), rep)
            else:
                ck.mismatch("generator premise broken: a 'never matching' patch matched or a pool file does not parse (%s)" % pname,
                            rep, "generator premise of C06")
            continue
        # ---- direct oracle, from the property text
        changed = clicorr.tree_changes(ob)
        if changed:
            ck.violation("no change applies, yet files were touched on disk (bytes/inode/mtime): %s; flags %s" % (changed, fl), rep)
        if ob["rc"] != 0:
            ck.violation("no change applies, yet exit status %d (stderr %r)" % (ob["rc"], ob["stderr"][:200]), rep)
        if ob["stderr"] != b"":
            ck.violation("no change applies, yet stderr is not empty: %r" % ob["stderr"][:200], rep)
        exp = []
        for (ab, prov), f in zip(r["targets"], ff):
            content = sc.files[os.path.relpath(ab, ob["cwd"])]
            if fl["print"] and not (fl["skip_generated"] and is_gen(f)):
                exp.append(("bytes", content))
            if fl["verbose"]:
                exp.append(("log", ab))      # one -v line naming the file; its wording is not constrained
        d = clicorr.match_stdout(ob["stdout"], exp)
        if d:
            ck.violation("no change applies: stdout should be %s: %s" %
                         ("the original bytes of each file" if fl["print"] else "empty (apart from one -v line per file)", d), rep)
        for (ab, prov), f in zip(r["targets"], ff):
            content = sc.files[os.path.relpath(ab, ob["cwd"])]
            if f.get("api_panic") or f["api_err"] or unb64(f["api_out"]) != content:
                ck.violation("library API did not return the input bytes unchanged for %s (err=%r)" % (ab, f["api_err"]), rep)
        if r["mismatches"]:
            ck.mismatch("driver model and gopatch disagree (%s): %s" % (sc.name, "; ".join(r["mismatches"][:3])),
                        dict(rep, mismatches=r["mismatches"]), "corr:cli/run (Model/Cli.v run vs main.go mainCmd.Run)")
    # ---- no-match files next to files on which changes apply and then fail, and files with a byte order mark:
    # whatever happened to a neighbour, a file in which nothing matches is left alone / echoed as it is
    BOM = b"\xef\xbb\xbf"
    two = b"@@\nvar x expression\n@@\n-foo(x)\n+bar(x)\n\n@@\nvar x, y expression\n@@\n-baz(x)\n+baz(x, y)\n"
    fails_late = b"package p\n\nfunc a() {\n\tfoo(1)\n\tbaz(2)\n}\n"          # first change applies, second matches and fails
    fails_first = b"package p\n\nfunc a() {\n\tbaz(2)\n}\n"
    applies = b"package p\n\nfunc a() {\n\tfoo(3)\n}\n"
    quiet1 = b"package p\n\n// nothing here\nfunc q() { keep(1) }\n"
    quiet2 = BOM + b"package p\n\nfunc r() { keep(2) }\n"
    quiet3 = b"package   p\nfunc  s( ){keep( 3 )}\n"
    nb_scs, nb_meta = [], []
    for fl in (flagsets if thorough else scen.QUICK_FLAGSETS + [{"print": True}, {"diff": True}, {}]):
        for first in (("a_fails_late.go", fails_late), ("a_fails_first.go", fails_first), ("a_applies.go", applies), ("a_quiet.go", b"package p\n\nfunc t() { keep(0) }\n")):
            files = {first[0]: first[1], "b_quiet.go": quiet1, "c_bom.go": quiet2, "d_quiet.go": quiet3, "e_applies.go": applies}
            nb_scs.append(Scenario([("p.patch", two)], files, fl, name="neighbour:%s" % first[0])); nb_meta.append(first[0])
    for r, first in zip(clicorr.run_scenarios(nb_scs), nb_meta):
        sc, ob = r["sc"], r["obs"]
        fl = sc.flags
        ck.count(("neighbour", first, tuple(sorted(k for k, v in fl.items() if v))))
        ck.tally("flagsets", ",".join(sorted(k for k, v in fl.items() if v)) or "none")
        ck.tally("patch_mode", "neighbours")
        rep = dict(sc.describe(), argv=ob["argv"], rc=ob["rc"], stdout=ob["stdout"].decode("utf-8", "replace")[:3000],
                   stderr=ob["stderr"].decode("utf-8", "replace")[:2000])
        changed = [c for c in clicorr.tree_changes(ob) if os.path.basename(c) in ("b_quiet.go", "c_bom.go", "d_quiet.go")]
        if changed:
            ck.violation("a file in which nothing matches was touched on disk after a neighbour (%s) was processed: %s; flags %s" % (first, changed, fl), rep)
        if fl.get("print") and not fl.get("diff"):
            for qn, qb in (("b_quiet.go", quiet1), ("c_bom.go", quiet2), ("d_quiet.go", quiet3)):
                if ob["stdout"].count(qb) != 1:
                    ck.violation("--print-only: the original bytes of %s (nothing matches) should be echoed exactly once, found %d time(s)" % (qn, ob["stdout"].count(qb)), rep)
        if fl.get("diff"):
            for qn in ("b_quiet.go", "c_bom.go", "d_quiet.go"):
                if ("--- " + qn).encode() in ob["stdout"] or ("/" + qn + "\n+++").encode() in ob["stdout"]:
                    ck.violation("--diff: a diff was printed for %s, in which nothing matches" % qn, rep)
        if r["mismatches"] and not r.get("load_err"):
            ck.mismatch("driver model and gopatch disagree (%s): %s" % (sc.name, "; ".join(r["mismatches"][:3])),
                        dict(rep, mismatches=r["mismatches"]), "corr:cli/run (Model/Cli.v run vs main.go mainCmd.Run)")
    ck.sample({"patch": scen.NOMATCH_PATCHES[0][1].decode(), "file": "notgofmt.go", "source": pool["notgofmt.go"].decode(),
               "flags": scs[0].flags})
    ck.sample({"patch": scen.NOMATCH_PATCHES[5][1].decode(), "file": "crlf.go", "source": pool["crlf.go"].decode()})
    ck.cov["rule"] = ("%d never-matching patches (by construction: fresh identifiers; failing import/package guards) x %d files "
                      "(odd hand-written sources: not gofmt-ed, CRLF, build tags, odd comments, no trailing newline...; all golden inputs) "
                      "in multi-file runs x flag sets (%s), patch given by -p / stdin / -P; observed: bytes+inode+mtime+mode of the tree, "
                      "stdout, stderr, exit status, API result; compared with the property text and with the extracted Coq model. "
                      "distinct = distinct (patch, file group, flag set)" % (len(scen.NOMATCH_PATCHES), len(pool), "all 32" if thorough else "3 of 8 per group, rotating"))
    ck.cov["trusted_base"] = TRUSTED
    ck.assumptions = ASSUME
    return ck.finish()


def is_gen(f):
    # generated status according to the model's predicate is part of the model run; for the
    # direct stdout oracle we only need it for pool files, none of which carries a marker
    h = f.get("header") or {}
    for g in h.get("groups", []):
        for c in g:
            t = unb64(c["text"])
            if not c["after"] and any(l.startswith(b"// Code generated ") and l.endswith(b" DO NOT EDIT.") for l in t.split(b"\n")):
                return True
    return any(b"@generated" in unb64(t) for t in h.get("doc", []))


TRUSTED = [
    "Coq 8.16.1 kernel; no axioms (all theorems of Properties/C06.v closed under the global context)",
    "extraction (ExtrOcamlBasic only) + OCaml driver; lib/clicorr.py rendering",
    "harness facts: 'nothing matches' is the library's own Match verdict, cross-checked by construction of the patches",
]
ASSUME = ["engine verdict NoMatch is an oracle here (what matches is C01/C02/C04/C10)",
          "lstat inode/mtime/mode + bytes are the observable of 'untouched'"]

if __name__ == "__main__":
    import sys
    sys.exit(main())
