"""C07 — whatever gopatch emits on success is syntactically valid Go."""
import os, itertools
import vlib, clicorr, scen, corpus, udiff
from clicorr import Scenario
from vlib import b64, unb64

# replacement expressions: most are not types
REPL = ["1+2", "g(1)", "s[1:2]", "42", "\"s\"", "func() {}", "T{1}", "-x", "<-c", "a.b", "*p", "[]int", "map[k]v", "x.(T)", "f(x...)"]
# contexts in which the identifier foo stands where a type (or other restricted syntax) is expected
CTX = [
    ("var-type", "var y foo\n"),
    ("const-type", "const c foo = 1\n"),
    ("field-type", "type S struct {\n\ta foo\n}\n"),
    ("param-type", "func f(a foo) {}\n"),
    ("result-type", "func f() foo { panic(1) }\n"),
    ("type-decl", "type T foo\n"),
    ("alias-decl", "type T = foo\n"),
    ("conversion", "var y = foo(1)\n"),
    ("complit-type", "var y = foo{1}\n"),
    ("type-assert", "func f(x any) { _ = x.(foo) }\n"),
    ("type-switch-case", "func f(x any) {\n\tswitch x.(type) {\n\tcase foo:\n\t}\n}\n"),
    ("chan-elem", "var y chan foo\n"),
    ("array-elem", "var y [3]foo\n"),
    ("map-key", "var y map[foo]int\n"),
    ("receiver", "func (r foo) M() {}\n"),
    ("embedded", "type S struct {\n\tfoo\n}\n"),
    ("generic-arg", "var y G[foo]\n"),
    ("label-use", "func f() {\nfoo:\n\tfor {\n\t\tbreak foo\n\t}\n}\n"),
    ("plain-expr", "var y = foo + 1\n"),
    ("stmt-expr", "func f() { foo }\n"),
    ("go-stmt", "func f() { go foo() }\n"),
    ("defer-stmt", "func f() { defer foo() }\n"),
    ("inc-stmt", "func f() { foo++ }\n"),
    ("assign-lhs", "func f() { foo = 1 }\n"),
    ("define-lhs", "func f() { foo := 1; _ = foo }\n"),
    ("range-key", "func f(m map[int]int) { for foo = range m {} }\n"),
]
# statement-level nonsense: (name, patch, file)
EXTRA = [
    ("call-to-nothing", "@@\n@@\n-go foo()\n+go 1\n", "package p\n\nfunc f() { go foo() }\n"),
    ("defer-lit", "@@\n@@\n-defer foo()\n+defer x\n", "package p\n\nfunc f() { defer foo() }\n"),
    ("callfun-in-go", "@@\nvar x expression\n@@\n-foo(x)\n+x\n", "package p\n\nfunc f() { go foo(1); defer foo(2) }\n"),
    ("incdec", "@@\nvar x expression\n@@\n-foo(x)\n+x\n", "package p\n\nfunc f() { foo(1)++ }\n"),
    # a change with two sites, the later of which (replaced first) splices code that does not parse where it stands while the
    # earlier one makes the replacement fail: nothing of the half-rewritten tree may be emitted
    ("partial-fail", "@@\nvar x, y expression\n@@\n-pick(y, x)\n+y.x\n",
     "package p\n\nfunc f() {\n\t_ = pick(T{}, g())\n\tif pick(T{}, ok) {\n\t}\n}\n"),
    ("partial-fail-2", "@@\nvar x, y expression\n@@\n-pick(y, x)\n+y.x\n",
     "package p\n\nfunc f() {\n\tif pick(T{}, ok) {\n\t}\n\t_ = pick(T{}, g())\n}\n"),
    ("assign-call-lhs", "@@\n@@\n-foo\n+g()\n", "package p\n\nfunc f() { var foo int; foo, b := 1, 2; _ = b }\n"),
]


def _stacked(k, imp):
    cm = "".join("\t\t/*c%d*/\n" % i for i in range(k))
    return "package p\n\n%sfunc f(names []string) {\n\tfor _,\n%s\t\tname := range names {\n\t\tfoo(name)\n\t}\n}\n" % (imp, cm)


# go/printer is not idempotent on comments stacked inside a range header: what imports.Process RETURNS (printed once more
# than what it was given) does not parse from three comments on (four under a parenthesised import block) - repo fix 72f3dbc
EXTRA += [("stacked-comments-%d%s" % (k, tag), "@@\n@@\n-foo\n+bar\n", _stacked(k, imp))
          for k in range(0, 7) for tag, imp in (("", ""), ("-imports", "import (\n\t\"fmt\"\n\t\"os\"\n)\n\nvar _ = fmt.Sprint(os.Args)\n\n"))]


# what stands between the package clause and the code: go/format re-parses only under some of these, and
# import "C" files are special to the import processing
HEADERS = [("none", ""), ("cgo", "// #include <stdio.h>\nimport \"C\"\n\n"), ("single", "import \"os\"\n\n"), ("grouped", "import (\n\t\"fmt\"\n\t\"os\"\n)\n\n"),
           ("cgo+single", "import \"C\"\n\nimport \"os\"\n\n"), ("dot", "import . \"math\"\n\n")]
# rewrites that PRINT as something unparseable although the tree is well-formed: a composite literal in a statement header
HDR_CTX = [("if-cond", "func f(v T) {\n\tif foo(v) {\n\t}\n}\n"), ("for-cond", "func f(v T) {\n\tfor foo(v) {\n\t}\n}\n"),
           ("switch-tag", "func f(v T) {\n\tswitch foo(v) {\n\t}\n}\n"), ("if-init", "func f(v T) {\n\tif w := foo(v); w {\n\t}\n}\n"),
           ("range-x", "func f(v T) {\n\tfor range foo(v) {\n\t}\n}\n")]
HDR_REPL = ["x == T{}", "T{x}", "struct{ a int }{1}.a > 0", "[]T{x}[0]", "map[T]bool{}[x]", "x", "(T{x})"]


def cases():
    out = []
    k = 0
    for (cn, ctx), rp in itertools.product(CTX, REPL):
        patch = "@@\n@@\n-foo\n+%s\n" % rp
        hn, hd = HEADERS[k % len(HEADERS)] if k % 3 == 0 else HEADERS[0]
        k += 1
        out.append(("%s<-%s[%s]" % (cn, rp, hn), patch.encode(), ("package p\n\n" + hd + ctx).encode()))
    for (cn, ctx), rp, (hn, hd) in itertools.product(HDR_CTX, HDR_REPL, HEADERS):
        patch = "@@\nvar x expression\n@@\n-foo(x)\n+%s\n" % rp
        out.append(("%s<-%s[%s]" % (cn, rp, hn), patch.encode(), ("package p\n\n" + hd + ctx).encode()))
    for n, p, f in EXTRA:
        out.append((n, p.encode(), f.encode()))
    return out


def main():
    ck = vlib.Check("C07")
    coq_ok, coq_log = vlib.build()
    ok, log, info = vlib.prove("C07")
    ck.proof_obligations(ok, log, info, coq_ok, coq_log)
    thorough = ck.tier == "thorough"
    cs = cases()
    scs, meta = [], []
    for j, (name, patch, src) in enumerate(cs):
        combos = list(itertools.product(("write", "print", "diff"), (False, True), (False, True), (False, True))) if thorough \
            else [(m, si, False, False) for m in ("write", "print", "diff") for si in (False, True)]
        for mode, si, sg, v in combos:
            fl = {"diff": mode == "diff", "print": mode == "print", "skip_imports": si, "skip_generated": sg, "verbose": v}
            scs.append(Scenario([("p.patch", patch)], {"a.go": src}, fl, name=name))
            meta.append((name, mode, si))
    # several files rewritten in one run (valid rewrites; sizes descending and ascending in processing order), and files an
    # interrupted earlier run may have left behind: what ends up in each Go file must parse
    def fbody(n, tag):
        return ("package p\n\n" + "".join("func %s%d() {\n\tfoo(%d)\n\tprintln(\"%s\", %d)\n}\n\n" % (tag, i, i, tag * 4, i) for i in range(n))).encode()
    MULTI = {"a_long.go": fbody(14, "long"), "b_short.go": fbody(1, "s"), "c_mid.go": fbody(5, "mid"), "d_tiny.go": b"package p\n\nfunc t() { foo(0) }\n", "e_longest.go": fbody(25, "lst")}
    junk = b"%%%% leftover of an interrupted run %%%%\n" * 40
    LEFT = {"a_long.go.gopatch.tmp": junk, "a_long.go.tmp": junk, ".a_long.go.tmp": junk, "a_long.go.0.tmp": junk, "a_long.go~": junk, "b_short.go.gopatch.tmp": junk,
            "d_tiny.go.gopatch.tmp": junk, "d_tiny.go.tmp": junk}
    multi_scs = []
    for si in (False, True):
        for v in (False, True):
            multi_scs.append(Scenario([("p.patch", b"@@\nvar x expression\n@@\n-foo(x)\n+bar(x, x)\n")], dict(MULTI, **LEFT), {"skip_imports": si, "verbose": v}, args=sorted(MULTI), name="multi-write"))
    multi_res = clicorr.run_scenarios(multi_scs)
    multi_emitted = [(r, fn, r["obs"]["after"][fn][1]) for r in multi_res for fn in MULTI if r["obs"]["after"].get(fn)]
    merrs = dict(zip(sorted(set(e for _, _, e in multi_emitted)), vlib.harness("parse", {"srcs": [b64(u) for u in sorted(set(e for _, _, e in multi_emitted))]})["errs"]))
    for r, fn, e in multi_emitted:
        ck.count(("multi-write", fn, tuple(sorted(k for k, v in r["sc"].flags.items() if v))))
        ck.tally("outcome", "multi-file write")
        if merrs.get(e):
            ck.violation("after a run over several files (exit status %d) %s does not parse: %s" % (r["obs"]["rc"], fn, merrs[e][:150]),
                         dict(r["sc"].describe(), rc=r["obs"]["rc"], file=fn, content=e.decode("utf-8", "replace")[:1500]))
        elif r["obs"]["rc"] == 0 and e.count(b"bar(") != MULTI[fn].count(b"foo(") :
            ck.violation("after a run over several files %s is not its own rewrite (exit status 0)" % fn,
                         dict(r["sc"].describe(), file=fn, content=e.decode("utf-8", "replace")[:1500]))
    # byte-identical files in one run whose rewrite does not parse: every copy is rejected, none is written or emptied
    DUP_SRC = b"package p\n\ntype Point struct{ X int }\n\nfunc f(p Point) bool {\n\tif isZero(p) {\n\t\treturn true\n\t}\n\treturn false\n}\n"
    DUP = {"v1/point.go": DUP_SRC, "v2/point.go": DUP_SRC, "v3/point.go": DUP_SRC, "w/other.go": b"package p\n\nfunc g(q Point) bool {\n\tok := isZero(q)\n\treturn ok\n}\n"}
    dup_scs = [Scenario([("p.patch", b"@@\nvar x expression\n@@\n-isZero(x)\n+x == Point{}\n")], dict(DUP), {"skip_imports": si}, args=sorted(DUP), name="dup-write") for si in (False, True)]
    dup_res = clicorr.run_scenarios(dup_scs)
    dup_emitted = [(r, fn, r["obs"]["after"][fn][1]) for r in dup_res for fn in DUP if r["obs"]["after"].get(fn) is not None]
    dset = sorted(set(e for _, _, e in dup_emitted))
    derrs = dict(zip(dset, vlib.harness("parse", {"srcs": [b64(u) for u in dset]})["errs"]))
    for r, fn, e in dup_emitted:
        ck.count(("dup-write", fn, r["sc"].flags.get("skip_imports")))
        ck.tally("outcome", "identical files in one run")
        if e != DUP[fn] and derrs.get(e):
            ck.violation("byte-identical files in one run: %s was overwritten with content that does not parse (%s); exit status %d"
                         % (fn, derrs[e][:100] or "empty", r["obs"]["rc"]), dict(r["sc"].describe(), rc=r["obs"]["rc"], file=fn, content=e.decode("utf-8", "replace")[:600]))
    for r in dup_res:
        if r["obs"]["rc"] == 0:
            ck.violation("a run in which three files have an unparseable rewrite exits 0", dict(r["sc"].describe(), stderr=r["obs"]["stderr"].decode("utf-8", "replace")[:600]))
        elif sum(1 for fn in DUP if fn.startswith("v") and fn.encode() in r["obs"]["stderr"]) < 3:
            ck.violation("three byte-identical files have an unparseable rewrite; stderr does not report each of them",
                         dict(r["sc"].describe(), stderr=r["obs"]["stderr"].decode("utf-8", "replace")[:900]))
    results = clicorr.run_scenarios(scs, api=True)
    # collect every emitted content, parse them all at once
    emitted = []
    for r, (name, mode, si) in zip(results, meta):
        sc, ob = r["sc"], r["obs"]
        em = None
        if r.get("load_err"):
            pass
        elif mode == "write":
            if ob["after"]["a.go"][1] != sc.files["a.go"]:
                em = ob["after"]["a.go"][1]
        elif mode == "print":
            out = ob["stdout"]
            if sc.flags["verbose"]:
                out = b"".join(l for l in out.splitlines(keepends=True) if not (l.startswith(ob["cwd"].encode()) or l.startswith(b"generated file")))
            if out != sc.files["a.go"] and (out or ob["rc"] == 0):
                em = out
        else:
            out = ob["stdout"]
            if sc.flags["verbose"]:
                out = b"".join(l for l in out.splitlines(keepends=True) if not (l.startswith(ob["cwd"].encode()) or l.startswith(b"generated file")))
            if out:
                try:
                    em = udiff.apply({b"a.go": sc.files["a.go"]}, out)[b"a.go"]
                except (udiff.DiffError, KeyError) as e:
                    ck.violation("--diff output does not apply (%s): %s" % (name, e), dict(sc.describe(), stdout=out.decode("utf-8", "replace")))
        r["emitted"] = em
        if em is not None:
            emitted.append(em)
        ff = r["facts"]["files"][0] if r["facts"].get("files") else None
        if ff and ff.get("api_out") and not ff["api_err"]:
            emitted.append(unb64(ff["api_out"]))
    uniq = sorted(set(emitted))
    errs = dict(zip(uniq, vlib.harness("parse", {"srcs": [b64(u) for u in uniq]})["errs"])) if uniq else {}
    n_bad_fmt = 0
    for r, (name, mode, si) in zip(results, meta):
        sc, ob = r["sc"], r["obs"]
        ck.count((name, mode, si, sc.flags["skip_generated"], sc.flags["verbose"]))
        rep = dict(sc.describe(), argv=ob["argv"], rc=ob["rc"], stdout=ob["stdout"].decode("utf-8", "replace")[:2000],
                   stderr=ob["stderr"].decode("utf-8", "replace")[:2000])
        if r.get("load_err"):
            ck.tally("outcome", "patch rejected")
            continue
        ff = r["facts"]["files"][0]
        em = r["emitted"]
        if em is not None and errs.get(em):
            ck.violation("gopatch (exit status %d) emitted content that does not parse (%s, %s%s): %s" %
                         (ob["rc"], name, mode, " --skip-import-processing" if si else "", errs[em][:150]),
                         dict(rep, emitted=em.decode("utf-8", "replace")))
        bad_fmt = bool(ff["fmt_parse_err"]) or bool(ff["format_err"])
        if bad_fmt:
            n_bad_fmt += 1
            ck.tally("outcome", "rewrite unparseable -> must be an error")
            if ob["rc"] == 0:
                ck.violation("the rewrite of %s is unparseable but gopatch exited 0 (%s%s)" % (name, mode, " --skip-import-processing" if si else ""), rep)
            if clicorr.tree_changes(ob):
                ck.violation("the rewrite of %s is unparseable but the file was written (%s)" % (name, mode), rep)
            body = ob["stdout"] if not sc.flags["verbose"] else b""
            if body:
                ck.violation("the rewrite of %s is unparseable but something was printed (%s)" % (name, mode), rep)
            if b"a.go" not in ob["stderr"]:
                ck.violation("the rewrite of %s is unparseable but stderr does not name the file" % name, rep)
        elif any(s["matched"] for s in ff["steps"]):
            ck.tally("outcome", "rewritten, parses")
        else:
            ck.tally("outcome", "no match / site skipped by type guard")
        if ff.get("api_panic"):
            ck.tally("api", "panic (C08)")
        elif ff["api_err"]:
            ck.tally("api", "error")
        elif ff.get("api_out"):
            a = unb64(ff["api_out"])
            ck.tally("api", "ok")
            if errs.get(a):
                ck.violation("library API returned content that does not parse (%s): %s" % (name, errs[a][:150]),
                             dict(rep, api=a.decode("utf-8", "replace")))
        if r["mismatches"]:
            ck.mismatch("driver model and gopatch disagree (%s %s): %s" % (sc.name, sc.flags, "; ".join(r["mismatches"][:3])),
                        dict(rep, mismatches=r["mismatches"]), "corr:cli/run (Model/Cli.v run vs main.go mainCmd.Run)")
    ck.notes["runs_with_unparseable_rewrite"] = n_bad_fmt
    ck.sample({"name": cs[0][0], "patch": cs[0][1].decode(), "file": cs[0][2].decode()})
    ck.sample({"name": cs[100][0], "patch": cs[100][1].decode(), "file": cs[100][2].decode()})
    ck.cov["rule"] = ("%d (context x replacement) pairs: identifier foo in %d syntactic contexts (type positions, labels, statements...) "
                      "replaced by %d expressions most of which do not fit, + %d statement-level nonsense patches; each x {write, print, diff} "
                      "x --skip-import-processing on/off (%s); every emitted content (file after, stdout, diff applied, API result) is parsed "
                      "with go/parser; when the formatted rewrite does not parse: status != 0, nothing written/printed, stderr names the file; "
                      "all runs compared with the extracted Coq model. distinct = distinct (pair, mode, flags)"
                      % (len(CTX) * len(REPL), len(CTX), len(REPL), len(EXTRA), "x skip-generated x -v" if thorough else ""))
    ck.cov["trusted_base"] = [
        "Coq 8.16.1 kernel; no axioms (Properties/C07.v closed under the global context)",
        "oracle hypothesis of ONE theorem (C07_unparseable_is_error): process_rejects (imports.Process rejects unparseable input) — exercised on every case, not proved; "
        "C07_emitted_parses / C07_api_parses hold for every behaviour of imports.Process since gopatch parses what it emits (repo fix 72f3dbc)",
        "extraction + OCaml driver + lib/clicorr.py; go/parser as the judge of 'parses'",
    ]
    ck.assumptions = ["imports.Process(FormatOnly) rejects input that does not parse (oracle, for the error-reporting theorem only)", "go/parser with AllErrors is the definition of 'parses as a Go source file'"]
    return ck.finish()


if __name__ == "__main__":
    import sys
    sys.exit(main())
