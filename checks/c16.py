"""C16 — failures never leave half-written files and are always reported."""
import os, re, shutil, subprocess
import vlib, clicorr
from clicorr import Scenario
from vlib import hx, sx

P_OK = b"@@\n@@\n-baz()\n+qux()\n"
P_UPDATE = b"@@\nvar x expression\n@@\n-foo()\n+foo(x)\n"
P_REFORMAT = b"@@\n@@\n-bad\n+1+2\n"
P_SELECTOR = b"@@\nvar x expression\n@@\n-wrap(x)\n+pkg.x\n"          # fails where x is not a name
PATCHES = [("1ok.patch", P_OK), ("2update.patch", P_UPDATE), ("3reformat.patch", P_REFORMAT), ("4selector.patch", P_SELECTOR)]


def ok_src(j):
    return ("package p%d\n\nfunc f%d() {\n\tbaz()\n}\n" % (j, j)).encode()


def ok_new(j):
    return ("package p%d\n\nfunc f%d() {\n\tqux()\n}\n" % (j, j)).encode()


KINDS = {
    # the cause fragments are the libraries' own words (go/parser, the OS), not gopatch's wrapping, whose wording is free
    "unparseable-source": (b"package p\n\nfunc f( {\n", "expected", None),
    "rewrite-error": (b"package p\n\nfunc f() {\n\tfoo()\n}\n", None, None),
    "unparseable-result": (b"package p\n\nvar y bad\n", "expected", None),
    # one change succeeds on the file, another one fails after it has rewritten one of its two sites: no mixture may reach the disk
    "rewrite-error-next-to-success": (b"package p\n\nfunc f() {\n\tbaz()\n\t_ = wrap(g())\n\t_ = wrap(h)\n}\n", None, None),
    "rewrite-error-before-success": (b"package p\n\nfunc f() {\n\t_ = wrap(h)\n\t_ = wrap(g())\n\tbaz()\n}\n", None, None),
    "unreadable": (ok_src(9), "permission denied", None),
    "write-fails": (ok_src(9), "permission denied", None),
}


def matrix(thorough):
    scs, meta = [], []
    n = 4
    for kind, (src, frag, frag2) in KINDS.items():
        for pos in range(n):
            for v in ((False, True) if thorough else (False,)):
                files, chmod, uid = {}, {}, None
                for j in range(n):
                    files["d%d/f.go" % j] = src if j == pos else ok_src(j)
                sc = Scenario(PATCHES, files, {"verbose": v and kind != "write-fails"}, name="%s@%d" % (kind, pos))
                if kind == "unreadable":
                    sc.chmod = {"d%d/f.go" % pos: 0o000}
                    sc.uid = 65534
                if kind == "write-fails":
                    sc.chmod = {"d%d/f.go" % pos: 0o444, "d%d" % pos: 0o555}
                    sc.uid = 65534
                    sc.write_fail = {"d%d/f.go" % pos: "permission denied"}
                scs.append(sc)
                meta.append((kind, pos, frag, frag2))
    return scs, meta


def decode_c(s):
    return bytes(s, "latin1").decode("unicode_escape").encode("latin1")


NONEXCL = set()     # paths opened with O_CREAT but neither O_EXCL nor O_TRUNC, in the trace being parsed


def ops_of_trace(ob):
    """strace mutations -> FsProto operations (paths relative to cwd)"""
    ops = []
    NONEXCL.clear()
    cwd = ob["cwd"]
    rel = lambda p: os.path.relpath(p, cwd)
    for m in ob["mutations"]:
        name = m[0]
        if name in ("openat", "open", "creat"):
            args = m[2]
            if "O_EXCL" in args and "O_CREAT" in args:
                ops.append(["create", rel(m[1])])
            elif "O_TRUNC" in args:
                ops.append(["truncate", rel(m[1])])
            elif "O_CREAT" in args:
                ops.append(["create", rel(m[1])])
                NONEXCL.add(rel(m[1]))          # may be a file that was already there, with whatever it held
            else:
                ops.append(["openw", rel(m[1])])
        elif name in ("write", "pwrite64"):
            ret = int(m[3]) if m[3] not in ("?",) else -1
            if ret <= 0:
                continue
            mm = re.search(r'^\d+, "((?:[^"\\]|\\.)*)"', m[2])
            data = decode_c(mm.group(1))[:ret] if mm else None
            ops.append(["append", rel(m[1]), data])
        elif name in ("fchmod",):
            if m[3] == "0":
                ops.append(["chmod", rel(m[1])])
        elif name in ("rename", "renameat", "renameat2"):
            if m[3] == "0":
                ops.append(["rename", rel(m[1][0]), rel(m[1][1])])
        elif name in ("unlink", "unlinkat"):
            if m[3] == "0":
                ops.append(["unlink", rel(m[1][0])])
        else:
            ops.append([name] + [rel(p) for p in (m[1] if isinstance(m[1], list) else [m[1]])])
    return ops


def writes_of_ops(ops):
    """reconstruct the protocol instances (tmp, target, chunks, fail) an op list consists of"""
    ws, i = [], 0
    while i < len(ops):
        if ops[i][0] != "create":
            return None
        tmp = ops[i][1]
        j = i + 1
        chunks = []
        while j < len(ops) and ops[j][0] == "append" and ops[j][1] == tmp:
            chunks.append(ops[j][2]); j += 1
        if j < len(ops) and ops[j][0] == "chmod" and ops[j][1] == tmp and j + 1 < len(ops) and ops[j + 1][0] == "rename" and ops[j + 1][1] == tmp:
            ws.append((tmp, ops[j + 1][2], chunks, None)); i = j + 2
        else:
            k = j - i
            if j < len(ops) and ops[j][0] == "chmod" and ops[j][1] == tmp:
                j += 1; k += 1
            if j < len(ops) and ops[j][0] == "unlink" and ops[j][1] == tmp:
                target = re.sub(r"\.\d+\.tmp$", "", tmp)
                ws.append((tmp, target, chunks, k)); i = j + 1
            else:
                return None
    return ws


def fs_case(ob, sc, ops):
    ws = writes_of_ops(ops)
    orig = [[hx(rel), hx(v[1])] for rel, v in sorted(ob["before"].items()) if v[0] == "f"]
    watched = [hx(rel) for rel, v in sorted(ob["before"].items()) if v[0] == "f" and rel.endswith(".go")]
    sops = []
    for o in ops:
        if o[0] == "append":
            sops.append(["append", hx(o[1]), hx(o[2] if o[2] is not None else b"?")])
        elif o[0] in ("create", "chmod", "unlink", "truncate"):
            sops.append([o[0], hx(o[1])])
        elif o[0] == "rename":
            sops.append(["rename", hx(o[1]), hx(o[2])])
        else:
            return None, ws
    wsx = [[hx(t), hx(g), [hx(c) for c in ch], "none" if f is None else f] for t, g, ch, f in (ws or [])]
    return sx(["fsrun", ["orig"] + orig, ["watched"] + watched, ["writes"] + wsx, ["ops"] + sops]), ws


def go_files_state(ob, news):
    """-> list of problems: .go files that are neither original nor completely new"""
    bad = []
    for rel, v in ob["before"].items():
        if v[0] != "f" or not rel.endswith(".go"):
            continue
        a = ob["after"].get(rel)
        cur = a[1] if a else None
        if cur != v[1] and cur != news.get(rel):
            bad.append((rel, len(cur) if cur is not None else None, len(v[1]), len(news.get(rel, b""))))
    return bad


def big_src(j, n):
    return ("package p%d\n\nfunc f%d() {\n" % (j, j) + "\tbaz()\n" * n + "}\n").encode()


def big_new(j, n):
    return ("package p%d\n\nfunc f%d() {\n" % (j, j) + "\tqux()\n" * n + "}\n").encode()


def run_limited(sc, limit):
    """run gopatch with RLIMIT_FSIZE = limit bytes"""
    root = vlib.scratch("lim")
    try:
        clicorr.materialise(sc, root)
        cwd = os.path.join(root, "w")
        before = clicorr.snapshot(cwd)
        argv, stdin = clicorr.command_line(sc, root)
        p = subprocess.run(["prlimit", "--fsize=%d" % limit, vlib.GOPATCH] + argv, cwd=cwd, input=stdin,
                           stdout=subprocess.PIPE, stderr=subprocess.PIPE, timeout=60)
        return {"root": root, "cwd": cwd, "argv": argv, "rc": p.returncode, "stdout": p.stdout, "stderr": p.stderr,
                "before": before, "after": clicorr.snapshot(cwd)}
    finally:
        shutil.rmtree(root, ignore_errors=True)


def main():
    ck = vlib.Check("C16")
    coq_ok, coq_log = vlib.build()
    ok, log, info = vlib.prove("C16")
    ck.proof_obligations(ok, log, info, coq_ok, coq_log)
    thorough = ck.tier == "thorough"

    # ---------------- (A) every failure kind at every position of a 4-file run
    scs, meta = matrix(thorough)
    results = clicorr.run_scenarios(scs)
    for r, (kind, pos, frag, frag2) in zip(results, meta):
        sc, ob = r["sc"], r["obs"]
        ck.count(("matrix", kind, pos, sc.flags["verbose"]))
        ck.tally("phase", "failure-matrix")
        rep = dict(sc.describe(), argv=ob["argv"], rc=ob["rc"], stdout=ob["stdout"].decode("utf-8", "replace")[:2000],
                   stderr=ob["stderr"].decode("utf-8", "replace")[:2000], kind=kind, position=pos)
        bad_path = os.path.join(ob["cwd"], "d%d/f.go" % pos)
        if ob["rc"] == 0:
            ck.violation("%s at position %d: exit status 0" % (kind, pos), rep)
        err = ob["stderr"].decode("utf-8", "replace")
        if bad_path not in err and ("d%d/f.go" % pos) not in err:
            ck.violation("%s at position %d: stderr does not name the failing file: %r" % (kind, pos, err[:300]), rep)
        elif (frag and frag not in err) or (frag2 and frag2 not in err):
            ck.violation("%s at position %d: stderr does not carry the cause (%s): %r" % (kind, pos, frag, err[:300]), rep)
        elif not frag:
            # the cause is gopatch's own wording: require that something is said beyond naming the file
            line = next((l for l in err.split("\n") if "d%d/f.go" % pos in l), "")
            if len(line.replace(bad_path, "").replace("d%d/f.go" % pos, "").strip(' :"')) < 8:
                ck.violation("%s at position %d: stderr names the file but gives no cause: %r" % (kind, pos, err[:300]), rep)
        for j in range(4):
            rel = "d%d/f.go" % j
            a = ob["after"].get(rel)
            cur = a[1] if a else None
            if j == pos:
                if kind != "unreadable" and cur != sc.files[rel]:
                    ck.violation("%s at position %d: the failing file was modified" % (kind, pos), rep)
            elif cur != ok_new(j):
                ck.violation("%s at position %d changed the result for file %d (expected it patched as when run alone)" % (kind, pos, j), rep)
        leftovers = [p for p in ob["after"] if p.endswith(".tmp")]
        if leftovers:
            ck.violation("%s at position %d: temporary files left behind: %s" % (kind, pos, leftovers), rep)
        if r["mismatches"]:
            ck.mismatch("driver model and gopatch disagree (%s): %s" % (sc.name, "; ".join(r["mismatches"][:3])),
                        dict(rep, mismatches=r["mismatches"]), "corr:cli/run (Model/Cli.v run vs main.go mainCmd.Run)")
    # missing path / missing patch: reported, nothing processed
    for what in ("missing-path", "missing-patch", "missing-list", "list-names-missing-patch", "list-names-bad-patch", "only-list-names-missing-patch"):
        for v in (False, True):
            sc = Scenario(PATCHES[:1], {"a.go": ok_src(0), "b.go": ok_src(1)}, {"verbose": v}, name=what)
            root = vlib.scratch("mp")
            try:
                clicorr.materialise(sc, root)
                cwd = os.path.join(root, "w")
                before = clicorr.snapshot(cwd)
                argv, _ = clicorr.command_line(sc, root)
                if what == "missing-path":
                    argv = argv + ["nope/missing.go"]
                    name = "nope/missing.go"
                elif what == "missing-patch":
                    argv = ["-p", os.path.join(root, "patches", "absent.patch")] + argv
                    name = "absent.patch"
                else:
                    # a list of patches (-P) next to a good -p (or alone): the list, or a patch it names, cannot be loaded
                    lst = os.path.join(root, "patches", "list.txt")
                    cause = b"no such file"
                    if what == "missing-list":
                        name = "list.txt"
                    elif what.endswith("missing-patch"):
                        open(lst, "w").write(os.path.join(root, "patches", "absent.patch") + "\n")
                        name = "absent.patch"
                    else:
                        open(os.path.join(root, "patches", "broken.patch"), "w").write("this is not a patch\n")
                        open(lst, "w").write(os.path.join(root, "patches", "broken.patch") + "\n")
                        name = "broken.patch"; cause = b"broken.patch"
                    argv = (["-P", lst] + argv[2:]) if what.startswith("only-") else (argv[:2] + ["-P", lst] + argv[2:])
                rc, out, err = vlib.run_gopatch(argv, cwd)
                after = clicorr.snapshot(cwd)
                ck.count((what, v)); ck.tally("phase", what)
                rep = {"argv": argv, "rc": rc, "stderr": err.decode("utf-8", "replace")}
                if rc == 0:
                    ck.violation("%s: exit status 0" % what, rep)
                if name.encode() not in err or (cause if what not in ("missing-path", "missing-patch") else b"no such file") not in err:
                    ck.violation("%s: stderr does not name the path and the cause: %r" % (what, err[:300]), rep)
                if before != after:
                    ck.violation("%s: files were modified although the run was refused" % what, rep)
            finally:
                shutil.rmtree(root, ignore_errors=True)

    # ---------------- (B) file-size limit reached after 0..n bytes
    N = 400
    files = {"a/f.go": big_src(0, N), "b/f.go": big_src(1, N // 4), "c/f.go": big_src(2, N * 2)}
    news = {"a/f.go": big_new(0, N), "b/f.go": big_new(1, N // 4), "c/f.go": big_new(2, N * 2)}
    limits = sorted(set([0, 1, 100, 511, 512, 1000, len(news["b/f.go"]) - 1, len(news["b/f.go"]), len(news["a/f.go"]) - 1,
                         len(news["a/f.go"]), 4096, len(news["c/f.go"]) - 1, len(news["c/f.go"])] +
                        (list(range(0, len(news["c/f.go"]) + 100, 97)) if thorough else [])))
    lim_scs = [(Scenario(PATCHES[:1], files, {}, name="fsize=%d" % l), l) for l in limits]
    for (sc, l), ob in zip(lim_scs, vlib.pmap(lambda x: run_limited(*x), lim_scs)):
        ck.count(("fsize", l)); ck.tally("phase", "fsize-limit")
        rep = dict(name=sc.name, limit=l, rc=ob["rc"], stderr=ob["stderr"].decode("utf-8", "replace")[:1000],
                   sizes={k: len(v) for k, v in news.items()})
        bad = go_files_state(ob, news)
        if bad:
            ck.violation("write cut short by a %d-byte file size limit left a half-written Go file: %s (rel, size now, original size, new size)"
                         % (l, bad), rep)
        should_fail = any(len(v) > l for v in news.values())
        if should_fail and ob["rc"] == 0:
            ck.violation("a write failed under a %d-byte limit but the exit status is 0" % l, rep)
        if should_fail and b"file too large" not in ob["stderr"]:
            ck.violation("a write failed under a %d-byte limit but stderr does not say why: %r" % (l, ob["stderr"][:200]), rep)
        for rel, v in news.items():
            if len(v) > l and rel.encode() not in ob["stderr"]:
                ck.violation("write of %s failed under a %d-byte limit but stderr does not name it" % (rel, l), rep)

    # ---------------- (B2) a file whose name is close to NAME_MAX (the temporary file's name must not depend on it: fix 76a8c7e),
    # with and without writes that are cut short: every Go file holds its original or its complete new content
    longname = "l/" + "x" * 245 + ".go"
    files2 = {"a/f.go": big_src(0, N), longname: big_src(1, N), "z/f.go": big_src(2, N)}
    news2 = {"a/f.go": big_new(0, N), longname: big_new(1, N), "z/f.go": big_new(2, N)}
    lim2 = [0, 512, 1024, 4096, len(news2[longname]) - 1, 1 << 20] + (list(range(0, len(news2[longname]) + 200, 211)) if thorough else [])
    lim2_scs = [(Scenario(PATCHES[:1], files2, {}, name="longname fsize=%d" % l), l) for l in sorted(set(lim2))]
    for (sc, l), ob in zip(lim2_scs, vlib.pmap(lambda x: run_limited(*x), lim2_scs)):
        ck.count(("fsize-longname", l)); ck.tally("phase", "fsize-limit + file name close to NAME_MAX")
        rep = dict(name=sc.name, limit=l, rc=ob["rc"], stderr=ob["stderr"].decode("utf-8", "replace")[:1000], sizes={k[:20]: len(v) for k, v in news2.items()})
        bad = go_files_state(ob, news2)
        if bad:
            ck.violation("a file name of 248 bytes and writes limited to %d bytes: a Go file is neither original nor complete: %s"
                         % (l, [(b[0][:24],) + tuple(b[1:]) for b in bad]), rep)
        should_fail = any(len(v) > l for v in news2.values())
        if should_fail and ob["rc"] == 0:
            ck.violation("a write failed under a %d-byte limit but the exit status is 0" % l, rep)
        if not should_fail and (ob["rc"] != 0 or any(ob["after"].get(rel, (None, None))[1] != v for rel, v in news2.items())):
            ck.violation("a file whose name is 248 bytes long cannot be rewritten in place (exit %d): %s" % (ob["rc"], ob["stderr"].decode("utf-8", "replace")[:160]), rep)
        for rel, v in news2.items():
            if len(v) > l and rel.encode()[:40] not in ob["stderr"]:
                ck.violation("write of %s... failed under a %d-byte limit but stderr does not name it" % (rel[:24], l), rep)

    # ---------------- (C) system-call traces: conformance with the protocol + safety of every prefix (in the model)
    injections = [None, "write:error=ENOSPC:when=1", "write:error=ENOSPC:when=2", "write:error=EIO:when=3",
                  "fchmod:error=EPERM:when=1", "fchmod:error=EPERM:when=2", "renameat:error=EACCES:when=1",
                  "renameat:error=EXDEV:when=3", "renameat:error=EACCES:when=2", "write:error=EDQUOT:when=2"]
    if thorough:
        injections += ["write:error=ENOSPC:when=%d" % k for k in range(3, 8)] + ["renameat:error=EACCES:when=2"]
    small = {"a/f.go": big_src(0, 3), "b/f.go": big_src(1, 2), "c/f.go": big_src(2, 5)}
    small_new = {"a/f.go": big_new(0, 3), "b/f.go": big_new(1, 2), "c/f.go": big_new(2, 5)}
    st_scs = [(Scenario(PATCHES[:1], small, {}, name="trace inject=%s" % inj), inj) for inj in injections]
    obs = vlib.pmap(lambda x: clicorr.execute_strace(x[0], inject=x[1]), st_scs, workers=8)
    cases, keep = [], []
    for (sc, inj), ob in zip(st_scs, obs):
        ck.count(("trace", inj)); ck.tally("phase", "strace-trace")
        ops = ops_of_trace(ob)
        rep = dict(name=sc.name, inject=inj, rc=ob["rc"], stderr=ob["stderr"].decode("utf-8", "replace")[:600],
                   ops=[[o[0]] + [x if isinstance(x, str) else (x or b"").decode("utf-8", "replace")[:40] for x in o[1:]] for o in ops])
        bad = go_files_state(ob, small_new)
        if bad:
            ck.violation("after injected fault %s a Go file is neither original nor complete: %s" % (inj, bad), rep)
        for o in ops:
            if o[0] == "rename" and o[1] in NONEXCL and o[2].endswith(".go"):
                ck.violation("the file renamed over %s (%s) was opened with O_CREAT but neither O_EXCL nor O_TRUNC: a file of that name left by an "
                             "interrupted run keeps its tail, and the mixture replaces the source" % (o[2], o[1]), rep)
        fired = any("INJECTED" in (c[4] or "") for c in ob["calls"])
        if inj:
            ck.tally("injection", "fired" if fired else "never reached (the run makes fewer such calls)")
        if inj and "error" in inj and fired and ob["rc"] == 0:
            ck.violation("injected fault %s was not reported (exit 0)" % inj, rep)
        case, ws = fs_case(ob, sc, ops)
        if case is None:
            ck.mismatch("trace contains an operation outside the protocol alphabet (%s)" % inj, rep,
                        "corr:fsproto (Model/FsProto.v run_ops vs system calls of writeFileAtomic)")
            continue
        cases.append(case); keep.append((sc, inj, ob, ops, ws, rep))
    for (sc, inj, ob, ops, ws, rep), res in zip(keep, vlib.model(cases)):
        if res[0] != "result":
            ck.mismatch("model error on trace: %r" % (res,), rep, "corr:fsproto")
            continue
        conforms, safe = res[1] == "1", res[2] == "1"
        if not safe:
            ck.violation("the observed system-call sequence passes through a state in which a Go file is neither original nor complete "
                         "(a crash at that point leaves it half-written); inject=%s" % inj, rep)
        elif not conforms or ws is None:
            ck.mismatch("system-call trace is not a run of the modelled write protocol (inject=%s)" % inj, rep,
                        "corr:fsproto (Model/FsProto.v run_ops vs system calls of writeFileAtomic)")
    # ---------------- (D) real crash points: SIGKILL delivered at the k-th write / fchmod / rename
    kills = ["write:signal=SIGKILL:when=%d" % k for k in range(1, 4)] + ["fchmod:signal=SIGKILL:when=%d" % k for k in range(1, 4)] + \
            ["renameat:signal=SIGKILL:when=%d" % k for k in range(1, 4)] + ["close:signal=SIGKILL:when=%d" % k for k in ((3, 5, 7, 9, 11) if not thorough else range(1, 16))]
    k_scs = [(Scenario(PATCHES[:1], small, {}, name="crash %s" % inj), inj) for inj in kills]
    for (sc, inj), ob in zip(k_scs, vlib.pmap(lambda x: clicorr.execute_strace(x[0], inject=x[1]), k_scs, workers=8)):
        ck.count(("crash", inj)); ck.tally("phase", "crash-point")
        bad = go_files_state(ob, small_new)
        if bad:
            ck.violation("process killed at %s: a Go file is neither original nor complete: %s" % (inj, bad),
                         dict(name=sc.name, inject=inj, rc=ob["rc"]))
    # ---------------- (E) a standard output that cannot be written (--print-only / -d > /dev/full): every file that could not
    # be processed is still named, whatever its neighbours are (an unmatched file's echo failing used to end the run: fix)
    import itertools as _it
    KIND_SRC = {"bad": b"package p\n\nfunc f( {\n", "nomatch": b"package p\n\nfunc f() { other() }\n", "match": b"package p\n\nfunc f() { baz() }\n"}
    e_cases = [(mode, ks) for mode in ("print", "diff") for ks in _it.product(("bad", "nomatch", "match"), repeat=3)]
    def run_full(c):
        mode, ks = c
        sc = Scenario([("p.patch", b"@@\n@@\n-baz()\n+qux()\n")], {"f%d.go" % i: KIND_SRC[k] for i, k in enumerate(ks)}, {mode: True},
                      name="stdout full %s %s" % (mode, "/".join(ks)))
        root = vlib.scratch("full")
        try:
            clicorr.materialise(sc, root)
            cwd = os.path.join(root, "w")
            before = clicorr.snapshot(cwd)
            argv, stdin = clicorr.command_line(sc, root)
            with open("/dev/full", "wb") as full:
                p_ = subprocess.run([vlib.GOPATCH] + argv, cwd=cwd, input=stdin, stdout=full, stderr=subprocess.PIPE, timeout=60)
            return sc, {"argv": argv, "rc": p_.returncode, "stderr": p_.stderr, "changed": clicorr.snapshot(cwd) != before}
        finally:
            shutil.rmtree(root, ignore_errors=True)
    for (mode, ks), (sc, ob) in zip(e_cases, vlib.pmap(run_full, e_cases, workers=8)):
        ck.count(("stdout-full", mode, ks)); ck.tally("phase", "stdout-unwritable")
        rep = dict(sc.describe(), argv=ob["argv"], rc=ob["rc"], stderr=ob["stderr"].decode("utf-8", "replace")[:2000])
        writes = any(k == "match" for k in ks) or (mode == "print" and any(k == "nomatch" for k in ks))
        if (writes or "bad" in ks) and ob["rc"] == 0:
            ck.violation("standard output cannot be written (%s, files %s) but the exit status is 0" % (mode, "/".join(ks)), rep)
        for i, k in enumerate(ks):
            if k == "bad" and ("f%d.go" % i).encode() not in ob["stderr"]:
                ck.violation("standard output cannot be written (%s, files %s): f%d.go does not parse but stderr does not name it"
                             % (mode, "/".join(ks), i), rep)
        if writes and b"no space left" not in ob["stderr"]:
            ck.violation("standard output cannot be written (%s, files %s) and stderr does not say so" % (mode, "/".join(ks)), rep)
        if ob["changed"]:
            ck.violation("a file changed in %s mode" % mode, rep)
    ck.sample({"phase": "failure-matrix", "kind": "rewrite-error", "position": 2, "patches": [p[1].decode() for p in PATCHES]})
    ck.sample({"phase": "strace-trace", "inject": injections[1], "ops": keep[1][5]["ops"] if len(keep) > 1 else None})
    ck.cov["rule"] = ("(A) 5 failure kinds (unparseable source, rewrite error, unparseable result, unreadable file, write refused) at each "
                      "of 4 positions of a 4-file run, + missing path, + missing patch: exit != 0, stderr names path and cause, every other "
                      "file patched exactly as alone, failing file untouched, no temp file left; compared with the Coq driver model. "
                      "(B) RLIMIT_FSIZE at %d limits from 0 to beyond the largest file on a 3-file run: each Go file original or complete. "
                      "(C) %d runs under strace with injected write/fchmod/rename errors and short writes: the system-call sequence is mapped to "
                      "FsProto operations; the model decides that it is exactly a run of the protocol and that every prefix is safe. "
                      "(D) %d real crash points: SIGKILL at the k-th write/fchmod/rename/close. (E) --print-only and -d into /dev/full on all 27 "
                      "3-file runs over {unparseable, unmatched, matched}: non-zero status, every unparseable file named, the write failure reported. distinct = distinct (phase, parameters)"
                      % (len(limits), len(st_scs), len(k_scs)))
    ck.cov["trusted_base"] = [
        "Coq 8.16.1 kernel; no axioms (Properties/C16.v closed under the global context)",
        "POSIX: rename(2) replaces the target atomically; writing one file does not affect another (assumed, not modelled below the operation level)",
        "strace as observer and fault injector; the mapping system call -> FsProto operation in checks/c16.py",
        "extraction + OCaml driver (fam_fs.ml, fam_cli.ml) + lib/clicorr.py",
    ]
    ck.assumptions = ["kernel crash semantics beyond per-operation atomicity (e.g. loss of unsynced data after power failure) are out of scope: the protocol does not fsync",
                      "engine/format/imports are oracles of the loop model"]
    return ck.finish()


if __name__ == "__main__":
    import sys
    sys.exit(main())
