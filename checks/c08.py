"""C08 — no input makes gopatch crash or hang."""
import os, re, shutil, subprocess, resource
import vlib, corpus, enginecorr, enginecheck, enginegen
from c01 import TRUSTED
from vlib import b64, unb64, hx, sx

TIME_LIMIT = 20          # seconds per gopatch run (typical: milliseconds)
MEM_LIMIT = 4 << 30      # address space

VOCAB = ["(", ")", "{", "}", "[", "]", ",", ".", "...", "func", "import", "package", "var", "type", "const", "x", "foo", ":=", "=", "+", "-", "@@",
         "#", "\"", "'", "`", "/*", "*/", "//", "\n", ";", ":", "<-", "*", "&", "go", "defer", "for", "range", "if", "else", "switch", "case", "return",
         "struct", "interface", "map", "chan", "_", "0", "1.5e3", "\"s\"", "identifier", "expression", "\t", " ", "\r", "\x00", "\xff", "\xef\xbb\xbf"]

# pgo sources that stress the token scanner of pgo/augment (unfinished headers, nested func types, import forms)
SCANNER_SEEDS = [
    "func foo(", "func (", "x(func(", "func (r", "func (r T", "func (r T) m", "func (r T) m(", "func (r T) m(a int", "func f() (", "func f() (int",
    "func f(...", "func f(a ...", "func f(a ...int", "func f(..., x int) (..., error) {\n ...\n}", "func(", "func", "func()", "func() (", "f(func(a, b int, ...) (..., error) { ... })",
    "import", "import (", "import (\n\"a\"", "import .", "import x", "import \"a\"", "import (\n)\nimport", "import ()", "package", "package p", "package p;", "package p\nimport",
    "package p\n\nimport \"a\"\n\nfunc (", "...", "foo...", "...foo", "...\nfoo", "f(...)", "f(a...)", "{", "{ ...", "{ ... }", "type", "var", "const", "type T struct { ... }",
    "func f(a func(b func(c func(", "func (a.b) m()", "func f(a.B, ...) {}", "func f(x, y int, ...) {}", "func f(x, y, ...) {}", "for ... { ... }", "f(..., ...)", "a, ... := f(...)",
    "func f(...) (...) { ... }", "func (...) f(...)", "func (r ...) f()", "func f(func(...), ...)", "x := func(...) { ... }", "go func(...) { ... }(...)",
    "func Map[T any](xs []T, f func(T) T) []T { ... }", "func Keys[M ~map[K]V, K comparable](m M) []K {\n ...\n}", "type L[T any] struct { ... }", "x[...]", "f[...](...)",
    "func (l *L[T]) Push(v T, ...) {}", "func f[", "func f[T", "var x [...]int", "type F func(...) (...)", "switch ... { case ...: ... }", "select { ... }",
    ") ) )", "( ( (", "func ) (", "import ) \"x\"", "func f(a int) (b int, ...", "func f[T any](...) {}", "func f(a ...func(...))",
]

# every kind of statement on '-', '+' and context lines (compile paths that few patches reach: unlabelled branch statements, ...)
STMT_VOCAB = ["break", "continue", "fallthrough", "return", "goto done", "break outer", "continue outer", "done:\n\treturn", "x++", "x--", "ch <- 1", "<-ch", ";",
              "{\n}", "go f()", "defer f()", "var v int", "const c = 1", "type T int", "if x {\n}", "if x {\n} else {\n}", "for {\n}", "for i := range xs {\n}",
              "for range ch {\n}", "switch {\n}", "switch x {\ncase 1:\n\tbreak\n}", "switch v := x.(type) {\n}", "select {\n}", "select {\ncase <-ch:\n\tcontinue\n}",
              "x, y = y, x", "x := 1", "x += 1", "f()", "return 1, nil", "_ = x", "var (\n\ta = 1\n)", "x <<= 2", "x &^= y", "*p = 1", "a[i] = 2", "s.f = 3", "func() {}()"]

ILL_TYPED = [
    ("", "foo(...)\n-x := 1", "... := 1", "foo()\n\tx := 1\n\t_ = x"),
    # (meta, minus, plus, file instance of minus) : metavariables where only names can go, expression results in name slots ...
    ("var x expression", "f(x)", "x.y", "f(g())"),
    ("var x expression", "f(x)", "y.x", "f(g())"),
    ("var x expression", "f(x)", "func x() {}", "f(1)"),
    ("var x expression", "f(x)", "T{x: 1}", "f(a.b)"),
    ("var x expression", "f(x)", "var x int", "f(1 + 2)"),
    ("var x expression", "f(x)", "x := 1", "f(h())"),
    ("var x expression", "f(x)", "goto x", "f(1)"),
    ("var x expression", "f(x)", "x: f()", "f(1)"),
    ("var x expression", "f(x)", "struct{ x int }{}", "f(2)"),
    ("var x expression", "f(x)", "func(x int) {}", "f(2)"),
    ("var x expression", "f(x)", "x(x)(x)", "f(func() {})"),
    ("var x expression", "f(x)", "x[x]", "f(<-c)"),
    ("var x expression", "f(x)", "*x", "f(1)"),
    ("var x expression", "f(x)", "interface{ x() }(nil)", "f(1)"),
    ("var x expression", "f(x)", "for x := range y {}", "f(a())"),
    ("var x expression", "f(x)", "switch x := y.(type) {}", "f(a())"),
    ("var x identifier", "f(x)", "x.x.x", "f(a)"),
    ("var x identifier", "var x int", "var x, x int", "var a int"),
    ("var x identifier", "func x() {}", "func (x x) x() {}", "func a() {}"),
    ("var x identifier", "type x struct{}", "type x x", "type a struct{}"),
    ("var x identifier", "import x \"p\"\n\n-f()", "import x \"q\"\n\n+g(x)", "f()"),
    ("var x, y expression", "f(x, y)", "f(y...)", "f(1, 2)"),
    ("var x, y expression", "f(x)", "f(x, y)", "f(1)"),
    ("var x expression", "f(...)", "g(x, ...)", "f(1, 2)"),
    ("var x expression", "f(x, ...)", "g(..., ...)", "f(1, 2)"),
    ("", "f(...)", "g(...)\n+h(...)", "f(1, 2)"),
    ("", "{\n-  ...\n-}", "...", "{ a() }"),
    ("var x expression", "a, ... := f(x)", "..., b := f(x)", "a, c := f(1)"),
    ("var x expression", "x", "x", "a"),
    ("var x expression", "x + x", "x", "a + a"),
    ("var x identifier", "x", "...", "a"),
    ("var x expression", "for ... { f(x) }", "for ... { ... }", "for i := 0; i < 3; i++ { f(i) }"),
    ("var x expression", "for ... { f(x) }", "for x { ... }", "for range c { f(1) }"),
    ("var x expression", "if x { ... }", "if ... { x }", "if a { b() }"),
    ("var x expression", "f(x)", "f.(...)", "f(1)"),
    ("var x expression", "... := f(x)", "..., err := f(x)", "a := f(1)"),
    ("var x expression", "f(x)", "[...]int{x}", "f(1)"),
    ("var x expression", "f(x)", "func(...) { x }", "f(1)"),
    ("var x expression", "type T struct { ... }", "type T struct { x int; ... }", "type T struct { a int }"),
    ("var x identifier", "x: for { break x }", "for { break x }", "l: for { break l }"),
]


def ill_typed_case(rng, k):
    meta, minus, plus, inst = ILL_TYPED[k % len(ILL_TYPED)]
    def side(ch, text):
        return "".join((l if l[:1] in "-+" else ch + l) + "\n" for l in text.split("\n"))
    patch = "@@\n%s@@\n%s%s" % (meta + "\n" if meta else "", side("-", minus), side("+", plus))
    slots = ["func h() { %s }", "func h() { _ = %s }", "var v = %s", "func h() { go func() { %s }() }", "%s"]
    src = "package p\n\n" + slots[(k // len(ILL_TYPED)) % len(slots)] % inst + "\n\nfunc other() { f(z); f(1, 2); var a int; _ = a }\n"
    return patch.encode(), src.encode()


def mutate_bytes(rng, data):
    """one structural or byte-level mutation of a patch; returns (kind, bytes)"""
    lines = data.split(b"\n")
    kind = rng.choice(["truncate", "truncate-line", "del-line", "dup-line", "swap-lines", "token", "token", "token", "prefix", "bytes", "meta", "insert-vocab", "join"])
    if kind == "truncate":
        return kind, data[:rng.randrange(len(data) + 1)]
    if kind == "truncate-line":
        return kind, b"\n".join(lines[:rng.randrange(len(lines) + 1)])
    if kind == "del-line" and lines:
        i = rng.randrange(len(lines)); return kind, b"\n".join(lines[:i] + lines[i + 1:])
    if kind == "dup-line" and lines:
        i = rng.randrange(len(lines)); return kind, b"\n".join(lines[:i] + [lines[i]] * rng.randint(2, 4) + lines[i + 1:])
    if kind == "swap-lines" and len(lines) > 1:
        i, j = rng.randrange(len(lines)), rng.randrange(len(lines)); lines[i], lines[j] = lines[j], lines[i]; return kind, b"\n".join(lines)
    if kind == "token":
        toks = re.findall(rb"[A-Za-z_]\w*|\d+|\.\.\.|@@|:=|\s+|.", data, re.S)
        if toks:
            for _ in range(rng.randint(1, 3)):
                i = rng.randrange(len(toks))
                r = rng.random()
                if r < 0.4:
                    toks[i] = rng.choice(VOCAB).encode("latin-1")
                elif r < 0.7:
                    toks[i] = b""
                else:
                    toks.insert(i, rng.choice(VOCAB).encode("latin-1"))
            return kind, b"".join(toks)
    if kind == "prefix" and lines:
        i = rng.randrange(len(lines))
        if lines[i][:1] in (b"-", b"+", b" "):
            lines[i] = rng.choice([b"-", b"+", b" ", b"", b"--", b"@@"]) + lines[i][1:]
        return kind, b"\n".join(lines)
    if kind == "bytes":
        b = bytearray(data)
        for _ in range(rng.randint(1, 6)):
            if b:
                b[rng.randrange(len(b))] = rng.randrange(256)
        return kind, bytes(b)
    if kind == "meta":
        repl = rng.choice([b"var x", b"var expression", b"var x, expression", b"var x identifier", b"var x expression expression", b"var", b"x expression",
                           b"var x, y, z expression", b"var x expression; var x identifier", b"var \xff expression", b"var x expression /*", b"var x expression //"])
        return kind, re.sub(rb"(?m)^var .*$", repl, data, count=1)
    if kind == "insert-vocab":
        i = rng.randrange(len(data) + 1)
        return kind, data[:i] + "".join(rng.choice(VOCAB) for _ in range(rng.randint(1, 8))).encode("latin-1") + data[i:]
    if kind == "join":
        return kind, data + data[rng.randrange(len(data) + 1):]
    return "identity", data


def token_soup(rng):
    n = rng.randint(1, 30)
    return "".join(rng.choice(VOCAB) + rng.choice(["", " ", " ", "\n"]) for _ in range(n)).encode("latin-1")


def limits():
    resource.setrlimit(resource.RLIMIT_AS, (MEM_LIMIT, MEM_LIMIT))


def run_cli(case):
    """case: (patch bytes, {name: bytes}, flags) -> dict(rc, stderr, secs)"""
    patch, files, flags = case
    d = vlib.scratch("c08")
    try:
        with open(os.path.join(d, "p.patch"), "wb") as f:
            f.write(patch)
        for n, b in files.items():
            with open(os.path.join(d, n), "wb") as f:
                f.write(b)
        import time
        t0 = time.time()
        try:
            p = subprocess.run([vlib.GOPATCH, "-p", "p.patch"] + flags + sorted(files), cwd=d, stdin=subprocess.DEVNULL, stdout=subprocess.PIPE,
                               stderr=subprocess.PIPE, timeout=TIME_LIMIT, preexec_fn=limits)
            rc, se, so = p.returncode, p.stderr, p.stdout
        except subprocess.TimeoutExpired as e:
            rc, se, so = -999, e.stderr or b"", e.stdout or b""
        return {"rc": rc, "stderr": se.decode("utf-8", "replace")[-3000:], "stdout_len": len(so), "secs": time.time() - t0}
    finally:
        shutil.rmtree(d, ignore_errors=True)


# an uncaught panic / runtime crash.  "internal error: ..." (a panic recovered by Apply and reported as an error with exit status 1,
# /repo 122f5b5) and go/format's own "format.Node internal error" are diagnostics: counted in the evidence, not violations.
CRASH = re.compile(r"^panic:|^goroutine \d+ \[|^fatal error:|SIGSEGV|unexpected signal|^runtime:", re.M)
RECOVERED = re.compile(r"(?<!format\.Node )internal error: ([^\n]*)")


def verdict(o):
    if o["rc"] == -999:
        return "does not terminate within %d s" % TIME_LIMIT
    if o["rc"] < 0:
        return "killed by signal %d" % -o["rc"]
    if o["rc"] not in (0, 1):
        return "exit status %d" % o["rc"]
    m = CRASH.search(o["stderr"])
    if m:
        return "crash reported: %s" % o["stderr"][m.start():m.start() + 160].replace("\n", " | ")
    if o["rc"] == 1 and not o["stderr"].strip():
        return "exit status 1 without a diagnostic"
    if o["secs"] > 10:
        return "took %.1f s" % o["secs"]
    return None


def augment_cases(srcs):
    """model vs implementation on pgo sources; -> list of dict(impl, model)"""
    impl = vlib.harness("augment", {"srcs": [b64(s) for s in srcs], "timeout_ms": 5000})["results"]
    cases = []
    for s, r in zip(srcs, impl):
        toks = "(toks %s)" % " ".join("(%s %d %d)" % (t["k"], t["off"], t["line"]) for t in (r["toks"] or []))
        cases.append("(augment %s %d %d %s)" % (hx(s), r["eof_line"], 1 if r["scan_errs"] else 0, toks))
    models = vlib.model(cases)
    return impl, models


def main():
    ck = vlib.Check("C08")
    coq_ok, coq_log = vlib.build()
    ok, log, info = vlib.prove("C08")
    ck.proof_obligations(ok, log, info, coq_ok, coq_log)
    thorough = ck.tier == "thorough"
    rng = ck.rng
    gold = corpus.golden()
    patches = [p for c in gold for (_, p) in c["patches"]]
    files_pool = [c["inputs"] for c in gold]

    # ------------------------------------------------------------------ (A) the token scanner: model vs augment.Augment
    srcs = [s.encode() for s in SCANNER_SEEDS]
    split_models = vlib.model([sx(["split", hx(p)]) for p in patches])
    for m in split_models:
        if m[0] != "result":
            continue
        for ch in vlib.field(m, "changes"):
            for side in ("minus", "plus"):
                srcs.append(vlib.unhx(vlib.field(ch, side)[0][0]))
    for sd in SCANNER_SEEDS:                      # every prefix of every stress seed
        b = sd.encode()
        srcs += [b[:i] for i in range(len(b))]
    # many augmentations found out of order (elisions in nested parameter lists), after a leading "..." :
    # three augmentations share offset 0 and the sort must keep them in order
    LONG = ["f(...)", "x(func(...), ...)", "func(..., func(...), ...) {}", "g(func(a int, ...) (..., error) { ... }, ...)", "...", "h(..., ...)", "func(func(func(...), ...), ...)"]
    for k in range(400 if thorough else 80):
        parts = ["..."] if rng.random() < 0.8 else []
        parts += [rng.choice(LONG) for _ in range(rng.randint(8, 60))]
        srcs.append("\n".join(parts).encode())
    base = list(srcs)
    n_mut = 6000 if thorough else 900
    for k in range(n_mut):
        s = base[k % len(base)]
        r = rng.random()
        if r < 0.35:
            srcs.append(s[:rng.randrange(len(s) + 1)])
        elif r < 0.8:
            srcs.append(mutate_bytes(rng, s)[1])
        else:
            srcs.append(token_soup(rng))
    srcs = sorted(set(srcs))
    impl, models = augment_cases(srcs)
    for s, r, m in zip(srcs, impl, models):
        ck.count(("aug", s), nontrivial=bool(r["toks"]))
        ck.tally("part", "scanner")
        rep = {"part": "token scanner (augment.Augment)", "pgo_source": s.decode("latin-1"), "tokens": len(r["toks"] or [])}
        mres = m[1] if m and m[0] == "result" else None
        if r["timeout"]:
            ck.tally("scanner_outcome", "TIMEOUT")
            ck.violation("augment.Augment does not terminate on this source (model: %s)" % mres, rep); continue
        if r["panic"]:
            ck.tally("scanner_outcome", "PANIC")
            ck.violation("augment.Augment panics: %s (model: %s)" % (r["panic"][:120].replace("\n", " "), mres), rep); continue
        if mres is None:
            ck.mismatch("model error %r" % (m,), rep, "corr:augment"); continue
        if mres in ("diverges", "panics"):
            # cannot happen: Proofs/AugmentFacts.v (find_terminates)
            ck.mismatch("the model says %s" % mres, rep, "corr:augment"); continue
        if r["err"]:
            ck.tally("scanner_outcome", "scan error")
            if mres != "scan-error":
                ck.mismatch("gopatch reports %r, the model %s" % (r["err"][:80], mres), rep, "corr:augment (Model/Augment.v vs internal/pgo/augment)")
            continue
        ck.tally("scanner_outcome", "ok, %d augmentations" % min(len(r["augs"] or []), 6))
        if mres != "ok":
            ck.mismatch("gopatch augments the source, the model says %s" % mres, rep, "corr:augment (Model/Augment.v vs internal/pgo/augment)"); continue
        if len(m) > 6 and m[6] != "1":
            ck.mismatch("the go/scanner token stream is not ordered by offset with 3-byte '...' tokens (hypothesis wf of C08_augment_total)", rep,
                        "hypothesis wf of C08_augment_total (contract of go/scanner)")
            continue
        if len(m) > 5 and m[5] != "1":
            ck.mismatch("the scanner's augmentations are not of the shape the no-panic theorem of rewrite needs (augs_okb = %s)" % m[5], rep,
                        "hypothesis of C08_rewrite_in_range (ordering/disjointness of find's output)")
            continue
        ck.tally("augs_shape_ok", "yes")
        mout = vlib.unhx(m[2])
        maugs = [(a[0], int(a[1])) + ((int(a[2]),) if a[0] == "func" else (int(a[2]), int(a[3])) if a[0] == "dots" else ()) for a in m[3]]
        iaugs = [(a["t"], a["s"]) + ((int(a["named"]),) if a["t"] == "func" else (a["e"], int(a["named"])) if a["t"] == "dots" else ()) for a in (r["augs"] or [])]
        madjs = [(int(a[0]), int(a[1])) for a in m[4]]
        iadjs = [tuple(a) for a in (r["adjs"] or [])]
        if mout != unb64(r["out"]) or maugs != iaugs or madjs != iadjs:
            rep.update({"model": {"out": mout.decode("latin-1"), "augs": maugs, "adjs": madjs},
                        "gopatch": {"out": unb64(r["out"]).decode("latin-1"), "augs": iaugs, "adjs": iadjs}})
            ck.mismatch("augmentations differ: model %s / gopatch %s" % (maugs[:4], iaugs[:4]), rep, "corr:augment (Model/Augment.v vs internal/pgo/augment)")

    # ------------------------------------------------------------------ (B) whole program: byte strings as patches x Go files
    cli = []
    def add(kind, patch, files, flags=None):
        cli.append((kind, (patch, files, flags or [])))
    some_files = {"a.go": b"package p\n\nfunc h() { f(1); g(f(2), x.y); var a int; _ = a }\n\ntype T struct{ a int }\n"}
    n_cli = 5000 if thorough else 700
    for k in range(n_cli):
        gi = rng.randrange(len(gold))
        c = gold[gi]
        p = c["patches"][rng.randrange(len(c["patches"]))][1]
        kind, mp = mutate_bytes(rng, p)
        if rng.random() < 0.3:
            k2, mp = mutate_bytes(rng, mp); kind += "+" + k2
        files = dict(c["inputs"]) if rng.random() < 0.8 else some_files
        add("mutant:" + kind, mp, files, rng.choice([[], [], ["-d"], ["--print-only"], ["--skip-import-processing"]]))
    for k in range(300 if thorough else 60):
        add("random-bytes", bytes(rng.randrange(256) for _ in range(rng.randint(0, 200))), some_files)
        add("token-soup", b"@@\n@@\n" + token_soup(rng), some_files)
        add("token-soup-diff", b"@@\nvar x expression\n@@\n" + b"".join(rng.choice([b"-", b"+", b" "]) + token_soup(rng).replace(b"\n", b" ") + b"\n" for _ in range(rng.randint(1, 5))), some_files)
    for s in SCANNER_SEEDS:
        for pre in ("-", "+", " "):
            body = "".join(pre + l + "\n" for l in s.split("\n"))
            other = {"-": "+", "+": "-", " ": "-"}[pre]
            add("scanner-seed", ("@@\n@@\n" + body + other + "y\n").encode(), some_files)
    for s0 in SCANNER_SEEDS:
        if "\n" in s0:
            continue
        for i in range(1, len(s0), 1 if thorough else 2):
            add("scanner-seed-prefix", ("@@\n@@\n-" + s0[:i] + "\n+y\n").encode(), some_files)
    # target files with //line directives (token.File.Line is adjusted by them) inside and around what a change rewrites
    LINE_PATCHES = [b"@@\n@@\n-a()\n-b()\n+c()\n", b"@@\n@@\n x()\n-a()\n", b"@@\nvar v expression\n@@\n-a(v)\n+c(v)\n", b"@@\n@@\n-a()\n+c(\n+  1,\n+)\n"]
    for nline in (1, 40, 100000, 200000000, 2000000000):
        for body in ("\tx()\n//line x.go:%d\n\ta()\n\tb()\n\tz()\n", "\tx()\n\ta(\n//line x.go:%d\n\t)\n\tb()\n", "\tx()\n\ta()\n/*line y.go:%d:7*/\tb()\n\tz()\n",
                     "\tx()\n\ta(q, //line z.go:%d\n\t)\n\tb()\n"):
            src = ("package p\n\nfunc f() {\n" + body % nline + "}\n").encode()
            for lp in LINE_PATCHES:
                add("line-directive", lp, {"a.go": src})
    for si, st in enumerate(STMT_VOCAB):
        other = STMT_VOCAB[(si * 7 + 3) % len(STMT_VOCAB)]
        body = "for {\n\tmark()\n\t%s\n}" % st.replace("\n", "\n\t")
        src = ("package p\n\nfunc h() {\nouter:\n\t" + body.replace("\n", "\n\t") + "\ndone:\n\treturn\n}\n").encode()
        for form in ("-%s\n+%s\n" % (st.replace("\n", "\n-"), other.replace("\n", "\n+")),
                     " mark()\n-%s\n" % st.replace("\n", "\n-"),
                     " mark()\n %s\n+added()\n" % st.replace("\n", "\n "),
                     "-mark()\n+%s\n" % st.replace("\n", "\n+")):
            add("stmt-vocab", ("@@\n@@\n" + form).encode(), {"a.go": src})
    # change headers in every shape: only blanks between the two '@', tabs, names of every form, stray characters, runs of '@'
    HDR = ["@@", "@ @", "@  @", "@\t@", "@ \t @", "@@ ", " @@", "@ name @", "@name@", "@ name@", "@name @", "@ 1oo @", "@ a b @", "@ a-b @", "@ _ @",
           "@ \xc3\xa9t\xc3\xa9 @", "@ @ @", "@@@", "@@@@", "@ @@", "@@ @", "@", "@ ", "@ name", "@@ name", "@ name @ x", "@\x00@", "@ \x00 @", "@ . @", "@ name @\r",
           "@  \t  @  ", "@ n\tm @", "@ @\t", "@\xc2\xa0@", "@ \xe2\x80\x8b @"]
    hsrc = {"a.go": b"package p\n\nfunc h() { foo(1) }\n"}
    for h1 in HDR:
        for h2 in (["@@", h1] if h1 != "@@" else ["@@"]):
            body = "var x expression\n" + h2 + "\n-foo(x)\n+bar(x)\n"
            pt = (h1 + "\n" + body).encode("latin-1")
            add("header-form", pt, hsrc)
            add("header-form", b"@@\n@@\n-zz()\n+yy()\n\n" + pt, hsrc)            # as the second change
            add("header-form", b"# about\n\n" + pt + b"\n" + (h1 + "\n" + h2 + "\n-bar(1)\n+baz(1)\n").encode("latin-1"), hsrc)
    # metavariable sections in every shape: stray and doubled separators, declarations broken over lines, comments, empty
    # declarations, keywords and literals where names belong
    METAS = ["var x expression;", "var x expression;;", ";", ";;", ";var x expression", "var x expression;\n;", "var x expression\n;\nvar y identifier",
             "var x, y expression", "var x,\n  y expression", "var x expression; var y identifier", "var (x expression)", "var x", "var", "var x expression y",
             "var x, expression", "var , x expression", "x expression", "var x expression,", "var var expression", "var x var", "var x 1", "var 1 expression",
             "var x expression // c", "/* c */ var x expression", "var x /* c */ expression", "var x expression /*", "var x expression \"", "var x expression `",
             "var _ expression", "var x expression\nvar x identifier", "var x expression\n\n\nvar y expression", "\tvar x expression", "var\tx\texpression",
             "var x expression\r", "var x expression\x00", "var \xc3\xa9 expression", "var x \xc3\xa9", "func x()", "type x expression", "var x = expression",
             "var x := expression", "var x.y expression", "var x expression.", "var x *expression", "var x []expression", "var x ...expression"]
    for mt in METAS:
        add("meta-form", ("@@\n" + mt + "\n@@\n-foo(x)\n+bar(x)\n").encode("latin-1"), hsrc)
        add("meta-form", ("@@\n@@\n-zz()\n+yy()\n\n@@\n" + mt + "\n@@\n-foo(x)\n+bar(x)\n").encode("latin-1"), hsrc)
    # deeply nested code (calls in arguments, composite literals, function literals, blocks), several rewritten sites and
    # unchanged deep neighbours in one list: time must not explode with the depth
    def d_unary(d, leaf): return "w(" * d + leaf + ")" * d
    def d_binary(d, leaf):
        e = leaf
        for i in range(d):
            e = "w(%s, %d)" % (e, i)
        return e
    def d_lit(d, leaf):
        e = leaf
        for i in range(d):
            e = "T{A: %s, B: %d}" % (e, i)
        return e
    def d_fl(d, leaf):
        e = "use(%s)" % leaf
        for i in range(d):
            e = "func() { a%d(); %s; b%d() }()" % (i, e, i)
        return e
    DEEP_PATCH = b"@@\nvar x expression\n@@\n-same(x, x)\n+once(x)\n"
    pair = ("same(func() { if a { if b { for { switch { case c: go func() { x.y.z(%s) }() } } } } }, "
            "func() { if a { if b { for { switch { case c: go func() { x.y.z(%s) }() } } } } })")
    for shape in (d_unary, d_binary, d_lit, d_fl):
        for top in ((20, 30, 40) if not thorough else (20, 30, 40, 60)):
            lines = ["same(%s, %s)" % (shape(d, a), shape(d, b)) for d in (2, 8, 14, 17, 20, top) for a, b in (("1", "1"), ("1", "2"), ("alpha", "beta"))]
            lines += ["check(%s)" % shape(d, l) for d in (14, 20, top) for l in ("alpha", "beta")]
            lines += [pair % ab for ab in ((1, 1), (1, 2))]
            add("deep-nesting", DEEP_PATCH, {"a.go": ("package p\n\nfunc h() {\n\t" + "\n\t".join(lines) + "\n}\n").encode()})
    # lists with many elisions whose last explicit element occurs nowhere (or only too early): every way of placing the
    # sections before it must not be tried again and again - with literal elements, with distinct metavariables, with one
    # metavariable repeated, in argument lists, composite literals and statement blocks
    for k in ((6, 9) if not thorough else (5, 7, 9, 12)):
        for n in ((28, 40) if not thorough else (24, 32, 40, 64)):
            for elems, hdr in ((["1"] * k, ""),
                               (["v%d" % i for i in range(k)], "var " + ", ".join("v%d" % i for i in range(k)) + " expression\n"),
                               (["x"] * k, "var x expression\n"),
                               ((["x", "y"] * k)[:k], "var x, y expression\n")):
                for last in ("2", "1"):
                    pat = ", ".join("..., " + e for e in elems) + ", ..., " + last
                    add("many-elisions", ("@@\n%s@@\n-foo(%s)\n+bar()\n" % (hdr, pat)).encode(),
                        {"a.go": ("package p\n\nfunc h() {\n\tfoo(%s)\n\t_ = []int{%s}\n}\n" % (", ".join(["1"] * n), ", ".join(["1"] * n))).encode()})
                    add("many-elisions", ("@@\n%s@@\n-[]int{%s}\n+nil\n" % (hdr, pat)).encode(),
                        {"a.go": ("package p\n\nfunc h() {\n\t_ = []int{%s}\n}\n" % ", ".join(["1"] * n)).encode()})
            spat = "\n".join(" ...\n-s(%s)" % ("1" if i < k else "2") for i in range(k + 1))
            add("many-elisions", ("@@\n@@\n%s\n+t()\n" % spat).encode(),
                {"a.go": ("package p\n\nfunc h() {\n%s\n}\n" % "\n".join("\ts(1)" for _ in range(n))).encode()})
    # metavariables bound in the sections between the elisions and used AGAIN in the last section: the memo of the list search
    # cannot tell two placements apart from what the remaining sections need to know, and every placement is tried (F55)
    rv = "abcdefgh"
    rpatch = ("@@\nvar %s expression\n@@\n-foo(..., %s, ..., %s)\n+bar()\n" % (", ".join(rv), ", ..., ".join(rv), ", ".join(rv))).encode()
    for n in (12, 16, 30):
        add("recurring-metavars", rpatch, {"a.go": ("package p\n\nvar _ = foo(%s)\n" % ", ".join("x%d" % i for i in range(n))).encode()})
    # description comments of every shape above a change that applies, in the modes that echo them
    DESCS = ["#", "# ", "#\t", "##", "# -----", "#=====", "# text\n#\n# more", "#\n#\n#", "# \xc3\xa9", "#" + "x" * 300, "# a\n\n# b", "#!", "# %s %d %%", "#\r"]
    for dsc in DESCS:
        pt = (dsc + "\n@@\nvar x expression\n@@\n-foo(x)\n+bar(x)\n").encode("latin-1")
        for fl in (["-d"], ["--print-only"], ["-d", "--print-only"], []):
            add("description", pt, hsrc, fl)
            add("description", b"@@\n@@\n-zz()\n+yy()\n\n" + pt, hsrc, fl)
    ill = []
    for k in range(len(ILL_TYPED) * (5 if thorough else 2)):
        p, f = ill_typed_case(rng, k)
        ill.append((p, f))
        add("ill-typed", p, {"a.go": f})
    # every prefix of a few valid patches (all truncation points)
    for c in (gold if thorough else gold[::9]):
        p = c["patches"][0][1]
        for i in range(0, len(p), 1 if thorough else 3):
            add("prefix", p[:i], dict(c["inputs"]))
    outs = vlib.pmap(lambda kc: run_cli(kc[1]), cli)
    slowest = 0.0
    for (kind, case), o in zip(cli, outs):
        ck.count(("cli", case[0], tuple(sorted(case[1].items())), tuple(case[2])), nontrivial=True)
        ck.tally("part", "cli")
        ck.tally("cli_kind", kind.split("+")[0])
        ck.tally("cli_exit", o["rc"])
        slowest = max(slowest, o["secs"])
        v = verdict(o)
        m = RECOVERED.search(o["stderr"])
        if m:
            ck.tally("recovered_panics_reported_as_errors", "%s: %s" % (kind.split("+")[0], m.group(1)[:60]))
        if v:
            # F55: a metavariable bound in one section and used again in a later one defeats the memo of failed places
            ptxt = case[0].decode("latin-1")
            mvs = re.findall(r"\b(\w+)\b", (re.search(r"^var (.*) expression$", ptxt, re.M) or [None, ""])[1])
            minus = "\n".join(l for l in ptxt.split("\n") if l.startswith("-"))
            recurring = any(len(re.findall(r"\b%s\b" % re.escape(v), minus)) >= 2 for v in mvs)
            slow = o["rc"] in (-999, 2) or o["secs"] > 10
            fc = "list-search-exponential-recurring-metavariables" if (kind in ("recurring-metavars", "many-elisions") and recurring and slow) else None
            ck.violation("%s (%s patch)" % (v, kind), {"part": "command line", "kind": kind, "patch": case[0].decode("latin-1"),
                                                       "files": {n: b.decode("latin-1") for n, b in case[1].items()}, "flags": case[2],
                                                       "exit": o["rc"], "stderr": o["stderr"], "secs": round(o["secs"], 2)}, finding_class=fc)
    ck.notes["slowest_run_s"] = round(slowest, 2)

    # ------------------------------------------------------------------ (C) library API: ill-typed patches, model vs patch.File.Apply
    pairs = [("p.patch", p, "a.go", f) for p, f in ill]
    res = enginecorr.run(pairs)
    for k, (pair, o) in enumerate(zip(pairs, res)):
        ck.count(("api", pair[1], pair[3]), nontrivial=not o["skipped"])
        ck.tally("part", "api")
        r = o["impl"]
        rep = {"part": "library API", "patch": pair[1].decode(), "file": pair[3].decode()}
        if r.get("panic"):
            ck.violation("patch.Parse / File.Apply panics: %s" % r["panic"][:200].replace("\n", " "), rep); continue
        if o["skipped"]:
            ck.tally("api_outcome", "rejected at load"); continue
        ck.tally("api_outcome", ",".join(o.get("isteps") or ["-"]))
        if o["diffs"]:
            enginecheck.report(ck, "ill-typed#%d" % k, pair, o, "none", None)
    ck.sample({"part": "scanner", "source": srcs[len(srcs) // 2].decode("latin-1")})
    ck.sample({"part": "cli", "kind": cli[5][0], "patch": cli[5][1][0].decode("latin-1")})
    ck.cov["rule"] = ("(A) %d pgo sources (the '-'/'+' sides of every golden patch as split by the proved splitter, %d scanner stress seeds, their "
                      "prefixes, byte/token/line mutants, token soups) through augment.Augment with a 5 s limit, compared with the extracted "
                      "model (augmentations, rewritten bytes, position adjustments); (B) %d runs of the binary built from /repo with a %d s / 4 GiB limit: "
                      "mutants of golden patches (truncation, line deletion/duplication/swap, token replacement, prefix flips, random bytes, broken "
                      "metavariable sections) x their golden inputs x flags, random bytes, token soups, scanner seeds on -/+/context lines, "
                      "%d ill-typed patches on files where they match, every (3rd) prefix of golden patches; judged: exit status 0/1, no signal, no "
                      "panic/fatal/internal-error text, a diagnostic on exit 1; (C) the ill-typed patches through patch.Parse/File.Apply vs the "
                      "extracted engine model. non-trivial = the input has tokens / the run happened"
                      % (len(srcs), len(SCANNER_SEEDS), len(cli), TIME_LIMIT, len(ill)))
    ck.cov["trusted_base"] = TRUSTED + ["go/scanner token stream (oracle of Model/Augment.v), serialised by harness/augment.go",
                                        "the OS process limits (timeout, RLIMIT_AS) as the observation of 'hangs' and 'exhausts memory'"]
    ck.assumptions = ["PARTIAL: the theorems cover termination of the token scanner loops (find.go) for every token list and totality of the section/meta/engine "
                      "models (Gallina functions); crashes inside go/parser, go/printer, imports.Process, reflection and the Go runtime are outside any "
                      "model and are only exercised by parts B and C"]
    return ck.finish()


if __name__ == "__main__":
    import sys
    sys.exit(main())
