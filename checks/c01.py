"""C01 — a change rewrites exactly the code that is an instance of its '-' pattern."""
import vlib, enginecorr, enginegen, enginecheck


def main():
    ck = vlib.Check("C01")
    coq_ok, coq_log = vlib.build()
    ok, log, info = vlib.prove("C01")
    ck.proof_obligations(ok, log, info, coq_ok, coq_log)
    thorough = ck.tier == "thorough"
    pairs, names, metas = [], [], []
    for nm, pn, ps, fn, fs in enginegen.golden_pairs():
        pairs.append((pn, ps, fn, fs)); names.append("golden:" + nm); metas.append(None)
        for k in range(6 if thorough else 2):
            m = enginegen.mutate_go(ck.rng, fs.decode("utf-8", "replace"))
            if m:
                pairs.append((pn, ps, fn, m[1].encode())); names.append("golden-mutant(%s):%s" % (m[0], nm)); metas.append({"mutation": m[0]})
    n = 4000 if thorough else 500
    for k in range(n):
        nm, p, f, meta = enginegen.grammar_case(ck.rng, k)
        pairs.append(("p.patch", p, "a.go", f)); names.append(nm); metas.append(meta)
    for k in range(800 if thorough else 160):
        nm, p, f, meta = enginegen.stmt_case(ck.rng, k)
        pairs.append(("p.patch", p, "a.go", f)); names.append(nm); metas.append(meta)
    for k in range(300 if thorough else 60):
        nm, p, f, meta = enginegen.chain_case(ck.rng, k)
        pairs.append(("p.patch", p, "a.go", f)); names.append(nm); metas.append(meta)
    for k in range(480 if thorough else 96):
        nm, p, f, meta = enginegen.decl_case(ck.rng, k)
        pairs.append(("p.patch", p, "a.go", f)); names.append(nm); metas.append(meta)
    # near-misses that differ from an instance only in a token recorded as a valid / invalid position
    import c02 as _c02
    for j, (a, b) in enumerate(_c02.POS_ONLY):
        src = "package p\n\nfunc h() {\n\t_ = same(%s, %s)\n\t_ = same(%s, %s)\n\t_ = same(%s, %s)\n\t_ = same(%s, %s)\n}\n" % (a, b, b, a, a, a, b, b)
        pairs.append(("p.patch", b"@@\nvar x expression\n@@\n-same(x, x)\n+one(x)\n", "a.go", src.encode())); names.append("pos-only#%d" % j); metas.append({"family": "pos-only"})
    for nm, p, f, meta in enginegen.extra_pairs():
        pairs.append(("p.patch", p, "a.go", f)); names.append(nm); metas.append(meta)
    res = enginecorr.run(pairs)
    # the patterns the engine is compared on are the ones gopatch parsed: how the text of a patch becomes its '-' and '+'
    # versions (section.Split, parse.splitPatch) is tied to the front-end model on the same patches
    import frontend
    upatches = sorted(set(p[1] for p in pairs))
    for pt, fe in zip(upatches, frontend.analyse(upatches)):
        if fe["mismatches"]:
            ck.mismatch("front-end model and gopatch disagree on a patch: %s" % "; ".join(fe["mismatches"][:3]), {"patch": pt.decode("utf-8", "replace")},
                        "corr:section (Model/Section.v split / split_patch vs internal/parse/section, internal/parse.splitPatch)")
    for name, pair, o, meta in zip(names, pairs, res, metas):
        ck.count((pair[1], pair[3]), nontrivial=not o["skipped"])
        ck.tally("generator", name.split(":")[0].split("(")[0])
        if meta and "planted" in meta:
            for pl in meta["planted"]:
                ck.tally("planted_kind", pl["kind"].split(":")[0])
                ck.tally("slot", pl["slot"])
            ck.tally("family", meta["family"])
        enginecheck.report(ck, name, pair, o, "sites", meta)
    ck.sample({"case": names[0], "patch": pairs[0][1].decode(), "file": pairs[0][3].decode()[:600]})
    g = [i for i, nme in enumerate(names) if nme.startswith("grammar")][3]
    ck.sample({"case": names[g], "patch": pairs[g][1].decode(), "file": pairs[g][3].decode(), "planted": metas[g]["planted"]})
    ck.cov["rule"] = ("golden (patch, input) pairs; token-level mutants of the golden inputs (name, literal, operator, extra argument, "
                      "variadic, pointer star, := vs =, channel arrow) as near-misses around real instances; %d grammar cases: %d expression "
                      "pattern families (metavariables of both kinds, elisions, literals) instantiated with random fillers as instances, "
                      "near-misses (one mutated token) and nested instances, planted in %d syntactic slots (call argument, selector base, "
                      "composite literal, case expression, go/defer, closure, init statement, nested blocks, generics, labels ...). Each case "
                      "goes through patch.Parse/Apply of /repo and through the extracted Coq engine model on the same serialised trees; the "
                      "set of rewritten slots is compared (judge: the matcher proved sound, C01_only_instances). non-trivial = patch loads and "
                      "file parses; distinct = distinct (patch, file) texts" % (n, len(enginegen.EXPR_FAMILIES), len(enginegen.SLOTS)))
    ck.cov["trusted_base"] = TRUSTED
    ck.assumptions = ASSUME
    return ck.finish()


TRUSTED = [
    "Coq 8.16.1 kernel; no axioms (Properties/C01.v closed under the global context)",
    "Gen/Schema.v regenerated from go/ast by reflection and from astutil.Apply by probing (harness/schema.go, lib/gen_tables.py)",
    "harness/engine.go: reflection serialiser of go/ast and pgo trees (injective interning of strings and type names)",
    "go/parser and go/printer+imports.Process as oracles: the rewritten file is compared after printing and re-parsing, in a canonical form "
    "(positions erased except CallExpr.Ellipsis and TypeSpec.Assign, redundant parentheses stripped, nil = empty, no objects)",
    "the reading of the in-place site loop as the recursive function rw (DESIGN.md 2.2a) is validated by this correspondence, not proved",
]
ASSUME = ["completeness of the matcher with respect to Inst (every instance is accepted) is exercised (planted instances), not proved; "
          "counter-example class: nested non-linear patterns (F1b)"]

if __name__ == "__main__":
    import sys
    sys.exit(main())
