"""C05 — everything outside the rewritten fragments is preserved."""
import glob, os
import vlib, enginecorr, enginegen, enginecheck
from c01 import TRUSTED

GOROOT_SRC = "/usr/lib/go-1.23/src"
PKGS = ["strings", "sort", "bytes", "bufio", "container/list", "container/heap", "errors", "path", "unicode/utf8", "io", "text/tabwriter",
        "encoding/csv", "flag", "html"]
PATCHES = [
    ("len-zero", b"@@\nvar x expression\n@@\n-len(x) == 0\n+isEmptyQ(x)\n"),
    ("append-one", b"@@\nvar x, y expression\n@@\n-append(x, y)\n+appendOne(x, y)\n"),
    ("panic", b"@@\nvar x expression\n@@\n-panic(x)\n+fatalQ(x)\n"),
    ("neq-nil", b"@@\nvar x expression\n@@\n-x != nil\n+notNilQ(x)\n"),
    ("return-nil", b"@@\n@@\n-return nil\n+return zeroQ()\n"),
    ("if-err", b"@@\nvar f expression\n@@\n if err != nil {\n   ...\n-  return f\n+  return wrapQ(f)\n }\n"),
    ("inc", b"@@\nvar x expression\n@@\n-x++\n+x += 1\n"),
    ("for-range", b"@@\nvar x expression\n@@\n for ... {\n-  x = 0\n+  resetQ(&x)\n   ...\n }\n"),
    ("func-decl", b"@@\nvar f identifier\n@@\n-func f(s string) bool {\n+func f(s string) (okQ bool) {\n   ...\n }\n"),
    ("import-guard", b"@@\nvar x expression\n@@\n import \"unicode/utf8\"\n\n-utf8.RuneLen(x)\n+runeLenQ(x)\n"),
]


# patches whose '+' side is their '-' side: whatever they match must come out as it went in - every token the pattern
# does not spell out (labels, the spread of a last argument, embedded fields, tags, directions, receivers) included
IDENTITY = [
    ("id-call", b"@@\nvar f expression\n@@\n-f(...)\n+f(...)\n"),
    ("id-call-first", b"@@\nvar f, a expression\n@@\n-f(a, ...)\n+f(a, ...)\n"),
    ("id-for", b"@@\n@@\n for ... {\n-  ...\n+  ...\n }\n"),
    ("id-lit", b"@@\nvar t expression\n@@\n-t{...}\n+t{...}\n"),
    ("id-func", b"@@\nvar f identifier\n@@\n func f(...) {\n-  ...\n+  ...\n }\n"),
    ("id-method", b"@@\nvar f, r identifier\nvar t expression\n@@\n func (r t) f(...) error {\n-  ...\n+  ...\n }\n"),
    ("id-if", b"@@\nvar c expression\n@@\n-if c {\n-  ...\n-}\n+if c {\n+  ...\n+}\n"),
    ("id-struct", b"@@\nvar s identifier\n@@\n-type s struct {\n-  ...\n-}\n+type s struct {\n+  ...\n+}\n"),
    ("id-iface", b"@@\nvar s identifier\n@@\n-type s interface {\n-  ...\n-}\n+type s interface {\n+  ...\n+}\n"),
    ("id-return", b"@@\n@@\n-return ...\n+return ...\n"),
    ("id-sel", b"@@\nvar x expression\nvar y identifier\n@@\n-x.y\n+x.y\n"),
    ("id-assign", b"@@\nvar l, r expression\n@@\n-l = r\n+l = r\n"),
    ("id-stmts", b"@@\nvar x expression\n@@\n ...\n-return x\n+return x\n"),
    ("id-go", b"@@\nvar f expression\n@@\n-go f(...)\n+go f(...)\n"),
    ("id-defer", b"@@\nvar f expression\n@@\n-defer f(...)\n+defer f(...)\n"),
    ("id-index", b"@@\nvar x, i expression\n@@\n-x[i]\n+x[i]\n"),
    ("id-unary", b"@@\nvar x expression\n@@\n-&x\n+&x\n"),
]
ZOO = b"""package zoo

import (
	"fmt"
	"io"
	"sync"
)

type Server struct {
	sync.Mutex
	io.Reader
	*Config
	Name string `json:"name,omitempty"`
	a, b int
	fn   func(xs ...int) (n int, err error)
	ch   <-chan int
	out  chan<- string
}

type Store interface {
	io.Closer
	fmt.Stringer
	Get(k string) (v string, ok bool)
	~int | ~string
}

type Pair[K comparable, V any] struct {
	Key K
	Val V
}

type alias = Server

func (s *Server) Run(ctx Context, args ...string) (err error) {
	defer s.Unlock()
	go s.loop(args...)
outer:
	for i := 0; i < len(args); i++ {
		for _, c := range args[i] {
			if c == 'x' {
				continue outer
			}
			if c == 'y' {
				break outer
			}
		}
	}
scan:
	for k, v := range s.table() {
		switch {
		case k == v:
			fallthrough
		case k > v:
			break scan
		default:
			goto done
		}
	}
	for range s.ch {
	}
done:
	select {
	case v, ok := <-s.ch:
		use(v, ok)
	case s.out <- "x":
	default:
	}
	xs := append([]int{1, 2}, s.more()...)
	ys := xs[1:2:3]
	p := Pair[string, int]{Key: "k", Val: 1}
	m := map[string][]int{"a": {1}, "b": nil}
	f := func(a int, bs ...int) (int, error) { return a, nil }
	var z interface{ M() } = nil
	switch t := z.(type) {
	case nil, interface{ M() }:
		_ = t
	}
	if v, ok := m["a"]; ok && len(v) > 0 {
		return fmt.Errorf("%v %v %v %v %v", ys, p, f, *s, &m)
	} else if err = s.fn(xs...); err != nil {
		return
	}
	{
		x := 1
		x++
		x <<= 2
		_ = x
	}
	return nil
}

func variadic(prefix string, rest ...any) { fmt.Println(append([]any{prefix}, rest...)...) }

func generic[T any, U ~[]T](u U) (t T) { return u[0] }

const (
	A = iota
	B
	C = "c"
)

var (
	_, _ = fmt.Println()
	arr  = [...]int{2: 1, 2}
	fp   = (*Server).Run
)

// channel types that print without parentheses of their own
var streams <-chan <-chan int

func fanIn(in <-chan <-chan string, out chan<- <-chan string, both chan (<-chan int)) {}
"""


def toolchain_files(limit, maxsize):
    out = []
    for p in PKGS:
        for f in sorted(glob.glob(os.path.join(GOROOT_SRC, p, "*.go"))):
            if f.endswith("_test.go"):
                continue
            if os.path.getsize(f) <= maxsize:
                out.append(f)
    return out[:limit]


def main():
    ck = vlib.Check("C05")
    coq_ok, coq_log = vlib.build()
    ok, log, info = vlib.prove("C05")
    ck.proof_obligations(ok, log, info, coq_ok, coq_log)
    thorough = ck.tier == "thorough"
    files = toolchain_files(120 if thorough else 22, 40000 if thorough else 9000)
    pairs, names = [], []
    for f in files:
        src = open(f, "rb").read()
        for pn, ps in PATCHES:
            pairs.append((pn + ".patch", ps, os.path.basename(f), src)); names.append("toolchain:%s x %s" % (os.path.relpath(f, GOROOT_SRC), pn))
    # identity patches over toolchain sources and a file that holds every kind of syntax
    id_names = set()
    for f in [None] + files[:(40 if thorough else 8)]:
        src = ZOO if f is None else open(f, "rb").read()
        for pn, ps in IDENTITY:
            nm = "identity:%s x %s" % (pn, "zoo" if f is None else os.path.relpath(f, GOROOT_SRC))
            pairs.append((pn + ".patch", ps, "zoo.go" if f is None else os.path.basename(f), src)); names.append(nm); id_names.add(nm)
    # golden inputs padded with surrounding declarations (generics, labels, tags, raw strings, build constraints, closures)
    pad = b"\n\ntype padS[T any] struct {\n\tA T `json:\"a,omitempty\"`\n\tB, C string\n}\n\nfunc padF[T comparable](xs []T) (n int) {\nouter:\n\tfor i := range xs {\n\t\tfor j := range xs {\n\t\t\tif xs[i] == xs[j] {\n\t\t\t\tcontinue outer\n\t\t\t}\n\t\t}\n\t\tn++\n\t}\n\tdefer func() { _ = recover() }()\n\treturn n\n}\n\nvar padRaw = `line1\n\tline2`\n"
    for nm, pn, ps, fn, fs in enginegen.golden_pairs():
        pairs.append((pn, ps, fn, fs + pad)); names.append("golden+pad:" + nm)
    # a package clause on a context line restricts, it does not rename; near-miss package names
    for pk in ("store", "store_test", "storex", "xstore", "Store", "store_"):
        for pt in (b"@@\n@@\n package store\n\n-foo()\n+bar()\n", b"@@\n@@\n-package store\n+package store2\n\n-foo()\n+bar()\n",
                   b"@@\nvar x expression\n@@\n package store\n\n-get(x)\n+fetch(x)\n"):
            src = ("package %s\n\nfunc f() {\n\tfoo()\n\t_ = get(1)\n}\n" % pk).encode()
            pairs.append(("p.patch", pt, "a.go", src)); names.append("pkg-clause:%s" % pk)
    # declaration-level rewrites by a change that also edits the imports: the import declaration is inserted into
    # (or removed from) File.Decls, whose elements the rewrites address; neighbours must be untouched
    DECL_CHANGES = [b"-func target() {\n+func target(x int) {\n   ...\n }\n", b"-func target() {\n+func renamed() {\n   ...\n }\n",
                    b"-type T struct {\n-  ...\n-}\n+type T interface{}\n", b"-var target = 1\n+var target = 2\n",
                    b"-func (r R) target() {\n+func target() {\n   ...\n }\n"]
    IMP_EDITS = [b"+import \"fmt\"\n\n", b"+import q \"example.com/q\"\n\n", b"-import \"os\"\n+import \"example.com/newos\"\n\n", b"-import \"os\"\n\n",
                 b"+import \"fmt\"\n+import \"strings\"\n\n", b" import \"os\"\n+import \"fmt\"\n\n"]
    HEADS = [b"package p\n\n", b"package p\n\nimport \"os\"\n\n", b"package p\n\nimport (\n\t\"bytes\"\n\t\"os\"\n)\n\n",
             b"package p\n\nimport \"bytes\"\n\nimport \"os\"\n\n", b"// doc\npackage p // c\n\n"]
    BODY = [b"func before() { b() }\n\n", b"func target() { t() }\n\n", b"type T struct {\n\tA int\n}\n\n", b"var target = 1\n\n", b"func (r R) target() { m() }\n\n",
            b"func after() { os.Exit(1) }\n\n", b"var keep = []int{1, 2}\n\n"]
    kk = 0
    for dc in DECL_CHANGES:
        for ie in IMP_EDITS:
            for hd in HEADS:
                kk += 1
                if not thorough and kk % 2:
                    continue
                body = list(BODY); ck.rng.shuffle(body)
                pairs.append(("p.patch", b"@@\n@@\n" + ie + dc, "a.go", hd + b"".join(body))); names.append("decl+imports#%d" % kk)
    for k in range(600 if thorough else 120):
        nm, p, f, meta = enginegen.stmt_case(ck.rng, k)
        pairs.append(("p.patch", p, "a.go", f)); names.append(nm)
    for k in range(200 if thorough else 40):
        nm, p, f, meta = enginegen.chain_case(ck.rng, k)
        pairs.append(("p.patch", p, "a.go", f)); names.append(nm)
    for k in range(480 if thorough else 96):
        nm, p, f, meta = enginegen.decl_case(ck.rng, k)
        pairs.append(("p.patch", p, "a.go", f)); names.append(nm)
    for nm, p, f, meta in enginegen.extra_pairs():
        pairs.append(("p.patch", p, "a.go", f)); names.append(nm)
    res = enginecorr.run(pairs)
    nsites = 0
    for name, pair, o in zip(names, pairs, res):
        ck.count((pair[1], name), nontrivial=not o["skipped"])
        ck.tally("source", name.split(":")[0])
        if not o["skipped"] and o.get("mtree") is not None:
            a = enginecheck.analyse(o)
            if a:
                nsites += len(a["model_sites"])
                ck.tally("sites_in_file", min(len(a["model_sites"]), 20))
        if name in id_names and not o["skipped"]:
            r = o["impl"]
            ck.tally("identity", "%s: %s" % (name.split(" x ")[0].split(":")[1], ",".join(o.get("isteps") or ["-"])))
            if r.get("out_tree") and r.get("in_tree") and enginecorr.canon(vlib.parse_sx(r["out_tree"])) != enginecorr.canon(vlib.parse_sx(r["in_tree"])):
                ck.violation("a patch whose '+' side repeats its '-' side changed the syntax of the file (%s)" % name,
                             {"case": name, "patch": pair[1].decode(), "file": pair[3].decode("utf-8", "replace")[:4000],
                              "gopatch_output": vlib.unb64(r["out"]).decode("utf-8", "replace")[:6000] if r.get("out") else None})
                continue
            # the comparison above is blind to parentheses (the printer adds the ones precedence needs inside a rewritten
            # fragment); an identity patch adds and removes none anywhere
            outb = vlib.unb64(r["out"]) if r.get("out") else None
            if outb is not None and name.endswith("x zoo") and (outb.count(b"(") != pair[3].count(b"(") or outb.count(b"<-chan") != pair[3].count(b"<-chan")):
                bad = [l for l in outb.decode("utf-8", "replace").split("\n") if l not in pair[3].decode().split("\n")][:5]
                ck.violation("a patch whose '+' side repeats its '-' side added or removed parentheses (%s): %s" % (name, bad),
                             {"case": name, "patch": pair[1].decode(), "file": pair[3].decode("utf-8", "replace")[:4000],
                              "gopatch_output": outb.decode("utf-8", "replace")[:6000]})
                continue
        enginecheck.report(ck, name, (pair[0], pair[1], pair[2], pair[3][:3000]), o, "frame", {"must_parse": True} if name in id_names else None)
    ck.notes["rewritten_sites_total"] = nsites
    ck.notes["toolchain_files"] = len(files)
    ck.sample({"case": names[0], "patch": pairs[0][1].decode(), "file_bytes": len(pairs[0][3])})
    ck.sample({"case": names[len(files) * len(PATCHES) + 2], "patch": pairs[len(files) * len(PATCHES) + 2][1].decode()})
    ck.cov["rule"] = ("%d files of the Go toolchain's own source (%s; size-capped) x %d general patches (expression, statement-with-elision, "
                      "for-elision, function declaration, import-guarded), and every golden case padded with generic types, struct tags, "
                      "labels, closures, raw strings: the re-parsed output is compared with the input outside the sites of the extracted Coq "
                      "model (and with the model's whole output): any difference outside a rewritten fragment is a violation. "
                      "distinct = distinct (patch, file)" % (len(files), ", ".join(PKGS[:6]) + " ...", len(PATCHES)))
    ck.cov["trusted_base"] = TRUSTED
    ck.assumptions = ["import declarations are compared as (name, path) multisets (C11); their grouping is layout"]
    return ck.finish()


if __name__ == "__main__":
    import sys
    sys.exit(main())
