"""C04 — elision '...' matches any run of elements and reproduces it unchanged."""
import itertools, re
import vlib, enginecorr, enginegen, enginecheck
from c01 import TRUSTED
from vlib import unb64

SYMS = ["a", "b", "x", "..."]      # x: expression metavariable
ELEMS = ["a", "b", "c"]


VARS = ("x", "y")


def ref_match(pat, lst, binding=None, i=0, j=0, runs=None):
    """reference from the property text: shortest run first, left to right; returns (runs, binding) or None"""
    runs = [] if runs is None else runs
    binding = {} if binding is None else binding
    if i == len(pat):
        return (runs, binding) if j == len(lst) else None
    p = pat[i]
    if p == "...":
        for k in range(j, len(lst) + 1):
            r = ref_match(pat, lst, binding, i + 1, k, runs + [lst[j:k]])
            if r is not None:
                return r
        return None
    if j >= len(lst):
        return None
    if p in VARS:
        if p not in binding:
            return ref_match(pat, lst, dict(binding, **{p: lst[j]}), i + 1, j + 1, runs)
        return ref_match(pat, lst, binding, i + 1, j + 1, runs) if lst[j] == binding[p] else None
    return ref_match(pat, lst, binding, i + 1, j + 1, runs) if lst[j] == p else None


def ref_output(pat, lst):
    """elements of the rewritten list, or None when the pattern does not match"""
    r = ref_match(pat, lst)
    if r is None:
        return None
    runs, b = r
    out, ri = [], 0
    for p in pat:
        if p == "...":
            out += runs[ri]; ri += 1
        elif p in VARS:
            out.append("wrap(%s)" % b[p])
        else:
            out.append(p.upper())
    return out


def deep_patterns(rng, n):
    """longer patterns: 2-4 elisions, two metavariables that repeat, no two elisions adjacent"""
    out, seen = [], set()
    while len(out) < n:
        k = rng.randint(5, 8)
        pat = []
        for _ in range(k):
            c = rng.choice(["...", "...", "x", "x", "y", "a", "b"])
            if c == "..." and pat and pat[-1] == "...":
                c = rng.choice(["x", "y", "a"])
            pat.append(c)
        if pat.count("...") < 2 or (pat.count("x") < 2 and pat.count("y") < 2) or tuple(pat) in seen:
            continue
        seen.add(tuple(pat)); out.append(pat)
    return out


# ---- nested lists: f(g(inner...), outer...) with shared metavariables (reference = full backtracking)
NESTED = [
    (["...", "x", "..."], ["x"]), (["...", "x"], ["...", "x"]), (["x", "..."], ["x", "..."]), (["...", "x", "..."], ["...", "x", "..."]),
    (["...", "x", "...", "y", "..."], ["y", "x"]), (["...", "x", "..."], ["a", "x"]), (["x"], ["...", "x", "..."]), (["...", "x", "..."], ["x", "x"]),
]


def nested_solutions(inner, outer, il, ol):
    """all bindings under which g(inner) matches g(il) and then outer matches ol, in the order a depth-first matcher meets them"""
    out = []
    def go(pat, lst, i, j, b, k):
        if i == len(pat):
            if j == len(lst):
                k(b)
            return
        p = pat[i]
        if p == "...":
            for m in range(j, len(lst) + 1):
                go(pat, lst, i + 1, m, b, k)
            return
        if j >= len(lst):
            return
        if p in VARS:
            if p not in b:
                go(pat, lst, i + 1, j + 1, dict(b, **{p: lst[j]}), k)
            elif b[p] == lst[j]:
                go(pat, lst, i + 1, j + 1, b, k)
        elif p == lst[j]:
            go(pat, lst, i + 1, j + 1, b, k)
    go(inner, il, 0, 0, {}, lambda b: go(outer, ol, 0, 0, b, out.append))
    return out


def nested_patch(inner, outer):
    used = [v for v in VARS if v in inner + outer]
    return ("@@\nvar x, y expression\n@@\n-f(g(%s), %s)\n+h(%s)\n" % (", ".join(inner), ", ".join(outer), ", ".join(used))).encode(), used


def patterns(maxlen):
    for n in range(1, maxlen + 1):
        for p in itertools.product(SYMS, repeat=n):
            yield list(p)


def lists(maxlen):
    for n in range(0, maxlen + 1):
        for l in itertools.product(ELEMS, repeat=n):
            yield list(l)


def patch_args(pat, opener=("f(", "g("), closer=")"):
    """elisions on context lines, explicit elements as -/+ pairs"""
    lines = ["@@", "var x, y expression", "@@", "-" + opener[0], "+" + opener[1]]
    for p in pat:
        if p == "...":
            lines.append("   ...,")
        elif p in VARS:
            lines += ["-  %s," % p, "+  wrap(%s)," % p]
        else:
            lines += ["-  %s," % p, "+  %s," % p.upper()]
    lines.append(" " + closer)
    return ("\n".join(lines) + "\n").encode()


def file_args(ls, opener="f(", closer=")"):
    body = "\n".join("\t_ = %s%s%s" % (opener, ", ".join(l), closer) for l in ls)
    return ("package p\n\nfunc h() {\n%s\n}\n" % body).encode()


def patch_stmts(pat):
    lines = ["@@", "var x expression", "@@"]
    for p in pat:
        if p == "...":
            lines.append(" ...")
        elif p == "x":
            lines += ["-use(x)", "+use(wrap(x))"]
        else:
            lines += ["-%s()" % p, "+%s()" % p.upper()]
    return ("\n".join(lines) + "\n").encode()


def patch_stmts_modes(pat):
    """pat: list of (symbol, mode); mode: 'pair' (-s +S), 'del' (-s only), 'keep' (context), symbol '...' on a context line"""
    lines = ["@@", "@@"]
    for sym, mode in pat:
        if sym == "...":
            lines.append(" ...")
        elif mode == "pair":
            lines += ["-%s()" % sym, "+%s()" % sym.upper()]
        elif mode == "del":
            lines.append("-%s()" % sym)
        else:
            lines.append(" %s()" % sym)
    return ("\n".join(lines) + "\n").encode()


def ref_output_modes(pat, lst):
    base = ["..."] + [sy for sy, _ in pat] + ["..."]
    r = ref_match(base, lst)
    if r is None:
        return None
    runs, _ = r
    out, ri = list(runs[0]), 1
    for sy, mode in pat:
        if sy == "...":
            out += runs[ri]; ri += 1
        elif mode == "pair":
            out.append(sy.upper())
        elif mode == "keep":
            out.append(sy)
    return out + list(runs[ri])


def mode_patterns(rng, n):
    """statement patterns mixing replaced, deleted and kept statements with elisions in any position (also first or last on a side)"""
    out, seen = [], set()
    while len(out) < n:
        k = rng.randint(2, 5)
        pat = []
        for _ in range(k):
            sy = rng.choice(["a", "b", "c", "...", "..."])
            if sy == "..." and pat and pat[-1][0] == "...":
                sy = rng.choice(["a", "b"])
            pat.append((sy, rng.choice(["pair", "del", "del", "keep"]) if sy != "..." else ""))
        explicit = [p for p in pat if p[0] != "..."]
        if len(explicit) < 2 or not any(m in ("pair", "del") for _, m in explicit) or tuple(pat) in seen:
            continue
        seen.add(tuple(pat)); out.append(pat)
    return out


def moved_patches():
    """the ONLY elision of each side, at different places: the run moves.  k kept statements, '-...' in slot i, '+...' in slot j;
    wrapped in 'if ok {' (exact reference) or at the top level of the patch (conservation of statements)"""
    out = []
    for wrapped in (True, False):
        for k in (1, 2):
            items = ["a", "b"][:k]
            for i in range(k + 1):
                for j in range(k + 1):
                    if i == j:
                        continue
                    ind = "  " if wrapped else ""
                    lines = ["@@", "@@"] + ([" if ok {"] if wrapped else [])
                    for slot in range(k + 1):
                        if slot == i:
                            lines.append("-" + ind + "...")
                        if slot == j:
                            lines.append("+" + ind + "...")
                        if slot < k:
                            lines.append(" " + ind + items[slot] + "()")
                    lines += [" }"] if wrapped else []
                    out.append((wrapped, items, i, j, ("\n".join(lines) + "\n").encode()))
    return out


def ref_moved(items, i, j, l):
    k = len(items)
    if len(l) < k or l[:i] != items[:i] or (k - i and l[len(l) - (k - i):] != items[i:]):
        return None
    run = l[i:len(l) - (k - i)]
    return items[:j] + run + items[j:]


# result lists: written without parentheses (one unnamed result) or not at all (no result), a list all the same
RES_PATS = [["..."], ["...", "error"], ["error", "..."], ["...", "error", "..."], ["int", "...", "error"]]
RES_LISTS = [([], ""), (["error"], "error"), (["error"], "(error)"), (["int"], "int"), (["int"], "(int)"), (["int", "error"], "(int, error)"),
             (["error", "int"], "(error, int)"), (["int", "bool", "error"], "(int, bool, error)")]
# ('func r() ()' is left out: go/printer drops the empty parentheses of every function it prints, matched or not)


def results_patch(pat):
    return ("@@\nvar f identifier\n@@\n func f() (%s) {\n-  a()\n+  b()\n }\n" % ", ".join(pat)).encode()


def results_file():
    return ("package p\n\n" + "\n".join("func r%d() %s {\n\ta()\n}\n" % (n, txt) if txt else "func r%d() {\n\ta()\n}\n" % n
                                          for n, (_, txt) in enumerate(RES_LISTS))).encode()


def file_stmts(ls):
    fns = []
    for k, l in enumerate(ls):
        body = "".join("\t\t%s\n" % (("use(%s)" % e) if False else "%s()" % e) for e in l)
        fns.append("func h%d() {\n\tif ok {\n%s\t}\n}\n" % (k, body))
    return ("package p\n\n" + "\n".join(fns)).encode()


def parse_out_args(out, opener_f="f(", opener_g="g(", closer=")"):
    res = []
    for line in out.decode("utf-8", "replace").split("\n"):
        m = re.match(r"^\t_ = (.*)$", line)
        if m:
            res.append(m.group(1).strip())
    return res


def split_top(s):
    out, depth, cur = [], 0, ""
    for ch in s:
        if ch in "([{":
            depth += 1
        elif ch in ")]}":
            depth -= 1
        if ch == "," and depth == 0:
            out.append(cur.strip()); cur = ""
        else:
            cur += ch
    if cur.strip():
        out.append(cur.strip())
    return out


def main():
    ck = vlib.Check("C04")
    coq_ok, coq_log = vlib.build()
    ok, log, info = vlib.prove("C04")
    ck.proof_obligations(ok, log, info, coq_ok, coq_log)
    thorough = ck.tier == "thorough"
    pats = list(patterns(4))
    ls = base_lists = list(lists(5 if thorough else 4))
    kinds = [("call-args", ("f(", "g("), ")"), ("complit", ("F{", "G{"), "}")]
    pairs, names, meta = [], [], []
    for kind, opener, closer in kinds:
        sel = pats if (kind == "call-args" or thorough) else pats[::5]
        for pat in sel:
            pairs.append(("p.patch", patch_args(pat, opener, closer), "a.go", file_args(ls, opener[0], closer)))
            names.append("%s:%s" % (kind, " ".join(pat))); meta.append((kind, pat, opener, closer))
    # longer patterns with several elisions and two repeating metavariables, against longer lists
    deep = deep_patterns(ck.rng, 400 if thorough else 60)
    import itertools as _it
    deep_lists = [list(l) for n in range(0, 7) for l in _it.product(ELEMS, repeat=n)]
    deep_lists = deep_lists if thorough else [l for k, l in enumerate(deep_lists) if len(l) <= 4 or k % 3 == 0]
    for pat in deep:
        pairs.append(("p.patch", patch_args(pat, ("f(", "g("), ")"), "a.go", file_args(deep_lists, "f(", ")")))
        names.append("deep:%s" % " ".join(pat)); meta.append(("deep", pat, ("f(", "g("), ")"))
    # nested lists sharing metavariables
    nl = [list(l) for n in range(0, 4) for l in _it.product(["a", "b"], repeat=n)]
    for inner, outer in NESTED:
        ptxt, used = nested_patch(inner, outer)
        combos = [(il, ol) for il in nl for ol in nl if len(ol) <= 3]
        body = "\n".join("\t_ = f(g(%s), %s)" % (", ".join(il), ", ".join(ol)) if ol else "\t_ = f(g(%s))" % ", ".join(il) for il, ol in combos)
        pairs.append(("p.patch", ptxt, "a.go", ("package p\n\nfunc h0() {\n%s\n}\n" % body).encode()))
        names.append("nested:g(%s), %s" % (" ".join(inner), " ".join(outer))); meta.append(("nested", (inner, outer, used, combos), None, None))
    # statement blocks: implicit elision at both ends; explicit elements only (a pattern must not start or end with "...")
    # (a single statement is an expression pattern: every instance is rewritten, not only the first)
    spats = [p for p in pats if len(p) >= 2 and p[0] != "..." and p[-1] != "..." and "x" not in p]
    for pat in (spats if thorough else spats[::2]):
        pairs.append(("p.patch", patch_stmts(pat), "a.go", file_stmts(ls)))
        names.append("stmts:%s" % " ".join(pat)); meta.append(("stmts", pat, None, None))
    for pat in mode_patterns(ck.rng, 300 if thorough else 70):
        pairs.append(("p.patch", patch_stmts_modes(pat), "a.go", file_stmts(ls)))
        names.append("stmts-modes:%s" % " ".join(sy + (":" + m if m else "") for sy, m in pat)); meta.append(("stmts-modes", pat, None, None))
    for pat in RES_PATS:
        pairs.append(("p.patch", results_patch(pat), "a.go", results_file()))
        names.append("results:(%s)" % ", ".join(pat)); meta.append(("results", pat, None, None))
    for wrapped, items, i, j, pt in moved_patches():
        pairs.append(("p.patch", pt, "a.go", file_stmts(ls)))
        names.append("moved:%s%s -%d +%d" % ("if " if wrapped else "", " ".join(items), i, j)); meta.append(("moved", (wrapped, items, i, j), None, None))
    # which '-' elision a '+' elision reproduces: by position in the patch (closest '-' elision at or before it), not by ordinal
    ASSOC = [
        ("@@\n@@\n-start(...)\n process(...)\n+finish(...)\n", "func h() {\n\tstart(1, 2)\n\tprocess(3, 4)\n}\n"),
        ("@@\n@@\n-a(...)\n-b(...)\n+c(...)\n+d(...)\n", "func h() {\n\ta(1)\n\tb(2, 3)\n}\n"),
        ("@@\n@@\n-a(...)\n+c(...)\n-b(...)\n+d(...)\n", "func h() {\n\ta(1)\n\tb(2, 3)\n}\n"),
        ("@@\n@@\n-old := Config{...}\n cfg := Config{...}\n+use(Config{...})\n", "func h() {\n\told := Config{A: 1}\n\tcfg := Config{B: 2, C: 3}\n}\n"),
        ("@@\n@@\n-f(...)\n g(func(..., err error) {\n   ...\n })\n+h(...)\n", "func k() {\n\tf(1, 2)\n\tg(func(a int, err error) {\n\t\tbody()\n\t})\n}\n"),
        ("@@\nvar x expression\n@@\n-first(x, ...)\n+first(...)\n second(...)\n+third(...)\n", "func h() {\n\tfirst(0, 1, 2)\n\tsecond(3)\n}\n"),
        ("@@\n@@\n foo(...)\n-bar(...)\n+baz(...)\n+qux(...)\n", "func h() {\n\tfoo(1)\n\tbar(2, 3)\n}\n"),
        ("@@\n@@\n-foo(...,\n-  bar(...))\n+foo(bar(...), ...)\n", "func h() {\n\tfoo(1, 2, bar(3, 4))\n}\n"),
    ]
    # an elided run that stands for nothing where the absence of the list is syntax: 'var b Old' (no '='), 'return f()'
    for nm, pt, body, mt in enginegen.extra_pairs():
        if nm.split(":")[1] in ("valuespec-dots", "case-dots", "return-dots", "composite-empty", "params-dots", "results-dots", "struct-fields-dots",
                                  "for-dots-kinds", "for-dots-labeled", "fields-embedded", "iface-embedded", "spread-pair", "spread-both", "spread-context"):
            pairs.append(("p.patch", pt, "a.go", body)); names.append("empty-run:" + nm); meta.append(("empty-run", None, None, None))
    # an explicit elision followed by a statement that begins with any kind of token (the scanner that tells an elision from
    # a variadic '...' looks at what follows the dots)
    STARTERS = ["*p = 1", "<-done", "(*f).Close()", "func() { a() }()", "[]int{1}[0]++", "map[string]int{}[\"k\"]++", "interface{}(v).(T).M()",
                "struct{ A int }{}.A++", "chan int(nil) <- 1", "x.y()", "x := 1", "x, y = 1, 2", "if c {\n\t\ta()\n\t}", "for {\n\t\ta()\n\t}", "go a()", "defer a()",
                "return", "switch {\n\t}", "var v int", "L:\n\ta()", "goto L", "-x", "+x", "!x", "^x", "&x", "1", "\"s\"", "'c'", "{\n\t\ta()\n\t}", "select {\n\t}",
                "type T int", "const c = 1", "break", "continue"]
    for j, st in enumerate(STARTERS):
        pl = "\n".join("-" + l.replace("\t\t", "  ").replace("\t", "") for l in st.split("\n"))
        body = "func h() {\n\tbegin()\n\tmid()\n\t%s\n\tend()\n}\n" % st
        if st in ("break", "continue"):
            body = "func h() {\n\tfor {\n\t\tbegin()\n\t\tmid()\n\t\t%s\n\t}\n}\n" % st
        pairs.append(("p.patch", ("@@\n@@\n begin()\n ...\n%s\n+finished()\n" % pl).encode(), "a.go", ("package p\n\n" + body).encode()))
        names.append("dots-then#%d" % j); meta.append(("dots-then", None, None, None))
    for j, (pt, body) in enumerate(ASSOC):
        pairs.append(("p.patch", pt.encode(), "a.go", ("package p\n\n" + body).encode())); names.append("assoc#%d" % j); meta.append(("assoc", None, None, None))
    # for-headers
    for_patch = b"@@\n@@\n for ... {\n-  a()\n+  A()\n   ...\n }\n"
    for_file = b"package p\n\nfunc h() {\n\tfor i := 0; i < n; i++ {\n\t\ta()\n\t\tb()\n\t}\n\tfor k, v := range m {\n\t\ta()\n\t}\n\tfor {\n\t\ta()\n\t}\n\tfor cond() {\n\t\tb()\n\t\ta()\n\t}\n\tfor range ch {\n\t\ta()\n\t\tc()\n\t}\n}\n"
    pairs.append(("p.patch", for_patch, "a.go", for_file)); names.append("for-header"); meta.append(("for", None, None, None))
    # golden cases with elisions
    for nm, pn, ps, fn, fs in enginegen.golden_pairs():
        if b"..." in ps:
            pairs.append((pn, ps, fn, fs)); names.append("golden:" + nm); meta.append(("golden", None, None, None))
    npairs = 0
    CH = 48          # processed in chunks: a case carries a whole file tree three times (input, model, gopatch)
    def results():
        for c0 in range(0, len(pairs), CH):
            for o in enginecorr.run(pairs[c0:c0 + CH]):
                yield o
    for name, pair, o, (kind, pat, opener, closer) in zip(names, pairs, results(), meta):
        ck.count(name, nontrivial=not o["skipped"])
        ck.tally("kind", kind)
        # ---- direct oracle: reference decomposition from the property text, per (pattern, list) pair
        r = o["impl"]
        if kind in ("call-args", "complit", "deep") and not o["skipped"]:
            out = unb64(r["out"]) if r.get("out") else pair[3]
            got = parse_out_args(out)
            ls = deep_lists if kind == "deep" else base_lists
            if len(got) != len(ls):
                ck.mismatch("cannot attribute output statements to input lists for %s" % name,
                            {"patch": pair[1].decode(), "output": out.decode("utf-8", "replace")[:2000]}, "C04 sweep harness")
            else:
                for l, g in zip(ls, got):
                    npairs += 1
                    exp = ref_output(pat, l)
                    want = (opener[1] + ", ".join(exp) + closer) if exp is not None else (opener[0] + ", ".join(l) + closer)
                    norm = lambda s: re.sub(r"\s+", "", s)
                    if norm(g) != norm(want):
                        ck.violation("pattern [%s] against list [%s] in %s: expected %s, gopatch produced %s"
                                     % (" ".join(pat), " ".join(l), kind, want, g),
                                     {"patch": pair[1].decode(), "list": l, "expected": want, "got": g, "kind": kind})
        if kind == "nested" and not o["skipped"]:
            inner, outer, used, combos = pat
            got = parse_out_args((unb64(r["out"]) if r.get("out") else pair[3]))
            if len(got) == len(combos):
                for (il, ol), g in zip(combos, got):
                    npairs += 1
                    sols = nested_solutions(inner, outer, il, ol)
                    orig = "f(g(%s)%s)" % (", ".join(il), "".join(", " + e for e in ol))
                    want = "h(%s)" % ", ".join(sols[0][v] for v in used) if sols else orig
                    norm = lambda t: re.sub(r"\s+", "", t)
                    if norm(g) != norm(want):
                        # F1b: the inner list's first decomposition is final; a later one would have let the outer list match
                        fc = "nested-list-first-solution-only" if (sols and norm(g) == norm(orig) and "..." in inner and any(v in inner and v in outer for v in VARS)) else None
                        ck.violation("nested pattern f(g(%s), %s) against %s: expected %s, gopatch produced %s" % (" ".join(inner), " ".join(outer), orig, want, g),
                                     {"patch": pair[1].decode(), "target": orig, "expected": want, "got": g, "kind": kind}, finding_class=fc)
        if kind == "stmts-modes" and not o["skipped"]:
            ls = base_lists
            out = (unb64(r["out"]) if r.get("out") else pair[3]).decode("utf-8", "replace")
            blocks = re.findall(r"func h\d+\(\) \{\n\tif ok \{\n((?:\t\t.*\n|\n)*)\t\}\n\}", out)
            if len(blocks) == len(ls):
                for l, bl in zip(ls, blocks):
                    npairs += 1
                    got = [s_.strip()[:-2] for s_ in bl.split("\n") if s_.strip()]
                    exp = ref_output_modes(pat, l)
                    want = exp if exp is not None else l
                    if got != want:
                        ck.violation("statement pattern [%s] against block [%s]: expected %s, gopatch produced %s"
                                     % (" ".join(sy + (":" + m if m else "") for sy, m in pat), " ".join(l), want, got),
                                     {"patch": pair[1].decode(), "block": l, "expected": want, "got": got})
        if kind == "results":
            if o["skipped"]:
                ck.violation("a result-list pattern (%s) is rejected" % name, {"patch": pair[1].decode()})
            else:
                out = (unb64(r["out"]) if r.get("out") else pair[3]).decode("utf-8", "replace")
                for n, (l, txt) in enumerate(RES_LISTS):
                    npairs += 1
                    m = re.search(r"func r%d\(\)[^{]*\{\n\t(\w)\(\)\n\s*\}" % n, out)
                    want = "b" if ref_match(pat, l) is not None else "a"
                    if not m or m.group(1) != want:
                        # F54: the parentheses of the pattern's list are matched as tokens
                        fc = "result-list-without-parentheses" if (m and want == "b" and not txt.startswith("(")) else None
                        ck.violation("result list pattern (%s) against 'func r() %s': %s" % (", ".join(pat), txt, "not matched although the list is an instance"
                                     if want == "b" else "matched although the list is no instance"),
                                     {"patch": pair[1].decode(), "function": "func r%d() %s" % (n, txt), "output": out[:1500]}, finding_class=fc)
        if kind == "moved":
            wrapped, items, i, j = pat
            if o["skipped"]:
                # a '+' elision written before the only '-' elision has no counterpart: rejected when the patch is loaded
                ck.tally("moved", "rejected at load")
                if j > i:
                    ck.violation("the only elision of each side, '+' after '-' (%s): the patch is rejected" % name, {"patch": pair[1].decode()})
            else:
                ck.tally("moved", "loaded")
                out = (unb64(r["out"]) if r.get("out") else pair[3]).decode("utf-8", "replace")
                blocks = re.findall(r"func h\d+\(\) \{\n\tif ok \{\n((?:\t\t.*\n|\n)*)\t\}\n\}", out)
                if len(blocks) == len(base_lists):
                    for l, bl in zip(base_lists, blocks):
                        npairs += 1
                        got = [s_.strip()[:-2] for s_ in bl.split("\n") if s_.strip()]
                        if wrapped:
                            exp = ref_moved(items, i, j, l)
                            want = exp if exp is not None else l
                            bad = got != want
                        else:
                            want = sorted(l)
                            bad = sorted(got) != want
                        if bad:
                            ck.violation("moved elision (%s) against block [%s]: expected %s%s, gopatch produced %s"
                                         % (name, " ".join(l), "the statements " if not wrapped else "", want, got),
                                         {"patch": pair[1].decode(), "block": l, "expected": want, "got": got})
                else:
                    ck.violation("moved elision (%s): statements left or entered their blocks" % name,
                                 {"patch": pair[1].decode(), "output": out[:3000]})
        if kind == "stmts" and not o["skipped"]:
            ls = base_lists
            out = (unb64(r["out"]) if r.get("out") else pair[3]).decode("utf-8", "replace")
            blocks = re.findall(r"func h\d+\(\) \{\n\tif ok \{\n((?:\t\t.*\n)*)\t\}\n\}", out)
            if len(blocks) == len(ls):
                for l, bl in zip(ls, blocks):
                    npairs += 1
                    got = [s.strip()[:-2] for s in bl.split("\n") if s.strip()]
                    exp = ref_output(["..."] + pat + ["..."], l)
                    want = exp if exp is not None else l
                    if got != want:
                        ck.violation("statement pattern [%s] against block [%s]: expected %s, gopatch produced %s"
                                     % (" ".join(pat), " ".join(l), want, got),
                                     {"patch": pair[1].decode(), "block": l, "expected": want, "got": got})
        enginecheck.report(ck, name, (pair[0], pair[1], pair[2], pair[3][:1500]), o, "any",
                           {"must_parse": True} if kind in ("empty-run", "assoc", "dots-then") else None)
        if kind == "dots-then" and not o["skipped"] and b"finished()" not in (unb64(r["out"]) if r.get("out") else b""):
            ck.violation("an elision followed by a statement (%s): the statement after the elided run was not rewritten" % name,
                         {"patch": pair[1].decode(), "file": pair[3].decode(), "output": (unb64(r["out"]) if r.get("out") else b"").decode("utf-8", "replace")})
    ck.notes["pattern_list_pairs_judged_by_reference"] = npairs
    ck.sample({"case": names[10], "patch": pairs[10][1].decode(), "lists": len(base_lists)})
    ck.sample({"case": names[-30], "patch": pairs[-30][1].decode()})
    ck.cov["rule"] = ("exhaustive small scope: all %d patterns over {a, b, x (expression metavariable), ...} of length <= 4, each against all "
                      "%d lists over {a, b, c} of length <= %d, as call arguments (full), composite-literal elements (%s) and statement "
                      "blocks with implicit elisions (%s); elisions on context lines, explicit elements as -/+ pairs that mark what matched; "
                      "%d longer patterns (5-8 symbols, 2-4 elisions, metavariables x and y repeating) against %d lists of length <= 6; "
                      "for-header elision on for/range shapes; golden cases with elisions.  Every (pattern, list) pair is judged by a "
                      "reference matcher written from the property text (exists a decomposition; shortest run first; runs reproduced "
                      "complete, in order, unchanged) and every file by the extracted Coq engine model. non-trivial = patch loads"
                      % (len(pats), len(base_lists), 5 if thorough else 4, "full" if thorough else "every 5th pattern", "full" if thorough else "every 2nd pattern", len(deep), len(deep_lists)))
    ck.cov["exhaustive"] = True
    ck.cov["trusted_base"] = TRUSTED + ["the reference matcher ref_match/ref_output in checks/c04.py (35 lines)"]
    ck.assumptions = ["the token-level decision which '...' are elisions (pgo/augment) is an oracle of the engine model; exercised here through the parser"]
    return ck.finish()


if __name__ == "__main__":
    import sys
    sys.exit(main())
