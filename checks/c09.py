"""C09 — changes and patch files are applied strictly in order."""
import os, re, shutil
import vlib, enginecorr, enginecheck
from c01 import TRUSTED
from vlib import b64, unb64

FN = ["f0", "f1", "f2", "f3", "f4"]
ARGS = ["1", "a", "a + b", "g(2)", "-n", "m[k]", "p.q", "<-ch", "func() int { return 0 }()", "[]int{1, 2}", "a || b"]
SLOTS = ["func h%d() { _ = %s }", "var v%d = wrap(%s)", "func h%d() { use(1 + %s) }", "func h%d() { go run(%s) }",
         "func h%d() { if ok(%s) { } }", "func h%d() { for i := %s; ; { } }", "func h%d() { (%s).M() }",
         "func h%d() int { return %s * 3 }", "func h%d() { defer %s }"]


def rename(i, j, shape):
    """an expression change turning calls of FN[i] into something mentioning FN[j]"""
    minus = "%s(x)" % FN[i]
    plus = {"plain": "%s(x)" % FN[j], "extra": "%s(x, 0)" % FN[j], "keep-inner": "%s(%s(x))" % (FN[j], FN[i]),
            "binary": "%s(x) + 1" % FN[j], "twice": "%s(x, x)" % FN[j], "method": "x.%s()" % FN[j].upper()}[shape]
    return "@@\nvar x expression\n@@\n-%s\n+%s\n" % (minus, plus), {"kind": "rename", "from": FN[i], "to": FN[j], "shape": shape}


STMT_CHANGES = [
    ("drop-commented", "@@\nvar x expression\n@@\n-begin(x)\n-drop()\n+begin(x)\n"),
    ("begin->start+defer", "@@\nvar x expression\n@@\n-begin(x)\n+start(x)\n+defer stop(x)\n"),
    ("defer stop->finish", "@@\nvar x expression\n@@\n-defer stop(x)\n+defer finish(x)\n"),
    ("start;defer->scope", "@@\nvar x expression\n@@\n-start(x)\n-defer finish(x)\n+scope(x)\n"),
    ("lock-pair", "@@\nvar m expression\n@@\n-m.Lock()\n ...\n-m.Unlock()\n+m.With()\n"),
    ("assign-wrap", "@@\nvar a identifier\nvar v expression\n@@\n-a := f0(v)\n+a, err := f1(v)\n+check(err)\n"),
    ("err-check", "@@\nvar e identifier\n@@\n-check(e)\n+if e != nil {\n+  return\n+}\n"),
]
IMPORT_CHANGES = [
    ("add-import", "@@\nvar x expression\n@@\n+import \"example.com/newpkg\"\n\n-f0(x)\n+newpkg.F(x)\n"),
    ("guarded-on-new-import", "@@\nvar x expression\n@@\n import \"example.com/newpkg\"\n\n-newpkg.F(x)\n+newpkg.G(x, 1)\n"),
    ("replace-import", "@@\nvar x expression\n@@\n-import \"example.com/oldpkg\"\n+import \"example.com/newpkg\"\n\n-oldpkg.F(x)\n+newpkg.F(x)\n"),
    ("guarded-on-old-import", "@@\nvar x expression\n@@\n import \"example.com/oldpkg\"\n\n-f1(x)\n+oldpkg.F(x)\n"),
    ("named-import", "@@\nvar x expression\n@@\n-import \"example.com/newpkg\"\n+import np \"example.com/newpkg\"\n\n-newpkg.F(x)\n+np.F(x)\n"),
    ("pkg-rename", "@@\n@@\n-package p\n+package q\n"),
    ("guarded-on-pkg-q", "@@\nvar x expression\n@@\n package q\n\n-f2(x)\n+f3(x)\n"),
    ("guarded-on-pkg-p", "@@\nvar x expression\n@@\n package p\n\n-f2(x)\n+f4(x)\n"),
]
NOMATCH = "@@\nvar x expression\n@@\n-nowhere(x)\n+never(x)\n"
FAILING = [
    ("ident-slot", "@@\n@@\n-target\n+pkg.target\n", "var target int"),
    ("unbound-metavar", "@@\nvar x, y expression\n@@\n-broken(x)\n+broken(x, y)\n", "func hb() { broken(1) }"),
]
MODES = ["one-file", "p-each", "P-list", "stdin", "p-then-P", "two-files"]


def gen_file(rng, with_stmt, with_imp, extra):
    decls = []
    n = rng.randint(3, 7)
    for j in range(n):
        fn = rng.choice(FN[:3])
        arg = rng.choice(ARGS)
        if rng.random() < 0.3:
            arg = "%s(%s)" % (rng.choice(FN[:3]), arg)
        decls.append(rng.choice(SLOTS) % (j, "%s(%s)" % (fn, arg)))
    if with_stmt:
        decls.append("func s1() {\n\tbegin(res)\n\tdrop( /* why */ )\n\twork() // eol\n}")
        decls.append("func s2() {\n\tmu.Lock()\n\tx := f0(1)\n\tmu.Unlock()\n\t_ = x\n}")
        decls.append("func s3() {\n\tv := f0(q)\n\t_ = v\n}")
    imps = ""
    if with_imp:
        k = rng.randint(0, 3)
        imps = ["", "import \"example.com/oldpkg\"\n\n", "import (\n\t\"fmt\"\n\n\t\"example.com/oldpkg\"\n)\n\n",
                "import (\n\t\"example.com/newpkg\"\n\t\"os\"\n)\n\n"][k]
        if "oldpkg" in imps:
            decls.append("func o1() { oldpkg.F(7) }")
        if "fmt" in imps:
            decls.append("func o2() { fmt.Println() }")
        if "newpkg" in imps:
            decls.append("func o3() { newpkg.F(os.Args) }")
    decls += extra
    rng.shuffle(decls)
    return "package p\n\n" + imps + "\n\n".join(decls) + "\n"


def gen_case(rng, k):
    n = rng.randint(2, 5)
    changes, metas, extra = [], [], []
    flavour = ["rename", "rename", "stmt", "import", "mixed"][k % 5]
    fail_at = None
    for j in range(n):
        r = rng.random()
        if r < 0.12:
            changes.append(NOMATCH); metas.append({"kind": "nomatch"})
            continue
        fl = flavour if flavour != "mixed" else rng.choice(["rename", "stmt", "import"])
        if fl == "rename":
            prev = [m for m in metas if m.get("kind") == "rename"]
            i = FN.index(prev[-1]["to"]) if prev and rng.random() < 0.6 else rng.randrange(5)
            jj = rng.choice([x for x in range(5) if x != i])
            c, m = rename(i, jj, rng.choice(["plain", "plain", "extra", "keep-inner", "binary", "twice", "method"]))
        elif fl == "stmt":
            prev = [m for m in metas if m.get("kind") == "stmt"]
            nxt = ([x[0] for x in STMT_CHANGES].index(prev[-1]["name"]) + 1) % len(STMT_CHANGES) if prev else 0
            nm, c = STMT_CHANGES[nxt] if rng.random() < 0.6 else rng.choice(STMT_CHANGES); m = {"kind": "stmt", "name": nm}
        else:
            prev = [m for m in metas if m.get("kind") == "import"]
            nxt = ([x[0] for x in IMPORT_CHANGES].index(prev[-1]["name"]) + 1) % len(IMPORT_CHANGES) if prev else rng.choice([0, 2, 5])
            nm, c = IMPORT_CHANGES[nxt] if rng.random() < 0.6 else rng.choice(IMPORT_CHANGES); m = {"kind": "import", "name": nm}
        changes.append(c); metas.append(m)
    if k % 7 == 3:
        # a, b, a : the same change (and, per mode, the same patch file) twice, b producing what a matches
        i, j, kk = rng.sample(range(5), 3)
        a, ma = rename(i, j, rng.choice(["plain", "extra", "twice"]))
        b, mb = rename(kk, i, rng.choice(["plain", "keep-inner", "binary"]))
        changes, metas = [a, b, a], [ma, mb, dict(ma, repeated=True)]
        if rng.random() < 0.5:
            changes.append(NOMATCH); metas.append({"kind": "nomatch"})
        extra.append("func rep() { %s(7); _ = %s(%s(8)) }" % (FN[kk], FN[i], FN[kk]))
    if k % 7 == 5:
        # a change that deletes a commented statement, then changes that edit the imports / match elsewhere
        changes = [STMT_CHANGES[0][1]] + [rng.choice(IMPORT_CHANGES[:5])[1] for _ in range(rng.randint(1, 2))]
        metas = [{"kind": "stmt", "name": "drop-commented"}] + [{"kind": "import", "name": "after-dropped-comment"} for _ in changes[1:]]
        flavour = "mixed"
    if k % 7 == 4:
        # an earlier change renames the package (and rewrites code), later changes match the same file: they must see the
        # renamed file (guards on the new name hold, guards on the old one fail) and must not undo the rename
        i, j, kk = rng.sample(range(5), 3)
        first = "@@\nvar x expression\n@@\n-package p\n+package q\n\n-%s(x)\n+%s(x)\n" % (FN[i], FN[j])
        rest = [rename(j, kk, rng.choice(["plain", "extra", "binary"]))[0],
                "@@\nvar x expression\n@@\n package q\n\n-%s(x)\n+onlyq(x)\n" % FN[kk],
                "@@\nvar x expression\n@@\n package p\n\n-%s(x)\n+onlyp(x)\n" % FN[kk]]
        rng.shuffle(rest)
        changes = [first] + rest[:rng.randint(1, 3)]
        metas = [{"kind": "pkg-rename-code"}] + [{"kind": "after-pkg-rename"} for _ in changes[1:]]
        extra.append("func pr() { %s(1); _ = %s(%s(2)) }" % (FN[i], FN[kk], FN[i]))
        src = gen_file(rng, False, False, extra)
        return changes, metas, src, MODES[(k // 7) % len(MODES)], None
    if k % 7 == 6:
        # comment-heavy files (the C17 generator) and sequences in which an earlier change loses comments: a growing
        # multi-line rewrite, then a declaration-level change next to commented declarations, then anything
        import c17
        decl_level = ["var-to-func", "var-to-const", "type-kind", "method-to-func", "const-block-to-var", "func-sig", "func-rename"]
        ks = [rng.choice(["expr-grow", "expr-grow", "stmt-delete", "plus-comments", "if-err"]), rng.choice(decl_level),
              rng.choice(["stmt-replace2", "expr", "stmt-insert", "import-replace", "import-add", "field", "lock"])]
        if rng.random() < 0.3:
            ks = ks[:2] + [rng.choice(decl_level)] + ks[2:]
        changes = [c17.PATCHES[x] for x in ks]
        metas = [{"kind": "comments", "name": x} for x in ks]
        src = c17.gen_file(rng, "combo:" + "+".join(ks))
        return changes, metas, src, MODES[(k // 7) % len(MODES)], None
    if k % 6 == 5:
        fail_at = rng.randrange(n + 1)
        nm, c, decl = rng.choice(FAILING)
        changes.insert(fail_at, c); metas.insert(fail_at, {"kind": "failing", "name": nm})
        extra.append(decl)
    src = gen_file(rng, flavour in ("stmt", "mixed"), flavour in ("import", "mixed"), extra)
    return changes, metas, src, MODES[(k // 5) % len(MODES)], fail_at


def combined_args(changes, mode, d):
    """writes the patch files under d; returns (argv, stdin)"""
    seen = {}
    def w(name, text):
        if text in seen and not name.startswith(("all", "list", "first", "second")):
            return seen[text]            # the same patch file named twice
        with open(os.path.join(d, name), "w") as f:
            f.write(text)
        seen[text] = name
        return name
    if mode == "one-file":
        return ["-p", w("all.patch", "".join(changes))], b""
    if mode == "p-each":
        a = []
        for i, c in enumerate(changes):
            a += ["-p", w("c%d.patch" % i, c)]
        return a, b""
    if mode == "P-list":
        names = [w("c%d.patch" % i, c) for i, c in enumerate(changes)]
        w("list.txt", "\n".join(names) + "\n")
        return ["-P", "list.txt"], b""
    if mode == "stdin":
        return [], "".join(changes).encode()
    if mode == "p-then-P":
        h = max(1, len(changes) // 2)
        a = []
        for i, c in enumerate(changes[:h]):
            a += ["-p", w("c%d.patch" % i, c)]
        names = [w("l%d.patch" % i, c) for i, c in enumerate(changes[h:])]
        w("list.txt", "\n".join(names) + "\n")
        return a + ["-P", "list.txt"], b""
    if mode == "two-files":
        h = max(1, len(changes) // 2)
        return ["-p", w("first.patch", "".join(changes[:h])), "-p", w("second.patch", "".join(changes[h:]))], b""
    raise ValueError(mode)


def run_case(case):
    changes, metas, src, mode, fail_at = case
    d = vlib.scratch("c09")
    try:
        os.makedirs(os.path.join(d, "comb")); os.makedirs(os.path.join(d, "chain"))
        cd = os.path.join(d, "comb")
        with open(os.path.join(cd, "a.go"), "w") as f:
            f.write(src)
        argv, stdin = combined_args(changes, mode, cd)
        rc, so, se = vlib.run_gopatch(argv + ["a.go"], cd, stdin=stdin)
        comb = open(os.path.join(cd, "a.go"), "rb").read()
        # the chain of single-change runs
        hd = os.path.join(d, "chain")
        with open(os.path.join(hd, "a.go"), "w") as f:
            f.write(src)
        steps = []
        for i, c in enumerate(changes):
            with open(os.path.join(hd, "s%d.patch" % i), "w") as f:
                f.write(c)
            before = open(os.path.join(hd, "a.go"), "rb").read()
            r2, so2, se2 = vlib.run_gopatch(["-p", "s%d.patch" % i, "a.go"], hd)
            after = open(os.path.join(hd, "a.go"), "rb").read()
            steps.append({"rc": r2, "stderr": se2.decode("utf-8", "replace")[:300], "changed": before != after})
            if r2 != 0:
                break
        chain = open(os.path.join(hd, "a.go"), "rb").read()
        return {"rc": rc, "stderr": se.decode("utf-8", "replace")[:600], "comb": comb, "chain": chain, "steps": steps, "argv": argv}
    finally:
        shutil.rmtree(d, ignore_errors=True)


# ---- the loader: single-change patch files that do not commute (a chain of renames), arranged on the command line
LSRC = "package p\n\nfunc h() {\n\tr0(1)\n\t_ = r0(r2(2))\n\tr3(3)\n}\n"
LCHG = {"a%d.patch" % i: "@@\nvar x expression\n@@\n-r%d(x)\n+r%d(x, %d)\n" % (i, (i + 1) % 5, i) for i in range(5)}
LCHG["twice.patch"] = "@@\nvar x expression\n@@\n-r1(x)\n+wrap(r1(x))\n"          # applied twice when named twice


def loader_case(rng, k):
    names = sorted(LCHG)
    np_ = rng.choice([0, 1, 2, 3, 3])
    ps = [rng.choice(names) for _ in range(np_)]
    use_list = rng.random() < 0.6
    listed = [rng.choice(names) for _ in range(rng.randint(0, 4))] if use_list else []
    files = dict(LCHG)
    shape = "%d -p%s" % (np_, ", -P list of %d" % len(listed) if use_list else "")
    r = rng.random()
    if r < 0.15 and (ps or listed):            # a missing file somewhere
        tgt = ps if (ps and (not listed or rng.random() < 0.5)) else listed
        tgt[rng.randrange(len(tgt))] = "missing%d.patch" % k
        shape += ", one missing"
    elif r < 0.3 and (ps or listed):           # a file that is not a patch
        files["broken.patch"] = "this is not a patch\n"
        tgt = ps if (ps and (not listed or rng.random() < 0.5)) else listed
        tgt[rng.randrange(len(tgt))] = "broken.patch"
        shape += ", one broken"
    overlong = False
    if use_list and listed and 0.3 <= r < 0.42:   # a line longer than any path can be (and than bufio.Scanner's buffer) between the entries
        listed.insert(rng.randrange(len(listed) + 1), "x" * rng.choice([66000, 70000, 200000]) + ".patch")
        shape += ", an overlong line"
        overlong = True
    list_content = None
    if use_list:
        sep = rng.choice(["\n", "\r\n"])
        lines = []
        for n in listed:
            if rng.random() < 0.3:
                lines.append("")
            lines.append(n)
        list_content = sep.join(lines) + (sep if rng.random() < 0.7 else "")
        if rng.random() < 0.2:
            list_content = sep + list_content
    stdin = rng.choice([LCHG["a3.patch"], "garbage on stdin\n", ""])
    argv = []
    for n in ps:
        argv += ["-p", n]
    if use_list:
        argv += ["-P", "list.txt"]
    mfiles = " ".join("(%s (ok %s))" % (vlib.hx(n), vlib.hx(n)) if n != "broken.patch" else "(%s bad)" % vlib.hx(n) for n in sorted(files))
    if use_list:
        # for the model the overlong line is the name of a file that is not there (which it is); its length is not modelled
        mlist = re.sub(r"x{60000,}\.patch", "toolong.patch", list_content) if list_content else list_content
        mfiles += " (%s (list %s))" % (vlib.hx("list.txt"), vlib.hx(mlist) if mlist else "x")
    sid = "none" if stdin == "" or stdin.startswith("garbage") else vlib.hx("stdin")
    model = "(loader (patches %s) (list %s) (stdin %s) (files %s))" % (" ".join(vlib.hx(n) for n in ps), vlib.hx("list.txt") if use_list else "none", sid, mfiles)
    return {"argv": argv, "files": files, "list_content": list_content, "stdin": stdin, "model": model, "shape": shape, "overlong": overlong}


def run_loader_case(cm):
    c, m = cm
    d = vlib.scratch("c09l")
    try:
        for n, t in c["files"].items():
            open(os.path.join(d, n), "w").write(t)
        if c["list_content"] is not None:
            open(os.path.join(d, "list.txt"), "wb").write(c["list_content"].encode())
        open(os.path.join(d, "a.go"), "w").write(LSRC)
        rc, so, se = vlib.run_gopatch(c["argv"] + ["a.go"], d, stdin=c["stdin"].encode())
        comb = open(os.path.join(d, "a.go"), "rb").read()
        chain = None
        if m[0] == "result" and m[1][0] == "ok":
            hd = os.path.join(d, "chain"); os.makedirs(hd)
            open(os.path.join(hd, "a.go"), "w").write(LSRC)
            for i, idb in enumerate(m[1][1:]):
                nm = vlib.unhx(idb).decode()
                text = c["stdin"] if nm == "stdin" else c["files"][nm]
                open(os.path.join(hd, "s%d.patch" % i), "w").write(text)
                vlib.run_gopatch(["-p", "s%d.patch" % i, "a.go"], hd)
            chain = open(os.path.join(hd, "a.go"), "rb").read()
        return {"rc": rc, "stderr": se.decode("utf-8", "replace")[:600], "comb": comb, "chain": chain}
    finally:
        shutil.rmtree(d, ignore_errors=True)


def main():
    ck = vlib.Check("C09")
    coq_ok, coq_log = vlib.build()
    ok, log, info = vlib.prove("C09")
    ck.proof_obligations(ok, log, info, coq_ok, coq_log)
    thorough = ck.tier == "thorough"
    n = 2400 if thorough else 300
    cases = [gen_case(ck.rng, k) for k in range(n)]
    # fixed cases: what go/printer normalises between two runs (number prefixes, redundant result parentheses) and a later
    # pattern that depends on the spelling (known finding F36); code reproduced through a metavariable in which a parameter
    # has the name of a package whose import a later change deletes (F31)
    C1 = "@@\n@@\n-old()\n+new()\n"
    for src, c2 in (("package a\n\nfunc f() {\n\told()\n\tg(0X1F)\n}\n", "@@\n@@\n-g(0x1F)\n+h()\n"),
                    ("package a\n\nfunc g() (int) {\n\told()\n\treturn 1\n}\n", "@@\n@@\n-func g() int {\n+func h() int {\n   ...\n }\n"),
                    ("package a\n\nfunc f() {\n\told()\n\tg(1_0)\n\tg(0B11)\n}\n", "@@\n@@\n-g(0b11)\n+h()\n")):
        for mode in ("one-file", "p-each"):
            cases.append(([C1, c2], [{"kind": "printer-normalises"}, {"kind": "printer-normalises"}], src, mode, None))
    OBJ_SRC = ("package a\n\nimport (\n\t\"net/url\"\n\t\"os\"\n)\n\nfunc parse(s string) {\n\turl.Parse(s)\n\t_ = os.Args\n}\n\n"
               "type U struct{ Host string }\n\nfunc host(url *U) string { return trace(url.Host) }\n")
    for mode in ("one-file", "p-each"):
        cases.append((["@@\nvar x expression\n@@\n-trace(x)\n+x\n", "@@\nvar x expression\n@@\n-import \"net/url\"\n\n-url.Parse(x)\n+myParse(x)\n"],
                      [{"kind": "reproduced-shadow"}, {"kind": "reproduced-shadow"}], OBJ_SRC, mode, None))
    # an identifier that a change WRITES (it stands in the '+' pattern itself, not in captured code) has no object: a selector on
    # it counts as a use of the package of that name until the file is parsed again (known finding F56)
    LIT_SRC = "package a\n\nimport \"example.com/foo\"\n\nfunc f() {\n\tfoo.X()\n}\n\nfunc g(foo T) {\n\told(foo)\n}\n"
    for mode in ("one-file", "p-each"):
        cases.append((["@@\n@@\n-old(foo)\n+foo.Y()\n", "@@\n@@\n-import \"example.com/foo\"\n+import \"example.com/bar\"\n\n-foo.X()\n+bar.X()\n"],
                      [{"kind": "patch-literal-shadow"}, {"kind": "patch-literal-shadow"}], LIT_SRC, mode, None))
    # a name that one change declares as a metavariable is plain code in the next (each change has its own declarations)
    for chs, src in (((["@@\nvar x expression\n@@\n-foo(x)\n+bar(x)\n", "@@\n@@\n-x.Close()\n+x.Shutdown()\n"]),
                      "package p\n\nfunc h() {\n\tfoo(1)\n\tx.Close()\n\ty.Close()\n\tz.w.Close()\n}\n"),
                     ((["@@\nvar f identifier\n@@\n-f(1)\n+f(2)\n", "@@\nvar g identifier\n@@\n-f(g)\n+f(g, g)\n"]),
                      "package p\n\nfunc h() {\n\ta(1)\n\tf(b)\n\tq(b)\n\tf(3)\n}\n"),
                     ((["@@\nvar v identifier\nvar e expression\n@@\n-v := e\n+v := wrap(e)\n", "@@\n@@\n-use(v, e)\n+used(v)\n", "@@\nvar e expression\n@@\n-keep(e, v)\n+kept(e)\n"]),
                      "package p\n\nfunc h() {\n\tn := 1\n\tuse(v, e)\n\tuse(n, 2)\n\tkeep(3, v)\n\tkeep(4, n)\n}\n")):
        for mode in ("one-file", "p-each", "stdin"):
            cases.append((chs, [{"kind": "name-reused"} for _ in chs], src, mode, None))
    # two changes that each add an import, on a file whose import(s) carry trailing comments: the first change merges the
    # declarations and a comment group is emptied; nothing may still point to it when the second change adds its import (fix db7684d)
    ADD1 = "@@\nvar x expression\n@@\n+import \"example.com/one\"\n\n-first(x)\n+one.F(x)\n"
    ADD2 = "@@\nvar x expression\n@@\n+import \"example.com/two\"\n\n-second(x)\n+two.F(x)\n"
    for imp in ("import \"os\" // trailing\n", "import \"os\" /* block */\n", "// doc\nimport \"os\" // trailing\n", "import (\n\t\"os\" // trailing\n)\n",
                "import \"os\" // one\n\nimport \"fmt\" // two\n", "",
                "import \"os\"\n\nimport (\n\t\"example.com/e\" // trailing comment\n)\n\nvar _ = e.E\n",
                "import \"os\"\n\nimport (\n\t// doc\n\t\"example.com/e\" // trailing comment\n\t\"example.com/g\"\n)\n\nvar _, _ = e.E, g.G\n"):
        src = "package a\n\n%s\nfunc h() {\n\tfirst(os.Args)\n\tsecond(1)\n}\n" % imp
        for mode in ("one-file", "p-each"):
            cases.append(([ADD1, ADD2], [{"kind": "two-imports-added"}, {"kind": "two-imports-added"}], src, mode, None))
    outs = vlib.pmap(run_case, cases)
    # syntax-tree digests, parentheses elided
    srcs = []
    for c, o in zip(cases, outs):
        srcs += [o["comb"], o["chain"]]
    uniq = sorted(set(srcs))
    dig = dict(zip(uniq, vlib.harness("astdump", {"srcs": [b64(u) for u in uniq], "strip_parens": True})["dumps"]))
    # the same combined patches through the engine model (run_changes = fold of pstep, Properties/C09.v)
    pairs = [("all.patch", "".join(c[0]).encode(), "a.go", c[2].encode()) for c in cases]
    res = enginecorr.run(pairs, abort=True)
    for k, (c, o, mo) in enumerate(zip(cases, outs, res)):
        changes, metas, src, mode, fail_at = c
        ck.count(("".join(changes), src, mode), nontrivial=any(s["changed"] for s in o["steps"]))
        ck.tally("mode", mode)
        ck.tally("changes", len(changes))
        ck.tally("effective_steps", sum(1 for s in o["steps"] if s["changed"]))
        if any(m.get("repeated") for m in metas):
            ck.tally("repeated_change", mode)
        for m in metas:
            ck.tally("change_kind", m["kind"] + (":" + m.get("name", m.get("shape", "")) if m["kind"] != "nomatch" else ""))
        rep = {"case": "c09#%d" % k, "mode": mode, "argv": o["argv"], "changes": changes, "file": src,
               "combined_output": o["comb"].decode("utf-8", "replace"), "chained_output": o["chain"].decode("utf-8", "replace"),
               "combined_exit": o["rc"], "combined_stderr": o["stderr"], "chain_steps": o["steps"]}
        failed = [i for i, s in enumerate(o["steps"]) if s["rc"] != 0]
        if failed:
            ck.tally("chain_outcome", "a step fails")
            # the combined run must report the failure and leave the file untouched
            if o["rc"] == 0:
                ck.violation("step %d of the chain fails (%s) but the combined run exits 0" % (failed[0], o["steps"][failed[0]]["stderr"][:80]), rep)
            elif o["comb"] != src.encode():
                ck.violation("step %d of the chain fails; the combined run reports a failure but changed the file" % failed[0], rep)
            elif not mo["skipped"]:
                # ... and so must the library (patch.File.Apply), whatever the changes after the failing one do
                enginecheck.report(ck, "c09#%d" % k, pairs[k], mo, "none", {"mode": mode})
            continue
        if o["rc"] != 0:
            ck.tally("chain_outcome", "combined fails only")
            ck.violation("every single-change run succeeds but the combined run fails: %s" % o["stderr"][:120], rep)
            continue
        # dependency: some change applies in the chain although its '-' function does not occur in the original file
        dep = any(s["changed"] and ((m.get("from") and (m["from"] + "(") not in src) or
                                    m.get("name") in ("defer stop->finish", "start;defer->scope", "err-check", "guarded-on-pkg-q", "named-import") or
                                    (m.get("name") == "guarded-on-new-import" and "newpkg" not in src))
                  for s, m in zip(o["steps"], metas))
        ck.tally("chain_outcome", "ok" + (", a later change matches only produced code" if dep else ""))
        dc, dh = dig[o["comb"]], dig[o["chain"]]
        if dc.startswith("ERR:") or dh.startswith("ERR:"):
            ck.violation("an output does not parse (combined: %s, chained: %s)" % (dc[:60], dh[:60]), rep)
        elif dc != dh:
            ck.violation("combined run and chain of single-change runs produce different programs", rep,
                         finding_class={"printer-normalises": "printer-normalises-between-runs",
                                        "patch-literal-shadow": "patch-identifier-without-object"}.get(metas[0].get("kind") if metas else None))
        # model correspondence on the combined patch
        if mo["skipped"] or (metas and metas[0].get("kind") in ("printer-normalises", "patch-literal-shadow")):
            continue        # (the engine comparison reads gopatch's tree back from the printed file: 0X1F comes back as 0x1F)
        enginecheck.report(ck, "c09#%d" % k, pairs[k], mo, "none", {"mode": mode})
    # ---------------- which patch files are loaded, and in which order (Model/Loader.v): -p in order, then the -P list line by
    # line (blank lines skipped, CRLF, no final newline, a file named twice is applied twice), stdin only without -p/-P;
    # the first file that is missing or does not compile ends the run and is named, nothing is applied
    lcases = [loader_case(ck.rng, k) for k in range(400 if thorough else 80)]
    lmodels = vlib.model([c["model"] for c in lcases])
    louts = vlib.pmap(run_loader_case, list(zip(lcases, lmodels)))
    lsrcs = sorted(set(x for o in louts for x in (o["comb"], o["chain"]) if x is not None))
    ldig = dict(zip(lsrcs, vlib.harness("astdump", {"srcs": [b64(u) for u in lsrcs], "strip_parens": True})["dumps"])) if lsrcs else {}
    for k, (c, m, o) in enumerate(zip(lcases, lmodels, louts)):
        ck.count(("loader", c["model"]), nontrivial=True)
        ck.tally("mode", "loader: " + c["shape"])
        rep = {"case": "c09loader#%d" % k, "argv": c["argv"], "files": c["files"], "list": c.get("list_content"), "stdin": c["stdin"], "file": LSRC,
               "model": m, "exit": o["rc"], "stderr": o["stderr"], "combined_output": (o["comb"] or b"").decode("utf-8", "replace")}
        if m[0] != "result":
            ck.mismatch("loader model error %r" % (m,), rep, "corr:loader (Model/Loader.v vs main.go loadPatches / loader.go)"); continue
        if m[1][0] == "err":
            bad = vlib.unhx(m[1][2]).decode()
            ck.tally("loader_outcome", "a patch file cannot be loaded")
            if o["rc"] == 0:
                ck.violation("patch file %s cannot be loaded (missing or not a patch) but the run exits 0" % ("on a line of the list longer than 64 KiB" if bad == "toolong.patch" else bad), rep)
            elif o["comb"] != LSRC.encode():
                ck.violation("patch file %s cannot be loaded, yet the target was modified" % bad, rep)
            elif bad == "toolong.patch":
                # a name no file can have: the list file is what cannot be read
                if "list.txt" not in o["stderr"]:
                    ck.violation("the patch list has a line longer than 64 KiB; stderr does not name the list: %r" % (o["stderr"][:200],), rep)
            elif bad not in o["stderr"]:
                ck.violation("patch file %s cannot be loaded; stderr does not name it: %r" % (bad, o["stderr"][:200]), rep)
            continue
        ck.tally("loader_outcome", "loaded %d patch file(s)" % (len(m[1]) - 1))
        if o["rc"] != 0:
            ck.violation("every patch file loads (by the loader model) but the run fails: %s" % o["stderr"][:160], rep); continue
        dc, dh = ldig[o["comb"]], ldig[o["chain"]]
        if dc != dh:
            ck.violation("the patch files were not applied in the order -p (as given), then the -P list (line by line) - or not each once per mention: "
                         "combined run and the chain in that order differ", dict(rep, chained_output=o["chain"].decode("utf-8", "replace")))
    ck.sample({"mode": cases[3][3], "changes": cases[3][0], "file": cases[3][2]})
    ck.sample({"mode": cases[7][3], "changes": cases[7][0], "file": cases[7][2]})
    ck.cov["rule"] = ("%d sequences of 2-6 changes (renames over 5 function names in 7 '+' shapes incl. ones that re-introduce the removed name; "
                      "statement changes that feed each other; import add/replace/rename and package rename with changes guarded on the new or "
                      "old import/package; never-matching changes; 1 in 6 with a failing change at a random position) over generated files; "
                      "given as one file, -p each, -P list, stdin, -p then -P, two files. The combined run of the binary built from /repo "
                      "is compared with the chain of single-change runs (syntax trees, parentheses elided; exit status and untouched file "
                      "when a step fails) and with the extracted model's run_changes. non-trivial = some step changes the file" % n)
    ck.cov["trusted_base"] = TRUSTED + ["go/parser as judge of syntactic identity (harness astdump)"]
    ck.assumptions = ["printing and re-parsing an intermediate file gives back the same tree up to parentheses (go/printer, go/parser, imports.Process: oracles; "
                      "this is exactly what the chain-vs-combined comparison exercises)"]
    return ck.finish()


if __name__ == "__main__":
    import sys
    sys.exit(main())
