"""C12 — dry-run modes never write, and all output modes agree."""
import os
import vlib, clicorr, scen, corpus, udiff
from clicorr import Scenario
from vlib import b64, unb64

# patches that make things fail in different ways (dry runs must not write then either)
FAILING = [
    ("unbound-metavar", b"@@\nvar x expression\n@@\n-foo()\n+foo(x)\n", b"package p\n\nfunc f() { foo() }\n"),
    ("unparseable-result", b"@@\n@@\n-foo\n+1+2\n", b"package p\n\nvar y foo\n"),
    ("ok-described", b"# Replace foo with bar.\n# Second line.\n@@\n@@\n-foo()\n+bar()\n", b"package p\n\nfunc f() { foo() }\n"),
]
BROKEN_GO = b"package p\n\nfunc f( {\n"
# files a dry run (any run) must leave alone
DISTRACTORS = {"pkg/a.go.123456789.tmp": b"stale\n", "pkg/b.go~": b"backup\n", "pkg/c.go.orig": b"orig\n", "pkg/.d.go.swp": b"swap\n",
               "notes.txt": b"n\n", "pkg/sub/.hidden": b"h\n", "pkg/go.mod": b"module x\n", "x.go.1.tmp": b"t\n", "pkg/e.go.bak": b"bak\n"}
WRAP_PATCH = b"@@\nvar x expression\n@@\n-foo(x)\n+foo(wrap(x))\n"
WRAP_FILES = {"pkg/a.go": b"package pkg\n\nfunc A() { foo(1) }\n", "pkg/sub/b.go": b"package sub\n\nfunc B() { foo(2) }\n",
              "c.go": b"package c\n\nfunc C() { foo(3) }\n", "d.go": b"package c\n\nfunc D() {}\n"}
OVERLAPS = [
    ["./...", "<CWD>/pkg/a.go", "pkg", "c.go", "./c.go"],
    ["<CWD>", "."],
    ["pkg/a.go", "<CWD>/pkg/a.go", "pkg/../pkg/a.go"],
    ["pkg/sub", "<CWD>/pkg/...", "d.go"],
    ["c.go", "c.go", "<CWD>/c.go", "./..."],
]


def main():
    ck = vlib.Check("C12")
    coq_ok, coq_log = vlib.build()
    ok, log, info = vlib.prove("C12")
    ck.proof_obligations(ok, log, info, coq_ok, coq_log)
    thorough = ck.tier == "thorough"
    gold = corpus.golden()

    # ---------------- (1) mode agreement: one file at a time, 3 modes (+ skip-imports variants) + API
    scs, meta = [], []
    for c in gold:
        for fn, data in sorted(c["inputs"].items()):
            for si in ((False, True) if thorough else (False,)):
                for mode in ("write", "print", "diff"):
                    fl = {"diff": mode == "diff", "print": mode == "print", "skip_imports": si}
                    scs.append(Scenario(c["patches"], {fn: data}, fl, name="%s/%s" % (c["name"], fn)))
                    meta.append(("agree", c["name"], fn, si, mode))
    # layout variants of the targets: CRLF line endings, no trailing newline
    for c in (gold if thorough else gold[:12]):
        for fn, data in sorted(c["inputs"].items())[:1]:
            for vname, vdata in (("crlf", data.replace(b"\n", b"\r\n")), ("nonl", data.rstrip(b"\n")), ("bom", b"\xef\xbb\xbf" + data)):
                if b"`" in data:
                    continue
                for mode in ("write", "print", "diff"):
                    fl = {"diff": mode == "diff", "print": mode == "print"}
                    scs.append(Scenario(c["patches"], {fn: vdata}, fl, name="%s/%s[%s]" % (c["name"], fn, vname)))
                    meta.append(("agree", c["name"] + "[" + vname + "]", fn, False, mode))
    # descriptions: a described change, three modes, two files of which one matches
    for mode in ("write", "print", "diff"):
        fl = {"diff": mode == "diff", "print": mode == "print"}
        scs.append(Scenario([("p.patch", FAILING[2][1])], {"a.go": FAILING[2][2], "b.go": b"package p\n\nfunc g() {}\n"}, fl, name="desc"))
        meta.append(("desc", "desc", "", False, mode))
    # ---------------- (2) dry runs of everything, incl. failing inputs, multi-file, all flag combos
    flagsets = [f for f in scen.all_flagsets() if f.get("diff") or f.get("print")]
    k = 0
    for c in gold:
        fss = flagsets if thorough else [flagsets[(k + j * 7) % len(flagsets)] for j in range(2)]
        for fl in fss:
            files = dict(c["inputs"])
            if k % 3 == 0:
                files["zz_broken.go"] = BROKEN_GO
            scs.append(Scenario(c["patches"], files, fl, name="dry:" + c["name"], patch_mode=["p", "P"][k % 2]))
            meta.append(("dry", c["name"], "", fl.get("skip_imports", False), "dry"))
        k += 1
    for name, ptxt, src in FAILING:
        for fl in flagsets if thorough else flagsets[::3]:
            scs.append(Scenario([("p.patch", ptxt)], {"a.go": src, "sub/b.go": src, "c.go": BROKEN_GO}, fl, name="dry:" + name))
            meta.append(("dry", name, "", fl.get("skip_imports", False), "dry"))
    # dry runs over directory arguments, in trees that also hold files gopatch has no business with
    for j, c in enumerate(gold[::2] if not thorough else gold):
        for fl in (flagsets if thorough else [flagsets[(j * 3) % len(flagsets)]]):
            files = {"pkg/" + fn: d for fn, d in c["inputs"].items()}
            sc = Scenario(c["patches"], files, fl, args=[[".", "./...", "pkg", "pkg/..."][j % 4]], name="drydir:" + c["name"])
            sc.extra_files = dict(DISTRACTORS)
            scs.append(sc)
            meta.append(("dry", c["name"], "", fl.get("skip_imports", False), "dry"))
    # whole-tree agreement with overlapping spellings of the same files and a non-idempotent patch
    for j, args in enumerate(OVERLAPS):
        for si in ((False, True) if thorough else (False,)):
            for mode in ("write", "print", "diff"):
                fl = {"diff": mode == "diff", "print": mode == "print", "skip_imports": si}
                scs.append(Scenario([("p.patch", WRAP_PATCH)], dict(WRAP_FILES), fl, args=args, name="overlap%d" % j))
                meta.append(("overlap", "overlap%d" % j, "", si, mode))
    # the same with files that fail next to files that are patched: what is printed / diffed for the good files must
    # still be what is written in place for them
    FAIL_FILES = dict(WRAP_FILES, **{"pkg/bad.go": BROKEN_GO, "pkg/sub/worse.go": b"package sub\n\nfunc W() { foo( }\n"})
    for j, args in enumerate([["./..."], ["pkg", "c.go", "d.go"], ["pkg/bad.go", "pkg/a.go", "c.go"]]):
        for mode in ("write", "print", "diff"):
            fl = {"diff": mode == "diff", "print": mode == "print"}
            scs.append(Scenario([("p.patch", WRAP_PATCH)], dict(FAIL_FILES), fl, args=args, name="overlapfail%d" % j))
            meta.append(("overlap", "overlapfail%d" % j, "", False, mode))
    # several changes in one patch, an earlier one failing: command line and library must agree that the file fails
    MULTI_FAIL = [(b"@@\nvar x expression\n@@\n-foo()\n+foo(x)\n\n@@\n@@\n-bar()\n+baz()\n", b"package p\n\nfunc f() {\n\tfoo()\n\tbar()\n}\n"),
                  (b"@@\nvar x expression\n@@\n-get(x)\n+obj.x\n\n@@\n@@\n-bar()\n+baz()\n", b"package p\n\nfunc f() {\n\t_ = get(h())\n\tbar()\n}\n"),
                  (b"@@\n@@\n-bar()\n+baz()\n\n@@\nvar x expression\n@@\n-foo()\n+foo(x)\n", b"package p\n\nfunc f() {\n\tfoo()\n\tbar()\n}\n")]
    for j, (pt, src) in enumerate(MULTI_FAIL):
        for mode in ("write", "print", "diff"):
            fl = {"diff": mode == "diff", "print": mode == "print"}
            scs.append(Scenario([("p.patch", pt)], {"a.go": src}, fl, name="multifail%d" % j))
            meta.append(("multifail", "multifail%d" % j, "a.go", False, mode))
    results = clicorr.run_scenarios(scs, api=True)

    agree = {}
    overlap = {}
    for r, m in zip(results, meta):
        sc, ob = r["sc"], r["obs"]
        kind, cname, fn, si, mode = m
        ck.count((kind, cname, fn, si, mode, tuple(sorted(k for k, v in sc.flags.items() if v))))
        ck.tally("kind", kind)
        rep = dict(sc.describe(), argv=ob["argv"], rc=ob["rc"], stdout=ob["stdout"].decode("utf-8", "replace")[:3000],
                   stderr=ob["stderr"].decode("utf-8", "replace")[:2000])
        # dry-run: nothing on disk may change, whatever happened
        if sc.flags["diff"] or sc.flags["print"]:
            ch = clicorr.tree_changes(ob)
            if ch:
                ck.violation("dry run (%s) changed the tree: %s" % ([k for k, v in sc.flags.items() if v], ch), rep)
        if kind == "agree":
            agree.setdefault((cname, fn, si), {})[mode] = r
        if kind == "overlap":
            overlap.setdefault((cname, si), {})[mode] = r
        if kind == "multifail":
            ff = r["facts"]["files"][0]
            if ob["rc"] == 0:
                ck.violation("a change matches and fails, yet the command line exits 0 (%s mode)" % mode, rep)
            if clicorr.tree_changes(ob):
                ck.violation("a change matches and fails, yet the file was modified (%s mode)" % mode, rep)
            if not (ff.get("api_panic") or ff["api_err"]):
                ck.violation("the command line reports a failure for this patch and file, the library API returns bytes and no error",
                             dict(rep, api=unb64(ff["api_out"]).decode("utf-8", "replace") if ff.get("api_out") else None))
        if kind == "desc":
            want = b"a.go:Replace foo with bar.\na.go:Second line.\n"
            if mode == "write":
                if ob["stderr"] != b"":
                    ck.violation("default mode printed to stderr: %r" % ob["stderr"][:200], rep)
            else:
                if ob["stderr"] != want:
                    ck.violation("descriptions on stderr should be %r (matched file only), got %r" % (want, ob["stderr"][:300]), rep)
                if b"Replace foo with bar." in ob["stdout"]:
                    ck.violation("description text appeared on stdout", rep)
        if r["mismatches"] and not r.get("load_err"):
            ck.mismatch("driver model and gopatch disagree (%s %s): %s" % (sc.name, sc.flags, "; ".join(r["mismatches"][:3])),
                        dict(rep, mismatches=r["mismatches"]), "corr:cli/run (Model/Cli.v run vs main.go mainCmd.Run)")

    # ---------------- (1b) mode agreement over several files in one run: sizes descending and ascending in processing order
    # (a later, shorter output must not leak into an earlier file), import blocks that are not in canonical form
    def body(n, tag):
        return "".join("func %s%d() {\n\tfoo(%d)\n\t_ = \"padding %s %d\"\n}\n\n" % (tag, i, i, tag * 5, i) for i in range(n))
    MFILES = {
        "a_long.go": ("package p\n\n" + body(12, "long")).encode(),
        "b_short.go": b"package p\n\nfunc s() { foo(0) }\n",
        "c_mid.go": ("package p\n\n" + body(4, "mid")).encode(),
        "d_unsorted.go": b"package p\n\nimport (\n\t\"os\"\n\t\"fmt\"\n\t\"example.com/zeta\"\n\t\"bytes\"\n)\n\nvar _ = fmt.Sprint(os.Args, bytes.MinRead, zeta.Z)\n\nfunc u() { foo(7) }\n",
        "e_tiny.go": b"package p\n\nfunc t() { foo(9) }\n",
        "f_longer.go": ("package p\n\n" + body(20, "longer")).encode(),
        "g_twoblocks.go": b"package p\n\nimport \"strings\"\nimport (\n\t\"sort\"\n\n\t\"errors\"\n)\n\nvar _ = strings.ToUpper(errors.New(\"x\").Error())\nvar _ = sort.Ints\n\nfunc v() { foo(8) }\n",
    }
    mruns = {}
    msc = []
    for si in (False, True):
        for mode in ("write", "print"):
            msc.append(((si, mode), Scenario([("p.patch", WRAP_PATCH)], dict(MFILES), {"print": mode == "print", "skip_imports": si}, name="multi-agree")))
    for key, r in zip([k for k, _ in msc], clicorr.run_scenarios([x for _, x in msc], api=True)):
        mruns[key] = r
    for si in (False, True):
        w, pr = mruns[(si, "write")], mruns[(si, "print")]
        ck.count(("multi-agree", si)); ck.tally("kind", "multi-file agreement")
        rep = dict(w["sc"].describe(), skip_imports=si, rc=w["obs"]["rc"], stderr=w["obs"]["stderr"].decode("utf-8", "replace")[:500])
        if w["obs"]["rc"] != 0 or pr["obs"]["rc"] != 0:
            ck.violation("multi-file run fails (write %d, print %d)" % (w["obs"]["rc"], pr["obs"]["rc"]), rep); continue
        names = sorted(MFILES)
        written = {fn: w["obs"]["after"][fn][1] for fn in names}
        if pr["obs"]["stdout"] != b"".join(written[fn] for fn in names):
            bad = [fn for fn in names if written[fn] not in pr["obs"]["stdout"]]
            ck.violation("several files in one run%s: the bytes written in place differ from what --print-only prints for %s"
                         % (" with --skip-import-processing" if si else "", bad or names),
                         dict(rep, written={fn: written[fn].decode("utf-8", "replace")[:400] for fn in (bad or names)[:2]}, printed=pr["obs"]["stdout"].decode("utf-8", "replace")[:1500]))
        if not si:
            for fn, ff in zip(names, w["facts"]["files"]):
                if ff.get("api_out") is not None and not ff["api_err"] and unb64(ff["api_out"]) != written[fn]:
                    ck.violation("the library API returns other bytes for %s than the command line writes" % fn,
                                 dict(rep, file=fn, api=unb64(ff["api_out"]).decode("utf-8", "replace"), written=written[fn].decode("utf-8", "replace")))
        # the same files one at a time give the same bytes
    # ---------------- (1c) targets with a very long line (longer than bufio.MaxScanTokenSize): the three modes, run directly
    import shutil
    for width in (60000, 70000, 140000):
        src = b"package p\n\nfunc a() {\n\tfoo(1)\n}\n\nvar s = \"" + b"x" * width + b"\"\n"
        d = vlib.scratch("c12long")
        try:
            outs = {}
            for mode, fl in (("write", []), ("print", ["--print-only"]), ("diff", ["-d"])):
                open(os.path.join(d, "a.go"), "wb").write(src)
                open(os.path.join(d, "p.patch"), "wb").write(b"@@\nvar x expression\n@@\n-foo(x)\n+bar(x)\n")
                rc, so, se = vlib.run_gopatch(["-p", "p.patch"] + fl + ["a.go"], d)
                outs[mode] = (rc, so, se, open(os.path.join(d, "a.go"), "rb").read())
            ck.count(("long-line", width), nontrivial=True); ck.tally("kind", "long line (%d bytes)" % width)
            rep = {"case": "long line of %d bytes" % width, "patch": "@@\nvar x expression\n@@\n-foo(x)\n+bar(x)\n", "file": "package p; func a() { foo(1) }; var s = \"x...(%d)\"" % width,
                   "exit": {m: o[0] for m, o in outs.items()}, "stderr_diff": outs["diff"][2].decode("utf-8", "replace")[:300]}
            if outs["write"][0] != 0 or outs["print"][0] != 0 or outs["write"][3] != outs["print"][1]:
                ck.violation("a target with a %d-byte line: in-place and --print-only fail or disagree" % width, rep)
            elif outs["diff"][0] != 0:
                ck.violation("a target with a %d-byte line: --diff fails (%s) where the other modes succeed" % (width, outs["diff"][2].decode("utf-8", "replace").strip()[:80]), rep,
                             finding_class="long-line-diff" if b"token too long" in outs["diff"][2] else None)
            else:
                try:
                    applied = udiff.apply({b"a.go": src}, outs["diff"][1]).get(b"a.go", src)
                    if applied != outs["write"][3]:
                        ck.violation("a target with a %d-byte line: the diff does not reproduce the bytes written in place" % width, rep)
                except udiff.DiffError as e:
                    ck.violation("a target with a %d-byte line: the --diff output does not apply: %s" % (width, e), rep)
        finally:
            shutil.rmtree(d, ignore_errors=True)
    # ---------------- (1d) descriptions: only the '#' lines directly above a change's header, only for files that change applies to.
    # '#' lines inside an earlier change (its metavariable section, its body) are nobody's description
    DPATCH = (b"# first change\n@@\n# inside the metavariable section\nvar x expression\n@@\n# inside the body of the first change\n-foo(x)\n# between its lines\n+bar(x)\n"
              b"# trailing the first change\n\n@@\nvar y expression\n@@\n-baz(y)\n+qux(y)\n\n# third change\n# (two lines)\n@@\n@@\n-never()\n+ever()\n")
    DFILES = {"a.go": b"package p\n\nfunc a() { foo(1) }\n", "b.go": b"package p\n\nfunc b() { baz(2) }\n", "c.go": b"package p\n\nfunc c() { foo(3); baz(4) }\n", "d.go": b"package p\n\nfunc d() {}\n"}
    for fl in (["-d"], ["--print-only"], ["-d", "--print-only"], []):
        d = vlib.scratch("c12desc")
        try:
            for fn, data in DFILES.items():
                open(os.path.join(d, fn), "wb").write(data)
            open(os.path.join(d, "p.patch"), "wb").write(DPATCH)
            rc, so, se = vlib.run_gopatch(["-p", "p.patch"] + fl + sorted(DFILES), d)
            ck.count(("descriptions", tuple(fl)), nontrivial=True); ck.tally("kind", "descriptions of a three-change patch")
            lines = [l for l in se.decode("utf-8", "replace").splitlines() if l.strip()]
            want = (["a.go:first change", "c.go:first change"] if fl and fl != [] else [])
            got = sorted(l.split("/")[-1] for l in lines)
            rep = {"case": "descriptions", "patch": DPATCH.decode(), "files": {k: v.decode() for k, v in DFILES.items()}, "flags": fl, "stderr": se.decode("utf-8", "replace"), "rc": rc}
            if rc != 0:
                ck.violation("a three-change patch with '#' lines everywhere fails: %s" % se.decode("utf-8", "replace")[:200], rep)
            elif any("inside" in l or "between" in l or "trailing" in l or "third" in l or "two lines" in l for l in lines):
                ck.violation("a '#' line that is not directly above the header of a change that applied is printed as a description: %r" % lines[:4], rep)
            elif fl and not ("a.go:first change" in got and set(got) <= set(want)):
                # (c.go: the described change and an undescribed one apply; gopatch prints the description of the last change that
                # applied, i.e. none - the property asks for no more than "only for files to which a described change applied")
                ck.violation("descriptions on stderr: expected 'a.go:first change' and at most %r, got %r" % (sorted(want), got), rep)
            elif not fl and lines:
                ck.violation("descriptions are printed in the default mode: %r" % lines[:3], rep)
        finally:
            shutil.rmtree(d, ignore_errors=True)
    # mode agreement
    n_agree = 0
    for (cname, fn, si), d in sorted(agree.items()):
        if len(d) < 3 or any(x.get("load_err") for x in d.values()):
            ck.tally("agree_skipped", "patch does not load")
            continue
        w, p, df = d["write"], d["print"], d["diff"]
        orig = w["sc"].files[fn]
        rep = dict(w["sc"].describe(), skip_imports=si)
        if not (w["obs"]["rc"] == p["obs"]["rc"] == df["obs"]["rc"]):
            ck.violation("exit status differs between modes for %s/%s: write %d print %d diff %d" %
                         (cname, fn, w["obs"]["rc"], p["obs"]["rc"], df["obs"]["rc"]), rep)
            continue
        if w["obs"]["rc"] != 0:
            ck.tally("agree_skipped", "run fails in all modes")
            continue
        written = w["obs"]["after"][fn][1]
        printed = p["obs"]["stdout"]
        try:
            applied = udiff.apply({fn.encode(): orig}, df["obs"]["stdout"]).get(fn.encode(), orig) if df["obs"]["stdout"] else orig
        except udiff.DiffError as e:
            ck.violation("--diff output for %s/%s does not apply to the original: %s" % (cname, fn, e),
                         dict(rep, diff=df["obs"]["stdout"].decode("utf-8", "replace")),
                         finding_class="crlf-target-diff" if b"\r\n" in orig else None)
            continue
        n_agree += 1
        if not (written == printed == applied):
            which = "written!=printed" if written != printed else "diff-applied!=written"
            ck.violation("output modes disagree for %s/%s (%s)" % (cname, fn, which),
                         dict(rep, written=written.decode("utf-8", "replace"), printed=printed.decode("utf-8", "replace"),
                              applied=applied.decode("utf-8", "replace")),
                         finding_class=("crlf-target-diff" if b"\r\n" in orig else "no-final-newline-diff" if (not orig.endswith(b"\n") and applied + b"\n" == written) else None) if written == printed else None)
        ff = w["facts"]["files"][0]
        if len(w["sc"].patches) == 1 and not si:
            if ff.get("api_panic") or ff["api_err"]:
                ck.violation("library API fails (%s) where the command line succeeds for %s/%s" % (ff["api_err"] or "panic", cname, fn), rep)
            elif unb64(ff["api_out"]) != written:
                ck.violation("library API result differs from the bytes written by the command line for %s/%s" % (cname, fn),
                             dict(rep, api=unb64(ff["api_out"]).decode("utf-8", "replace"), written=written.decode("utf-8", "replace")))
    ck.notes["mode_agreement_triples"] = n_agree
    for (cname, si), d in sorted(overlap.items()):
        w, p, df = d["write"], d["print"], d["diff"]
        rep = dict(w["sc"].describe(), skip_imports=si)
        cwd_w = w["obs"]["cwd"]
        written = {rel: v[1] for rel, v in w["obs"]["after"].items() if v[0] == "f"}
        orig = {rel: v[1] for rel, v in w["obs"]["before"].items() if v[0] == "f"}
        # print: concatenation, in path order, of the new (or unchanged) contents
        failing = set(os.path.relpath(ab, cwd_w) for (ab, _), f_ in zip(w["targets"], w["facts"]["files"]) if f_["parse_err"])
        exp_print = b"".join(written[os.path.relpath(ab, cwd_w)] for ab, _ in w["targets"] if os.path.relpath(ab, cwd_w) not in failing)
        if p["obs"]["stdout"] != exp_print:
            ck.violation("%s: --print-only output differs from the bytes written in place (files visited: %s)"
                         % (cname, [os.path.relpath(ab, cwd_w) for ab, _ in w["targets"]]),
                         dict(rep, printed=p["obs"]["stdout"].decode("utf-8", "replace"), written={k: v.decode("utf-8", "replace") for k, v in written.items()}))
        # diff: applied to the original tree gives the written tree
        names = {}
        for rel, data in orig.items():
            names[rel.encode()] = data
            names[os.path.join(df["obs"]["cwd"], rel).encode()] = data
        try:
            applied = udiff.apply(names, df["obs"]["stdout"])
            tree = dict(orig)
            for nm, data in applied.items():
                rel = nm.decode()
                rel = os.path.relpath(rel, df["obs"]["cwd"]) if os.path.isabs(rel) else rel
                tree[rel] = data
            nfiles = len(udiff.split_files(df["obs"]["stdout"]))
            if tree != written or nfiles != len(applied):
                ck.violation("%s: applying the --diff output to the original tree does not give the bytes written in place "
                             "(or a file is diffed more than once)" % cname,
                             dict(rep, diff=df["obs"]["stdout"].decode("utf-8", "replace")))
        except udiff.DiffError as e:
            ck.violation("%s: --diff output does not apply to the original tree: %s" % (cname, e),
                         dict(rep, diff=df["obs"]["stdout"].decode("utf-8", "replace")))

    # ---------------- (3) system-call level: dry runs issue no mutating call below the tree
    st_scs = []
    pick = gold[:: (1 if thorough else 6)]
    for j, c in enumerate(pick):
        fl = flagsets[(j * 5) % len(flagsets)]
        st_scs.append(Scenario(c["patches"], dict(c["inputs"], **{"zz_broken.go": BROKEN_GO}), fl, name="strace:" + c["name"]))
    st_scs.append(Scenario([("p.patch", FAILING[0][1])], {"a.go": FAILING[0][2]}, {"diff": True}, name="strace:unbound"))
    st_scs.append(Scenario([("p.patch", FAILING[1][1])], {"a.go": FAILING[1][2]}, {"print": True, "skip_imports": True}, name="strace:unparseable"))
    for ob, sc in zip(vlib.pmap(clicorr.execute_strace, st_scs, workers=8), st_scs):
        ck.count(("strace", sc.name))
        ck.tally("kind", "strace")
        if not ob["calls"]:
            ck.mismatch("strace produced no trace for %s" % sc.name, sc.describe(), "strace observation")
            continue
        if ob["mutations"] or clicorr.tree_changes(ob):
            ck.violation("dry run issued file-system mutating calls: %s" % (ob["mutations"][:4],),
                         dict(sc.describe(), mutations=[list(map(str, m)) for m in ob["mutations"][:20]]))
    ck.notes["strace_runs"] = len(st_scs)

    ck.sample({"case": "desc", "patch": FAILING[2][1].decode(), "modes": ["write", "print", "diff"]})
    ck.sample({"case": gold[0]["name"], "patch": gold[0]["patches"][0][1].decode(), "file": sorted(gold[0]["inputs"])[0]})
    ck.cov["rule"] = ("golden patches x each input x {write, print, diff} (+ --skip-import-processing in thorough) + API: bytes written = "
                      "printed = diff applied to the original = API result; dry runs of every golden case and of failing patches "
                      "(unbound metavariable, unparseable result, unparseable target) in multi-file trees under %s flag sets: tree digest "
                      "(bytes, inode, mtime, mode) unchanged; %d dry runs under strace -f: no open-for-write/rename/unlink/mkdir/chmod/"
                      "truncate/link/utimens on any path below the tree; every run also compared with the extracted Coq model. "
                      "distinct = distinct (kind, case, file, flags)" % ("all 24 dry-run" if thorough else "2 rotating", len(st_scs)))
    ck.cov["trusted_base"] = [
        "Coq 8.16.1 kernel; no axioms (Properties/C12.v closed under the global context)",
        "extraction + OCaml driver; lib/clicorr.py rendering; lib/udiff.py (unified-diff applier, 90 lines)",
        "pkg/diff output format is an oracle: the theorem speaks of the 'new' argument of the diff call, the check applies the printed diff",
        "strace -f as the observer of system calls",
    ]
    ck.assumptions = ["engine/format/imports.Process are oracles of the loop model",
                      "applying pkg/diff's output to the original yields its 'new' argument (checked per case by udiff)"]
    return ck.finish()


if __name__ == "__main__":
    import sys
    sys.exit(main())
