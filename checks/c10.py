"""C10 — package and import clauses in a change guard the whole file."""
import itertools
import vlib, enginecorr, enginecheck
from c01 import TRUSTED

PATH = "example.com/foo"
OTHER = "example.com/qux"
# patch-side forms of an import of PATH: (label, name) ; name None = unnamed, "$n" = identifier metavariable
PFORMS = [("absent", "absent"), ("unnamed", None), ("named-base", "foo"), ("named-other", "bar"), ("metavar", "$n"), ("dot", "."), ("blank", "_"),
          ("expression-metavar", "$bar")]     # 'var bar expression': not an identifier metavariable, so the name is literal
# file-side: list of names under which PATH is imported
FFORMS = [("absent", []), ("unnamed", [None]), ("named-base", ["foo"]), ("named-bar", ["bar"]), ("named-baz", ["baz"]), ("dot", ["."]), ("blank", ["_"]),
          ("unnamed+bar", [None, "bar"]), ("bar+unnamed", ["bar", None]), ("baz+bar", ["baz", "bar"]), ("blank+unnamed", ["_", None]),
          ("foo+dot", ["foo", "."])]
PPKG = [None, "p", "other", "p_test", "pp"]
FPKG = ["p", "p_test", "pp"]
LAYOUT = ["single", "grouped", "grouped-with-others", "two-blocks"]
RAW_LAYOUT = ["raw-single", "raw-grouped"]      # import paths written as raw string literals


def ref_import(pname, fnames):
    """the property's table"""
    if pname == "absent":
        return True
    if pname is None:
        return None in fnames
    if pname == "$n":
        return len(fnames) > 0
    if pname == "$bar":
        # not in the property's table: an expression metavariable stands for any expression, an import's name included,
        # but it is not "an identifier metavariable" (which also matches no name at all): any NAMED import of the path
        return any(n is not None for n in fnames)
    return pname in fnames


def spec(name, path):
    return ("%s \"%s\"" % (name, path)) if name else "\"%s\"" % path


def make_patch(ppkg, pform, second, on_minus, code, pkg_metavar=None):
    lines = ["@@", "var x expression", "var n identifier", "@@"] if pform == "$n" or second == "$n" else ["@@", "var x expression", "@@"]
    if pkg_metavar and ppkg:
        lines.insert(2, "var %s %s" % (ppkg, pkg_metavar))          # the package name of the clause is ALSO a declared metavariable
    if pform == "$bar" or second == "$bar":
        lines.insert(2, "var bar expression")
    mark = "-" if on_minus else " "
    if ppkg:
        lines += [" package %s" % ppkg, ""]
    imps = []
    if pform != "absent":
        imps.append(spec(None if pform is None else ("n" if pform == "$n" else "bar" if pform == "$bar" else pform), PATH))
    if second != "absent":
        imps.append(spec(None if second is None else ("n" if second == "$n" else "bar" if second == "$bar" else second), OTHER))
    for i in imps:
        lines.append("%simport %s" % (mark, i))
    if imps and on_minus:
        lines.append("+import \"example.com/replacement\"")
    if imps:
        lines.append("")
    lines += ["-" + code[0], "+" + code[1]]
    return "\n".join(lines) + "\n"


def make_file(fpkg, fnames, others, layout, body):
    specs = [spec(n, PATH) for n in fnames] + [spec(n, p) for n, p in others]
    if layout.startswith("raw-"):
        specs = [x.replace('"', "`") for x in specs]
        layout = layout[4:]
    out = "package %s\n\n" % fpkg
    if specs:
        if layout == "single":
            out += "".join("import %s\n" % s for s in specs) + "\n"
        elif layout == "grouped":
            out += "import (\n" + "".join("\t%s\n" % s for s in specs) + ")\n\n"
        elif layout == "grouped-with-others":
            out += "import (\n\t\"fmt\"\n" + "".join("\t%s\n" % s for s in specs) + "\n\tzz \"example.com/zz\"\n)\n\n"
        else:
            out += "import \"os\"\n\nimport (\n" + "".join("\t%s\n" % s for s in specs) + ")\n\n"
    return out + body


BODY = "func h() {\n\told(1)\n\tfoo.Old(2)\n\tbar.Old(3)\n\tbaz.Old(4)\n\t_ = fmt.Sprint(os.Args, zz.Z, qux.Q)\n}\n"


def main():
    ck = vlib.Check("C10")
    coq_ok, coq_log = vlib.build()
    ok, log, info = vlib.prove("C10")
    ck.proof_obligations(ok, log, info, coq_ok, coq_log)
    thorough = ck.tier == "thorough"
    pairs, metas = [], []
    k = 0
    # (1) the table, code pattern independent of the import
    for (pl, pform), (fl, fnames), ppkg, fpkg in itertools.product(PFORMS, FFORMS, PPKG, FPKG):
        for on_minus in (False, True):
            k += 1
            if on_minus and pform == "absent":
                continue
            if not thorough and (ppkg in ("pp",) or fpkg == "pp") and k % 3:
                continue
            layout = LAYOUT[k % 4]
            patch = make_patch(ppkg, pform, "absent", on_minus, ("old(x)", "renamed(x)"))
            src = make_file(fpkg, fnames, [], layout, BODY)
            exp = (ppkg is None or ppkg == fpkg) and ref_import(pform, fnames)
            pairs.append(("p.patch", patch.encode(), "a.go", src.encode()))
            metas.append({"part": "table", "patch_form": pl, "file_form": fl, "patch_pkg": ppkg, "file_pkg": fpkg, "on": "-" if on_minus else "context",
                          "layout": layout, "expect": exp})
    # (1c) the table again with code patterns of other shapes: an expression replaced by several statements (the parser turns
    # the '-' side into a one-statement list), several statements replaced by one expression, a statement with an elision
    SHAPES = [("old(x)", "prepare(x)\n+renamed(x)"), ("old(x)\n-foo.Old(2)", "renamed(x)"), ("old(x)\n ...\n-baz.Old(4)", "renamed(x)"),
              ("func h() {", "func renamed() {\n   ...\n }")]
    for (pl, pform), (fl, fnames), ppkg, fpkg in itertools.product(PFORMS, FFORMS[:8], PPKG[:4], FPKG[:2]):
        for on_minus in (False, True):
            k += 1
            if (on_minus and pform == "absent") or (not thorough and k % 2):
                continue
            sh = SHAPES[k % len(SHAPES)]
            patch = make_patch(ppkg, pform, "absent", on_minus, sh)
            if sh[0].startswith("func"):
                patch = patch.replace("-func h() {\n+func renamed() {\n   ...\n }\n", "-func h() {\n+func renamed() {\n   ...\n }\n")
            src = make_file(fpkg, fnames, [], LAYOUT[k % 4], BODY)
            exp = (ppkg is None or ppkg == fpkg) and ref_import(pform, fnames)
            pairs.append(("p.patch", patch.encode(), "a.go", src.encode()))
            metas.append({"part": "table-code-shapes", "patch_form": pl, "file_form": fl, "patch_pkg": ppkg, "file_pkg": fpkg, "on": "-" if on_minus else "context",
                          "layout": LAYOUT[k % 4], "expect": exp, "shape": sh[0].split("\n")[0] + " -> " + sh[1].split("\n")[0]})
    # (1b) the same table with import paths written as raw strings in the file, and with the patch's package name declared as a
    # metavariable of the change (the clause still names that package, literally)
    for (pl, pform), (fl, fnames), ppkg, fpkg in itertools.product(PFORMS, FFORMS[:8], PPKG[:4], FPKG[:2]):
        k += 1
        if not thorough and k % 3:
            continue
        layout = RAW_LAYOUT[k % 2]
        patch = make_patch(ppkg, pform, "absent", False, ("old(x)", "renamed(x)"))
        src = make_file(fpkg, fnames, [], layout, BODY)
        exp = (ppkg is None or ppkg == fpkg) and ref_import(pform, fnames)
        pairs.append(("p.patch", patch.encode(), "a.go", src.encode()))
        metas.append({"part": "table-raw-strings", "patch_form": pl, "file_form": fl, "patch_pkg": ppkg, "file_pkg": fpkg, "on": "context", "layout": layout, "expect": exp})
        if ppkg and pform not in ("$n", "$bar"):
            mvk = ["identifier", "expression"][k % 2]
            patch = make_patch(ppkg, pform, "absent", k % 4 < 2, ("old(x)", "renamed(x)"), pkg_metavar=mvk)
            src = make_file(fpkg, fnames, [], LAYOUT[k % 4], BODY)
            pairs.append(("p.patch", patch.encode(), "a.go", src.encode()))
            metas.append({"part": "table-package-name-is-a-metavariable", "patch_form": pl, "file_form": fl, "patch_pkg": ppkg + " (declared %s)" % mvk, "file_pkg": fpkg,
                          "on": "context", "layout": LAYOUT[k % 4], "expect": exp})
    # (2) two imports in the patch: all must match
    SECOND_F = [("absent", []), ("unnamed", [None]), ("named", ["q"])]
    for (pl, pform), (fl, fnames), (sl, sform), (sfl, sfn), ppkg in itertools.product(PFORMS[1:], FFORMS[:8], PFORMS[1:5], SECOND_F, [None, "p", "other"]):
        k += 1
        if not thorough and k % 4:
            continue
        if pform == "$n" and sform == "$n":
            continue            # one metavariable for two imports: judged by the model only (part 3)
        patch = make_patch(ppkg, pform, sform, False, ("old(x)", "renamed(x)"))
        src = make_file("p", fnames, [(n, OTHER) for n in sfn], LAYOUT[k % 4], BODY)
        exp = (ppkg is None or ppkg == "p") and ref_import(pform, fnames) and ref_import(sform if sform != "foo" else "foo", sfn)
        pairs.append(("p.patch", patch.encode(), "a.go", src.encode()))
        metas.append({"part": "two-imports", "patch_form": pl + "&" + sl, "file_form": fl + "&" + sfl, "patch_pkg": ppkg, "file_pkg": "p", "on": "context",
                      "layout": LAYOUT[k % 4], "expect": exp})
    # (3) code pattern that uses the import's name (judged by the proved model only)
    for (pl, pform), (fl, fnames), on_minus in itertools.product(PFORMS[1:], FFORMS, (False, True)):
        k += 1
        nm = {None: "foo", "$n": "n", ".": "foo", "_": "foo"}.get(pform, pform)
        patch = make_patch(None, pform, "absent", on_minus, ("%s.Old(x)" % nm, "%s.New(x)" % nm))
        src = make_file("p", fnames, [], LAYOUT[k % 4], BODY)
        pairs.append(("p.patch", patch.encode(), "a.go", src.encode()))
        metas.append({"part": "selector-pattern", "patch_form": pl, "file_form": fl, "patch_pkg": None, "file_pkg": "p", "on": "-" if on_minus else "context",
                      "layout": LAYOUT[k % 4], "expect": None})
    for sform, sfn in itertools.product(["$n"], [[None], ["q"], ["foo"], []]):
        for fl, fnames in FFORMS[:6]:
            k += 1
            patch = make_patch(None, "$n", sform, False, ("old(x)", "renamed(x)"))
            src = make_file("p", fnames, [(n, OTHER) for n in sfn], LAYOUT[k % 4], BODY)
            pairs.append(("p.patch", patch.encode(), "a.go", src.encode()))
            metas.append({"part": "shared-metavar", "patch_form": "n&n", "file_form": fl, "patch_pkg": None, "file_pkg": "p", "on": "context",
                          "layout": LAYOUT[k % 4], "expect": None})
    n_parallel = len(pairs)
    # (4) the guard is evaluated on the file as the earlier changes of the same run left it
    A_KINDS = {
        # name: (patch text, effect on the names under which PATH / OTHER are imported)
        "replace foo->qux": ("@@\nvar x expression\n@@\n-import \"%s\"\n+import \"%s\"\n\n-foo.Old(x)\n+qux.Old(x)\n" % (PATH, OTHER),
                             lambda f, q: ([n for n in f if n is not None], q + [None] if None not in q else q) if None in f else None),
        "add qux": ("@@\nvar x expression\n@@\n+import \"%s\"\n\n-old(x)\n+qux.New(x)\n" % OTHER,
                    lambda f, q: (f, q + [None] if None not in q else q)),
        "delete foo": ("@@\nvar x expression\n@@\n-import \"%s\"\n\n-foo.Old(x)\n+gone(x)\n" % PATH,
                       lambda f, q: ([n for n in f if n is not None], q) if None in f else None),
        "alias foo as bar": ("@@\nvar x expression\n@@\n-import \"%s\"\n+import bar \"%s\"\n\n-foo.Old(x)\n+bar.Old2(x)\n" % (PATH, PATH),
                             lambda f, q: ([n for n in f if n is not None] + (["bar"] if "bar" not in f else []), q) if None in f else None),
    }
    BODY4 = "func h() {\n\told(1)\n\tfoo.Old(2)\n\tmark(3)\n}\n"
    for (an, (atext, eff)), (fl, fnames), (bl, bform), bpath_is_other, layout in itertools.product(
            A_KINDS.items(), [FFORMS[0], FFORMS[1], FFORMS[3], FFORMS[7]], PFORMS[1:5], (False, True), LAYOUT[:2]):
        k += 1
        qnames = []
        after = eff(list(fnames), qnames)
        bspec = spec(None if bform is None else ("n" if bform == "$n" else bform), OTHER if bpath_is_other else PATH)
        head = "@@\nvar x expression\nvar n identifier\n@@\n" if bform == "$n" else "@@\nvar x expression\n@@\n"
        btext = head + " import %s\n\n-mark(x)\n+marked(x)\n" % bspec
        src = make_file("p", fnames, [], layout, BODY4)
        if after is None:
            a_applies, f2, q2 = False, list(fnames), qnames
        else:
            a_applies, (f2, q2) = True, after
        if an == "add qux":
            a_applies = True
        expB = ref_import(bform, q2 if bpath_is_other else f2)
        pairs.append(("p.patch", (atext + btext).encode(), "a.go", src.encode()))
        metas.append({"part": "after-earlier-change", "patch_form": an + " / then guard " + bl + (" on qux" if bpath_is_other else " on foo"), "file_form": fl,
                      "patch_pkg": None, "file_pkg": "p", "on": "context", "layout": layout, "expect": None, "expect_steps": (a_applies, expB)})
    # (5) each change has its own metavariables: a name declared by an EARLIER change is a literal name in a later one
    for (fl, fnames), decl_kind, same_name in itertools.product(FFORMS[:8], ("identifier", "expression"), (False, True)):
        k += 1
        hdr = "@ c @\n" if same_name else "@@\n"
        first = hdr + "var bar %s\n@@\n-first(bar)\n+firstDone(bar)\n\n" % decl_kind
        second = hdr + "var x expression\n@@\n import bar \"%s\"\n\n-mark(x)\n+marked(x)\n" % PATH
        src = make_file("p", fnames, [], LAYOUT[k % 4], "func h() {\n\tfirst(q)\n\tmark(3)\n}\n")
        pairs.append(("p.patch", (first + second).encode(), "a.go", src.encode()))
        metas.append({"part": "own-metavariables", "patch_form": "literal bar after 'var bar %s'%s" % (decl_kind, " (same change name)" if same_name else ""),
                      "file_form": fl, "patch_pkg": None, "file_pkg": "p", "on": "context", "layout": LAYOUT[k % 4], "expect": None,
                      "expect_steps": (decl_kind == "expression" or True, ref_import("bar", fnames))})
    # part 4 runs one case at a time: state kept across changes inside /repo must not be masked by concurrent cases
    res = enginecorr.run(pairs[:n_parallel]) + enginecorr.run(pairs[n_parallel:], serial=True)
    for k, (pair, m, o) in enumerate(zip(pairs, metas, res)):
        ck.count((pair[1], pair[3]), nontrivial=not o["skipped"])
        for key in ("part", "patch_form", "file_form", "patch_pkg", "file_pkg", "on"):
            ck.tally(key, str(m[key]))
        if o["skipped"]:
            ck.tally("verdict", "skipped: " + o["skipped"][:50])
            continue
        r = o["impl"]
        applied = "ok" in (o.get("isteps") or [])
        errd = "err" in (o.get("isteps") or [])
        rep = {"case": "c10#%d" % k, "patch": pair[1].decode(), "file": pair[3].decode(), "meta": m, "steps_gopatch": o.get("isteps"),
               "steps_model": o.get("msteps"), "gopatch_output": vlib.unb64(r["out"]).decode("utf-8", "replace") if r.get("out") else None}
        if m.get("expect_steps"):
            ea, eb = m["expect_steps"]
            got = o.get("isteps") or []
            ck.tally("expected", "second change %s after the first %s" % ("applies" if eb else "guard fails", "applied" if ea else "did not apply"))
            want = ["ok" if ea else "nomatch", "ok" if eb else "nomatch"]
            if got != want:
                ck.violation("two changes in one run (%s) on a file importing foo as %s: expected %s, gopatch did %s - the guard of the second "
                             "change must be evaluated on the imports the first one left" % (m["patch_form"], m["file_form"], want, got), rep)
                continue
        if m["expect"] is not None:
            ck.tally("expected", "applies" if m["expect"] else "guard fails")
            if m["expect"] and not applied and not errd:
                ck.violation("all guards hold (patch import %s / file %s, package %s / %s) and the code pattern occurs, but the change did not apply"
                             % (m["patch_form"], m["file_form"], m["patch_pkg"], m["file_pkg"]), rep)
                continue
            if not m["expect"] and (applied or errd):
                ck.violation("a guard fails (patch import %s / file %s, package %s / %s) but the change had an effect (%s)"
                             % (m["patch_form"], m["file_form"], m["patch_pkg"], m["file_pkg"], o.get("isteps")), rep)
                continue
            if not m["expect"] and r.get("out") and vlib.unb64(r["out"]) != pair[3]:
                ck.violation("a guard fails but the file came back different", rep)
                continue
        enginecheck.report(ck, "c10#%d" % k, pair, o, "sites", m)
    # ---- part 6: the guards are per file also when the binary walks a directory that mixes packages (external test
    # packages, package main next to a library, files in other directories): a file is rewritten iff ITS package clause and
    # imports satisfy the change, whatever the files processed before it were
    import os, shutil, itertools as _it
    PKGS = ["p", "p_test", "main", "q"]
    def dir_case(k):
        rng = __import__("random").Random(ck.seed * 7919 + k)
        guard_pkg = rng.choice(PKGS[:3])
        with_imp = rng.random() < 0.5
        every = rng.random() < 0.7                 # every change of the run has a package clause
        patch = "@@\nvar x expression\n@@\n package %s\n%s\n-first(x)\n+second(x)\n" % (guard_pkg, "\n import \"example.com/foo\"\n" if with_imp else "")
        if not every:
            patch += "\n@@\nvar x expression\n@@\n-third(x)\n+fourth(x)\n"
        files = {}
        names = ["a_first.go", "b.go", "c_test.go", "d.go", "e_test.go", "sub/f.go", "sub/g_test.go"]
        rng.shuffle(names)
        for nm in sorted(names[:rng.randint(3, 6)]):
            pk = rng.choice(PKGS)
            imp = rng.random() < 0.7
            files[nm] = "package %s\n\n%sfunc h() {\n\tfirst(1)\n\tthird(2)\n}\n" % (pk, "import \"example.com/foo\"\n\nvar _ = foo.X\n\n" if imp else "")
        want = {}
        for nm, src in files.items():
            ok1 = src.startswith("package %s\n" % guard_pkg) and (not with_imp or "example.com/foo" in src)
            out = src.replace("first(1)", "second(1)") if ok1 else src
            if not every:
                out = out.replace("third(2)", "fourth(2)")
            want[nm] = out
        return patch, files, want, {"guard_pkg": guard_pkg, "with_import_guard": with_imp, "every_change_has_package_clause": every}
    def run_dir(k):
        patch, files, want, m = dir_case(k)
        d = vlib.scratch("c10d")
        try:
            for nm, src in files.items():
                os.makedirs(os.path.dirname(os.path.join(d, nm)), exist_ok=True)
                open(os.path.join(d, nm), "w").write(src)
            open(os.path.join(d, "p.patch"), "w").write(patch)
            args = [["./..."], ["."] + (["sub"] if any(n.startswith("sub/") for n in files) else []), sorted(files)][k % 3]
            rc, so, se = vlib.run_gopatch(["-p", "p.patch"] + args, d)
            got = {nm: open(os.path.join(d, nm)).read() for nm in files}
            return patch, files, want, m, args, rc, se.decode("utf-8", "replace"), got
        finally:
            shutil.rmtree(d, ignore_errors=True)
    for k, (patch, files, want, m, args, rc, se, got) in enumerate(vlib.pmap(run_dir, range(240 if thorough else 60))):
        ck.count(("dir", patch, tuple(sorted(files.items())), tuple(args)), nontrivial=True)
        ck.tally("part", "directory runs of the binary")
        rep = {"case": "c10dir#%d" % k, "patch": patch, "files": files, "args": args, "rc": rc, "stderr": se[:400], "meta": m}
        if rc != 0:
            ck.violation("directory run fails although every file parses and every guard is decidable: %s" % se[:200], rep)
            continue
        for nm in sorted(files):
            if got[nm].replace(" ", "").replace("\t", "") != want[nm].replace(" ", "").replace("\t", ""):
                rewritten = got[nm] != files[nm]
                ck.violation("file %s (package clause %r) of a directory run was %s although its own package clause and imports %s the change"
                             % (nm, files[nm].split("\n")[0], "rewritten" if rewritten else "left alone",
                                "do not satisfy" if rewritten and want[nm] == files[nm] else "satisfy"), dict(rep, file=nm, got=got[nm], want=want[nm]))
                break
    ck.sample({"patch": pairs[200][1].decode(), "file": pairs[200][3].decode(), "meta": metas[200]})
    ck.sample({"patch": pairs[-20][1].decode(), "file": pairs[-20][3].decode(), "meta": metas[-20]})
    ck.cov["rule"] = ("enumerated table: patch-side import forms {absent, unnamed, named as the base, named otherwise, identifier metavariable, dot, "
                      "blank} x file-side forms {absent, unnamed, named base/bar/baz, dot, blank, and five two-spec combinations} x patch package "
                      "{none, p, other, p_test, pp} x file package {p, p_test, pp} x guard on context / '-' lines, in 4 layouts (single, grouped, "
                      "grouped with other imports, two blocks); two-import patches (all must match); patterns that use the import's name and one "
                      "metavariable naming two imports (model only). Every cell of parts 1-2 is judged by the table of the property text, all by "
                      "the extracted Coq model. The code pattern occurs in every file. %s" % ("full product" if thorough else "full table for the main package names; thinned for 'pp' and for two-import patches"))
    ck.cov["exhaustive"] = True
    ck.cov["trusted_base"] = TRUSTED + ["the 12-line reference table ref_import in checks/c10.py"]
    return ck.finish()


if __name__ == "__main__":
    import sys
    sys.exit(main())
