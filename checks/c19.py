"""C19 — header and metavariable diagnostics point at the offending token."""
import os, shutil
import vlib, corpus, frontend
from vlib import b64, unb64

FILLER = [b"# a comment line", b"#", b"  # indented comment", b"# @@ not a header", b"#var x expression"]


def valid_changes():
    """single changes (bytes, without trailing blank lines) cut out of the golden patches that load fine"""
    out = []
    for c in corpus.golden():
        for _, data in c["patches"]:
            if data.count(b"\n@@") + data.startswith(b"@@") >= 2 and b"\n@ " not in data and not data.startswith(b"@ "):
                # keep whole files that contain exactly one change
                heads = [i for i, l in enumerate(data.split(b"\n")) if l.startswith(b"@")]
                if len(heads) == 2:
                    out.append(data.rstrip(b"\n") + b"\n")
    return out


def assemble(rng, changes, k_fault, mutate):
    """concatenate changes with random comment/blank filler; apply `mutate` to change k_fault.
    mutate(lines) -> (new lines, (line index within change, col))"""
    lines, fault_at = [], None
    for k, ch in enumerate(changes):
        if k == 0 and rng.random() < 0.4:
            # blank and whitespace-only lines at the very start of the file
            for _ in range(rng.randint(1, 3)):
                lines.append(rng.choice([b"", b"", b"  ", b"\t"]))
        for _ in range(rng.randint(0, 3)):
            lines.append(rng.choice(FILLER))
        if k == 0:
            for _ in range(rng.randint(0, 2)):
                lines.append(b"")
        body = ch.rstrip(b"\n").split(b"\n")
        # drop leading description comments of the original change: keep them, they are harmless
        if k == k_fault:
            body, (li, col), kind = mutate(body)
            # comment and blank lines INSIDE the change, before the faulty line (metavariable section included)
            h = header_index(body)[0]
            for _ in range(rng.randint(0, 3)):
                pos = rng.randint(h + 1, li) if li > h else None
                if pos is None:
                    break
                body = body[:pos] + [rng.choice(FILLER + [b""])] + body[pos:]
                li += 1
            fault_at = (len(lines) + li + 1, col, kind)
        else:
            hs = header_index(body)
            if len(hs) >= 2 and rng.random() < 0.5:
                pos = rng.randint(hs[0] + 1, hs[1])
                body = body[:pos] + [rng.choice(FILLER)] + body[pos:]
        lines += body
    return b"\n".join(lines) + b"\n", fault_at


def header_index(body):
    return [i for i, l in enumerate(body) if l.startswith(b"@")]


def faults(rng):
    """list of (name, mutate)"""
    fs = []
    def bad_name(text, col):
        def m(body):
            h = header_index(body)[0]
            body = body[:h] + [text] + body[h + 1:]
            return body, (h, col), "invalid name"
        return m
    fs += [("bad-name-dash", bad_name(b"@ na-me @", 5)), ("bad-name-digit", bad_name(b"@ 1abc @", 3)),
           ("bad-name-space", bad_name(b"@ a b @", 4)), ("bad-name-padded", bad_name(b"@    x.y  @", 7)),
           ("bad-name-tight", bad_name(b"@x!@", 3)), ("bad-name-tab", bad_name(b"@\tfoo%bar @", 6)),
           # letters outside ASCII before the offending character: columns count bytes
           ("bad-name-utf8", bad_name("@ gr\u00f6\u00dfe-x @".encode("utf-8"), 10)), ("bad-name-utf8-short", bad_name("@ \u00e9! @".encode("utf-8"), 5)),
           ("bad-name-utf8-3byte", bad_name("@ \u4e16\u754c.x @".encode("utf-8"), 9))]
    def garbage_before(text):
        def m(body):
            h = header_index(body)[0]
            return body[:h] + [text] + body[h:], (h, 1), "expected"
        return m
    fs += [("garbage-at", garbage_before(b"@oops")), ("garbage-at2", garbage_before(b"@ unterminated"))]
    def meta_line(text, col, kind):
        def m(body):
            h = header_index(body)
            at = h[1]
            pos = rng.randint(h[0] + 1, at)
            return body[:pos] + [text] + body[pos:], (pos, col), kind
        return m
    fs += [("unknown-type", meta_line(b"var q1 strange", 8, "unknown metavariable type")),
           ("unknown-type-indented", meta_line(b"   var q1, q2   strnge", 17, "unknown metavariable type")),
           # a declaration that names nothing ("_" only) is checked all the same
           ("unknown-type-blank", meta_line(b"var _ bogus", 7, "unknown metavariable type")),
           ("unknown-type-blanks", meta_line(b"var _, _ expresion", 10, "unknown metavariable type")),
           ("duplicate-same-line", meta_line(b"var dupX, dupX expression", 11, "cannot define metavariable")),
           ("duplicate-grouped", meta_line(b"var u1, u2, u1 identifier", 13, "cannot define metavariable")),
           ("missing-var", meta_line(b"x9 expression", 1, 'expected "var"')),
           ("var-alone", meta_line(b"var", None, "expected an identifier")),
           ("trailing-comma", meta_line(b"var x9, expression", 19, "expected an identifier")),
           ("too-many-idents", meta_line(b"var a9 b9 c9", 11, 'expected ";" or a newline')),
           ("number-name", meta_line(b"var 9x expression", 5, "expected an identifier")),
           ("extra-token", meta_line(b"var x9 expression extra", 19, 'expected ";" or a newline'))]
    return fs


def main():
    ck = vlib.Check("C19")
    coq_ok, coq_log = vlib.build()
    ok, log, info = vlib.prove("C19")
    ck.proof_obligations(ok, log, info, coq_ok, coq_log)
    thorough = ck.tier == "thorough"
    pool = valid_changes()
    loads = vlib.harness("split", {"items": [{"name": "x.patch", "src": b64(p)} for p in pool]})["results"]
    pool = [p for p, r in zip(pool, loads) if not r.get("parse_err") and not r.get("panic")]
    ck.notes["pool_of_valid_changes"] = len(pool)
    fl = faults(ck.rng)
    n_per = 40 if thorough else 8
    cases = []
    for fname, mut in fl:
        for j in range(n_per):
            n = ck.rng.randint(1, 4)
            chs = [ck.rng.choice(pool) for _ in range(n)]
            kf = ck.rng.randrange(n)
            src, fault = assemble(ck.rng, chs, kf, mut)
            cases.append((fname, src, fault, kf, n))
    # controls: the same assemblies without a fault must load
    for j in range(20 if not thorough else 80):
        n = ck.rng.randint(1, 4)
        chs = [ck.rng.choice(pool) for _ in range(n)]
        src, _ = assemble(ck.rng, chs, -1, None)
        cases.append(("control", src, None, -1, n))
    # a Go line directive inside the metavariable section, ahead of the fault on the section's last line (known finding F37)
    for cm in ("/*line other.go:100:1*/", "/*line :7:3*/"):
        l9 = "var z %s identifer" % cm
        cases.append(("line-directive", ("@@\nvar x identifier\n@@\n-foo()\n+bar()\n\n@@\nvar y identifier\n%s\n@@\n-bar()\n+baz()\n" % l9).encode(),
                      (9, l9.index("identifer") + 1, "unknown metavariable type"), 1, 2))
    res = frontend.analyse([c[1] for c in cases], name="my.patch")
    for (fname, src, fault, kf, n), r in zip(cases, res):
        ck.count((fname, src))
        ck.tally("fault", fname)
        ck.tally("changes_in_patch", n)
        im = r["impl"]
        rep = {"fault": fname, "patch": src.decode("utf-8", "replace"), "expected": fault, "reported": im.get("parse_err")}
        err = im.get("parse_err") or ""
        if fname == "control":
            if err:
                ck.mismatch("generator premise: a fault-free assembly of valid changes is rejected: %s" % err[:200], rep, "generator premise of C19")
            if r["mismatches"]:
                ck.mismatch("front-end model and gopatch disagree: %s" % "; ".join(r["mismatches"][:3]), rep,
                            "corr:section (Model/Section.v split vs internal/parse/section)")
            continue
        line, col, kind = fault
        pos = frontend.reported_positions(err)
        # ---- direct oracle
        if not err:
            ck.violation("faulty patch (%s) was accepted" % fname, rep)
        elif not any(p[0] == "my.patch" for p in pos):
            ck.violation("rejected patch (%s): no diagnostic names the patch file: %r" % (fname, err[:200]), rep,
                         finding_class="line-directive-in-metavariable-section" if fname == "line-directive" else None)
        elif col is None:
            pass  # the offending token is whatever follows on a later line: judged through the model only
        elif ("my.patch", line, col) not in pos:
            ck.violation("diagnostic for %s does not point at the offending token: expected my.patch:%d:%d, got %r"
                         % (fname, line, col, err[:200]), rep,
                         finding_class="line-directive-in-metavariable-section" if fname == "line-directive" else None)
        elif kind not in err:
            ck.violation("diagnostic for %s at the right place but of the wrong kind: %r" % (fname, err[:200]), rep)
        # ---- model (line directives are go/scanner's business, not modelled)
        if fname == "line-directive":
            continue
        if r["mismatches"]:
            ck.mismatch("front-end model and gopatch disagree (%s): %s" % (fname, "; ".join(r["mismatches"][:3])), rep,
                        "corr:section (Model/Section.v split vs internal/parse/section)")
        merrs = frontend.model_meta_errors(r)
        serrs = vlib.field(r["model"], "errors") if r["model"][0] == "result" else []
        if not serrs:
            mp = [(l, c) for (_, _, _, l, c) in merrs]
            if fname.startswith(("unknown", "duplicate", "missing", "var-", "trailing", "too-", "number", "extra")):
                ip = [(l, c) for (f, l, c) in pos if f == "my.patch"]
                if ((line, col) not in mp) if col is not None else (not set(ip) & set(mp)):
                    ck.mismatch("Meta/PosMap model predicts %s, gopatch reports %r (fault %s expected at %s:%s)" % (merrs, err[:160], fname, line, col),
                                rep, "corr:meta (Model/Meta.v + PosMap.v vs parse/meta.go, engine/meta.go)")
    # the command line reads patch files through its own loader: the same position must come out
    def cli_one(case):
        fname, src, fault, kf, n = case
        d = vlib.scratch("c19c")
        try:
            open(os.path.join(d, "my.patch"), "wb").write(src)
            open(os.path.join(d, "a.go"), "wb").write(b"package p\n\nfunc f() { foo() }\n")
            r1 = vlib.run_gopatch(["-p", "my.patch", "a.go"], d)
            r2 = vlib.run_gopatch(["a.go"], d, stdin=src)
            return r1, r2
        finally:
            shutil.rmtree(d, ignore_errors=True)
    faulty = [c for c in cases if c[0] not in ("control", "line-directive") and c[2][1] is not None]
    for (fname, src, fault, kf, n), (r1, r2) in zip(faulty, vlib.pmap(cli_one, faulty)):
        line, col, kind = fault
        ck.count(("cli-position", fname, src))
        for how, (rc, out, err), nm in (("-p my.patch", r1, "my.patch"),):
            if rc == 0 or ("%s:%d:%d" % (nm, line, col)).encode() not in err:
                ck.violation("command line (%s): the diagnostic for %s does not point at the offending token: expected %s:%d:%d, exit %d, stderr %r"
                             % (how, fname, nm, line, col, rc, err[:200]), {"fault": fname, "patch": src.decode("utf-8", "replace"), "expected": fault})
        rc, out, err = r2
        if rc == 0 or (":%d:%d" % (line, col)).encode() not in err:
            ck.violation("command line (patch on stdin): the diagnostic for %s does not give the offending token's line and column %d:%d: exit %d, stderr %r"
                         % (fname, line, col, rc, err[:200]), {"fault": fname, "patch": src.decode("utf-8", "replace"), "expected": fault})
    # nothing is rewritten when the patch is rejected
    root = vlib.scratch("c19")
    try:
        n_cli = 0
        for fname, src, fault, kf, n in cases[:: max(1, len(cases) // 25)]:
            if fname == "control":
                continue
            n_cli += 1
            d = os.path.join(root, "r%d" % n_cli)
            os.makedirs(d)
            open(os.path.join(d, "my.patch"), "wb").write(src)
            tgt = b"package p\n\nfunc f() { foo(); x := 1; _ = x }\n"
            open(os.path.join(d, "a.go"), "wb").write(tgt)
            # the rejected patch alone, and next to patches that load, on every way of naming patches
            open(os.path.join(d, "good.patch"), "wb").write(b"@@\n@@\n-foo()\n+bar()\n")
            open(os.path.join(d, "good2.patch"), "wb").write(b"@@\n@@\n-x := 1\n+x := 2\n")
            open(os.path.join(d, "goodlist.txt"), "wb").write(b"good.patch\ngood2.patch\n")
            open(os.path.join(d, "badlist.txt"), "wb").write(b"good.patch\nmy.patch\ngood2.patch\n")
            for argv in (["-p", "my.patch"], ["-p", "my.patch", "-P", "goodlist.txt"], ["-p", "good.patch", "-p", "my.patch"],
                         ["-p", "my.patch", "-p", "good.patch"], ["-P", "badlist.txt"], ["-p", "good.patch", "-P", "badlist.txt"]):
                open(os.path.join(d, "a.go"), "wb").write(tgt)
                rc, out, err = vlib.run_gopatch(argv + ["a.go"], d)
                ck.count(("cli", fname, src, tuple(argv)))
                if rc == 0 or open(os.path.join(d, "a.go"), "rb").read() != tgt or b"my.patch" not in err:
                    ck.violation("command line with a rejected patch (%s, %s): rc=%d, file changed=%s, stderr=%r"
                                 % (fname, " ".join(argv), rc, open(os.path.join(d, "a.go"), "rb").read() != tgt, err[:200]),
                                 {"patch": src.decode("utf-8", "replace"), "argv": argv})
    finally:
        shutil.rmtree(root, ignore_errors=True)
    ck.sample({"fault": cases[0][0], "patch": cases[0][1].decode("utf-8", "replace"), "expected_line_col_kind": cases[0][2]})
    ck.sample({"fault": cases[n_per * 9][0], "patch": cases[n_per * 9][1].decode("utf-8", "replace"), "expected_line_col_kind": cases[n_per * 9][2]})
    ck.cov["rule"] = ("patches assembled from 1-4 valid golden changes with 0-3 random '#' lines before each change and blank lines before the "
                      "first; one fault of %d kinds (6 bad names, 2 header garbage, 2 unknown type, 2 duplicate, 6 malformed declarations) "
                      "injected at a random change / random line of its metavariable section, %d assemblies per kind + fault-free controls; the "
                      "text of patch.Parse's error is searched for my.patch:<line>:<col> known to the generator; the splitter output (offsets, "
                      "names, sections, descriptions, errors) and the metavariable diagnostics are compared with the extracted Coq models; "
                      "a sample goes through the command line (exit != 0, file untouched). distinct = distinct (fault, patch text)" % (len(fl), n_per))
    ck.cov["trusted_base"] = [
        "Coq 8.16.1 kernel; no axioms (Properties/C19.v closed under the global context)",
        "go/scanner token list of the metavariable scratch buffer is an oracle of Model/Meta.v (kinds, offsets, automatic semicolons)",
        "byte-level model of unicode.IsSpace/IsLetter (ASCII; bytes >= 128 are letters)",
        "extraction + ocaml/fam_section.ml + lib/frontend.py",
    ]
    ck.assumptions = ["token.File position arithmetic is modelled from its source (PosMap.v), not verified against go/token beyond the correspondence"]
    return ck.finish()


if __name__ == "__main__":
    import sys
    sys.exit(main())
