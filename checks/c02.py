"""C02 — metavariables bind by kind and bind consistently."""
import base64, re
import vlib, enginecorr, enginegen, enginecheck
from c01 import TRUSTED

# (name, meta, minus, plus): every pattern repeats a metavariable or tests a kind
FAMILIES = [
    ("dup-args", "var x expression", "foo(x, x)", "once(x)"),
    ("dup-binary", "var x expression", "x == x", "same(x)"),
    ("dup-3", "var x, y expression", "foo(x, y, x)", "foo2(x, y)"),
    ("dup-stmts", "var v identifier", "v := mk()\n-use(v)", "use(mk())"),
    ("dup-ident-call", "var f identifier", "f(f)", "self(f)"),
    ("ident-only", "var f identifier", "f(marker)", "f(marker2)"),
    ("expr-selector", "var x expression", "x.Close()", "closeIt(x)"),
    ("undeclared", "var x expression", "y(x)", "z(x)"),
    ("dup-in-dots", "var x expression", "foo(x, ..., x)", "ends(x, ...)"),
    ("dup-complit", "var x expression", "T{x, x}", "T{x}"),
]
# pairs of expressions that differ only in a token the syntax tree records as a valid / invalid position
POS_ONLY = [("g(a...)", "g(a)"), ("func() (int) { return 1 }", "func() int { return 1 }"),             ("func() { var (u int); _ = u }", "func() { var u int; _ = u }"), ("func() { type (A = int) }", "func() { type (A int) }"),
            ("h(b, c...)", "h(b, c)"), ("func() { type A = B }", "func() { type A B }")]
BASE = ["a", "a.b", "f(1)", "g(h(2))", "x + y", "m[k]", "[]int{1}", "func() {}", "a.b.c(3)", "\"s\"", "*p", "v.(T)"]


def almost(rng, e):
    """an expression that differs from e in one leaf, in depth, in parentheses, or only in layout"""
    r = rng.random()
    if r < 0.12:
        a, b = rng.choice(POS_ONLY)
        return ("pos-only", (a, b) if rng.random() < 0.5 else (b, a))
    if r < 0.3:
        m = enginegen.mutate_go(rng, e)
        return ("leaf", m[1]) if m else ("same", e)
    if r < 0.45:
        return ("paren", "(" + e + ")")
    if r < 0.6:
        return ("depth", "wrap(" + e + ")")
    if r < 0.8:
        return ("layout-only", e.replace("(", "( ").replace(",", " ,").replace("+", "  +  ") + " /* c */")
    return ("same", e)


def case(rng, k):
    name, meta, minus, plus = FAMILIES[k % len(FAMILIES)]
    patch = "@@\n%s\n@@\n-%s\n+%s\n" % (meta, minus, plus)
    stmts = []
    planted = []
    for j in range(rng.randint(3, 7)):
        e = rng.choice(BASE)
        kind, e2 = almost(rng, e)
        if kind == "pos-only":
            e, e2 = e2
        idn = rng.choice(["alpha", "beta", "pkg.sel", "arr[0]", "fn()"])
        code = minus.replace("\n-", "; ")
        # first occurrence gets e, later occurrences e2
        out, first = "", True
        import re
        def sub(m):
            nonlocal first
            if first:
                first = False
                return e
            return e2
        code = re.sub(r"\bx\b", sub, code)
        code = re.sub(r"\by\b", rng.choice(BASE), code)
        first = True
        def subf(m):
            nonlocal first
            if first:
                first = False
                return idn
            return idn if rng.random() < 0.6 else "other"
        code = re.sub(r"\bf\b", subf, code)
        code = re.sub(r"\bv\b", lambda m: rng.choice(["tmp", "tmp", "tmp2"]), code)
        code = re.sub(r"\.\.\.", lambda m: ", ".join(rng.choice(BASE) for _ in range(rng.randint(0, 2))), code)
        code = re.sub(r"\(\s*,\s*", "(", code); code = re.sub(r",\s*,", ",", code); code = re.sub(r",\s*\)", ")", code)
        stmts.append(code if (";" in code or code.rstrip().endswith(")")) else "_ = " + code)
        planted.append({"kind": kind, "code": code})
    src = "package p\n\nfunc h() {\n\t" + "\n\t".join(stmts) + "\n}\n"
    return ("c02:%s#%d" % (name, k), patch.encode(), src.encode(), {"family": name, "planted": planted})


def main():
    ck = vlib.Check("C02")
    coq_ok, coq_log = vlib.build()
    ok, log, info = vlib.prove("C02")
    ck.proof_obligations(ok, log, info, coq_ok, coq_log)
    thorough = ck.tier == "thorough"
    pairs, names, metas = [], [], []
    for nm, pn, ps, fn, fs in enginegen.golden_pairs():
        if b"dedupe" in nm.encode() or ps.count(b"var ") > 0:
            pairs.append((pn, ps, fn, fs)); names.append("golden:" + nm); metas.append(None)
    n = 4000 if thorough else 600
    for k in range(n):
        nm, p, f, meta = case(ck.rng, k)
        pairs.append(("p.patch", p, "a.go", f)); names.append(nm); metas.append(meta)
    dupfams = [i for i, f in enumerate(enginegen.EXPR_FAMILIES) if f[0].startswith("dup") or f[0] in ("call-dup",)]
    for k in range(1200 if thorough else 240):
        nm, p, f, meta = enginegen.grammar_case(ck.rng, dupfams[k % len(dupfams)] + len(enginegen.EXPR_FAMILIES) * (k // len(dupfams)))
        pairs.append(("p.patch", p, "a.go", f)); names.append(nm); metas.append(meta)
    for k in range(300 if thorough else 60):
        nm, p, f, meta = enginegen.stmt_case(ck.rng, 4 + 8 * k)   # lock(x) ... unlock(x)
        pairs.append(("p.patch", p, "a.go", f)); names.append(nm); metas.append(meta)
    # ---- several changes in one patch: each change has its own metavariable table
    MULTI = [
        ("same-name", "@ fix @\nvar x expression\n@@\n-foo(x)\n+foo2(x)\n\n@ fix @\nvar y expression\n@@\n-baz(x, y)\n+baz2(x, y)\n",
         ["baz(x, 2)", "baz(1, y)", "foo(3)", "baz(x, y)", "baz(q, 2)"]),
        ("same-name-kinds", "@ r @\nvar f identifier\n@@\n-f(marker)\n+f(marker2)\n\n@ r @\nvar f expression\n@@\n-call(f)\n+called(f)\n",
         ["alpha(marker)", "call(a.b)", "call(g(1))", "pkg.fn(marker)", "call(z)"]),
        ("leak-to-later", "@@\nvar log identifier\n@@\n-use(log)\n+use2(log)\n\n@@\n@@\n-log(1)\n+logged(1)\n",
         ["log(1)", "other(1)", "use(a)", "zlog(1)", "use(log)"]),
        ("leak-expr", "@@\nvar v expression\n@@\n-wrap(v)\n+wrapped(v)\n\n@@\nvar w expression\n@@\n-pair(v, w)\n+paired(w)\n",
         ["pair(v, 1)", "pair(u, 2)", "wrap(3)", "pair(v, v)", "pair(a.b, c)"]),
        ("shadow-later", "@@\nvar x expression\n@@\n-one(x)\n+uno(x)\n\n@@\nvar x identifier\n@@\n-two(x)\n+dos(x)\n",
         ["one(a + b)", "two(a + b)", "two(c)", "one(d)", "two(e.f)"]),
    ]
    for nm, ptxt, stm in MULTI:
        for rep in range(3 if thorough else 2):
            st = stm[:]; ck.rng.shuffle(st)
            src = "package p\n\nfunc h() {\n\t" + "\n\t".join(st) + "\n}\n"
            pairs.append(("p.patch", ptxt.encode(), "a.go", src.encode())); names.append("multi:" + nm); metas.append({"family": "multi:" + nm})
    # ---- both kinds in one change: an identifier metavariable in a slot that also holds calls, selectors, index and
    # parenthesised expressions, AFTER sites at which the expression metavariable met exactly those node types (and the
    # other way round): a kind test must not depend on what was tested before, within a file or across sites
    KINDS = [("@@\nvar f identifier\nvar x expression\n@@\n-f(x)\n+f(x, nil)\n",
              ["foo(bar())", "foo(a.b)", "foo((c))", "foo(m[1])", "mk()(1)", "a.b(2)", "(g)(3)", "fs[0](4)", "foo(func() {}())", "func() {}()", "named(5)"]),
             ("@@\nvar f identifier\nvar x expression\n@@\n-x.f\n+x.F(f)\n",
              ["_ = a.b", "_ = g().h", "_ = (p).q", "_ = m[1].r", "_ = a.b.c", "_ = s.t().u"]),
             ("@@\nvar v identifier\nvar e expression\n@@\n-v = e\n+set(&v, e)\n",
              ["a = f()", "b = c.d", "m[0] = g()", "p.q = 1", "(r) = 2", "*s = 3", "t = (u)", "w = m[1]"])]
    for ptxt, sites in KINDS:
        for rep in range(6 if thorough else 3):
            st = sites[:]; ck.rng.shuffle(st)
            src = "package p\n\nfunc h() {\n\t" + "\n\t".join(st) + "\n}\n"
            pairs.append(("p.patch", ptxt.encode(), "a.go", src.encode())); names.append("both-kinds"); metas.append({"family": "both-kinds"})
    # ---- an identifier metavariable where the identifier may be absent: the label of break / continue
    LABELS = "package p\n\nfunc h() {\nouter:\n\tfor {\n\t\tfor {\n\t\t\tbreak outer\n\t\t}\n\t\tbreak\n\t}\nagain:\n\tfor {\n\t\tcontinue again\n\t}\n\tfor {\n\t\tcontinue\n\t}\n}\n"
    for ptxt in ("@@\nvar L identifier\n@@\n-break L\n+continue L\n", "@@\nvar L identifier\n@@\n-continue L\n+goto L\n",
                 "@@\nvar L identifier\n@@\n-break L\n+return\n", "@@\n@@\n-break\n+return\n",
                 # ... and an EXPRESSION metavariable there: the absent label is no expression either
                 "@@\nvar L expression\n@@\n-continue L\n+break L\n", "@@\nvar L expression\n@@\n-break L\n+continue L\n",
                 "@@\nvar L expression\n@@\n-goto L\n+return\n"):
        pairs.append(("p.patch", ptxt.encode(), "a.go", LABELS.encode())); names.append("absent-ident"); metas.append({"family": "absent-identifier", "must_parse": True})
    # ---- deep code: repeated metavariables whose fillers differ only far down (20-40 levels), deep literal patterns
    def nest(d, leaf, w="w"):
        return (w + "(") * d + leaf + ")" * d
    deep_src = ["same(%s, %s)" % (nest(d, a), nest(d, b)) for d in (2, 8, 14, 17, 20, 30, 40) for a, b in (("1", "1"), ("1", "2"), ("alpha", "beta"))]
    deep_src += ["check(%s)" % nest(d, l) for d in (14, 20, 30) for l in ("alpha", "beta")]
    deep_src += ["same(func() { if a { if b { for { switch { case c: go func() { x.y.z(%s) }() } } } } }, func() { if a { if b { for { switch { case c: go func() { x.y.z(%s) }() } } } } })" % ab for ab in ((1, 1), (1, 2))]
    src = "package p\n\nfunc h() {\n\t" + "\n\t".join(deep_src) + "\n}\n"
    pairs.append(("p.patch", b"@@\nvar x expression\n@@\n-same(x, x)\n+once(x)\n", "a.go", src.encode())); names.append("deep-fillers"); metas.append({"family": "deep"})
    for d in (14, 20, 30):
        pairs.append(("p.patch", ("@@\n@@\n-check(%s)\n+checked()\n" % nest(d, "alpha")).encode(), "a.go", src.encode())); names.append("deep-literal"); metas.append({"family": "deep"})
    # ---- a metavariable before and after two or more elisions: every way of cutting the list must be tried under every binding
    import itertools
    SW = [("x-2dots", "var x expression", "f(..., x, ..., x)", "g(x)"), ("xy-3dots", "var x, y expression", "f(..., x, ..., y, ..., x)", "g(x, y)"),
          ("x-c-3dots", "var x expression", "f(..., x, ..., c, ..., x)", "g(x)"), ("x-head", "var x expression", "f(x, ..., x, ...)", "g(x)")]
    lists = [list(l) for n_ in range(0, 6) for l in itertools.product(["a", "b", "c"], repeat=n_)]
    lists = lists if thorough else [l for k, l in enumerate(lists) if len(l) <= 4 or k % 4 == 0]
    for nm, mt, mi, pl in SW:
        src = "package p\n\nfunc h() {\n" + "\n".join("\t_ = f(%s)" % ", ".join(l) for l in lists) + "\n}\n"
        pairs.append(("p.patch", ("@@\n%s\n@@\n-%s\n+%s\n" % (mt, mi, pl)).encode(), "a.go", src.encode())); names.append("dots-sweep:" + nm); metas.append({"family": "dots-sweep"})
    blocks = [list(l) for n_ in range(2, 6) for l in itertools.product(["use(a)", "use(b)", "mid()", "other()"], repeat=n_)]
    blocks = blocks if thorough else blocks[::5]
    src = "package p\n\n" + "\n".join("func h%d() {\n\t%s\n}\n" % (j, "\n\t".join(bl)) for j, bl in enumerate(blocks))
    pairs.append(("p.patch", b"@@\nvar y expression\n@@\n ...\n use(y)\n ...\n mid()\n ...\n-use(y)\n+done(y)\n", "a.go", src.encode()))
    names.append("dots-sweep:stmts"); metas.append({"family": "dots-sweep"})
    # every node type that implements ast.Expr as the filler of an expression metavariable (the kind test is by type);
    # the hand-written shapes shared with C01/C03
    EXPR_FILLERS = ["a", "1", "1.5", "'c'", "\"s\"", "1i", "f(a)", "a.b", "a[i]", "a[i:j]", "a[i:j:k]", "a.(T)", "*p", "&v", "-a", "a + b", "(a)",
                    "func() {}", "func(x int) int { return x }", "T{}", "T{A: 1}", "[]int{1}", "[2]int{1, 2}", "[...]int{1}", "map[string]int{}",
                    "struct{ A int }{}", "pair[int, string]", "one[int]", "both[int, string](nil, nil)", "pkg.Gen[a.T, b.T]{}", "tri[a, b, c]",
                    "[]T", "map[K]V", "chan int", "<-chan int", "chan<- int", "interface{ M() }", "func(int) string", "*T", "<-ch", "x.y.z(1)(2)",
                    "a && (b || !c)", "[]func(){nil}", "(*T)(nil)", "struct{}{}"]
    src = "package p\n\nfunc h() {\n" + "".join("\t_ = wrap(%s)\n\t_ = same(%s, %s)\n" % (e, e, e) for e in EXPR_FILLERS) + "}\n"
    pairs.append(("p.patch", b"@@\nvar x expression\n@@\n-wrap(x)\n+unwrap(x)\n", "a.go", src.encode())); names.append("expr-node-types"); metas.append({"family": "expr-node-types", "must_parse": True})
    pairs.append(("p.patch", b"@@\nvar x expression\n@@\n-same(x, x)\n+once(x)\n", "a.go", src.encode())); names.append("expr-node-types"); metas.append({"family": "expr-node-types", "must_parse": True})
    # what implements ast.Expr without being an expression: the 'key: value' of a composite literal, the '...' of [...]T and of a
    # variadic parameter.  An expression metavariable does not stand for them (repo fix ac95f62): the sites beside them are rewritten
    NONEXPR = [
        ("kv-element", "@@\nvar x expression\n@@\n-foo(T{x})\n+bar(x)\n", "func h() {\n\tfoo(T{n: 1})\n\tfoo(T{2})\n\tfoo(T{k: v})\n\tfoo(T{g(3)})\n}\n", 2),
        ("kv-map", "@@\nvar x expression\n@@\n-m(map[string]int{x})\n+n(x)\n", "func h() {\n\tm(map[string]int{\"a\": 1})\n\tm(map[string]int{b})\n}\n", 1),
        ("kv-two", "@@\nvar x, y expression\n@@\n-foo(T{x, y})\n+bar(y, x)\n", "func h() {\n\tfoo(T{a: 1, b: 2})\n\tfoo(T{1, 2})\n\tfoo(T{1, b: 2})\n}\n", 1),
        ("array-len", "@@\nvar n expression\n@@\n-use([n]int{1})\n+use2(n)\n", "func h() {\n\tuse([...]int{1})\n\tuse([3]int{1})\n\tuse([k + 1]int{1})\n}\n", 2),
        ("variadic-type", "@@\nvar f identifier\nvar x expression\n@@\n-func f(a x) {\n+func f(a x, b x) {\n   ...\n }\n",
         "func g(a int) {\n\tone()\n}\n\nfunc h(a ...int) {\n\ttwo()\n}\n\nfunc k(a []int) {\n\tthree()\n}\n", 2),
        ("same-kv", "@@\nvar x expression\n@@\n-same(T{x}, T{x})\n+once(x)\n", "func h() {\n\tsame(T{n: 1}, T{n: 1})\n\tsame(T{7}, T{7})\n}\n", 1),
    ]
    for nm, pt, body, nsites in NONEXPR:
        pairs.append(("p.patch", pt.encode(), "a.go", ("package p\n\n" + body).encode())); names.append("non-expression:" + nm)
        metas.append({"family": "non-expression-fillers", "must_parse": True, "sites": nsites})
    for nm, p, f, meta in enginegen.extra_pairs():
        pairs.append(("p.patch", p, "a.go", f)); names.append(nm); metas.append(meta)
    res = enginecorr.run(pairs)
    for name, pair, o, meta in zip(names, pairs, res, metas):
        ck.count((pair[1], pair[3]), nontrivial=not o["skipped"])
        if meta:
            ck.tally("family", meta["family"])
            for pl in meta.get("planted", []):
                ck.tally("second_occurrence", pl["kind"])
        enginecheck.report(ck, name, pair, o, "any", meta)
        if meta and meta.get("family") == "non-expression-fillers":
            r_ = o["impl"]
            outb = base64.b64decode(r_["out"]) if r_.get("out") else b""
            marks = len(re.findall(rb"\b(bar|n|use2|once)\(|, b ", outb))
            if o["skipped"] or marks != meta["sites"]:
                ck.violation("%s: %d site(s) hold an expression where the metavariable stands and must be rewritten, the sites with 'key: value' or '...' "
                             "there must not; gopatch rewrote %d" % (name, meta["sites"], marks),
                             {"patch": pair[1].decode(), "file": pair[3].decode(), "output": outb.decode("utf-8", "replace")})
    g = len(pairs) - n + 4
    ck.sample({"case": names[g], "patch": pairs[g][1].decode(), "file": pairs[g][3].decode(), "planted": metas[g]["planted"]})
    ck.sample({"case": names[g + 3], "patch": pairs[g + 3][1].decode(), "file": pairs[g + 3][3].decode()})
    ck.cov["rule"] = ("%d cases from %d pattern families in which a metavariable occurs 2-3 times (arguments, operands, statements, around "
                      "an elision), or an identifier metavariable meets non-identifiers, or a name is undeclared; the repeated occurrences "
                      "are filled with equal, almost equal (one differing leaf), parenthesised, deeper, or layout-only-different code; 3-7 "
                      "candidate sites per file so that failed attempts precede successful ones; golden cases with metavariables. "
                      "Implementation vs extracted Coq engine model: per-change outcome, rewritten slots, content. "
                      "distinct = distinct (patch, file) texts" % (n, len(FAMILIES)))
    ck.cov["trusted_base"] = TRUSTED
    ck.assumptions = ["eqvb (the matcher compiled from a captured value) is modelled directly; its agreement with mtch under an empty "
                      "metavariable table is exercised by the correspondence"]
    return ck.finish()


if __name__ == "__main__":
    import sys
    sys.exit(main())
