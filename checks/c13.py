"""C13 — a patch means the same however it is laid out."""
import re
import vlib, corpus, frontend
from vlib import b64, unb64


def split_changes(text):
    """-> list of dict(desc=[lines], header=line, meta=[lines], at=line, body=[lines]) for a loadable patch text;
    lines as str without newline. Comment lines inside sections are kept where they are."""
    lines = text.decode("utf-8").split("\n")
    if lines and lines[-1] == "":
        lines = lines[:-1]
    out, i, n = [], 0, len(lines)
    pre = []
    while i < n:
        l = lines[i]
        if l.startswith("@"):
            ch = {"pre": pre, "header": l, "meta": [], "body": []}
            pre = []
            i += 1
            while i < n and lines[i] != "@@":
                ch["meta"].append(lines[i]); i += 1
            if i >= n:
                return None
            i += 1
            while i < n and not lines[i].startswith("@"):
                ch["body"].append(lines[i]); i += 1
            # trailing comment lines of the body that are directly above the next header belong to it
            k = len(ch["body"])
            while k > 0 and ch["body"][k - 1].lstrip().startswith("#"):
                k -= 1
            pre = ch["body"][k:]
            ch["body"] = ch["body"][:k]
            out.append(ch)
        else:
            pre.append(l); i += 1
    return out


def render(chs):
    ls = []
    for ch in chs:
        ls += ch["pre"] + [ch["header"]] + ch["meta"] + ["@@"] + ch["body"]
    return ("\n".join(ls) + "\n").encode()


def expected_descriptions(text):
    """from the property text: the '#' lines directly above each change's header"""
    lines = text.decode("utf-8").split("\n")
    descs = []
    in_meta = False
    seen_header = False
    for i, l in enumerate(lines):
        if l.lstrip().startswith("#"):
            continue
        if l.startswith("@") and not in_meta:
            d, k = [], i - 1
            while k >= 0 and lines[k].lstrip().startswith("#"):
                d.insert(0, lines[k][1:].strip()); k -= 1
            descs.append(d)
            in_meta = True
        elif l == "@@" and in_meta:
            in_meta = False
    return descs


COMMENTS = ["# note", "#", "#   spaced out   ", "  # indented", "# @@", "#-foo()", "#+bar()", "\t# tab-indented", " \t # mixed indentation", "\t\t#"]


def t_comments(rng, chs):
    """'#' lines anywhere except directly above a header (that would change the description)"""
    out = []
    for ch in chs:
        c = dict(ch, meta=list(ch["meta"]), body=list(ch["body"]))
        for sec in ("meta", "body"):
            for _ in range(rng.randint(0, 3)):
                pos = rng.randint(0, len(c[sec]))
                c[sec].insert(pos, rng.choice(COMMENTS))
        # a trailing comment in the body would sit directly above the next header: keep a non-comment last
        while c["body"] and c["body"][-1].lstrip().startswith("#"):
            c["body"].pop()
        out.append(c)
    return out


def t_blank(rng, chs):
    out = []
    for k, ch in enumerate(chs):
        c = dict(ch, pre=list(ch["pre"]), meta=list(ch["meta"]), body=list(ch["body"]))
        if k == 0:
            # before the first header (and before its description block)
            c["pre"] = [""] * rng.randint(1, 2) + c["pre"]
        for _ in range(rng.randint(0, 2)):
            c["meta"].insert(rng.randint(0, len(c["meta"])), "")
        c["body"] = c["body"] + [""] * rng.randint(0, 2)
        out.append(c)
    return out


def t_name(rng, chs):
    if len(chs) > 1 and rng.random() < 0.4:
        # names are free: every change of the file under ONE name
        return [dict(ch, header="@ same @") for ch in chs]
    return [dict(ch, header=rng.choice(["@ c%d @", "@c%d@", "@   change_%d @", "@ X%d   @"]) % k) for k, ch in enumerate(chs)]


DECL = re.compile(r"^\s*var\s+([A-Za-z_][\w]*(?:\s*,\s*[A-Za-z_]\w*)*)\s+(identifier|expression)\s*$")


def meta_vars(ch):
    vs = []
    for l in ch["meta"]:
        m = DECL.match(l)
        if m:
            vs += [(n.strip(), m.group(2)) for n in m.group(1).split(",")]
        elif l.strip() and not l.lstrip().startswith("#"):
            return None
    return vs


def t_rename(rng, chs):
    out = []
    for ch in chs:
        vs = meta_vars(ch)
        if vs is None:
            return None
        body = "\n".join(ch["body"])
        ren = {}
        for n, kind in vs:
            if n == "_":
                continue
            # documented exception: a metavariable that names an import keeps its spelling
            if re.search(r"import\s+%s\s+\"" % re.escape(n), body) or re.search(r"^[-+ ]\s*%s\s+\"[^\"]*\"\s*$" % re.escape(n), body, re.M):
                continue
            if "\"" in body and re.search(r"\"[^\"\n]*\b%s\b[^\"\n]*\"" % re.escape(n), body):
                return None
            # every spelling an identifier can have: leading underscore, digits, capitals, non-ASCII letters, one letter
            ren[n] = rng.choice(["mv%s%d", "_%s%d", "_mv_%s_%d", "%s_%d", "X%s%d", "\u00e9%s%d", "__%s%d"]) % (n.capitalize() if rng.random() < 0.5 else n, rng.randint(10, 99))
        def sub(l):
            for a, b in ren.items():
                l = re.sub(r"(?<![\w.])%s\b" % re.escape(a), b, l) if False else re.sub(r"\b%s\b" % re.escape(a), b, l)
            return l
        # a metavariable also used as a field/selector name (x.a) is renamed there too: consistent renaming
        out.append(dict(ch, meta=[sub(l) for l in ch["meta"]], body=[sub(l) for l in ch["body"]]))
    return out


def t_regroup(rng, chs):
    out = []
    for ch in chs:
        vs = meta_vars(ch)
        if vs is None:
            return None
        decls = ["var %s %s" % (n, k) for n, k in vs]
        rng.shuffle(decls)
        if len(decls) >= 2 and rng.random() < 0.5:
            # regroup neighbours of equal kind, ';'-separated on one line
            decls = ["; ".join(decls)]
        out.append(dict(ch, meta=decls))
    return out


def t_respace(rng, chs):
    out = []
    for ch in chs:
        body = []
        for l in ch["body"]:
            if l[:1] in "-+ " and not re.search(r"[\"'`]", l) and not l.lstrip().startswith("#"):
                head, rest = l[:1], l[1:]
                rest = rest.replace(", ", ",   ").replace("(", "( ").replace(" {", "  {")
                l = head + rest
            body.append(l)
        out.append(dict(ch, body=body))
    return out


def t_unindent_context(rng, chs):
    """context lines written without their leading space (a line is a context line because it does not start with '-' or '+')"""
    out, changed = [], False
    for ch in chs:
        body = []
        for l in ch["body"]:
            if l[:1] == " " and len(l) > 1 and l[1] not in "-+@# \t" and rng.random() < 0.8:
                l = l[1:]; changed = True
            body.append(l)
        out.append(dict(ch, body=body))
    return out if changed else None


def t_space_after_marker(rng, chs):
    """'-foo()' written '- foo()': blanks between the marker and the code are layout"""
    out, changed = [], False
    for ch in chs:
        body = []
        for l in ch["body"]:
            if l[:1] in "-+" and len(l) > 1 and l[1] not in " \t" and not re.search(r"[\"'`]", l):
                l = l[0] + rng.choice([" ", "  ", "\t"]) + l[1:]; changed = True
            body.append(l)
        out.append(dict(ch, body=body))
    return out if changed else None


def t_rewrap(rng, chs):
    """break lines after commas inside call argument lists (never inside quotes), same on every line"""
    out = []
    for ch in chs:
        body = []
        for l in ch["body"]:
            if l[:1] in "-+ " and ", " in l and not re.search(r"[\"'`]", l) and not l.lstrip().startswith("#") and "//" not in l:
                head = l[:1]
                parts = l[1:].split(", ")
                body.append(head + parts[0] + ",")
                for p in parts[1:-1]:
                    body.append(head + "\t" + p + ",")
                body.append(head + "\t" + parts[-1])
            else:
                body.append(l)
        out.append(dict(ch, body=body))
    return out


def t_context_pair(rng, chs):
    out = []
    changed = False
    for ch in chs:
        body = []
        for l in ch["body"]:
            if l.startswith(" ") and "..." not in l and l.strip() and not l.lstrip().startswith("#"):
                body += ["-" + l[1:], "+" + l[1:]]
                changed = True
            else:
                body.append(l)
        out.append(dict(ch, body=body))
    return out if changed else None


def t_widen(rng, chs):
    """push code (and its "...") far to the right on some lines: leading white space of a line means nothing"""
    out = []
    for ch in chs:
        body = []
        for l in ch["body"]:
            if l[:1] in "-+ " and l.strip() and not l.lstrip().startswith("#") and rng.random() < 0.6 and "`" not in l:
                l = l[:1] + " " * rng.choice([250, 256, 300, 520, 1030]) + l[1:]
            body.append(l)
        out.append(dict(ch, body=body))
    return out


# extra cases with several elisions whose pairing depends on their relative positions
EXTRA = [
    {"name": "x_two_minus_dots", "patches": [("p.patch", b"@@\n@@\n-foo(...)\n-bar(\"lit\", ...)\n+baz(...)\n")],
     "inputs": {"t.go": b"package x\n\nfunc do() {\n\tbefore()\n\tfoo(1, 2)\n\tbar(\"lit\", 3, 4)\n\tafter()\n}\n"}},
    {"name": "x_two_pairs", "patches": [("p.patch", b"@@\nvar f identifier\n@@\n-f(a, ...)\n-g(...)\n+g(...)\n+f(...)\n")],
     "inputs": {"t.go": b"package x\n\nfunc do() {\n\tfoo(a, 1, 2)\n\tg(3, 4)\n}\n"}},
    {"name": "x_ctx_and_pair", "patches": [("p.patch", b"@@\n@@\n if x {\n   ...\n-  foo(...)\n+  bar(...)\n }\n")],
     "inputs": {"t.go": b"package x\n\nfunc do() {\n\tif x {\n\t\ta()\n\t\tb()\n\t\tfoo(1, 2)\n\t}\n}\n"}},
]

EXTRA += [
    {"name": "x_unary_context", "patches": [("p.patch", b"@@\nvar a, b expression\n@@\n foo(a,\n-  1,\n+  2,\n   -b)\n")],
     "inputs": {"t.go": b"package x\n\nfunc do() {\n\tfoo(p, 1, -q)\n\tfoo(p, 1, q)\n\tfoo(p, 2, -q)\n}\n"}},
    {"name": "x_plus_context", "patches": [("p.patch", b"@@\nvar a expression\n@@\n-old(a,\n+new(a,\n   +1,\n   -2)\n")],
     "inputs": {"t.go": b"package x\n\nfunc do() {\n\told(p, +1, -2)\n\told(p, 1, 2)\n}\n"}},
    {"name": "x_unary_stmt_context", "patches": [("p.patch", b"@@\nvar v identifier\n@@\n v :=\n   -limit\n-use(v)\n+used(v)\n")],
     "inputs": {"t.go": b"package x\n\nfunc do() {\n\tn := -limit\n\tuse(n)\n\tm := limit\n\tuse(m)\n}\n"}},
]

# statement patches whose last physical line carries an elision (the implicit trailing "..." of the statement list is recorded
# at the end of the patch text: what follows the last line - end of file, a blank line, a comment, the next header - is layout)
EXTRA += [
    {"name": "x_last_line_dots", "patches": [("p.patch", b"@@\n@@\n start()\n-...\n-finish()\n+finish()\n+...")],
     "inputs": {"t.go": b"package x\n\nfunc do() {\n\tstart()\n\ta()\n\tb()\n\tfinish()\n\tc()\n}\n"}},
    {"name": "x_last_line_dots_nl", "patches": [("p.patch", b"@@\n@@\n start()\n-...\n-finish()\n+finish()\n+...\n")],
     "inputs": {"t.go": b"package x\n\nfunc do() {\n\tstart()\n\ta()\n\tb()\n\tfinish()\n\tc()\n}\n"}},
    {"name": "x_last_line_call_dots", "patches": [("p.patch", b"@@\n@@\n-begin(...)\n ...\n-end()\n+scope(...)")],
     "inputs": {"t.go": b"package x\n\nfunc do() {\n\tbegin(1, 2)\n\ta()\n\tend()\n\tb()\n}\n"}},
    {"name": "x_two_changes_tight", "patches": [("p.patch", b"@@\n@@\n first()\n-...\n-last()\n+last()\n+...\n@@\n@@\n-other(...)\n+another(...)")],
     "inputs": {"t.go": b"package x\n\nfunc do() {\n\tfirst()\n\ta()\n\tlast()\n\tz()\n\tother(1)\n}\n"}},
    {"name": "x_leading_dots", "patches": [("p.patch", b"@@\n@@\n ...\n-a()\n+b()\n")],
     "inputs": {"t.go": b"package x\n\nfunc do() {\n\tpre1()\n\tpre2()\n\ta()\n\tpost()\n}\n"}},
    {"name": "x_leading_dots_ctx", "patches": [("p.patch", b"@@\n@@\n ...\n a()\n-post()\n ...\n+done()\n")],
     "inputs": {"t.go": b"package x\n\nfunc do() {\n\tpre1()\n\ta()\n\tpost()\n\tz()\n}\n"}},
    {"name": "x_minus_dots_first", "patches": [("p.patch", b"@@\n@@\n-...\n-foo()\n+...\n+bar()\n")],
     "inputs": {"t.go": b"package x\n\nfunc do() {\n\tpre1()\n\tpre2()\n\tfoo()\n\tpost()\n}\n"}},
    {"name": "x_minus_dots_only", "patches": [("p.patch", b"@@\n@@\n-...\n foo()\n+done()\n")],
     "inputs": {"t.go": b"package x\n\nfunc do() {\n\tpre1()\n\tpre2()\n\tfoo()\n\tpost()\n}\n"}},
    # a name that is a metavariable in one change and ordinary code in the next
    {"name": "x_name_reused", "patches": [("p.patch", b"@@\nvar err identifier\n@@\n-check(err)\n+verify(err)\n\n@@\n@@\n-log.Print(err)\n+log.Fatal(err)\n")],
     "inputs": {"t.go": b"package x\n\nfunc do() {\n\tcheck(cause)\n\tlog.Print(cause)\n\tlog.Print(err)\n\tcheck(err)\n}\n"}},
    {"name": "x_name_reused_expr", "patches": [("p.patch", b"@@\nvar v expression\n@@\n-wrap(v)\n+wrapped(v)\n\n@@\nvar w expression\n@@\n-pair(v, w)\n+paired(w)\n")],
     "inputs": {"t.go": b"package x\n\nfunc do() {\n\twrap(1)\n\tpair(v, 2)\n\tpair(u, 3)\n}\n"}},
    {"name": "x_meta_one_line", "patches": [("p.patch", b"@@\nvar fn identifier; var x expression; var y expression\n@@\n-fn(x, y)\n+fn(y, x)\n")],
     "inputs": {"t.go": b"package x\n\nfunc do() {\n\tcall(1, 2)\n\tother(a, b)\n}\n"}},
]

TRANSFORMS = [("comments", t_comments), ("blank", t_blank), ("name", t_name), ("rename", t_rename), ("regroup", t_regroup),
              ("respace", t_respace), ("unindent-context", t_unindent_context), ("space-after-marker", t_space_after_marker), ("rewrap", t_rewrap), ("context-pair", t_context_pair), ("widen", t_widen)]


# a line of a raw string literal that goes over several lines, as a '-'/'+' pair and as a context line (known finding F33:
# the space of a context line stays in the Go text)
EXTRA += [
    {"name": "x_rawstring_line", "patches": [("p.patch", b"@@\n@@\n-run(`a\n+run(`a\n-b`)\n+b`)\n-old()\n+new()\n")],
     "inputs": {"t.go": b"package x\n\nfunc do() {\n\trun(`a\nb`)\n\told()\n}\n"},
     "variants": [("context-line-in-raw-string", b"@@\n@@\n run(`a\n b`)\n-old()\n+new()\n")]},
]


# variadic parameters and spread arguments re-spaced and re-wrapped around the dots (the scanner that tells an elision from
# a variadic '...' looks at what follows them)
_V_IN = b"package x\n\ntype Logger interface {\n\tLogf(string, ...any)\n}\n\nfunc Logf(format string, args ...any) {\n\tprint(format, args...)\n}\n\nfunc use() {\n\tLogf(\"a\", xs...)\n}\n"
EXTRA += [
    {"name": "x_variadic_param", "patches": [("p.patch", b"@@\n@@\n-func Logf(format string, args ...any) {\n+func Printf(format string, args ...any) {\n   ...\n }\n")],
     "inputs": {"t.go": _V_IN},
     "variants": [("respace-variadic", b"@@\n@@\n-func Logf(format string, args ... any) {\n+func Printf(format string, args ... any) {\n   ...\n }\n"),
                  ("respace-variadic", b"@@\n@@\n-func Logf(format string, args  ...  any) {\n+func Printf(format string, args  ...  any) {\n   ...\n }\n"),
                  ("respace-variadic", b"@@\n@@\n-func Logf( format string , args ...any ) {\n+func Printf( format string , args ...any ) {\n   ...\n }\n"),
                  ("rewrap-variadic", b"@@\n@@\n-func Logf(format string,\n-  args ...any) {\n+func Printf(format string,\n+  args ...any) {\n   ...\n }\n"),
                  ("rewrap-after-named-dots", b"@@\n@@\n-func Logf(format string, args ...\n-  any) {\n+func Printf(format string, args ...\n+  any) {\n   ...\n }\n")]},
    {"name": "x_variadic_unnamed", "patches": [("p.patch", b"@@\n@@\n type Logger interface {\n-\tLogf(string, ...any)\n+\tPrintf(string, ...any)\n }\n")],
     "inputs": {"t.go": _V_IN},
     "variants": [("respace-variadic", b"@@\n@@\n type Logger interface {\n-\tLogf(string, ... any)\n+\tPrintf(string, ... any)\n }\n"),
                  ("wrap-after-variadic-dots", b"@@\n@@\n type Logger interface {\n-\tLogf(string, ...\n-\t\tany)\n+\tPrintf(string, ...\n+\t\tany)\n }\n")]},
    {"name": "x_spread_arg", "patches": [("p.patch", b"@@\nvar f, a expression\n@@\n-Logf(f, a...)\n+Printf(f, a...)\n")],
     "inputs": {"t.go": _V_IN},
     "variants": [("respace-variadic", b"@@\nvar f, a expression\n@@\n-Logf(f, a ...)\n+Printf(f, a ...)\n"),
                  ("respace-variadic", b"@@\nvar f, a expression\n@@\n-Logf( f , a... )\n+Printf( f , a... )\n"),
                  ("rewrap-variadic", b"@@\nvar f, a expression\n@@\n-Logf(f,\n-  a...)\n+Printf(f,\n+  a...)\n")]},
]


def main():
    ck = vlib.Check("C13")
    coq_ok, coq_log = vlib.build()
    ok, log, info = vlib.prove("C13")
    ck.proof_obligations(ok, log, info, coq_ok, coq_log)
    thorough = ck.tier == "thorough"
    gold = [c for c in corpus.golden() if len(c["patches"]) == 1] + EXTRA
    jobs = []   # (case, variant name, patch bytes)
    for c in gold:
        text = c["patches"][0][1]
        chs = split_changes(text)
        if not chs:
            continue
        jobs.append((c, "original", text))
        jobs.append((c, "identity", render(chs)))
        for vn, vp in c.get("variants", []):
            jobs.append((c, vn, vp))
        if c.get("variants"):
            continue        # (the generic transformations re-space and re-wrap Go code; inside a raw string that is not layout)
        for tn, tf in TRANSFORMS:
            for rep in range((3 if thorough else 1) * (4 if tn == "widen" else 1)):
                v = tf(ck.rng, chs)
                if v is None:
                    continue
                jobs.append((c, tn, render(v)))
        for rep in range(4 if thorough else 1):
            v, names = chs, []
            for tn, tf in ck.rng.sample(TRANSFORMS, 3):
                w = tf(ck.rng, v)
                if w is not None:
                    v = w; names.append(tn)
            jobs.append((c, "+".join(names), render(v)))
    reqs = [{"patches": [{"name": "p.patch", "src": b64(p)}], "files": [{"name": fn, "src": b64(d)} for fn, d in sorted(c["inputs"].items())],
             "abort": False, "api": True} for c, _, p in jobs]
    facts = vlib.harness("facts", {"cases": reqs})["results"]
    # digests of all API outputs
    outs = []
    for fr in facts:
        for ff in fr.get("files") or []:
            if ff.get("api_out"):
                outs.append(unb64(ff["api_out"]))
    uniq = sorted(set(outs))
    dig = dict(zip(uniq, vlib.harness("astdump", {"srcs": [b64(u) for u in uniq], "strip_parens": False})["dumps"])) if uniq else {}
    base = {}
    for (c, vn, p), fr in zip(jobs, facts):
        if vn == "original":
            base[c["name"]] = (p, fr)
    front = frontend.analyse([p for _, _, p in jobs])
    for (c, vn, p), fr, fe in zip(jobs, facts, front):
        ck.count((c["name"], vn, p))
        ck.tally("variant", vn if "+" not in vn else "composition")
        p0, f0 = base[c["name"]]
        rep = {"case": c["name"], "variant": vn, "original": p0.decode("utf-8", "replace"), "patch": p.decode("utf-8", "replace")}
        if fe["mismatches"]:
            ck.mismatch("front-end model and gopatch disagree (%s/%s): %s" % (c["name"], vn, "; ".join(fe["mismatches"][:3])), rep,
                        "corr:section (Model/Section.v split vs internal/parse/section)")
        if f0.get("load_err") or f0.get("panic"):
            ck.tally("skipped", "original patch does not load")
            continue
        if fr.get("load_err") or fr.get("panic"):
            ck.violation("layout variant (%s) of %s is rejected although the original loads: %s" % (vn, c["name"], (fr.get("load_err") or fr.get("panic"))[:200]), rep,
                         finding_class="wrap-after-variadic-dots" if vn == "wrap-after-variadic-dots" else None)
            continue
        for fn, a, b in zip(sorted(c["inputs"]), f0["files"], fr["files"]):
            ra = ("err", a["api_err"][:40]) if a["api_err"] else ("ok", dig.get(unb64(a["api_out"])))
            rb = ("err", b["api_err"][:40]) if b["api_err"] else ("ok", dig.get(unb64(b["api_out"])))
            if a.get("api_panic") or b.get("api_panic"):
                continue
            if ra[0] != rb[0] or (ra[0] == "ok" and ra[1] != rb[1]):
                ck.violation("layout variant (%s) of %s gives a syntactically different result on %s" % (vn, c["name"], fn),
                             dict(rep, file=fn, input=c["inputs"][fn].decode("utf-8", "replace"),
                                  out_original=unb64(a["api_out"]).decode("utf-8", "replace") if a.get("api_out") else a["api_err"],
                                  out_variant=unb64(b["api_out"]).decode("utf-8", "replace") if b.get("api_out") else b["api_err"]),
                             finding_class="context-line-in-raw-string" if (c["name"] == "x_rawstring_line" and vn in ("context-line-in-raw-string", "context-pair")) else None)
        # descriptions: '#' lines directly above each header, nothing else
        want = expected_descriptions(p)
        got = {}
        for ff in fr["files"][:1]:
            for s in ff["steps"]:
                got[(s["prog"], s["index"])] = s["comments"] or []
        for k, w in enumerate(want):
            if (0, k) in got and got[(0, k)] != w:
                ck.violation("description of change %d in variant %s of %s: expected %r (the '#' lines directly above its header), got %r"
                             % (k, vn, c["name"], w, got[(0, k)]), rep)
    ck.sample({"case": jobs[2][0]["name"], "variant": jobs[2][1], "patch": jobs[2][2].decode("utf-8", "replace")})
    ck.sample({"case": jobs[7][0]["name"], "variant": jobs[7][1], "patch": jobs[7][2].decode("utf-8", "replace")})
    ck.cov["rule"] = ("every single-file golden patch under 8 meaning-preserving layout transformations (insert '#' lines anywhere but directly "
                      "above a header; blank lines before the first header / in the metavariable section / at the end; name each change; rename "
                      "metavariables consistently, import-naming ones excepted; regroup, reorder and ';'-join declarations; re-space; re-wrap "
                      "after commas; context line -> identical '-'/'+' pair) and random compositions of 3; the library API is run on every "
                      "golden input and results are compared as syntax trees (go/parser, positions and comments erased); descriptions compared "
                      "with the '#' block directly above each header; the splitter output of every variant compared with the Coq Section model. "
                      "distinct = distinct (case, variant text)")
    ck.cov["trusted_base"] = [
        "Coq 8.16.1 kernel; no axioms (Properties/C13.v closed under the global context)",
        "go/parser oracle: pattern texts differing only in white space give the same pattern tree",
        "the transformation code in checks/c13.py (text-level; restricted to lines without quotes)",
        "extraction + ocaml/fam_section.ml + lib/frontend.py; harness astdump (reflection serialiser)",
    ]
    ck.assumptions = ["metavariable renaming, re-wrapping and elision pairing are proved at engine level (see C13 engine theorems); here they are exercised"]
    return ck.finish()


if __name__ == "__main__":
    import sys
    sys.exit(main())
