package main

import (
	"bytes"
	"encoding/json"
	"fmt"
	"sync"
	"time"

	"github.com/uber-go/gopatch/patch"
)

// apiseq: one parsed patch, many Apply calls (sequential history, then
// concurrent), each compared with the result of a fresh Parse+Apply of the
// same file alone.
type apiSeqCase struct {
	Patch srcFile   `json:"patch"`
	Files []srcFile `json:"files"`
	Seq   []int     `json:"seq"`  // indices into Files, applied in this order on one *patch.File
	Conc  int       `json:"conc"` // number of goroutines for the concurrent phase (0 = skip)
	Reps  int       `json:"reps"` // calls per goroutine
}

type apiRes struct {
	Out []byte `json:"out"`
	Err string `json:"err"`
}

type apiSeqResult struct {
	LoadErr    string   `json:"load_err"`
	Solo       []apiRes `json:"solo"`
	Mismatches []string `json:"mismatches"`
	Calls      int      `json:"calls"`
}

func applyRes(pf *patch.File, f srcFile) (r apiRes) {
	defer func() {
		if x := recover(); x != nil {
			r.Err = fmt.Sprintf("panic: %v", x)
		}
	}()
	out, err := pf.Apply(f.Name, f.Src)
	if err != nil {
		return apiRes{Err: err.Error()}
	}
	return apiRes{Out: out}
}

func sameRes(a, b apiRes) bool { return a.Err == b.Err && bytes.Equal(a.Out, b.Out) }

func runAPISeq(c apiSeqCase) (res apiSeqResult) {
	for _, f := range c.Files {
		pf, err := patch.Parse(c.Patch.Name, c.Patch.Src)
		if err != nil {
			res.LoadErr = err.Error()
			return res
		}
		res.Solo = append(res.Solo, applyRes(pf, f))
	}
	shared, _ := patch.Parse(c.Patch.Name, c.Patch.Src)
	for k, i := range c.Seq {
		got := applyRes(shared, c.Files[i])
		res.Calls++
		if !sameRes(got, res.Solo[i]) {
			res.Mismatches = append(res.Mismatches,
				fmt.Sprintf("sequential call %d (file %s): result differs from the file's result alone", k, c.Files[i].Name))
		}
	}
	if c.Conc > 0 {
		var mu sync.Mutex
		var wg sync.WaitGroup
		for g := 0; g < c.Conc; g++ {
			wg.Add(1)
			go func(g int) {
				defer wg.Done()
				for r := 0; r < c.Reps; r++ {
					i := (g + r) % len(c.Files)
					got := applyRes(shared, c.Files[i])
					mu.Lock()
					res.Calls++
					if !sameRes(got, res.Solo[i]) {
						res.Mismatches = append(res.Mismatches,
							fmt.Sprintf("concurrent call (goroutine %d, rep %d, file %s): result differs from the file's result alone", g, r, c.Files[i].Name))
					}
					mu.Unlock()
				}
			}(g)
		}
		wg.Wait()
	}
	return res
}

func init() {
	handlers["apiseq"] = func(req json.RawMessage) (any, error) {
		var in struct {
			Cases []apiSeqCase `json:"cases"`
		}
		if err := json.Unmarshal(req, &in); err != nil {
			return nil, err
		}
		out := make([]apiSeqResult, len(in.Cases))
		parallel(len(in.Cases), func(i int) {
			// a call that never returns (a lock left held, ...) must not hang the harness
			ch := make(chan apiSeqResult, 1)
			go func() { ch <- runAPISeq(in.Cases[i]) }()
			select {
			case out[i] = <-ch:
			case <-time.After(60 * time.Second):
				out[i] = apiSeqResult{Mismatches: []string{"the sequence of Apply calls did not finish within 60 s (a call never returned)"}}
			}
		})
		return map[string]any{"results": out}, nil
	}
}
