module verifharness

go 1.22

require (
	github.com/pkg/diff v0.0.0-20210226163009-20ebb0f2a09e
	github.com/uber-go/gopatch v0.0.0
	go.uber.org/multierr v1.11.0
	golang.org/x/tools v0.24.0
)

require (
	github.com/google/go-intervals v0.0.2 // indirect
	golang.org/x/mod v0.20.0 // indirect
	golang.org/x/sync v0.8.0 // indirect
)

replace github.com/uber-go/gopatch => /repo
