module verifharness

go 1.22

require github.com/uber-go/gopatch v0.0.0

replace github.com/uber-go/gopatch => /repo
