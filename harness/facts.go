package main

import (
	"encoding/json"
	"fmt"
	"go/ast"
	"go/parser"
	"go/token"
	"runtime/debug"

	"github.com/uber-go/gopatch/patch"
)

type srcFile struct {
	Name string `json:"name"`
	Src  []byte `json:"src"`
}

type factsCase struct {
	Patches []srcFile `json:"patches"`
	Files   []srcFile `json:"files"`
	Abort   bool      `json:"abort"` // command-line semantics: stop at first replace error
	API     bool      `json:"api"`   // also call patch.Parse/Apply (single patch only)
}

type commentJ struct {
	After bool   `json:"after"`
	Text  []byte `json:"text"`
}

type headerJ struct {
	Groups [][]commentJ `json:"groups"`
	Doc    [][]byte     `json:"doc"`
}

type stepJ struct {
	Prog       int      `json:"prog"`
	Index      int      `json:"index"`
	Name       string   `json:"name"`
	Comments   []string `json:"comments"`
	Matched    bool     `json:"matched"`
	ReplaceErr string   `json:"replace_err"`
	Intervals  [][2]int `json:"intervals"`
	Changed    [][2]int `json:"changed"`
	Unchanged  [][2]int `json:"unchanged"`
	CBefore    []cmtJ   `json:"cbefore"`
	CAfter     []cmtJ   `json:"cafter"`
	// astdiff snapshots before and after the change and the Changed calls in between (only when asked for)
	SnapFrom     string   `json:"snap_from,omitempty"`
	SnapTo       string   `json:"snap_to,omitempty"`
	ChangedCalls [][2]int `json:"changed_calls"`
}

type cmtJ struct {
	Off  int    `json:"off"`
	Text string `json:"text"`
}

type fileFacts struct {
	Panic        string   `json:"panic,omitempty"`
	ParseErr     string   `json:"parse_err"`
	Header       *headerJ `json:"header,omitempty"`
	Steps        []stepJ  `json:"steps"`
	HasOut       bool     `json:"has_out"`
	Formatted    []byte   `json:"formatted"`
	FormatErr    string   `json:"format_err"`
	FmtParseErr  string   `json:"fmt_parse_err"` // parse error of Formatted, if any
	Processed    []byte   `json:"processed"`
	ProcErr      string   `json:"proc_err"`
	ProcParseErr string   `json:"proc_parse_err"` // parse error of Processed, if any
	APIOut       []byte   `json:"api_out"`
	APIErr       string   `json:"api_err"`
	APIPanic     string   `json:"api_panic,omitempty"`
}

type factsResult struct {
	LoadErr string      `json:"load_err"` // patch could not be parsed/compiled
	Panic   string      `json:"panic,omitempty"`
	Files   []fileFacts `json:"files"`
}

func parseErrOf(name string, src []byte) string {
	_, err := parser.ParseFile(token.NewFileSet(), name, src, parser.AllErrors|parser.ParseComments)
	if err != nil {
		return err.Error()
	}
	return ""
}

func headerOf(name string, src []byte) *headerJ {
	fset := token.NewFileSet()
	f, err := parser.ParseFile(fset, name, src, parser.AllErrors|parser.ParseComments)
	if err != nil {
		return nil
	}
	h := &headerJ{Groups: [][]commentJ{}, Doc: [][]byte{}}
	for _, g := range f.Comments {
		var gj []commentJ
		for _, c := range g.List {
			gj = append(gj, commentJ{After: c.Pos() > f.Package, Text: []byte(c.Text)})
		}
		h.Groups = append(h.Groups, gj)
	}
	if f.Doc != nil {
		for _, c := range f.Doc.List {
			h.Doc = append(h.Doc, []byte(c.Text))
		}
	}
	return h
}

func convSteps(steps []patch.VerifStep) []stepJ {
	out := make([]stepJ, 0, len(steps))
	for _, s := range steps {
		j := stepJ{Prog: s.Prog, Index: s.Index, Name: s.Name, Comments: s.Comments,
			Matched: s.Matched, ReplaceErr: s.ReplaceErr, Intervals: s.Intervals, Changed: s.Changed, Unchanged: s.Unchanged,
			SnapFrom: s.SnapFrom, SnapTo: s.SnapTo, ChangedCalls: s.ChangedCalls}
		for _, c := range s.CommentsBefore {
			j.CBefore = append(j.CBefore, cmtJ{c.Offset, c.Text})
		}
		for _, c := range s.CommentsAfter {
			j.CAfter = append(j.CAfter, cmtJ{c.Offset, c.Text})
		}
		out = append(out, j)
	}
	return out
}

func runFactsCase(c factsCase) (res factsResult) {
	defer func() {
		if r := recover(); r != nil {
			res.Panic = fmt.Sprintf("%v\n%s", r, debug.Stack())
		}
	}()
	fset := token.NewFileSet()
	var progs []*patch.VerifProgram
	for _, p := range c.Patches {
		vp, err := patch.VerifCompile(fset, p.Name, p.Src)
		if err != nil {
			res.LoadErr = err.Error()
			return res
		}
		progs = append(progs, vp)
	}
	for _, f := range c.Files {
		res.Files = append(res.Files, runFactsFile(fset, progs, c, f))
	}
	return res
}

func runFactsFile(fset *token.FileSet, progs []*patch.VerifProgram, c factsCase, f srcFile) (ff fileFacts) {
	func() {
		defer func() {
			if r := recover(); r != nil {
				ff.Panic = fmt.Sprintf("%v\n%s", r, debug.Stack())
			}
		}()
		ff.Header = headerOf(f.Name, f.Src)
		tr := patch.VerifRun(fset, progs, f.Name, f.Src, c.Abort)
		ff.ParseErr = tr.ParseErr
		ff.Steps = convSteps(tr.Steps)
		ff.HasOut = tr.Out != nil
		ff.Formatted = tr.Formatted
		ff.FormatErr = tr.FormatErr
		ff.Processed = tr.Processed
		ff.ProcErr = tr.ProcErr
		if tr.Formatted != nil {
			ff.FmtParseErr = parseErrOf(f.Name, tr.Formatted)
		}
		if tr.Processed != nil && tr.ProcErr == "" {
			ff.ProcParseErr = parseErrOf(f.Name, tr.Processed)
		}
	}()
	if c.API && len(c.Patches) == 1 {
		func() {
			defer func() {
				if r := recover(); r != nil {
					ff.APIPanic = fmt.Sprintf("%v\n%s", r, debug.Stack())
				}
			}()
			pf, err := patch.Parse(c.Patches[0].Name, c.Patches[0].Src)
			if err != nil {
				ff.APIErr = "parse: " + err.Error()
				return
			}
			out, err := pf.Apply(f.Name, f.Src)
			if err != nil {
				ff.APIErr = err.Error()
				return
			}
			ff.APIOut = out
		}()
	}
	return ff
}

func init() {
	handlers["facts"] = func(req json.RawMessage) (any, error) {
		var in struct {
			Cases []factsCase `json:"cases"`
		}
		if err := json.Unmarshal(req, &in); err != nil {
			return nil, err
		}
		out := make([]factsResult, len(in.Cases))
		parallel(len(in.Cases), func(i int) { out[i] = runFactsCase(in.Cases[i]) })
		return map[string]any{"results": out}, nil
	}
}

var _ = ast.Inspect

// parse: go/parser verdict on a list of sources.
func init() {
	handlers["parse"] = func(req json.RawMessage) (any, error) {
		var in struct {
			Srcs [][]byte `json:"srcs"`
		}
		if err := json.Unmarshal(req, &in); err != nil {
			return nil, err
		}
		out := make([]string, len(in.Srcs))
		parallel(len(in.Srcs), func(i int) { out[i] = parseErrOf("x.go", in.Srcs[i]) })
		return map[string]any{"errs": out}, nil
	}
}
