package main

import (
	"bytes"
	"encoding/json"
	"fmt"
	"go/ast"
	"go/parser"
	"go/token"
	"path/filepath"
	"reflect"
	"runtime/debug"
	"sort"
	"strconv"
	"strings"
	"time"

	"github.com/uber-go/gopatch/patch"
)

// engine: serialise a parsed patch and a parsed target file into the engine model's
// input (numeric type ids from the schema, interned atoms), and report what the
// implementation did with them.

type interner struct {
	ids   map[string]int
	names []string
}

func newInterner() *interner {
	in := &interner{ids: map[string]int{}}
	in.id("_") // 1
	return in
}

func (in *interner) id(s string) int {
	if i, ok := in.ids[s]; ok {
		return i
	}
	in.names = append(in.names, s)
	in.ids[s] = len(in.names)
	return len(in.names)
}

type valWriter struct {
	in      *interner
	dots    map[token.Pos]int // pgo.Dots position -> id
	dropImp bool
}

func tid(t reflect.Type) int {
	if id, ok := typeIDs[typeName(t)]; ok {
		return id
	}
	return 9000
}

func isDotsType(t reflect.Type) bool { return strings.HasSuffix(t.String(), "pgo.Dots") }

func (w *valWriter) write(b *strings.Builder, v reflect.Value) {
	t := v.Type()
	switch {
	case t == posType:
		if token.Pos(v.Int()).IsValid() {
			b.WriteString("(pos 1)")
		} else {
			b.WriteString("(pos 0)")
		}
		return
	case t == cgPtrType, t == scopePtrType:
		fmt.Fprintf(b, "(nil %d)", tid(t))
		return
	case t == objPtrType:
		if v.IsNil() {
			fmt.Fprintf(b, "(nil %d)", tid(t))
		} else {
			fmt.Fprintf(b, "(ptr %d (struct %d))", tid(t), tid(t.Elem()))
		}
		return
	}
	switch v.Kind() {
	case reflect.Ptr:
		if v.IsNil() {
			fmt.Fprintf(b, "(nil %d)", tid(t))
			return
		}
		if isDotsType(t.Elem()) {
			pos := token.Pos(v.Elem().FieldByName("Dots").Int())
			fmt.Fprintf(b, "(ptr %d (struct %d (nil %d) (atom %d %d)))", typeIDs["*pgo.Dots"], typeIDs["pgo.Dots"], typeIDs["ast.Expr"], typeIDs["pgo.DotsPos"], w.dots[pos])
			return
		}
		fmt.Fprintf(b, "(ptr %d ", tid(t))
		w.write(b, v.Elem())
		b.WriteString(")")
	case reflect.Interface:
		if v.IsNil() {
			fmt.Fprintf(b, "(nil %d)", tid(t))
			return
		}
		fmt.Fprintf(b, "(iface %d ", tid(t))
		w.write(b, v.Elem())
		b.WriteString(")")
	case reflect.Slice:
		if v.IsNil() {
			fmt.Fprintf(b, "(nil %d)", tid(t))
			return
		}
		fmt.Fprintf(b, "(slice %d", tid(t))
		for i := 0; i < v.Len(); i++ {
			e := v.Index(i)
			if w.dropImp {
				if gd, ok := e.Interface().(*ast.GenDecl); ok && gd.Tok == token.IMPORT {
					continue
				}
			}
			b.WriteString(" ")
			w.write(b, e)
		}
		b.WriteString(")")
	case reflect.Struct:
		fmt.Fprintf(b, "(struct %d", tid(t))
		for i := 0; i < v.NumField(); i++ {
			b.WriteString(" ")
			f := v.Field(i)
			if t == reflect.TypeOf(ast.File{}) {
				switch t.Field(i).Name {
				case "Imports", "Unresolved", "Comments":
					fmt.Fprintf(b, "(nil %d)", tid(f.Type()))
					continue
				}
			}
			w.write(b, f)
		}
		b.WriteString(")")
	case reflect.Map:
		fmt.Fprintf(b, "(nil %d)", tid(t))
	default:
		fmt.Fprintf(b, "(atom %d %d)", tid(t), w.in.id(fmt.Sprint(v.Interface())))
	}
}

func (w *valWriter) str(v reflect.Value) string {
	var b strings.Builder
	w.write(&b, v)
	return b.String()
}

func importsSx(in *interner, specs []*ast.ImportSpec) string {
	var b strings.Builder
	b.WriteString("(")
	for i, s := range specs {
		if i > 0 {
			b.WriteString(" ")
		}
		p, err := strconv.Unquote(s.Path.Value)
		if err != nil {
			p = s.Path.Value
		}
		name := "none"
		if s.Name != nil {
			name = strconv.Itoa(in.id(s.Name.Name))
		}
		fmt.Fprintf(&b, "(%s %d %d)", name, in.id(p), in.id(filepath.Base(p)))
	}
	b.WriteString(")")
	return b.String()
}

// collect pgo.Dots positions in a pattern tree, in source order
func collectDots(v reflect.Value, out *[]token.Pos, seen map[uintptr]bool) {
	switch v.Kind() {
	case reflect.Ptr:
		if v.IsNil() {
			return
		}
		if v.Type() == objPtrType || v.Type() == scopePtrType || v.Type() == cgPtrType {
			return
		}
		if seen[v.Pointer()] {
			return
		}
		seen[v.Pointer()] = true
		if isDotsType(v.Type().Elem()) {
			*out = append(*out, token.Pos(v.Elem().FieldByName("Dots").Int()))
			return
		}
		collectDots(v.Elem(), out, seen)
	case reflect.Interface:
		if !v.IsNil() {
			collectDots(v.Elem(), out, seen)
		}
	case reflect.Slice:
		for i := 0; i < v.Len(); i++ {
			collectDots(v.Index(i), out, seen)
		}
	case reflect.Struct:
		for i := 0; i < v.NumField(); i++ {
			collectDots(v.Field(i), out, seen)
		}
	}
}

type engineCase struct {
	Patch srcFile `json:"patch"`
	File  srcFile `json:"file"`
}

type engineResult struct {
	Panic    string   `json:"panic,omitempty"`
	LoadErr  string   `json:"load_err"`
	ParseErr string   `json:"parse_err"`
	Case     string   `json:"case"`  // s-expression for the model
	Atoms    []string `json:"atoms"` // atom id-1 -> text
	Steps    []stepJ  `json:"steps"`
	HasOut   bool     `json:"has_out"`
	Out      []byte   `json:"out"`      // imports.Process output (what Apply returns)
	OutErr   string   `json:"out_err"`  // format / process error
	OutTree  string   `json:"out_tree"` // serialised re-parse of Out
	OutImps  string   `json:"out_imports"`
	InTree   string   `json:"in_tree"`
	// the same patch and file through the public API (patch.Parse + File.Apply); Out/OutTree/OutImps
	// are taken from it, the hook run supplies the per-change steps and is cross-checked (HookOut)
	APIErr string `json:"api_err"`
	// where the metavariable table engine.compileMeta built differs from the declarations of the change
	MetaDiff  []string `json:"meta_diff"`
	HookOut   []byte   `json:"hook_out"`
	HookErr   string   `json:"hook_err"`
	HookPanic string   `json:"hook_panic"`
}

// side of a change: *pgo.File through reflection
func patternSx(w *valWriter, fset *token.FileSet, side reflect.Value, idStart, idEnd int) (node string, pkg string, imps string) {
	f := side.Elem()
	pkg = "none"
	if p := f.FieldByName("Package").String(); p != "" {
		pkg = strconv.Itoa(w.in.id(p))
	}
	imps = importsSx(w.in, f.FieldByName("Imports").Interface().([]*ast.ImportSpec))
	n := f.FieldByName("Node").Elem() // *pgo.Expr / *pgo.StmtList / ...
	switch n.Type().String() {
	case "*pgo.Expr":
		e := n.Elem().FieldByName("Expr").Elem() // concrete expression
		node = "(node " + w.str(e) + ")"
	case "*pgo.GenDecl":
		node = "(node " + w.str(n.Elem().FieldByName("GenDecl")) + ")"
	case "*pgo.FuncDecl":
		node = "(node " + w.str(n.Elem().FieldByName("FuncDecl")) + ")"
	case "*pgo.StmtList":
		l := n.Elem().FieldByName("List")
		var b strings.Builder
		fmt.Fprintf(&b, "(stmts %d %d", idStart, idEnd)
		for i := 0; i < l.Len(); i++ {
			b.WriteString(" ")
			w.write(&b, l.Index(i))
		}
		b.WriteString(")")
		node = b.String()
	default:
		node = "(node (nil 0))"
	}
	return
}

func dotsTable(fset *token.FileSet, poss []token.Pos, ids map[token.Pos]int, base int) string {
	var b strings.Builder
	b.WriteString("(")
	for i, p := range poss {
		if _, ok := ids[p]; !ok {
			ids[p] = base + len(ids) + 1
		}
		pp := fset.Position(p)
		if i > 0 {
			b.WriteString(" ")
		}
		fmt.Fprintf(&b, "(%d %d %d)", ids[p], pp.Line, pp.Column)
	}
	b.WriteString(")")
	return b.String()
}

func fileSx(in *interner, name string, src []byte) (tree string, imps string, err error) {
	fset := token.NewFileSet()
	f, err := parser.ParseFile(fset, name, src, parser.AllErrors|parser.ParseComments)
	if err != nil {
		return "", "", err
	}
	w := &valWriter{in: in, dropImp: true}
	return w.str(reflect.ValueOf(f)), importsSx(in, f.Imports), nil
}

func runEngineCase(c engineCase) (res engineResult) {
	defer func() {
		if r := recover(); r != nil {
			res.Panic = fmt.Sprintf("%v\n%s", r, debug.Stack())
		}
	}()
	in := newInterner()
	fset := token.NewFileSet()
	vp, err := patch.VerifCompile(fset, c.Patch.Name, c.Patch.Src)
	if err != nil {
		res.LoadErr = err.Error()
		return res
	}
	tree, imps, err := fileSx(in, c.File.Name, c.File.Src)
	if err != nil {
		res.ParseErr = err.Error()
		return res
	}
	res.InTree = tree
	var b strings.Builder
	fmt.Fprintf(&b, "(engine (file (imports %s) (tree %s)) (changes", imps[1:len(imps)-1], tree)
	parsed := reflect.ValueOf(vp.Parsed).Elem().FieldByName("Changes")
	for i := 0; i < parsed.Len(); i++ {
		ch := parsed.Index(i).Elem()
		p := ch.FieldByName("Patch").Elem()
		minus, plus := p.FieldByName("Minus"), p.FieldByName("Plus")
		start, end := token.Pos(p.FieldByName("StartPos").Int()), token.Pos(p.FieldByName("EndPos").Int())
		// dots ids: '-' side 1.., '+' side 1001..; the implicit statement-list dots are patch start/end
		var mposs, pposs []token.Pos
		collectDots(minus.Elem().FieldByName("Node"), &mposs, map[uintptr]bool{})
		collectDots(plus.Elem().FieldByName("Node"), &pposs, map[uintptr]bool{})
		isStmts := func(side reflect.Value) bool {
			return side.Elem().FieldByName("Node").Elem().Type().String() == "*pgo.StmtList" &&
				side.Elem().FieldByName("Node").Elem().Elem().FieldByName("List").Len() > 0
		}
		mids, pids := map[token.Pos]int{}, map[token.Pos]int{}
		// the implicit leading "..." is left out when the statements begin with a "..." at the very place it would be
		// put (same line and column): id 0 in the model's PStmts
		leads := func(side reflect.Value, poss []token.Pos) bool {
			if len(poss) == 0 {
				return true
			}
			l := side.Elem().FieldByName("Node").Elem().Elem().FieldByName("List")
			es, ok := l.Index(0).Interface().(*ast.ExprStmt)
			if !ok {
				return true
			}
			if reflect.TypeOf(es.X).String() != "*pgo.Dots" {
				return true
			}
			a, b := fset.Position(es.X.Pos()), fset.Position(start)
			return !(a.Line == b.Line && a.Column == b.Column)
		}
		mlead, plead := true, true
		if isStmts(minus) {
			mlead = leads(minus, mposs)
			if mlead {
				mposs = append([]token.Pos{start}, mposs...)
			}
			mposs = append(mposs, end)
		}
		if isStmts(plus) {
			plead = leads(plus, pposs)
			if plead {
				pposs = append([]token.Pos{start}, pposs...)
			}
			pposs = append(pposs, end)
		}
		mtab := dotsTable(fset, mposs, mids, 0)
		ptab := dotsTable(fset, pposs, pids, 1000)
		wm := &valWriter{in: in, dots: mids}
		wp := &valWriter{in: in, dots: pids}
		mstart, pstart := mids[start], pids[start]
		if !mlead {
			mstart = 0
		}
		if !plead {
			pstart = 0
		}
		mnode, mpkg, mimps := patternSx(wm, fset, minus, mstart, mids[end])
		pnode, ppkg, pimps := patternSx(wp, fset, plus, pstart, pids[end])
		// metavariables: the table is read off the PARSED declarations of this change (parse.Meta), not
		// off what engine.compileMeta made of them; the two are compared below
		decl := map[string]string{}
		if mv := ch.FieldByName("Meta"); mv.IsValid() && !mv.IsNil() {
			vars := mv.Elem().FieldByName("Vars")
			for vi := 0; vi < vars.Len(); vi++ {
				vd := vars.Index(vi).Elem()
				ty := vd.FieldByName("Type").Interface().(*ast.Ident)
				k := ""
				switch ty.Name {
				case "identifier":
					k = "ident"
				case "expression":
					k = "expr"
				}
				for _, nm := range vd.FieldByName("Names").Interface().([]*ast.Ident) {
					if nm.Name != "_" && k != "" {
						decl[nm.Name] = k
					}
				}
			}
		}
		compiled := map[string]string{}
		for n, t := range vp.Prog.Changes[i].Meta.Vars {
			if int(t) == 2 {
				compiled[n] = "ident"
			} else {
				compiled[n] = "expr"
			}
		}
		if !reflect.DeepEqual(decl, compiled) {
			res.MetaDiff = append(res.MetaDiff, fmt.Sprintf("change %d: declared %v, compiled %v", i, decl, compiled))
		}
		var names []string
		for n := range decl {
			names = append(names, n)
		}
		sort.Strings(names)
		var mk strings.Builder
		for _, n := range names {
			fmt.Fprintf(&mk, " (%d %s)", in.id(n), decl[n])
		}
		fmt.Fprintf(&b, " (change (mk%s) (mpkg %s) (ppkg %s) (mimports %s) (pimports %s) (minus %s) (plus %s) (mdots %s) (pdots %s) (blank %d) (dot %d))",
			mk.String(), mpkg, ppkg, mimps[1:len(mimps)-1], pimps[1:len(pimps)-1], mnode, pnode, mtab[1:len(mtab)-1], ptab[1:len(ptab)-1], in.id("_"), in.id("."))
	}
	b.WriteString("))")
	res.Case = b.String()
	// what the implementation does
	fs2 := token.NewFileSet()
	vp2, err := patch.VerifCompile(fs2, c.Patch.Name, c.Patch.Src)
	if err != nil {
		res.LoadErr = err.Error()
		return res
	}
	// the step-by-step run has no recover of its own (Apply has): a panic in it is recorded, not fatal
	tr := func() (t *patch.VerifTrace) {
		defer func() {
			if r := recover(); r != nil {
				t = &patch.VerifTrace{FormatErr: fmt.Sprintf("internal error: %v", r)}
				res.HookPanic = fmt.Sprintf("%v", r)
			}
		}()
		return patch.VerifRun(fs2, []*patch.VerifProgram{vp2}, c.File.Name, c.File.Src, false)
	}()
	res.Steps = convSteps(tr.Steps)
	res.HookOut, res.HookErr = tr.Processed, tr.FormatErr+tr.ProcErr
	// the public API on the same input
	var apiOut []byte
	if pf, err := patch.Parse(c.Patch.Name, c.Patch.Src); err != nil {
		res.APIErr = "parse: " + err.Error()
	} else if out, err := pf.Apply(c.File.Name, append([]byte(nil), c.File.Src...)); err != nil {
		res.APIErr = err.Error()
	} else {
		apiOut = out
	}
	anyOK := false
	for _, st := range tr.Steps {
		anyOK = anyOK || (st.Matched && st.ReplaceErr == "")
	}
	res.HasOut = tr.Out != nil
	if res.APIErr != "" {
		res.OutErr = res.APIErr
	} else if anyOK || !bytes.Equal(apiOut, c.File.Src) {
		res.Out = apiOut
	}
	if res.Out != nil {
		t2, i2, err := fileSx(in, c.File.Name, res.Out)
		if err != nil {
			res.OutErr = "reparse: " + err.Error()
		} else {
			res.OutTree, res.OutImps = t2, i2
		}
	}
	res.Atoms = in.names
	return res
}

const engineCaseLimit = 60 * time.Second

func init() {
	handlers["engine"] = func(req json.RawMessage) (any, error) {
		var in struct {
			Cases  []engineCase `json:"cases"`
			Serial bool         `json:"serial"` // one case at a time (sensitive to package-level state in /repo)
		}
		if err := json.Unmarshal(req, &in); err != nil {
			return nil, err
		}
		out := make([]engineResult, len(in.Cases))
		// a case that does not come back within the limit is reported as such (its goroutine is abandoned; the
		// process exits when all results are in)
		guarded := func(i int) {
			done := make(chan engineResult, 1)
			go func() { done <- runEngineCase(in.Cases[i]) }()
			select {
			case r := <-done:
				out[i] = r
			case <-time.After(engineCaseLimit):
				out[i] = engineResult{Panic: fmt.Sprintf("TIMEOUT: no result within %v (patch.Parse, the step-by-step run or File.Apply does not return)", engineCaseLimit)}
			}
		}
		if in.Serial {
			for i := range in.Cases {
				guarded(i)
			}
		} else {
			parallel(len(in.Cases), guarded)
		}
		return map[string]any{"results": out}, nil
	}
}
