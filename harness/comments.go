package main

import (
	"bytes"
	"crypto/sha1"
	"encoding/hex"
	"encoding/json"
	"fmt"
	"go/ast"
	"go/format"
	"go/parser"
	"go/token"
	"reflect"
	"runtime/debug"

	"github.com/uber-go/gopatch/patch"
)

// comments: for a patch and a commented Go file, what every change did (changed intervals,
// comments before/after the cleanup) and, for the input and the output, which comments
// belong to which top-level declaration.

type declJ struct {
	Digest   string   `json:"digest"` // syntax of the declaration, comments and positions erased
	Kind     string   `json:"kind"`
	Import   bool     `json:"import"` // an import declaration
	Start    int      `json:"start"`  // offset of the first byte of the declaration or its doc comment
	End      int      `json:"end"`
	Doc      []string `json:"doc"`
	Inside   []string `json:"inside"`
	Trailing []string `json:"trailing"`
}

type ownedJ struct {
	ParseErr string   `json:"parse_err"`
	Header   []string `json:"header"` // everything up to and including the package clause's line
	Decls    []declJ  `json:"decls"`
	Free     []string `json:"free"` // between declarations
	All      []string `json:"all"`
}

func ownedComments(src []byte) (o ownedJ) {
	fset := token.NewFileSet()
	f, err := parser.ParseFile(fset, "x.go", src, parser.AllErrors|parser.ParseComments|parser.SkipObjectResolution)
	if err != nil {
		o.ParseErr = err.Error()
		return
	}
	tf := fset.File(f.Pos())
	var all []*ast.Comment
	for _, g := range f.Comments {
		all = append(all, g.List...)
	}
	owner := make([]int, len(all)) // -1 header, -2 free, >=0 decl index
	class := make([]byte, len(all))
	pkgLine := tf.Line(f.Name.End())
	for i := range owner {
		owner[i] = -2
	}
	type span struct{ doc, pos, end token.Pos }
	spans := make([]span, len(f.Decls))
	for i, d := range f.Decls {
		s := span{pos: d.Pos(), end: d.End()}
		switch x := d.(type) {
		case *ast.GenDecl:
			if x.Doc != nil {
				s.doc = x.Doc.Pos()
			}
		case *ast.FuncDecl:
			if x.Doc != nil {
				s.doc = x.Doc.Pos()
			}
		}
		spans[i] = s
	}
	for ci, c := range all {
		o.All = append(o.All, c.Text)
		if c.End() <= f.Name.End() || tf.Line(c.Pos()) == pkgLine {
			owner[ci] = -1
			continue
		}
		for i, s := range spans {
			switch {
			case s.doc.IsValid() && c.Pos() >= s.doc && c.End() <= s.pos:
				owner[ci], class[ci] = i, 'd'
			case c.Pos() >= s.pos && c.End() <= s.end:
				owner[ci], class[ci] = i, 'i'
			case c.Pos() >= s.end && tf.Line(c.Pos()) == tf.Line(s.end) && (i+1 == len(spans) || c.End() <= spans[i+1].pos):
				owner[ci], class[ci] = i, 't'
			}
		}
	}
	for i, d := range f.Decls {
		dj := declJ{Kind: fmt.Sprintf("%T", d), Start: tf.Offset(d.Pos()), End: tf.Offset(d.End())}
		if spans[i].doc.IsValid() {
			dj.Start = tf.Offset(spans[i].doc)
		}
		if gd, ok := d.(*ast.GenDecl); ok && gd.Tok == token.IMPORT {
			dj.Import = true
		}
		h := sha1.Sum([]byte(treeOf(d, treeOpts{StripParens: true})))
		dj.Digest = hex.EncodeToString(h[:8])
		o.Decls = append(o.Decls, dj)
	}
	for ci, c := range all {
		switch {
		case owner[ci] == -1:
			o.Header = append(o.Header, c.Text)
		case owner[ci] == -2:
			o.Free = append(o.Free, c.Text)
		default:
			d := &o.Decls[owner[ci]]
			switch class[ci] {
			case 'd':
				d.Doc = append(d.Doc, c.Text)
			case 'i':
				d.Inside = append(d.Inside, c.Text)
			case 't':
				d.Trailing = append(d.Trailing, c.Text)
			}
		}
	}
	return
}

type commentsCase struct {
	Patches []srcFile `json:"patches"`
	File    srcFile   `json:"file"`
}

type commentsResult struct {
	Panic      string  `json:"panic,omitempty"`
	LoadErr    string  `json:"load_err"`
	ParseErr   string  `json:"parse_err"`
	Steps      []stepJ `json:"steps"`
	Out        []byte  `json:"out"`
	OutErr     string  `json:"out_err"`
	In         ownedJ  `json:"in"`     // of the input as given
	InFmt      *ownedJ `json:"in_fmt"` // of the gofmt-ed input (go/printer re-indents block comments and separates directives)
	OutOwned   *ownedJ `json:"out_owned,omitempty"`
	Lines      []int   `json:"lines"` // offsets of line starts of the input (token.File view)
	APIErr     string  `json:"api_err"`
	APIDiffers bool    `json:"api_differs"` // File.Apply returned other bytes than the step-by-step run
}

func runCommentsCase(c commentsCase) (res commentsResult) {
	defer func() {
		if r := recover(); r != nil {
			res.Panic = fmt.Sprintf("%v\n%s", r, debug.Stack())
		}
	}()
	fset := token.NewFileSet()
	var progs []*patch.VerifProgram
	for _, p := range c.Patches {
		vp, err := patch.VerifCompile(fset, p.Name, p.Src)
		if err != nil {
			res.LoadErr = err.Error()
			return res
		}
		progs = append(progs, vp)
	}
	res.In = ownedComments(c.File.Src)
	if res.In.ParseErr != "" {
		res.ParseErr = res.In.ParseErr
		return res
	}
	if fs, err := format.Source(c.File.Src); err == nil {
		of := ownedComments(fs)
		res.InFmt = &of
	}
	tr := patch.VerifRun(fset, progs, c.File.Name, c.File.Src, false)
	res.Steps = convSteps(tr.Steps)
	res.OutErr = tr.FormatErr + tr.ProcErr
	res.Out = tr.Processed
	// the output that is judged is the public API's (patch.Parse + File.Apply, one patch); the hook run above supplies
	// the per-change steps and must have produced the same bytes
	if len(c.Patches) == 1 {
		if pf, err := patch.Parse(c.Patches[0].Name, c.Patches[0].Src); err == nil {
			out, aerr := pf.Apply(c.File.Name, append([]byte(nil), c.File.Src...))
			if aerr != nil {
				res.APIErr = aerr.Error()
			} else {
				if tr.Processed != nil && !bytes.Equal(out, tr.Processed) {
					res.APIDiffers = true
				}
				if tr.Processed != nil || !bytes.Equal(out, c.File.Src) {
					res.Out = out
				}
			}
		}
	}
	if res.Out != nil {
		oo := ownedComments(res.Out)
		res.OutOwned = &oo
	}
	return res
}

var _ = reflect.TypeOf

func init() {
	handlers["comments"] = func(req json.RawMessage) (any, error) {
		var in struct {
			Cases     []commentsCase `json:"cases"`
			Snapshots bool           `json:"snapshots"` // record the astdiff snapshots of every step
		}
		if err := json.Unmarshal(req, &in); err != nil {
			return nil, err
		}
		patch.VerifSnapshots = in.Snapshots
		out := make([]commentsResult, len(in.Cases))
		parallel(len(in.Cases), func(i int) { out[i] = runCommentsCase(in.Cases[i]) })
		return map[string]any{"results": out}, nil
	}
}
