// Command verifharness is the implementation-side half of the correspondence
// checks: it runs gopatch's library code (through the public patch API and
// the build-tagged hooks in patch/verif_hooks.go) on inputs given as JSON and
// reports what the implementation did, as JSON.
package main

import (
	"encoding/json"
	"fmt"
	"os"
)

type handler func(req json.RawMessage) (any, error)

var handlers = map[string]handler{}

func main() {
	if len(os.Args) != 4 {
		fmt.Fprintln(os.Stderr, "usage: verifharness <cmd> <in.json> <out.json>")
		os.Exit(2)
	}
	h, ok := handlers[os.Args[1]]
	if !ok {
		fmt.Fprintln(os.Stderr, "unknown command", os.Args[1])
		os.Exit(2)
	}
	in, err := os.ReadFile(os.Args[2])
	if err != nil {
		fmt.Fprintln(os.Stderr, err)
		os.Exit(2)
	}
	out, err := h(in)
	if err != nil {
		fmt.Fprintln(os.Stderr, err)
		os.Exit(1)
	}
	bs, err := json.Marshal(out)
	if err != nil {
		fmt.Fprintln(os.Stderr, err)
		os.Exit(1)
	}
	if err := os.WriteFile(os.Args[3], bs, 0o644); err != nil {
		fmt.Fprintln(os.Stderr, err)
		os.Exit(1)
	}
}
