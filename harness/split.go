package main

import (
	"encoding/json"
	"fmt"
	"go/scanner"
	"go/token"
	"reflect"
	"runtime/debug"

	"github.com/uber-go/gopatch/patch"
	"go.uber.org/multierr"
)

type lineJ struct {
	Off  int    `json:"off"`
	Text []byte `json:"text"`
}

type changeJ struct {
	Header   int      `json:"header"`
	Name     string   `json:"name"`
	Meta     []lineJ  `json:"meta"`
	At       int      `json:"at"`
	Patch    []lineJ  `json:"patch"`
	Comments []string `json:"comments"`
	Toks     []tokJ   `json:"toks"` // go/scanner tokens of the metavariable section's scratch buffer
	Minus    versionJ `json:"minus"`
	Plus     versionJ `json:"plus"` // parse.splitPatch: the two versions of the body
}

type versionJ struct {
	Contents []byte   `json:"contents"`
	Lines    [][2]int `json:"lines"` // (offset in Contents, offset in the patch file)
}

type tokJ struct {
	Off  int    `json:"off"`
	Kind string `json:"kind"`
	Text string `json:"text"`
}

// scanMeta: tokens of the scratch buffer section.ToBytes builds (each line + "\n").
func scanMeta(meta []lineJ) []tokJ {
	var src []byte
	for _, l := range meta {
		src = append(src, l.Text...)
		src = append(src, '\n')
	}
	fset := token.NewFileSet()
	f := fset.AddFile("meta", -1, len(src))
	var sc scanner.Scanner
	sc.Init(f, src, func(token.Position, string) {}, 0)
	out := []tokJ{}
	for {
		pos, tok, lit := sc.Scan()
		if tok == token.EOF {
			break
		}
		k := "other"
		switch tok {
		case token.VAR:
			k = "var"
		case token.IDENT:
			k = "ident"
		case token.COMMA:
			k = "comma"
		case token.SEMICOLON:
			k = "semi"
		}
		out = append(out, tokJ{Off: f.Offset(pos), Kind: k, Text: lit})
	}
	return out
}

type splitResult struct {
	Panic    string    `json:"panic,omitempty"`
	Changes  []changeJ `json:"changes"`
	Errors   []string  `json:"errors"`    // section.Split errors, one per item
	ParseErr string    `json:"parse_err"` // patch.Parse (parse + compile) error text
}

func offOf(fset *token.FileSet, v reflect.Value) int {
	p := token.Pos(v.Int())
	if !p.IsValid() {
		return -1
	}
	return fset.Position(p).Offset
}

func sectionOf(fset *token.FileSet, v reflect.Value) []lineJ {
	out := []lineJ{}
	for i := 0; i < v.Len(); i++ {
		l := v.Index(i).Elem()
		out = append(out, lineJ{Off: offOf(fset, l.FieldByName("StartPos")), Text: l.FieldByName("Text").Bytes()})
	}
	return out
}

func runSplit(name string, src []byte) (res splitResult) {
	defer func() {
		if r := recover(); r != nil {
			res.Panic = fmt.Sprintf("%v\n%s", r, debug.Stack())
		}
	}()
	fset := token.NewFileSet()
	prog, err := patch.VerifSplit(fset, name, src)
	for _, e := range multierr.Errors(err) {
		res.Errors = append(res.Errors, e.Error())
	}
	pv := reflect.ValueOf(prog)
	for i := 0; i < pv.Len(); i++ {
		c := pv.Index(i).Elem()
		cj := changeJ{
			Header: offOf(fset, c.FieldByName("HeaderPos")),
			Name:   c.FieldByName("Name").String(),
			Meta:   sectionOf(fset, c.FieldByName("Meta")),
			At:     offOf(fset, c.FieldByName("AtPos")),
			Patch:  sectionOf(fset, c.FieldByName("Patch")),
		}
		cs := c.FieldByName("Comments")
		for j := 0; j < cs.Len(); j++ {
			cj.Comments = append(cj.Comments, cs.Index(j).String())
		}
		cj.Toks = scanMeta(cj.Meta)
		res.Changes = append(res.Changes, cj)
	}
	func() {
		fs2 := token.NewFileSet()
		ms, ps, _ := patch.VerifSplitPatch(fs2, name, src)
		conv := func(v reflect.Value) versionJ {
			out := versionJ{Contents: v.FieldByName("Contents").Bytes(), Lines: [][2]int{}}
			ls := v.FieldByName("Lines")
			for j := 0; j < ls.Len(); j++ {
				out.Lines = append(out.Lines, [2]int{int(ls.Index(j).FieldByName("Offset").Int()), offOf(fs2, ls.Index(j).FieldByName("Pos"))})
			}
			return out
		}
		for i := range res.Changes {
			if i < len(ms) {
				res.Changes[i].Minus = conv(reflect.ValueOf(ms[i]))
				res.Changes[i].Plus = conv(reflect.ValueOf(ps[i]))
			}
		}
	}()
	func() {
		defer func() {
			if r := recover(); r != nil {
				res.ParseErr = fmt.Sprintf("panic: %v", r)
			}
		}()
		if _, err := patch.Parse(name, src); err != nil {
			res.ParseErr = err.Error()
		}
	}()
	return res
}

func init() {
	handlers["split"] = func(req json.RawMessage) (any, error) {
		var in struct {
			Items []srcFile `json:"items"`
		}
		if err := json.Unmarshal(req, &in); err != nil {
			return nil, err
		}
		out := make([]splitResult, len(in.Items))
		parallel(len(in.Items), func(i int) { out[i] = runSplit(in.Items[i].Name, in.Items[i].Src) })
		return map[string]any{"results": out}, nil
	}
}
