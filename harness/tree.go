package main

import (
	"crypto/sha1"
	"encoding/hex"
	"encoding/json"
	"fmt"
	"go/ast"
	"go/parser"
	"go/token"
	"reflect"
	"strings"
)

// Generic, reflection-driven serialisation of go/ast (and pgo) trees into the
// universal tree of the engine model (coq/Model/Tree.v):
//
//	(nil T) | (pos 0|1) | (atom T "text") | (struct T fields...) | (ptr T v) | (iface T v) | (slice T vs...)
//
// T is the Go type name. Strings are interned by the caller when needed.

var (
	posType      = reflect.TypeOf(token.NoPos)
	cgPtrType    = reflect.TypeOf((*ast.CommentGroup)(nil))
	objPtrType   = reflect.TypeOf((*ast.Object)(nil))
	scopePtrType = reflect.TypeOf((*ast.Scope)(nil))
)

type treeOpts struct {
	StripParens bool // replace ParenExpr by its operand
	DropPos     bool // print every position as (pos _)
}

func typeName(t reflect.Type) string {
	s := t.String()
	s = strings.ReplaceAll(s, " ", "")
	return s
}

func quote(s string) string {
	return fmt.Sprintf("%q", s)
}

func writeTree(b *strings.Builder, v reflect.Value, o treeOpts) {
	t := v.Type()
	switch {
	case t == posType:
		if o.DropPos {
			b.WriteString("(pos _)")
		} else if token.Pos(v.Int()).IsValid() {
			b.WriteString("(pos 1)")
		} else {
			b.WriteString("(pos 0)")
		}
		return
	case t == cgPtrType, t == objPtrType, t == scopePtrType:
		// comments and resolution data are not part of the syntax tree
		b.WriteString("(nil " + typeName(t) + ")")
		return
	}
	switch v.Kind() {
	case reflect.Ptr:
		if v.IsNil() {
			b.WriteString("(nil " + typeName(t) + ")")
			return
		}
		if o.StripParens {
			if p, ok := v.Interface().(*ast.ParenExpr); ok {
				writeTree(b, reflect.ValueOf(p.X), o)
				return
			}
		}
		b.WriteString("(ptr " + typeName(t) + " ")
		writeTree(b, v.Elem(), o)
		b.WriteString(")")
	case reflect.Interface:
		if v.IsNil() {
			b.WriteString("(nil " + typeName(t) + ")")
			return
		}
		if o.StripParens {
			if p, ok := v.Interface().(*ast.ParenExpr); ok {
				// keep the interface wrapper, strip the parens inside
				b.WriteString("(iface " + typeName(t) + " ")
				writeTree(b, reflect.ValueOf(p.X), o)
				b.WriteString(")")
				return
			}
		}
		b.WriteString("(iface " + typeName(t) + " ")
		writeTree(b, v.Elem(), o)
		b.WriteString(")")
	case reflect.Slice:
		if v.IsNil() {
			b.WriteString("(nil " + typeName(t) + ")")
			return
		}
		b.WriteString("(slice " + typeName(t))
		for i := 0; i < v.Len(); i++ {
			b.WriteString(" ")
			writeTree(b, v.Index(i), o)
		}
		b.WriteString(")")
	case reflect.Struct:
		b.WriteString("(struct " + typeName(t))
		for i := 0; i < v.NumField(); i++ {
			b.WriteString(" ")
			writeTree(b, v.Field(i), o)
		}
		b.WriteString(")")
	case reflect.Map:
		b.WriteString("(nil " + typeName(t) + ")")
	default:
		b.WriteString("(atom " + typeName(t) + " " + quote(fmt.Sprint(v.Interface())) + ")")
	}
}

func treeOf(n any, o treeOpts) string {
	var b strings.Builder
	writeTree(&b, reflect.ValueOf(n), o)
	return b.String()
}

// fileTree parses src and serialises the file without comments/positions detail.
func fileTree(src []byte, o treeOpts) (string, error) {
	fset := token.NewFileSet()
	f, err := parser.ParseFile(fset, "x.go", src, parser.AllErrors|parser.ParseComments|parser.SkipObjectResolution)
	if err != nil {
		return "", err
	}
	f.Comments = nil
	f.Imports = nil
	f.Unresolved = nil
	return treeOf(f, o), nil
}

func init() {
	// astdump: canonical syntax-tree digest of Go sources (positions erased, comments
	// dropped, optionally parentheses stripped); equal digests <=> syntactically identical.
	handlers["astdump"] = func(req json.RawMessage) (any, error) {
		var in struct {
			Srcs        [][]byte `json:"srcs"`
			StripParens bool     `json:"strip_parens"`
			Full        bool     `json:"full"`
		}
		if err := json.Unmarshal(req, &in); err != nil {
			return nil, err
		}
		out := make([]string, len(in.Srcs))
		parallel(len(in.Srcs), func(i int) {
			t, err := fileTree(in.Srcs[i], treeOpts{StripParens: in.StripParens, DropPos: false})
			if err != nil {
				out[i] = "ERR:" + err.Error()
				return
			}
			if in.Full {
				out[i] = t
			} else {
				h := sha1.Sum([]byte(t))
				out[i] = hex.EncodeToString(h[:])
			}
		})
		return map[string]any{"dumps": out}, nil
	}
}
