package main

import (
	"encoding/json"
	"fmt"
	"go/scanner"
	"go/token"
	"reflect"
	"runtime/debug"
	"time"

	"github.com/uber-go/gopatch/patch"
)

// augment: go/scanner tokens of pgo sources (the oracle of coq/Model/Augment.v) and what
// augment.Augment (through the verif hook) does with each source, with a time limit.

type atokJ struct {
	K    string `json:"k"`
	Off  int    `json:"off"`
	Line int    `json:"line"`
}

type augJ struct {
	T     string `json:"t"` // dots | pkg | func
	S     int    `json:"s"`
	E     int    `json:"e"`
	Named bool   `json:"named"`
}

type augmentOut struct {
	Toks     []atokJ  `json:"toks"`
	EOFLine  int      `json:"eof_line"`
	ScanErrs int      `json:"scan_errs"`
	Out      []byte   `json:"out"`
	Augs     []augJ   `json:"augs"`
	Adjs     [][2]int `json:"adjs"`
	Err      string   `json:"err"`
	Panic    string   `json:"panic"`
	Timeout  bool     `json:"timeout"`
	Millis   int64    `json:"ms"`
}

func akind(t token.Token) string {
	switch t {
	case token.IDENT:
		return "ident"
	case token.ELLIPSIS:
		return "ellipsis"
	case token.FUNC:
		return "func"
	case token.PACKAGE:
		return "package"
	case token.IMPORT:
		return "import"
	case token.LPAREN:
		return "lparen"
	case token.RPAREN:
		return "rparen"
	case token.PERIOD:
		return "period"
	case token.COMMA:
		return "comma"
	case token.TYPE:
		return "type"
	case token.CONST:
		return "const"
	case token.VAR:
		return "var"
	case token.LBRACE:
		return "lbrace"
	}
	return "other"
}

func scanAug(src []byte) (toks []atokJ, eofLine, nerr int) {
	fset := token.NewFileSet()
	f := fset.AddFile("src.go", -1, len(src))
	var sc scanner.Scanner
	sc.Init(f, src, func(token.Position, string) { nerr++ }, 0)
	type raw struct {
		pos token.Pos
		tok token.Token
	}
	var rs []raw
	var eof token.Pos
	for {
		pos, tok, _ := sc.Scan()
		if tok == token.EOF {
			eof = pos
			break
		}
		rs = append(rs, raw{pos, tok})
	}
	toks = make([]atokJ, 0, len(rs))
	for _, r := range rs {
		toks = append(toks, atokJ{K: akind(r.tok), Off: f.Offset(r.pos), Line: f.Line(r.pos)})
	}
	return toks, f.Line(eof), nerr
}

func runAugment(src []byte) (o augmentOut) {
	defer func() {
		if r := recover(); r != nil {
			o.Panic = fmt.Sprintf("%v\n%s", r, debug.Stack())
		}
	}()
	in := append([]byte(nil), src...)
	out, augs, adjs, err := patch.VerifAugment(in)
	if err != nil {
		o.Err = err.Error()
		return
	}
	o.Out = out
	av := reflect.ValueOf(augs)
	for i := 0; i < av.Len(); i++ {
		e := av.Index(i).Elem().Elem() // interface -> pointer -> struct
		switch e.Type().Name() {
		case "Dots":
			o.Augs = append(o.Augs, augJ{T: "dots", S: int(e.FieldByName("DotsStart").Int()), E: int(e.FieldByName("DotsEnd").Int()), Named: e.FieldByName("Named").Bool()})
		case "FakePackage":
			o.Augs = append(o.Augs, augJ{T: "pkg", S: int(e.FieldByName("PackageStart").Int())})
		case "FakeFunc":
			o.Augs = append(o.Augs, augJ{T: "func", S: int(e.FieldByName("FuncStart").Int()), Named: e.FieldByName("Braces").Bool()})
		default:
			o.Augs = append(o.Augs, augJ{T: e.Type().Name()})
		}
	}
	jv := reflect.ValueOf(adjs)
	for i := 0; i < jv.Len(); i++ {
		e := jv.Index(i)
		o.Adjs = append(o.Adjs, [2]int{int(e.FieldByName("Offset").Int()), int(e.FieldByName("ReduceBy").Int())})
	}
	return
}

func init() {
	handlers["augment"] = func(req json.RawMessage) (any, error) {
		var in struct {
			Srcs      [][]byte `json:"srcs"`
			TimeoutMs int      `json:"timeout_ms"`
		}
		if err := json.Unmarshal(req, &in); err != nil {
			return nil, err
		}
		if in.TimeoutMs == 0 {
			in.TimeoutMs = 5000
		}
		out := make([]augmentOut, len(in.Srcs))
		parallel(len(in.Srcs), func(i int) {
			toks, el, ne := scanAug(in.Srcs[i])
			ch := make(chan augmentOut, 1)
			t0 := time.Now()
			go func() { ch <- runAugment(in.Srcs[i]) }()
			var o augmentOut
			select {
			case o = <-ch:
			case <-time.After(time.Duration(in.TimeoutMs) * time.Millisecond):
				o.Timeout = true // the goroutine is abandoned
			}
			o.Millis = time.Since(t0).Milliseconds()
			o.Toks, o.EOFLine, o.ScanErrs = toks, el, ne
			out[i] = o
		})
		return map[string]any{"results": out}, nil
	}
}
