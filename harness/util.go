package main

import (
	"runtime"
	"sync"
)

// parallel runs f(0..n-1) on all cores.
func parallel(n int, f func(i int)) {
	workers := runtime.NumCPU()
	if workers > n {
		workers = n
	}
	var wg sync.WaitGroup
	ch := make(chan int)
	for w := 0; w < workers; w++ {
		wg.Add(1)
		go func() {
			defer wg.Done()
			for i := range ch {
				f(i)
			}
		}()
	}
	for i := 0; i < n; i++ {
		ch <- i
	}
	close(ch)
	wg.Wait()
}
