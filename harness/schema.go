package main

import (
	"encoding/json"
	"go/ast"
	"go/token"
	"reflect"
	"sort"

	"golang.org/x/tools/go/ast/astutil"
)

// schema: the shape of go/ast as the engine sees it through reflection, and the
// fields astutil.Apply visits; rendered into coq/Gen/Schema.v on every run.

var nodeIface = reflect.TypeOf((*ast.Node)(nil)).Elem()

var ifaceTypes = map[string]reflect.Type{
	"ast.Expr": reflect.TypeOf((*ast.Expr)(nil)).Elem(),
	"ast.Stmt": reflect.TypeOf((*ast.Stmt)(nil)).Elem(),
	"ast.Decl": reflect.TypeOf((*ast.Decl)(nil)).Elem(),
	"ast.Spec": reflect.TypeOf((*ast.Spec)(nil)).Elem(),
	"ast.Node": nodeIface,
}

// every concrete node type of go/ast
var nodeValues = []ast.Node{
	&ast.ArrayType{}, &ast.AssignStmt{}, &ast.BadDecl{}, &ast.BadExpr{}, &ast.BadStmt{}, &ast.BasicLit{},
	&ast.BinaryExpr{}, &ast.BlockStmt{}, &ast.BranchStmt{}, &ast.CallExpr{}, &ast.CaseClause{}, &ast.ChanType{},
	&ast.CommClause{}, &ast.Comment{}, &ast.CommentGroup{}, &ast.CompositeLit{}, &ast.DeclStmt{}, &ast.DeferStmt{},
	&ast.Ellipsis{}, &ast.EmptyStmt{}, &ast.ExprStmt{}, &ast.Field{}, &ast.FieldList{}, &ast.File{}, &ast.ForStmt{},
	&ast.FuncDecl{}, &ast.FuncLit{}, &ast.FuncType{}, &ast.GenDecl{}, &ast.GoStmt{}, &ast.Ident{}, &ast.IfStmt{},
	&ast.ImportSpec{}, &ast.IncDecStmt{}, &ast.IndexExpr{}, &ast.IndexListExpr{}, &ast.InterfaceType{},
	&ast.KeyValueExpr{}, &ast.LabeledStmt{}, &ast.MapType{}, &ast.ParenExpr{}, &ast.RangeStmt{}, &ast.ReturnStmt{},
	&ast.SelectStmt{}, &ast.SelectorExpr{}, &ast.SendStmt{}, &ast.SliceExpr{}, &ast.StarExpr{}, &ast.StructType{},
	&ast.SwitchStmt{}, &ast.TypeAssertExpr{}, &ast.TypeSpec{}, &ast.TypeSwitchStmt{}, &ast.UnaryExpr{}, &ast.ValueSpec{},
}

type fieldJ struct {
	Name    string `json:"name"`
	Type    string `json:"type"`
	Kind    string `json:"kind"` // iface | ptr | slice | pos | other
	Elem    string `json:"elem,omitempty"`
	Visited bool   `json:"visited"` // astutil.Apply descends into it
}

type structJ struct {
	Name   string   `json:"name"`
	Ptr    string   `json:"ptr"`
	Fields []fieldJ `json:"fields"`
}

type schemaJ struct {
	Types      []string            `json:"types"` // id = index + 1
	Structs    []structJ           `json:"structs"`
	Implements map[string][]string `json:"implements"`
}

// a non-nil value assignable to t, used to probe astutil.Apply
func probeValue(t reflect.Type, depth int) reflect.Value {
	switch t.Kind() {
	case reflect.Interface:
		switch t {
		case ifaceTypes["ast.Expr"]:
			return reflect.ValueOf(&ast.Ident{Name: "p"})
		case ifaceTypes["ast.Stmt"]:
			return reflect.ValueOf(&ast.EmptyStmt{})
		case ifaceTypes["ast.Decl"]:
			return reflect.ValueOf(&ast.BadDecl{})
		case ifaceTypes["ast.Spec"]:
			return reflect.ValueOf(&ast.ImportSpec{Path: &ast.BasicLit{Kind: token.STRING, Value: `"x"`}})
		}
		return reflect.Zero(t)
	case reflect.Ptr:
		if t.Implements(nodeIface) && depth < 2 {
			v := reflect.New(t.Elem())
			if t == reflect.TypeOf((*ast.CommentGroup)(nil)) {
				v.Elem().FieldByName("List").Set(reflect.ValueOf([]*ast.Comment{{Text: "//"}}))
			}
			return v
		}
		return reflect.Zero(t)
	case reflect.Slice:
		e := probeValue(t.Elem(), depth)
		if !e.IsValid() || (e.Kind() == reflect.Ptr || e.Kind() == reflect.Interface) && e.IsNil() {
			return reflect.Zero(t)
		}
		s := reflect.MakeSlice(t, 1, 1)
		s.Index(0).Set(e)
		return s
	}
	return reflect.Zero(t)
}

func visitedFields(n ast.Node) map[string]bool {
	t := reflect.TypeOf(n).Elem()
	v := reflect.ValueOf(n).Elem()
	for i := 0; i < t.NumField(); i++ {
		if !t.Field(i).IsExported() {
			continue
		}
		pv := probeValue(t.Field(i).Type, 1)
		if pv.IsValid() && pv.Type().AssignableTo(t.Field(i).Type) {
			v.Field(i).Set(pv)
		}
	}
	seen := map[string]bool{}
	func() {
		defer func() { recover() }()
		astutil.Apply(n, func(c *astutil.Cursor) bool {
			if c.Parent() == n {
				seen[c.Name()] = true
				return false
			}
			return true
		}, nil)
	}()
	return seen
}

func kindOf(t reflect.Type) string {
	switch {
	case t == posType:
		return "pos"
	case t.Kind() == reflect.Interface:
		return "iface"
	case t.Kind() == reflect.Ptr:
		return "ptr"
	case t.Kind() == reflect.Slice:
		return "slice"
	}
	return "other"
}

func buildSchema() schemaJ {
	names := map[string]bool{"pgo.Dots": true, "*pgo.Dots": true, "pgo.DotsPos": true}
	var structs []structJ
	add := func(t reflect.Type) { names[typeName(t)] = true }
	for _, n := range nodeValues {
		pt := reflect.TypeOf(n)
		st := pt.Elem()
		add(pt)
		add(st)
		vis := visitedFields(reflect.New(st).Interface().(ast.Node))
		sj := structJ{Name: typeName(st), Ptr: typeName(pt)}
		for i := 0; i < st.NumField(); i++ {
			f := st.Field(i)
			add(f.Type)
			fj := fieldJ{Name: f.Name, Type: typeName(f.Type), Kind: kindOf(f.Type), Visited: vis[f.Name]}
			if f.Type.Kind() == reflect.Slice {
				add(f.Type.Elem())
				fj.Elem = typeName(f.Type.Elem())
			}
			sj.Fields = append(sj.Fields, fj)
		}
		structs = append(structs, sj)
	}
	for n, t := range ifaceTypes {
		names[n] = true
		_ = t
	}
	impl := map[string][]string{}
	for in, it := range ifaceTypes {
		for _, n := range nodeValues {
			if reflect.TypeOf(n).Implements(it) {
				impl[in] = append(impl[in], typeName(reflect.TypeOf(n)))
			}
		}
		if in == "ast.Expr" || in == "ast.Node" {
			impl[in] = append(impl[in], "*pgo.Dots")
		}
		sort.Strings(impl[in])
	}
	var types []string
	for n := range names {
		types = append(types, n)
	}
	sort.Strings(types)
	return schemaJ{Types: types, Structs: structs, Implements: impl}
}

var theSchema = buildSchema()
var typeIDs = func() map[string]int {
	m := map[string]int{}
	for i, n := range theSchema.Types {
		m[n] = i + 1
	}
	return m
}()

func init() {
	handlers["schema"] = func(req json.RawMessage) (any, error) { return theSchema, nil }
}
