package main

import (
	"bytes"
	"encoding/json"

	"github.com/pkg/diff"
)

// difftext: the text gopatch's --diff mode prints for (name, old, new),
// computed with the same library call (an oracle of the driver model).
func init() {
	handlers["difftext"] = func(req json.RawMessage) (any, error) {
		var in struct {
			Items []struct {
				Name string `json:"name"`
				Old  []byte `json:"old"`
				New  []byte `json:"new"`
			} `json:"items"`
		}
		if err := json.Unmarshal(req, &in); err != nil {
			return nil, err
		}
		out := make([][]byte, len(in.Items))
		for i, it := range in.Items {
			var b bytes.Buffer
			if err := diff.Text(it.Name, it.Name, it.Old, it.New, &b); err != nil {
				return nil, err
			}
			out[i] = b.Bytes()
		}
		return map[string]any{"texts": out}, nil
	}
}
