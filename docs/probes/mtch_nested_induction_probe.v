From Coq Require Import List NArith Bool Arith Lia.
Import ListNotations.

Definition ty := N.
Inductive val :=
| Nil (t : ty)
| Pos (valid : bool)
| Atom (t : ty) (a : N)
| Struct (t : ty) (fs : list val)
| Ptr (t : ty) (v : val)
| Slice (t : ty) (vs : list val).

Section Ind.
Variable P : val -> Prop.
Hypotheses (HNil : forall t, P (Nil t)) (HPos : forall b, P (Pos b)) (HAtom : forall t a, P (Atom t a))
  (HStruct : forall t fs, Forall P fs -> P (Struct t fs))
  (HPtr : forall t v, P v -> P (Ptr t v))
  (HSlice : forall t vs, Forall P vs -> P (Slice t vs)).
Fixpoint val_ind' (v : val) : P v :=
  match v with
  | Nil t => HNil t | Pos b => HPos b | Atom t a => HAtom t a
  | Struct t fs => HStruct t fs ((fix go (l : list val) : Forall P l :=
        match l with [] => Forall_nil _ | x :: l' => Forall_cons _ (val_ind' x) (go l') end) fs)
  | Ptr t v => HPtr t v (val_ind' v)
  | Slice t vs => HSlice t vs ((fix go (l : list val) : Forall P l :=
        match l with [] => Forall_nil _ | x :: l' => Forall_cons _ (val_ind' x) (go l') end) vs)
  end.
End Ind.

Definition data := list (N * val).
Definition tyIdent : ty := 1%N.
Definition lookup (d : data) (k : N) := option_map snd (find (fun kv => N.eqb (fst kv) k) d).

Section M.
Variable meta : N -> bool.   (* is this ident name a metavariable *)

(* structural equality modulo Pos validity : the "captured value matcher" *)
Fixpoint eqvb (p t : val) {struct p} : bool :=
  match p, t with
  | Nil a, Nil b => N.eqb a b
  | Pos a, Pos b => Bool.eqb a b
  | Atom ta a, Atom tb b => N.eqb ta tb && N.eqb a b
  | Ptr ta p', Ptr tb t' => N.eqb ta tb && eqvb p' t'
  | Struct ta ps, Struct tb ts => N.eqb ta tb &&
      (fix go (ps ts : list val) {struct ps} : bool :=
         match ps, ts with [], [] => true | p :: ps', t :: ts' => eqvb p t && go ps' ts' | _, _ => false end) ps ts
  | Slice ta ps, Slice tb ts => N.eqb ta tb &&
      (fix go (ps ts : list val) {struct ps} : bool :=
         match ps, ts with [], [] => true | p :: ps', t :: ts' => eqvb p t && go ps' ts' | _, _ => false end) ps ts
  | _, _ => false
  end.

Definition is_meta_ident (p : val) : option N :=
  match p with Ptr t (Struct _ [Pos _; Atom _ name]) => if N.eqb t tyIdent && meta name then Some name else None | _ => None end.

Fixpoint mtch (p t : val) (d : data) {struct p} : option data :=
  match is_meta_ident p with
  | Some x => match lookup d x with
              | Some c => if eqvb c t then Some d else None
              | None => Some ((x, t) :: d)
              end
  | None =>
  match p, t with
  | Nil a, Nil b => if N.eqb a b then Some d else None
  | Pos a, Pos b => if Bool.eqb a b then Some d else None
  | Atom ta a, Atom tb b => if N.eqb ta tb && N.eqb a b then Some d else None
  | Ptr ta p', Ptr tb t' => if N.eqb ta tb then mtch p' t' d else None
  | Struct ta ps, Struct tb ts => if N.eqb ta tb then
      (fix go (ps ts : list val) (d : data) {struct ps} : option data :=
         match ps, ts with
         | [], [] => Some d
         | p :: ps', t :: ts' => match mtch p t d with Some d' => go ps' ts' d' | None => None end
         | _, _ => None end) ps ts d else None
  | Slice ta ps, Slice tb ts => if N.eqb ta tb then
      (fix go (ps ts : list val) (d : data) {struct ps} : option data :=
         match ps, ts with
         | [], [] => Some d
         | p :: ps', t :: ts' => match mtch p t d with Some d' => go ps' ts' d' | None => None end
         | _, _ => None end) ps ts d else None
  | _, _ => None
  end end.

(* named list loop *)
Fixpoint mall (ps ts : list val) (d : data) : option data :=
  match ps, ts with
  | [], [] => Some d
  | p :: ps', t :: ts' => match mtch p t d with Some d' => mall ps' ts' d' | None => None end
  | _, _ => None end.

(* declarative: with a global environment s *)
Definition env := N -> option val.
Inductive Inst (s : env) : val -> val -> Prop :=
| I_meta p x c t : is_meta_ident p = Some x -> s x = Some c -> eqvb c t = true -> Inst s p t
| I_nil a : is_meta_ident (Nil a) = None -> Inst s (Nil a) (Nil a)
| I_pos b : Inst s (Pos b) (Pos b)
| I_atom t a : Inst s (Atom t a) (Atom t a)
| I_ptr t p v : is_meta_ident (Ptr t p) = None -> Inst s p v -> Inst s (Ptr t p) (Ptr t v)
| I_struct t ps ts : Forall2 (Inst s) ps ts -> Inst s (Struct t ps) (Struct t ts)
| I_slice t ps ts : Forall2 (Inst s) ps ts -> Inst s (Slice t ps) (Slice t ts).

Definition agrees (d : data) (s : env) := forall x c, lookup d x = Some c -> s x = Some c.
Definition extends (d d' : data) := forall x c, lookup d x = Some c -> lookup d' x = Some c.

Lemma mtch_struct ta ps tb ts d : mtch (Struct ta ps) (Struct tb ts) d = if N.eqb ta tb then mall ps ts d else None.
Proof.
  cbn [mtch is_meta_ident]. destruct (N.eqb ta tb); reflexivity.
Qed.
Lemma mtch_slice ta ps tb ts d : mtch (Slice ta ps) (Slice tb ts) d = if N.eqb ta tb then mall ps ts d else None.
Proof.
  cbn [mtch is_meta_ident]. destruct (N.eqb ta tb); reflexivity.
Qed.

Lemma lookup_cons_eq x t d : lookup ((x, t) :: d) x = Some t.
Proof. unfold lookup. cbn. rewrite N.eqb_refl. reflexivity. Qed.
Lemma lookup_cons_neq x y t d : x <> y -> lookup ((x, t) :: d) y = lookup d y.
Proof. intros H. unfold lookup. cbn. destruct (N.eqb_spec x y); [contradiction|reflexivity]. Qed.

(* monotonicity: matching only extends the store *)
Lemma mall_extends ps : Forall (fun p => forall t d d', mtch p t d = Some d' -> extends d d') ps ->
  forall us d d', mall ps us d = Some d' -> extends d d'.
Proof.
  induction 1 as [|p ps Hp Hps IHps]; intros [|u us] d d' H; cbn [mall] in H; try discriminate.
  - inversion H; subst. intros ? ? ?; assumption.
  - destruct (mtch p u d) eqn:E; [|discriminate].
    intros x c Hl. eapply IHps; eauto. eapply Hp; eauto.
Qed.

Lemma mtch_extends p : forall t d d', mtch p t d = Some d' -> extends d d'.
Proof.
  induction p as [a|b|ta a|ta fs IHfs|ta p IHp|ta vs IHvs] using val_ind'; intros u d d' Hm.
  - cbn [mtch is_meta_ident] in Hm. destruct u; try discriminate. destruct (N.eqb a t); inversion Hm; subst; intros ? ? ?; assumption.
  - cbn [mtch is_meta_ident] in Hm. destruct u; try discriminate. destruct (Bool.eqb b valid); inversion Hm; subst; intros ? ? ?; assumption.
  - cbn [mtch is_meta_ident] in Hm. destruct u; try discriminate. destruct (N.eqb ta t && N.eqb a a0); inversion Hm; subst; intros ? ? ?; assumption.
  - destruct u; try (cbn in Hm; discriminate). rewrite mtch_struct in Hm.
    destruct (N.eqb ta t); [|discriminate]. eapply mall_extends; eauto.
  - destruct (is_meta_ident (Ptr ta p)) eqn:Em.
    + unfold mtch in Hm; fold mtch in Hm. rewrite Em in Hm.
      destruct (lookup d n) eqn:El.
      * destruct (eqvb v u); [|discriminate]. inversion Hm; subst. intros ? ? ?; assumption.
      * inversion Hm; subst. intros x c Hl. destruct (N.eq_dec n x) as [->|Hn].
        -- congruence.
        -- rewrite lookup_cons_neq; auto.
    + unfold mtch in Hm; fold mtch in Hm. rewrite Em in Hm. destruct u; try discriminate.
      destruct (N.eqb ta t); [|discriminate]. eapply IHp; eauto.
  - destruct u; try (cbn in Hm; discriminate). rewrite mtch_slice in Hm.
    destruct (N.eqb ta t); [|discriminate]. eapply mall_extends; eauto.
Qed.

Definition senv (d : data) : env := lookup d.

Lemma Forall2_mono_in {A B} (R R' : A -> B -> Prop) l l' :
  Forall (fun a => forall b, R a b -> R' a b) l -> Forall2 R l l' -> Forall2 R' l l'.
Proof. intros HF H2. induction H2; inversion HF; subst; constructor; auto. Qed.

Lemma Inst_mono (s s' : env) : (forall x c, s x = Some c -> s' x = Some c) ->
  forall p t, Inst s p t -> Inst s' p t.
Proof.
  intros Hs p. induction p as [a|b|ta a|ta fs IHfs|ta p IHp|ta vs IHvs] using val_ind'; intros u HI;
    inversion HI; subst;
    try match goal with Hm : is_meta_ident _ = Some _ |- _ => solve [eapply I_meta; eauto] end.
  - apply I_nil; assumption.
  - constructor.
  - constructor.
  - apply I_struct. eapply Forall2_mono_in; eauto.
  - apply I_ptr; auto.
  - apply I_slice. eapply Forall2_mono_in; eauto.
Qed.

Lemma extends_trans d1 d2 d3 : extends d1 d2 -> extends d2 d3 -> extends d1 d3.
Proof. unfold extends; eauto. Qed.

Lemma mall_sound ps :
  Forall (fun p => forall t d d', mtch p t d = Some d' -> Inst (senv d') p t) ps ->
  forall us d d', mall ps us d = Some d' -> Forall2 (Inst (senv d')) ps us.
Proof.
  induction 1 as [|p ps Hp Hps IHps]; intros [|u us] d d' H; cbn [mall] in H; try discriminate.
  - constructor.
  - destruct (mtch p u d) as [d1|] eqn:E; [|discriminate]. constructor.
    + eapply Inst_mono; [|eapply Hp; eauto]. intros x c Hx.
      eapply (mall_extends ps); [|exact H|exact Hx].
      clear. induction ps; constructor; auto. intros; eapply mtch_extends; eauto.
    + eapply IHps; eauto.
Qed.

Lemma eqvb_refl v : eqvb v v = true.
Proof.
  induction v as [a|b|ta a|ta fs IHfs|ta p IHp|ta vs IHvs] using val_ind'; cbn [eqvb].
  - apply N.eqb_refl.
  - destruct b; reflexivity.
  - rewrite !N.eqb_refl. reflexivity.
  - rewrite N.eqb_refl. cbn [andb]. induction IHfs as [|x xs Hx Hxs IH]; [reflexivity|]. rewrite Hx. exact IH.
  - rewrite N.eqb_refl, IHp. reflexivity.
  - rewrite N.eqb_refl. cbn [andb]. induction IHvs as [|x xs Hx Hxs IH]; [reflexivity|]. rewrite Hx. exact IH.
Qed.

Theorem mtch_sound p : forall t d d', mtch p t d = Some d' -> Inst (senv d') p t.
Proof.
  induction p as [a|b|ta a|ta fs IHfs|ta p IHp|ta vs IHvs] using val_ind'; intros u d d' Hm.
  - cbn [mtch is_meta_ident] in Hm. destruct u; try discriminate.
    destruct (N.eqb_spec a t); [|discriminate]. subst. apply I_nil. reflexivity.
  - cbn [mtch is_meta_ident] in Hm. destruct u; try discriminate.
    destruct (Bool.eqb b valid) eqn:E; [|discriminate]. apply Bool.eqb_prop in E. subst. constructor.
  - cbn [mtch is_meta_ident] in Hm. destruct u; try discriminate.
    destruct (N.eqb_spec ta t); cbn in Hm; [|discriminate].
    destruct (N.eqb_spec a a0); [|discriminate]. subst. constructor.
  - destruct u; try (cbn in Hm; discriminate). rewrite mtch_struct in Hm.
    destruct (N.eqb_spec ta t); [|discriminate]. subst. apply I_struct. eapply mall_sound; eauto.
  - destruct (is_meta_ident (Ptr ta p)) eqn:Em.
    + unfold mtch in Hm; fold mtch in Hm. rewrite Em in Hm.
      destruct (lookup d n) eqn:El.
      * destruct (eqvb v u) eqn:Ev; [|discriminate]. inversion Hm; subst. eapply I_meta; eauto.
      * inversion Hm; subst. eapply I_meta; eauto.
        -- unfold senv. apply lookup_cons_eq.
        -- apply eqvb_refl.
    + unfold mtch in Hm; fold mtch in Hm. rewrite Em in Hm. destruct u; try discriminate.
      destruct (N.eqb_spec ta t); [|discriminate]. subst. apply I_ptr; auto. eapply IHp; eauto.
  - destruct u; try (cbn in Hm; discriminate). rewrite mtch_slice in Hm.
    destruct (N.eqb_spec ta t); [|discriminate]. subst. apply I_slice. eapply mall_sound; eauto.
Qed.

End M.
Print Assumptions mtch_extends.
Print Assumptions mtch_sound.
