(* Design-phase feasibility probe (not part of the framework): the matcher as ONE
   Fixpoint on the pattern, with nested local fixes for struct fields, for lists and
   for the backtracking skip loop, is accepted by the guard checker and runs. *)
From Coq Require Import List NArith Bool.
Import ListNotations.

Definition ty := N.
Inductive val :=
| Nil (t : ty)
| Pos (valid : bool)
| Atom (t : ty) (a : N)
| Struct (t : ty) (fs : list val)
| Ptr (t : ty) (v : val)
| Iface (t : ty) (v : val)
| Slice (t : ty) (vs : list val).

Definition data := list (N * list val)%type.
Definition tyDots : ty := 99%N.
Definition is_dots (p : val) : option N :=
  match p with
  | Ptr t (Struct _ [Pos _; Atom _ id]) => if N.eqb t tyDots then Some id else None
  | _ => None
  end.

Fixpoint mtch (p : val) (t : val) (d : data) {struct p} : option data :=
  match p, t with
  | Nil tp, Nil tq => if N.eqb tp tq then Some d else None
  | Pos a, Pos b => if Bool.eqb a b then Some d else None
  | Atom tp a, Atom tq b => if N.eqb tp tq && N.eqb a b then Some d else None
  | Ptr tp p', Ptr tq t' => mtch p' t' d
  | Iface tp p', Iface tq t' => mtch p' t' d
  | Struct tp ps, Struct tq ts =>
     if N.eqb tp tq then
      (fix go (ps : list val) (ts : list val) (d : data) {struct ps} : option data :=
        match ps, ts with
        | [], [] => Some d
        | p :: ps', t :: ts' => match mtch p t d with Some d' => go ps' ts' d' | None => None end
        | _, _ => None
        end) ps ts d
     else None
  | Slice tp ps, Slice tq ts =>
      (fix ml (ps : list val) : list val -> data -> option data :=
        match ps with
        | [] => fun ts d => match ts with [] => Some d | _ => None end
        | p :: ps' =>
          match is_dots p with
          | Some id =>
            (fix skip (acc : list val) (ts : list val) (d : data) {struct ts} : option data :=
               match ml ps' ts ((id, rev acc) :: d) with
               | Some r => Some r
               | None => match ts with [] => None | t :: ts' => skip (t :: acc) ts' d end
               end) []
          | None => fun ts d =>
             match ts with
             | t :: ts' => match mtch p t d with Some d' => ml ps' ts' d' | None => None end
             | [] => None
             end
          end
        end) ps ts d
  | _, _ => None
  end.

Definition dots (id : N) := Ptr tyDots (Struct 98%N [Pos true; Atom 0%N id]).
Definition a := Atom 5%N 1%N.
Definition b := Atom 5%N 2%N.
(* f(..., a) against f(a, b, a): the run is [a; b] (needs backtracking past the first a) *)
Example probe1 : mtch (Slice 7%N [dots 1%N; a]) (Slice 7%N [a; b; a]) [] = Some [(1%N, [a; b])].
Proof. vm_compute. reflexivity. Qed.
Example probe2 : mtch (Slice 7%N [dots 1%N; a; dots 2%N]) (Slice 7%N [b; a; b; a]) []
               = Some [(2%N, [b; a]); (1%N, [b])].
Proof. vm_compute. reflexivity. Qed.
