package x

func do() {
	x, y, z := foo(1, 2, 3)
}

