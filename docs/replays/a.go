package x

func h() {
	f(a)
	f(b, a)
	f(a, a)
	f(a, b, a)
	f(a, b)
}
