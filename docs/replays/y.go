package x

import (
	"fmt"

	"gopkg.in/yaml.v3"
)

func h() { fmt.Println(yaml.Marshal(1)); yaml.Unmarshal(nil, nil) }
