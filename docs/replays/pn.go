package x

var y = foo(f())
var z = foo(a)
