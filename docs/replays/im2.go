package x

import (
	b "fmt"
	a "fmt"
)

func h() { a.Println(); b.Println() }
