package x

func h() {
	foo(7, 8)
	foo(9)
}
