package x

func h() {
	f(a, a)
	f(a, b, b)
	f(a, b, a)
	f(c, a, b, b)
}
