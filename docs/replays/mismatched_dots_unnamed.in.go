package a

func name(foo string, bar int) (error, string) {
	return nil, "very valid go"
}

