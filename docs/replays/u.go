package x

var y foo
