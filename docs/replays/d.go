package x

func h() {
	{
		foo()
		baz()
	}
	foo()
	baz()
	if x {
		foo()
		baz()
	}
}
