package x

import (
	a "fmt"
	b "fmt"
)

func h() { a.Println(); b.Println() }
