package x

func k() {
	f(g(a, b), b)
	f(g(a, b), a)
}
