package main

import (
	"fmt"

	"conversion/to.git"
)

func foo(s string) *bool {
	fmt.Println("Hello World")
	if to.StrPtr(s) == nil {
		return to.BoolPtr(false)
	}

	if to.DecimalPtr(s) == nil {
		return to.BoolPtr(false)
	}

	return to.BoolPtr(true)
}
