package diff_example

import (
	"errors"
	"fmt"
)

func foo() error {
	err := errors.New("test")
	return errors.New(fmt.Sprintf("error: %v", err))
}

func main() {
	fmt.Println(foo())
}
