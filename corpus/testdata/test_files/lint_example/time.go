package lint_example

import (
	"fmt"
	"time"
)

func main() {
	startOfYear := time.Date(2021, 0o1, 0o1, 0, 0, 0, 0, time.UTC)
	result := time.Now().Sub(startOfYear)
	fmt.Println(result)
}
