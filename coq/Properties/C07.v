(* C07 — whatever gopatch emits on success is syntactically valid Go. *)
From GP Require Import Bytes Generated Cli CliFacts DriverProofs.

(* Until repo fix 72f3dbc the statements below carried an oracle assumption - "imports.Process only
   returns text that parses" - which is false of the real library: what it returns has been through
   go/printer once more, and a range header with three stacked comments comes back unparseable (found
   by a sub-agent on the unchanged tree).  gopatch now parses what it emits in every mode ([checked]
   in Model/Cli.v), and the statements hold for EVERY behaviour of imports.Process. *)
(* ... and rejects input that does not parse. *)
Definition process_rejects (parses : bytes -> option bytes) (process : bytes -> bytes + bytes) :=
  forall b m, parses b = Some m -> exists m', process b = inr m'.

(* Every content written, printed as new content, or used as the new side of a diff,
   parses — in every mode and with every flag combination (forall o). *)
Theorem C07_emitted_parses :
  forall parses header_of engine process o ts e bs,
  In e (r_events (run parses header_of engine process o ts)) -> emitted e = Some bs ->
  parses bs = None.
Proof. exact emitted_parses. Qed.
Print Assumptions C07_emitted_parses.

(* If the rewrite produced text that does not parse, the file contributes an error,
   nothing at all is emitted or written for it, and the exit status is non-zero. *)
Theorem C07_unparseable_is_error :
  forall parses header_of engine process o ts i t c cs fmt m,
  process_rejects parses process ->
  nth_error ts i = Some t -> t_read t = inl c -> parses c = None ->
  o_skip_generated o && check_generated_code (header_of c) = false ->
  engine c = Matched cs (inl fmt) -> parses fmt = Some m ->
  events_of i (run parses header_of engine process o ts) = [] /\
  (exists m', In (ErrReformat (t_abs t) m') (all_errors (run parses header_of engine process o ts))) /\
  exit_status (run parses header_of engine process o ts) <> 0%N.
Proof. exact unparseable_is_error. Qed.
Print Assumptions C07_unparseable_is_error.

(* The library API: a successful result parses (it is the input itself, or validated). *)
Theorem C07_api_parses :
  forall parses engine process src bs,
  api_apply parses engine process src = inl bs -> parses bs = None.
Proof. exact api_parses. Qed.
Print Assumptions C07_api_parses.

(* Non-vacuity: with --skip-import-processing an unparseable result is an error. *)
Example C07_ex :
  let bad : bytes := [66%N] in
  let parses := fun b : bytes => if beq b bad then Some [1%N] else None in
  let header_of := fun _ : bytes => {| h_groups := []; h_doc := [] |} in
  let engine := fun _ : bytes => Matched [] (inl bad) in
  let process := fun b : bytes => if beq b bad then @inr bytes bytes [1%N] else inl b in
  let o := {| o_diff := false; o_print := true; o_skip_imports := true;
              o_skip_generated := false; o_verbose := false |} in
  let t1 := {| t_abs := [1%N]; t_provided := [1%N]; t_read := inl [10%N]; t_write_err := None |} in
  r_events (run parses header_of engine process o [t1]) = [] /\
  exit_status (run parses header_of engine process o [t1]) = 1%N.
Proof. vm_compute. split; reflexivity. Qed.

(* Non-vacuity of the new check: imports.Process hands back text that does not parse; nothing is
   emitted, the file is reported, the exit status is 1 *)
Example C07_process_returns_garbage_ex :
  let bad : bytes := [66%N] in
  let parses := fun b : bytes => if beq b bad then Some [1%N] else None in
  let header_of := fun _ : bytes => {| h_groups := []; h_doc := [] |} in
  let engine := fun _ : bytes => Matched [] (inl [65%N]) in
  let process := fun _ : bytes => @inl bytes bytes bad in
  let o := {| o_diff := false; o_print := false; o_skip_imports := false;
              o_skip_generated := false; o_verbose := false |} in
  let t1 := {| t_abs := [1%N]; t_provided := [1%N]; t_read := inl [10%N]; t_write_err := None |} in
  r_events (run parses header_of engine process o [t1]) = [] /\
  exit_status (run parses header_of engine process o [t1]) = 1%N /\
  api_apply parses engine process [10%N] = inr [1%N].
Proof. vm_compute. repeat split; reflexivity. Qed.
