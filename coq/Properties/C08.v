(* C08 — no input makes gopatch crash or hang.   PARTIAL: see the end of this file. *)
From GP Require Import Augment AugmentFacts AugmentShape Meta MetaFacts AstDiff DiffFacts WalkTotal WalkSame.
Local Open Scope nat_scope.

(* The hand-written token scanner of pgo/augment (find.go: pkg, imports, topLevelDecl,
   funcDecl, function, fieldList, process and the main loop) stops on every token list:
   the transcription with explicit recursion fuel never runs out of 3 * tokens + 6. *)
Theorem C08_scanner_terminates : forall eoff eline toks,
  exists augs, Augment.find eoff eline toks = Some augs.
Proof. exact find_terminates. Qed.
Print Assumptions C08_scanner_terminates.

(* every loop of it, from any state it can be entered in, and it never moves backwards *)
Theorem C08_every_loop_terminates : forall eoff eline fuel m s acc,
  3 * length s + mcost m <= fuel -> mpre m s ->
  exists s' a', arun eoff eline fuel m s acc = Some (s', a') /\ length s' <= length s.
Proof.
  intros eoff eline fuel m s acc H P.
  destruct (run_total eoff eline fuel m s acc H P) as [s' [a' [R [L _]]]]. eauto.
Qed.
Print Assumptions C08_every_loop_terminates.

(* the model's verdict on a source is never "diverges" *)
Theorem C08_augment_never_diverges : forall src toks eline errs,
  augment src toks eline errs <> AugDiverges.
Proof.
  intros src toks eline errs. unfold augment.
  destruct (find_terminates (List.length src) eline toks) as [augs E]. rewrite E.
  destruct errs; [discriminate|]. destruct (rewrite src augs) as [[[o a] j]|]; discriminate.
Qed.
Print Assumptions C08_augment_never_diverges.

(* rewrite.go slices the source at the augmentations' offsets.  The augmentations the scanner
   records have the shape that needs: each within the source, pairwise disjoint, the fake package
   clause and the fake function header before every elision, and of two that start at the same
   offset the one found first empty.  On such lists no slice is out of range PROVIDED the sort
   keeps equal offsets in order: the model sorts stably (as /repo does since 89c9120; with
   sort.Slice the three entries at offset 0 could be swapped once there were more than 12 and
   loading the patch panicked - found while trying to prove this).
   Hypothesis [wf]: the token stream is ordered by offset, a "..." token is three bytes wide,
   nothing lies beyond the end of the source - a contract of go/scanner, evaluated (wfb) on every
   token stream of checks/c08.py. *)
Theorem C08_find_output_shape : forall eoff eline toks augs,
  wf eoff toks -> Augment.find eoff eline toks = Some augs -> augs_okb eoff augs = true.
Proof. exact find_output_shape. Qed.
Print Assumptions C08_find_output_shape.

Theorem C08_rewrite_in_range : forall src augs,
  augs_okb (List.length src) augs = true -> exists r, rewrite src augs = Some r.
Proof. exact rewrite_no_panic. Qed.
Print Assumptions C08_rewrite_in_range.

(* augment.Augment, the scanner and the rewrite together: neither loops nor slices out of range *)
Theorem C08_augment_total : forall src toks eline errs,
  wf (List.length src) toks ->
  augment src toks eline errs <> AugDiverges /\ augment src toks eline errs <> AugPanics.
Proof. exact augment_total. Qed.
Print Assumptions C08_augment_total.

(* the metavariable parser: with any fuel above the number of tokens the result is the same,
   i.e. running out of fuel (which would end the parse silently) never happens *)
Theorem C08_meta_parser_fuel : forall eof f1 f2 ts,
  (List.length ts < f1)%nat -> (List.length ts < f2)%nat -> parse_meta f1 ts eof = parse_meta f2 ts eof.
Proof. exact parse_meta_fuel. Qed.
Print Assumptions C08_meta_parser_fuel.

(* non-vacuity: the inputs of the former hang (fixed in /repo, 9f4c829): "func foo(" and "func (" *)
Example C08_ex_unfinished_header :
  let toks := [ {| a_kind := AK_FUNC; a_off := 0; a_line := 1 |}; {| a_kind := AK_IDENT; a_off := 5; a_line := 1 |};
                {| a_kind := AK_LPAREN; a_off := 8; a_line := 1 |} ] in
  Augment.find 9 1 toks = Some [FakePackage 0] /\
  Augment.find 6 1 [ {| a_kind := AK_FUNC; a_off := 0; a_line := 1 |}; {| a_kind := AK_LPAREN; a_off := 5; a_line := 1 |} ] = Some [FakePackage 0].
Proof. vm_compute. split; reflexivity. Qed.

Example C08_ex_leading_dots :      (* "..." alone: three augmentations at offset 0, in this order *)
  Augment.find 3 1 [ {| a_kind := AK_ELLIPSIS; a_off := 0; a_line := 1 |} ] = Some [FakePackage 0; FakeFunc 0 true; ADots 0 3 false] /\
  augs_okb 3 [FakePackage 0; FakeFunc 0 true; ADots 0 3 false] = true /\
  augs_okb 3 [ADots 0 3 false; FakeFunc 0 true] = false.
Proof. vm_compute. repeat split; reflexivity. Qed.

(* ---- the comment stage: internal/diff.Difference and internal/astdiff (Model/AstDiff.v) ----
   Difference - a greedy forward/reverse search over the edit graph with a budget - returns for
   every pair of lengths and EVERY comparison function: none of its five loops runs for ever
   (the transcription recurses on explicit fuel; the fuel it is given always suffices) ... *)
Theorem C08_difference_terminates : forall f nx ny, (0 <= nx)%Z -> (0 <= ny)%Z ->
  exists es, difference f nx ny = Some es.
Proof. exact difference_total. Qed.
Print Assumptions C08_difference_terminates.

(* ... and what it returns is a path from (0, 0) to (nx, ny): it consumes both lists exactly,
   so walkSlice and compareNodes, which index the lists by it, never index out of range *)
Theorem C08_difference_consumes_both_lists : forall f nx ny es, (0 <= nx)%Z -> (0 <= ny)%Z ->
  difference f nx ny = Some es -> Z.of_nat (cx es) = nx /\ Z.of_nat (cy es) = ny.
Proof. exact difference_lengths. Qed.
Print Assumptions C08_difference_consumes_both_lists.

(* Snapshot.Diff returns for every pair of snapshots: no loop without end, no index out of range *)
Theorem C08_snapshot_diff_total : forall from to, exists w, diff_snapshot from to = Some w.
Proof. exact diff_snapshot_total. Qed.
Print Assumptions C08_snapshot_diff_total.

(* What is NOT proved here (checked by running the code only, checks/c08.py parts B and C):
   go/scanner, go/parser, go/printer and imports.Process never crash; the reflection-based
   replacer never panics (the engine model returns an error value exactly where the code
   must: Properties/C03.v + correspondence); memory use. *)

(* astdiff's nodeComparer (compareNodes), which Difference calls back into: total on every pair of
   snapshots with fuel above the depth of the first - the recursion through nested lists and the
   edit scripts computed on the way never runs out *)
Theorem C08_compare_nodes_total : forall k from to, (vdepth from < k)%nat -> exists r, compare k from to = Some r.
Proof. exact compare_total. Qed.
Print Assumptions C08_compare_nodes_total.
