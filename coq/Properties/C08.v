(* C08 — no input makes gopatch crash or hang.   PARTIAL: see the end of this file. *)
From GP Require Import Augment AugmentFacts.
Local Open Scope nat_scope.

(* The hand-written token scanner of pgo/augment (find.go: pkg, imports, topLevelDecl,
   funcDecl, function, fieldList, process and the main loop) stops on every token list:
   the transcription with explicit recursion fuel never runs out of 3 * tokens + 6. *)
Theorem C08_scanner_terminates : forall eoff eline toks,
  exists augs, find eoff eline toks = Some augs.
Proof. exact find_terminates. Qed.
Print Assumptions C08_scanner_terminates.

(* every loop of it, from any state it can be entered in, and it never moves backwards *)
Theorem C08_every_loop_terminates : forall eoff eline fuel m s acc,
  3 * length s + mcost m <= fuel -> mpre m s ->
  exists s' a', arun eoff eline fuel m s acc = Some (s', a') /\ length s' <= length s.
Proof.
  intros eoff eline fuel m s acc H P.
  destruct (run_total eoff eline fuel m s acc H P) as [s' [a' [R [L _]]]]. eauto.
Qed.
Print Assumptions C08_every_loop_terminates.

(* the model's verdict on a source is never "diverges" *)
Theorem C08_augment_never_diverges : forall src toks eline errs,
  augment src toks eline errs <> AugDiverges.
Proof.
  intros src toks eline errs. unfold augment.
  destruct (find_terminates (length src) eline toks) as [augs E]. rewrite E.
  destruct errs; [discriminate|]. destruct (rewrite src augs) as [[[o a] j]|]; discriminate.
Qed.
Print Assumptions C08_augment_never_diverges.

(* non-vacuity: the inputs of the former hang (fixed in /repo, 9f4c829): "func foo(" and "func (" *)
Example C08_ex_unfinished_header :
  let toks := [ {| a_kind := AK_FUNC; a_off := 0; a_line := 1 |}; {| a_kind := AK_IDENT; a_off := 5; a_line := 1 |};
                {| a_kind := AK_LPAREN; a_off := 8; a_line := 1 |} ] in
  find 9 1 toks = Some [FakePackage 0] /\
  find 6 1 [ {| a_kind := AK_FUNC; a_off := 0; a_line := 1 |}; {| a_kind := AK_LPAREN; a_off := 5; a_line := 1 |} ] = Some [FakePackage 0].
Proof. vm_compute. split; reflexivity. Qed.

(* What is NOT proved here (checked by running the code only, checks/c08.py parts B and C):
   go/scanner, go/parser, go/printer and imports.Process never crash; the reflection-based
   replacer never panics (the engine model returns an error value exactly where the code
   must: Properties/C03.v + correspondence); memory use. *)
