(* C16 — failures never leave half-written files and are always reported. *)
From GP Require Import Bytes Generated Cli CliFacts DriverProofs FsProto FsProtoFacts.

(* After ANY prefix of the file-system operations of ANY run of the write protocol
   (one instance per written file; an instance may fail after any of its steps and
   then removes its temporary file; the kernel may split writes into any chunks),
   every path other than the temporary names holds either its original content or
   the complete new content of a successful write to it — never a truncated or mixed
   state. *)
Theorem C16_prefix_safe : forall ws f k q,
  fresh_tmps f ws -> (forall w, In w ws -> q <> w_tmp w) ->
  let cur := apply_ops f (firstn k (run_ops ws)) in
  lookup cur q = lookup f q \/ exists c, written ws q c /\ lookup cur q = Some c.
Proof. exact run_prefix_safe. Qed.
Print Assumptions C16_prefix_safe.

(* The executable checker applied to observed system-call traces is sound. *)
Theorem C16_checker_sound : forall orig news watched ops cur,
  trace_safe orig news cur watched ops = true ->
  forall k, state_ok orig news (apply_ops cur (firstn k ops)) watched = true.
Proof. exact trace_safe_sound. Qed.
Print Assumptions C16_checker_sound.

(* The protocol used before the fix (truncate, then write in place) is not safe. *)
Theorem C16_truncate_refuted :
  exists f target chunks k c,
    lookup f target = Some c /\
    let cur := apply_ops f (firstn k (truncating_write target chunks)) in
    lookup cur target <> Some c /\ lookup cur target <> Some (concat chunks).
Proof. exact truncating_write_unsafe. Qed.
Print Assumptions C16_truncate_refuted.

(* Exit status 0 <=> every discovered file was readable, parsed, and was either skipped
   legitimately (generated, nothing matches) or patched all the way through its sink. *)
Theorem C16_exit0_complete :
  forall parses header_of engine process o ts,
  exit_status (run parses header_of engine process o ts) = 0%N <->
  (forall t, In t ts -> file_ok parses header_of engine process o t).
Proof. exact exit0_complete. Qed.
Print Assumptions C16_exit0_complete.

(* Every reported error names the path of a file of the run and carries the cause the
   failing call returned (read, parse, rewrite, format, reformat, write). *)
Theorem C16_errors_explained :
  forall parses header_of engine process o ts e,
  In e (all_errors (run parses header_of engine process o ts)) ->
  exists t, In t ts /\ explains parses engine process o t e.
Proof. exact errors_explained. Qed.
Print Assumptions C16_errors_explained.

(* What is done for a file does not depend on the other files of the run: an unparseable
   (or otherwise failing) neighbour changes nothing. *)
Theorem C16_failure_isolated :
  forall parses header_of engine process o ts ts' i,
  nth_error ts i = nth_error ts' i ->
  events_of i (run parses header_of engine process o ts)
  = events_of i (run parses header_of engine process o ts').
Proof. exact isolated. Qed.
Print Assumptions C16_failure_isolated.

(* Non-vacuity: a two-file run, second write fails after the first chunk. *)
Example C16_ex :
  let f : fs := [([1%N], [10%N]); ([2%N], [20%N])] in
  let ws := [ {| w_tmp := [1%N; 9%N]; w_target := [1%N]; w_chunks := [[11%N]; [12%N]]; w_fail := None |};
              {| w_tmp := [2%N; 9%N]; w_target := [2%N]; w_chunks := [[21%N]; [22%N]]; w_fail := Some 2%nat |} ] in
  check_run f [[1%N]; [2%N]] ws (run_ops ws) = (true, true) /\
  lookup (apply_ops f (run_ops ws)) [1%N] = Some [11%N; 12%N] /\
  lookup (apply_ops f (run_ops ws)) [2%N] = Some [20%N] /\
  lookup (apply_ops f (run_ops ws)) [2%N; 9%N] = None.
Proof. vm_compute. repeat split; reflexivity. Qed.
