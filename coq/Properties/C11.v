(* C11 — imports change only as the patch dictates; unrelated imports survive. *)
From GP Require Import Tree Meta Match Replace FileEngine MatchFacts ImportFacts.

(* Every import whose path the '-' side does not mention is still present, with the same
   name and path, after the change applies. *)
Theorem C11_unmentioned_kept : forall c g g' j,
  apply_change c g = OOk g' -> In j (g_imports g) ->
  (forall p, In p (ch_minus_imports c) -> p_path p <> i_path j) ->
  In j (g_imports g').
Proof. exact imports_unmentioned_kept. Qed.
Print Assumptions C11_unmentioned_kept.

(* No import is added whose path is not on the '+' side. *)
Theorem C11_nothing_unmentioned_added : forall c g g' j,
  apply_change c g = OOk g' -> In j (g_imports g') ->
  In j (g_imports g) \/ exists p, In p (ch_plus_imports c) /\ i_path j = p_path p.
Proof. exact imports_nothing_unmentioned_added. Qed.
Print Assumptions C11_nothing_unmentioned_added.

(* A matched import is deleted only by the rule: its package name was taken over by a '+'
   import, or no selector on that name (without an object) remains in the rewritten file - and
   never when it is a blank or dot import that the '+' side of the patch lists as well. *)
Theorem C11_matched_deleted_iff : forall bl dt plus id names tree imps pb pk im,
  (match assoc_ikey (fst pb, fst (snd pb)) (id_bound id) with
   | Some (n, true) => (n, None) | Some (n, false) => (n, Some n) | None => (snd (snd pb), None) end) = (pk, im) ->
  cleanup_import bl dt plus id names tree imps pb =
    if match im with Some n => (N.eqb n bl || N.eqb n dt) && existsb (fun q => ikey_eqb (p_path q, p_name q) (fst pb, fst (snd pb))) plus | None => false end
    then imps
    else if existsb (N.eqb pk) names || negb (uses_name (S (size tree)) pk tree)
    then del_import imps im (fst pb) else imps.
Proof. intros bl dt plus id names tree imps pb pk im H. unfold cleanup_import. rewrite H. reflexivity. Qed.
Print Assumptions C11_matched_deleted_iff.

(* a blank or dot import on a line that is on both sides of the patch is kept *)
Theorem C11_context_blank_or_dot_import_kept : forall bl dt plus id names tree imps path pname base n,
  assoc_ikey (path, pname) (id_bound id) = Some (n, false) -> (n = bl \/ n = dt) ->
  In (path, pname) (map (fun q => (p_path q, p_name q)) plus) ->
  cleanup_import bl dt plus id names tree imps (path, (pname, base)) = imps.
Proof.
  intros bl dt plus id names tree imps path pname base n Ha Hn Hin. unfold cleanup_import. cbn [fst snd]. rewrite Ha.
  assert ((N.eqb n bl || N.eqb n dt)%bool = true) as E1 by (destruct Hn as [E|E]; rewrite E, N.eqb_refl; [reflexivity|apply Bool.orb_true_r]).
  rewrite E1.
  assert (existsb (fun q => ikey_eqb (p_path q, p_name q) (path, pname)) plus = true) as E2; [|rewrite E2; reflexivity].
  apply existsb_exists. apply in_map_iff in Hin as [q [Eq Hq]]. exists q. split; [exact Hq|].
  inversion Eq; subst. unfold ikey_eqb. cbn [fst snd]. rewrite N.eqb_refl. destruct (p_name q); [apply N.eqb_refl|reflexivity].
Qed.
Print Assumptions C11_context_blank_or_dot_import_kept.

(* ... and for an UNNAMED matched import the package name is guessed as the last element of
   the path.  When the real package name differs (gopkg.in/yaml.v3 -> yaml) the import is
   deleted although still used: a documented limitation, recorded as a known finding. *)
Example C11_base_guess_refuted :
  let id_of n := Ptr T_P_ast_Ident (Struct T_ast_Ident [Pos true; Atom T_string n; Nil T_P_ast_Object]) in
  (* the file still says yaml.Unmarshal (atom 3 = "yaml"), the import path's base is "yaml.v3" (atom 4) *)
  let sel := Ptr T_P_ast_SelectorExpr (Struct T_ast_SelectorExpr [Iface T_ast_Expr (id_of 3); id_of 8]) in
  let imps := [{| i_name := None; i_path := 5; i_base := 4 |}] in
  cleanup_import 98 99 [] {| id_bound := []; id_matched := [(5, (None, 4))] |} [] sel imps (5, (None, 4)) = [] /\
  uses_name 10 3 sel = true.
Proof. vm_compute. split; reflexivity. Qed.

(* F34: a patch that lists the same path twice, under two names ('-import a "x"' / '-import b "x"'):
   each clause has its own record (importKey = path and name in the patch), so both imports are
   deleted once nothing refers to their names; the third import is kept *)
Example C11_same_path_under_two_names :
  let tree := Ptr T_P_ast_Ident (Struct T_ast_Ident [Pos true; Atom T_string 9; Nil T_P_ast_Object]) in
  let id := {| id_bound := [((5, Some 2), (2, false)); ((5, Some 1), (1, false))];
               id_matched := [(5, (Some 1, 4)); (5, (Some 2, 4))] |} in
  let imps := [{| i_name := Some 1; i_path := 5; i_base := 4 |}; {| i_name := Some 2; i_path := 5; i_base := 4 |};
               {| i_name := None; i_path := 6; i_base := 6 |}] in
  fold_left (cleanup_import 98 99 [] id [] tree) (id_matched id) imps = [{| i_name := None; i_path := 6; i_base := 6 |}].
Proof. vm_compute. reflexivity. Qed.
