(* C06 — no match means no effect.  Statements only; proofs in Proofs/DriverProofs.v. *)
From GP Require Import Bytes Generated Cli CliFacts DriverProofs.

(* A file in which no change matches yields, at any position of any run and in every
   mode: the "skipped" log line (under -v), and with --print-only an echo of its
   ORIGINAL bytes — nothing else: no write operation (so not even a rewrite with equal
   bytes), no diff, no description, no error. *)
Theorem C06_no_match_exact :
  forall parses header_of engine process o ts i t c,
  nth_error ts i = Some t -> t_read t = inl c -> parses c = None -> engine c = NoMatch ->
  o_skip_generated o && check_generated_code (header_of c) = false ->
  events_of i (run parses header_of engine process o ts)
  = (if o_print o then [EvOut i true c] else []) ++ [EvLog i (t_abs t) LSkipped]
  /\ all_errors (solo parses header_of engine process o i t) = [].
Proof. exact no_match_exact. Qed.
Print Assumptions C06_no_match_exact.

(* the same without assuming anything about --skip-generated *)
Theorem C06_no_match_no_effect :
  forall parses header_of engine process o ts i t c,
  nth_error ts i = Some t -> t_read t = inl c -> parses c = None -> engine c = NoMatch ->
  (forall e, In e (events_of i (run parses header_of engine process o ts)) ->
     e = EvLog i (t_abs t) LSkipped \/ e = EvLog i (t_abs t) LGenSkipped \/
     (o_print o = true /\ e = EvOut i true c))
  /\ all_errors (solo parses header_of engine process o i t) = [].
Proof. exact no_match_no_effect. Qed.
Print Assumptions C06_no_match_no_effect.

(* If nothing matches anywhere the run succeeds, writes nothing and emits no new content. *)
Theorem C06_all_nomatch_exit0 :
  forall parses header_of engine process o ts,
  (forall t, In t ts -> exists c, t_read t = inl c /\ parses c = None /\ engine c = NoMatch) ->
  exit_status (run parses header_of engine process o ts) = 0%N /\
  (forall e, In e (r_events (run parses header_of engine process o ts)) ->
     is_write e = false /\ emitted e = None).
Proof. exact all_nomatch. Qed.
Print Assumptions C06_all_nomatch_exit0.

(* The library returns the very bytes it was given. *)
Theorem C06_api_identity :
  forall parses engine process src,
  parses src = None -> engine src = NoMatch -> api_apply parses engine process src = inl src.
Proof. exact api_identity. Qed.
Print Assumptions C06_api_identity.

(* Non-vacuity: a concrete two-file run in print mode. *)
Example C06_ex :
  let parses := fun _ : bytes => @None bytes in
  let header_of := fun _ : bytes => {| h_groups := []; h_doc := [] |} in
  let engine := fun _ : bytes => NoMatch in
  let process := fun b : bytes => @inl bytes bytes b in
  let o := {| o_diff := false; o_print := true; o_skip_imports := false;
              o_skip_generated := false; o_verbose := true |} in
  let t1 := {| t_abs := [1%N]; t_provided := [1%N]; t_read := inl [10%N; 11%N]; t_write_err := None |} in
  let t2 := {| t_abs := [2%N]; t_provided := [2%N]; t_read := inl [12%N]; t_write_err := None |} in
  r_events (run parses header_of engine process o [t1; t2])
  = [EvOut 0 true [10%N; 11%N]; EvLog 0 [1%N] LSkipped; EvOut 1 true [12%N]; EvLog 1 [2%N] LSkipped].
Proof. vm_compute. reflexivity. Qed.
