(* C02 — metavariables bind by kind and bind consistently. *)
From GP Require Import Tree Meta Match Replace FileEngine MatchFacts FileFacts.

(* A metavariable occurrence matches only code of its kind, and only code that is
   structurally equal (eqvb: positions by validity, no comments, no object links) to what
   that metavariable already stands for; a first occurrence records exactly the code it
   met.  Bindings are never replaced afterwards (ext). *)
Theorem C02_metavariable_occurrence : forall mk p name k t d d',
  mv_ident mk p = Some (name, k) ->
  mtch mk p t d = Some d' ->
  kind_ok k t = true /\
  match assoc name (d_mv d) with
  | Some c => eqvb c t = true /\ d' = d
  | None => d' = push_mv name t d
  end.
Proof.
  intros mk p name k t d d' M H. rewrite (mtch_mv mk p name k t d M) in H.
  destruct (kind_ok k t); [|discriminate]. split; [reflexivity|].
  destruct (assoc name (d_mv d)) as [c|].
  - destruct (eqvb c t); [|discriminate]. inversion H. auto.
  - inversion H. reflexivity.
Qed.
Print Assumptions C02_metavariable_occurrence.

(* kinds: an identifier metavariable stands for a *ast.Ident, an expression metavariable
   for a value whose type implements ast.Expr (table generated from go/ast) *)
Theorem C02_kind_ident : forall t, kind_ok KIdent t = true -> exists v, t = Ptr T_P_ast_Ident v.
Proof.
  intros t H. destruct t as [| | | |tp v| |]; try discriminate H. apply N.eqb_eq in H. subst tp. exists v. reflexivity.
Qed.
Print Assumptions C02_kind_ident.

Theorem C02_kind_expr : forall t, kind_ok KExpr t = true ->
  implements (dyn_type t) T_ast_Expr = true /\ dyn_type t <> T_P_ast_KeyValueExpr /\ dyn_type t <> T_P_ast_Ellipsis /\
  nil_pointer t = false.
Proof.
  intros t H. cbn [kind_ok] in H. apply andb_true_iff in H as [H E3]. apply andb_true_iff in H as [H E2]. apply andb_true_iff in H as [H E1].
  split; [exact H|]. split; [apply N.eqb_neq, negb_true_iff; exact E1|].
  split; [apply N.eqb_neq, negb_true_iff; exact E2|apply negb_true_iff; exact E3].
Qed.
Print Assumptions C02_kind_expr.

(* one assignment serves all occurrences: the instance relation of C01_only_instances is
   stated for a single s, and matching only ever extends it *)
Theorem C02_consistent : forall mk p t d d',
  mtch mk p t d = Some d' -> ext d d' /\ Inst mk (d_mv d') p t.
Proof. exact mtch_sound. Qed.
Print Assumptions C02_consistent.

(* a name that is not declared is ordinary code: it matches only an identifier with the
   same name *)
Theorem C02_undeclared_is_literal : forall mk sp ppos ta name pobj t d d',
  mk name = None ->
  mtch mk (Ptr T_P_ast_Ident (Struct sp [ppos; Atom ta name; pobj])) t d = Some d' ->
  exists tq tpos tobj, t = Ptr tq (Struct sp [tpos; Atom ta name; tobj]).
Proof.
  intros mk sp ppos ta name pobj t d d' M H.
  assert (mv_ident mk (Ptr T_P_ast_Ident (Struct sp [ppos; Atom ta name; pobj])) = None) as MV.
  { unfold mv_ident. rewrite N.eqb_refl, M. reflexivity. }
  rewrite (mtch_ptr mk _ _ t d MV eq_refl eq_refl) in H.
  destruct t as [| | | |tq x| |]; try discriminate.
  destruct x as [| | |st ts| | |]; try (cbn [mtch] in H; discriminate).
  rewrite mtch_struct in H. destruct (N.eqb sp st) eqn:E; [|discriminate]. apply N.eqb_eq in E. subst st.
  assert (exists t0 t1 t2, ts = [t0; t1; t2]) as [t0 [t1 [t2 ->]]].
  { destruct ts as [|t0 [|t1 [|t2 [|t3 r]]]]; cbn [mfields] in H; try discriminate; eauto;
      repeat match type of H with
             | match ?x with _ => _ end = _ => destruct x; try discriminate
             end. }
  cbn [mfields] in H.
  destruct (mtch mk ppos t0 d) as [d1|]; [|discriminate]. cbn [mtch] in H.
  destruct t1; try discriminate.
  destruct (N.eqb ta t && N.eqb name a) eqn:E; [|discriminate].
  apply andb_true_iff in E as [E1 E2]. apply N.eqb_eq in E1, E2. subst.
  exists tq, t0, t2. reflexivity.
Qed.
Print Assumptions C02_undeclared_is_literal.

(* no leakage: every attempt of the traversal starts from the same data (the bindings of
   the import clauses); a failed attempt returns nothing.  The rewrite of a slot is a
   function of the subtree at that slot alone. *)
Theorem C02_no_leak : forall mk ad minus plus dinit f v tp st fs,
  unwrap v = Ptr tp (Struct st fs) ->
  rw mk ad minus plus dinit (S f) v =
    match mtch_node mk minus (unwrap v) dinit with
    | Some d =>
        match inst_node mk ad (rw mk ad minus plus dinit f)
                        (fun st0 fs0 => rwf mk ad minus plus dinit f fs0 (fields_of st0)) plus d with
        | Ok give => match wrap_give v give tp with
                     | Some r => r
                     | None => rebuilt mk ad minus plus dinit f v tp st fs
                     end
        | Err _ => rebuilt mk ad minus plus dinit f v tp st fs
        end
    | None => rebuilt mk ad minus plus dinit f v tp st fs
    end.
Proof. intros. apply rw_node. assumption. Qed.
Print Assumptions C02_no_leak.

Example C02_ex :
  let mk := fun n : N => if N.eqb n 7 then Some KExpr else None in
  let id n := Ptr T_P_ast_Ident (Struct T_ast_Ident [Pos true; Atom T_string n; Nil T_P_ast_Object]) in
  let call f a b := Ptr T_P_ast_CallExpr (Struct T_ast_CallExpr
        [Iface T_ast_Expr f; Pos true; Slice T_S_ast_Expr [Iface T_ast_Expr a; Iface T_ast_Expr b]; Pos false; Pos true]) in
  (* foo(x, x): equal fillers match, almost-equal ones do not *)
  (exists d, mtch mk (call (id 3) (id 7) (id 7)) (call (id 3) (id 4) (id 4)) d0 = Some d) /\
  mtch mk (call (id 3) (id 7) (id 7)) (call (id 3) (id 4) (id 5)) d0 = None.
Proof. split; [eexists|]; vm_compute; reflexivity. Qed.
