(* C03 — rewritten code is the '+' pattern instantiated with what was captured. *)
From GP Require Import Tree Meta Match Replace FileEngine MatchFacts FileFacts ReplaceFacts.

(* The replacement is the '+' pattern with every metavariable occurrence replaced by a copy
   (Ident.Obj links kept, F31) of the code that metavariable stands for at this site, every
   "..." by the run its '-' partner skipped, every "for ..." by the recorded header, and
   everything else verbatim: [subst] is that declarative substitution (Proofs/ReplaceFacts.v);
   whenever the replacer succeeds its result is exactly subst. *)
Theorem C03_instantiation : forall mk ad cap capf p want d v,
  inst mk ad cap capf p want d = Ok v -> v = subst mk ad cap capf d p.
Proof. exact inst_is_subst. Qed.
Print Assumptions C03_instantiation.

(* each occurrence of a metavariable independently yields the same copy *)
Theorem C03_metavariable_copy : forall mk ad cap capf p name k want d,
  mv_ident mk p = Some (name, k) ->
  inst mk ad cap capf p want d =
    match assoc name (d_mv d) with Some c => Ok (strip c) | None => Err (ENoMetavar name) end.
Proof. exact inst_mv. Qed.
Print Assumptions C03_metavariable_copy.

(* tokens of the '+' pattern appear verbatim *)
Theorem C03_verbatim_atom : forall mk ad cap capf t a want d,
  inst mk ad cap capf (Atom t a) want d = Ok (Atom t a).
Proof. reflexivity. Qed.
Print Assumptions C03_verbatim_atom.

(* sites are rewritten independently: the value written at a slot is a function of that
   slot's own subtree (C02_no_leak), and a slot keeps its (children-rewritten) content
   exactly when the pattern does not match there, the replacer fails, or the replacement
   does not fit the slot's type *)
Theorem C03_unchanged_iff_inadmissible : forall mk ad minus plus dinit f v tp st fs d give,
  unwrap v = Ptr tp (Struct st fs) ->
  mtch_node mk minus (unwrap v) dinit = Some d ->
  inst_node mk ad (rw mk ad minus plus dinit f)
            (fun st0 fs0 => rwf mk ad minus plus dinit f fs0 (fields_of st0)) plus d = Ok give ->
  rw mk ad minus plus dinit (S f) v =
    match wrap_give v give tp with
    | Some r => r
    | None => rebuilt mk ad minus plus dinit f v tp st fs
    end.
Proof.
  intros. rewrite (rw_node _ _ _ _ _ f v tp st fs H), H0. unfold rwf in *. rewrite H1. reflexivity.
Qed.
Print Assumptions C03_unchanged_iff_inadmissible.
