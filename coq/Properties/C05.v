(* C05 — everything outside the rewritten fragments is preserved. *)
From GP Require Import Tree Meta Match Replace FileEngine MatchFacts FileFacts FuelFacts.

(* Frame: a subtree in which the pattern matches nowhere (quiet: at no slot the traversal
   reaches) comes out identical — Leibniz equality on trees, not merely equivalence. *)
Theorem C05_frame : forall mk ad minus plus dinit f v,
  quiet mk minus dinit f v -> rw mk ad minus plus dinit f v = v.
Proof. exact rw_quiet. Qed.
Print Assumptions C05_frame.

(* A node that is not itself rewritten keeps its type, its field count and order, and
   every field the traversal does not descend into (positions, tokens, names, ...); its
   other fields hold the rewrites of what they held, element by element, in order. *)
Theorem C05_container_frame : forall mk ad minus plus dinit f v tp st fs,
  unwrap v = Ptr tp (Struct st fs) ->
  mtch_node mk minus (unwrap v) dinit = None ->
  unwrap (rw mk ad minus plus dinit (S f) v)
  = Ptr tp (Struct st (rw_fields (rw mk ad minus plus dinit f) fs (fields_of st))).
Proof.
  intros. rewrite (rw_node _ _ _ _ _ f v tp st fs H), H0. unfold rebuilt, rwf. destruct v; reflexivity.
Qed.
Print Assumptions C05_container_frame.

Lemma rw_fields_length r fs fis : length (rw_fields r fs fis) = length fs.
Proof. revert fis; induction fs as [|x fs IH]; intros [|fi fis]; simpl; auto. Qed.

Theorem C05_fields_kept : forall r fs fis i x fi,
  nth_error fs i = Some x -> nth_error fis i = Some fi -> f_visited fi = false ->
  nth_error (rw_fields r fs fis) i = Some x.
Proof.
  intros r fs. induction fs as [|y fs IH]; intros [|gi fis] [|i] x fi Hx Hf Hv; simpl in *; try discriminate.
  - inversion Hx; inversion Hf; subst. rewrite Hv. reflexivity.
  - eapply IH; eauto.
Qed.
Print Assumptions C05_fields_kept.

Theorem C05_order_and_count : forall r fs fis, length (rw_fields r fs fis) = length fs.
Proof. exact rw_fields_length. Qed.
Print Assumptions C05_order_and_count.

(* the slots of a list keep their number and order: element j of the result is the rewrite
   of element j *)
Theorem C05_list_elements : forall (r : val -> val) xs j, nth_error (map r xs) j = option_map r (nth_error xs j).
Proof. intros. apply nth_error_map. Qed.
Print Assumptions C05_list_elements.

(* The rewrite recurses on explicit fuel (the code on the depth of the tree).  The fuel
   apply_change passes, S (size tree), is never what stops it: any larger fuel computes the
   same tree and the same match count and errors.  So "rw" in the theorems above is the
   rewrite of the whole file, not of a prefix of it.  (Needs: everything the match data of a
   site refers to - elided runs, recorded for-headers and statement containers - is a part of
   that site: mtch_small; and the replacer reads its view of the tree only there: inst_ext.) *)
Theorem C05_rewrite_fuel_irrelevant : forall c g dinit id f,
  match_imports (mk_of c) (ch_minus_imports c) (g_imports g) d0 {| id_bound := []; id_matched := [] |} = Some (dinit, id) ->
  (size (g_tree g) < f)%nat ->
  rw (mk_of c) (assoc_of (ch_assoc c)) (ch_minus c) (ch_plus c) dinit f (g_tree g) =
  rw (mk_of c) (assoc_of (ch_assoc c)) (ch_minus c) (ch_plus c) dinit (S (size (g_tree g))) (g_tree g) /\
  scan (mk_of c) (assoc_of (ch_assoc c)) (ch_minus c) (ch_plus c) dinit f (g_tree g) =
  scan (mk_of c) (assoc_of (ch_assoc c)) (ch_minus c) (ch_plus c) dinit (S (size (g_tree g))) (g_tree g).
Proof. exact apply_change_rw_fuel. Qed.
Print Assumptions C05_rewrite_fuel_irrelevant.
