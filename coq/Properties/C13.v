(* C13 — a patch means the same however it is laid out.
   Front-end part: the line splitter and splitPatch.  (The step from "the pattern texts
   differ only in white space" to "same pattern tree" is the go/parser oracle; renaming of
   metavariables and re-wrapping are engine-level and stated with the engine model.) *)
From GP Require Import Bytes Section Meta SectionFacts MetaFacts Replace DotsFacts.

(* '#' lines anywhere: the splitter hands on exactly the non-comment lines ... *)
Theorem C13_comments_skipped : forall ls pend,
  map i_line (items_aux pend ls) = filter noncomment ls.
Proof. exact items_lines. Qed.
Print Assumptions C13_comments_skipped.

(* ... and what it produces from them (names, section texts, structure, kinds of errors) is
   a function of their texts alone: adding or removing comment lines — or anything else
   that only moves offsets — changes nothing but positions and descriptions. *)
Theorem C13_layout_only_positions : forall c1 c2,
  map l_text (filter noncomment (raw_lines c1)) = map l_text (filter noncomment (raw_lines c2)) ->
  erase_result (read_changes (length c1) (items c1)) = erase_result (read_changes (length c2) (items c2)).
Proof. exact split_erased_eq. Qed.
Print Assumptions C13_layout_only_positions.

(* Only the '#' lines directly above a line form its description. *)
Theorem C13_description : forall pre l0 cs l post,
  is_comment (l_text l0) = false ->
  Forall (fun c => is_comment (l_text c) = true) cs -> is_comment (l_text l) = false ->
  exists before,
    items_aux [] (pre ++ l0 :: cs ++ l :: post)
    = before ++ {| i_line := l; i_comments := map descr cs |} :: items_aux [] post.
Proof. exact description_is_block_above. Qed.
Print Assumptions C13_description.

(* Blank lines before the first header are skipped. *)
Theorem C13_blank_lines_before_header : forall blanks its e,
  Forall (fun it => is_blank (l_text (i_line it)) = true) blanks ->
  read_changes e (blanks ++ its) = read_changes e its.
Proof. exact blank_lines_before_first_header. Qed.
Print Assumptions C13_blank_lines_before_header.

(* Naming a change: replacing a header by another well-formed header changes nothing
   but the name recorded for that change. *)
Theorem C13_name : forall e1 e2 pre1 pre2 h1 h2 rest1 rest2,
  map text_of pre1 = map text_of pre2 -> map text_of rest1 = map text_of rest2 ->
  (forall c, a_state (fold_left sstep pre1 a0) <> SMeta c) ->
  good_header (text_of h1) -> good_header (text_of h2) ->
  nameless_result (erase_result (read_changes e1 (pre1 ++ h1 :: rest1)))
  = nameless_result (erase_result (read_changes e2 (pre2 ++ h2 :: rest2))).
Proof. exact change_name_is_only_a_name. Qed.
Print Assumptions C13_name.

(* An unchanged line once with a space prefix, or as an identical '-'/'+' pair: both
   versions of the pattern get that line, differing by the one leading blank only. *)
Theorem C13_context_pair : forall pre post t o1 o2 o3,
  let ctx := {| l_off := o1; l_text := SP :: t |} in
  let mi := {| l_off := o2; l_text := MINUS :: t |} in
  let pl := {| l_off := o3; l_text := PLUS :: t |} in
  v_contents (fst (split_patch (pre ++ ctx :: post)))
  = flat_map (fun l => minus_part (l_text l)) pre ++ (SP :: t ++ [NL]) ++ flat_map (fun l => minus_part (l_text l)) post /\
  v_contents (fst (split_patch (pre ++ mi :: pl :: post)))
  = flat_map (fun l => minus_part (l_text l)) pre ++ (t ++ [NL]) ++ flat_map (fun l => minus_part (l_text l)) post /\
  v_contents (snd (split_patch (pre ++ ctx :: post)))
  = flat_map (fun l => plus_part (l_text l)) pre ++ (SP :: t ++ [NL]) ++ flat_map (fun l => plus_part (l_text l)) post /\
  v_contents (snd (split_patch (pre ++ mi :: pl :: post)))
  = flat_map (fun l => plus_part (l_text l)) pre ++ (t ++ [NL]) ++ flat_map (fun l => plus_part (l_text l)) post.
Proof. exact context_line_or_pair. Qed.
Print Assumptions C13_context_pair.

(* Regrouping / reordering metavariable declarations (no name declared twice): the
   table answers every lookup the same way. *)
Theorem C13_meta_order : forall t1 t2 nm,
  NoDup (map fst t1) -> NoDup (map fst t2) ->
  (forall n k, (exists f, In (n, (k, f)) t1) <-> (exists f, In (n, (k, f)) t2)) ->
  lookup_var t1 nm = lookup_var t2 nm.
Proof. exact lookup_var_order_insensitive. Qed.
Print Assumptions C13_meta_order.

(* Re-wrapping / re-indenting: which '-' elision a '+' elision stands for depends only on the
   ORDER of the elisions' positions in the patch.  Any change of layout that keeps the (line,
   column) order among the elisions of a change keeps the pairing. *)
Theorem C13_rewrap : forall (f : dpos -> dpos) (S : dpos -> Prop) lead lhs rhs,
  (forall a, dp_id (f a) = dp_id a) ->
  (forall a b, S a -> S b -> dpos_le (f a) (f b) = dpos_le a b) ->
  (forall x, In x lhs -> S x) -> (forall x, In x rhs -> S x) ->
  connect_dots lead (map f lhs) (map f rhs) = connect_dots lead lhs rhs.
Proof. intros f S lead lhs rhs Hid Hle. exact (connect_dots_order_only f S Hid Hle lead lhs rhs). Qed.
Print Assumptions C13_rewrap.

From Coq Require Import String.
Example C13_ex :
  let a := s2b ("@@
@@
-foo
+bar
")%string in
  let b := s2b ("
# why
@ renamed @
# inside
@@
# here too
-foo
+bar
")%string in
  nameless_result (erase_result (Section.split a)) = nameless_result (erase_result (Section.split b)) /\
  map c_comments (fst (Section.split b)) = [[s2b "why"%string]].
Proof. vm_compute. split; reflexivity. Qed.
