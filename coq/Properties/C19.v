(* C19 — header and metavariable diagnostics point at the offending token. *)
From GP Require Import Bytes Section Meta PosMap SectionFacts PosMapFacts MetaFacts.
Local Open Scope nat_scope.

(* Positions inside the metavariable section are reported at the right place in the
   USER'S patch file: the byte at index j of the k-th metavariable line maps to the
   line that line has in the patch file, j columns right of the line's column —
   whatever changes, comment lines and blank lines precede it (content is arbitrary). *)
Theorem C19_roundtrip : forall content ls k l j,
  Forall no_nl ls -> nth_error ls k = Some l -> j <= length (l_text l) ->
  let s_k := nth k (starts 0 ls) 0 in
  let (pl, pc) := plain_pos (line_starts content) (l_off l) in
  pc <> 0 ->
  meta_position content ls (s_k + j) = (pl, pc + j).
Proof. exact meta_position_roundtrip. Qed.
Print Assumptions C19_roundtrip.

(* An invalid change name is reported at the first character that may not occur in it. *)
Theorem C19_bad_name_pos : forall l o,
  In (EBadName o) (snd (read_name l)) ->
  exists nm i,
    nm = trim_space (removelast (tl (l_text l))) /\
    validate_name nm = Some i /\
    l_off l <= o /\
    nth (o - l_off l) (l_text l) 0%N = nth i nm 0%N.
Proof. exact bad_name_points_at_character. Qed.
Print Assumptions C19_bad_name_pos.

(* Text where a header is expected is reported at column 1 of that line. *)
Theorem C19_bad_header_pos : forall l o,
  In (EBadHeader o) (snd (read_name l)) -> o = l_off l.
Proof. exact bad_header_at_column_one. Qed.
Print Assumptions C19_bad_header_pos.

(* Unknown type: at the type identifier.  Duplicate: at an occurrence of the name, with
   another declared occurrence of it as "defined at". *)
Theorem C19_meta_pos : forall ds e,
  In e (snd (compile_meta ds)) ->
  match e with
  | MUnknownType o ty => In (o, ty) (map d_type ds) /\ ty <> ty_identifier /\ ty <> ty_expression
  | MDuplicate o nm first => In (o, nm) (all_names ds) /\ In (first, nm) (all_names ds) /\ nm <> underscore
  | _ => False
  end.
Proof. exact compile_meta_errors. Qed.
Print Assumptions C19_meta_pos.

(* Non-vacuity: a two-change patch, fault in the second change's metavariable section. *)
From Coq Require Import String.
Example C19_ex :
  let content := s2b ("# c
@@
var x expression
@@
-a
+b
@ second @
var y,  y identifier
@@
-c
+d
")%string in
  let cs := fst (split content) in
  let c2 := nth 1 cs (nth 0 cs {| c_header := 0; c_name := []; c_meta := []; c_at := None; c_patch := []; c_comments := [] |}) in
  List.length cs = 2 /\ c_name c2 = s2b "second"%string /\
  meta_position content (c_meta c2) 8 = (8, 9).
Proof. vm_compute. repeat split; reflexivity. Qed.
