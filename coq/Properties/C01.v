(* C01 — a change rewrites exactly the code that is an instance of its '-' pattern. *)
From GP Require Import Tree Meta Match Replace FileEngine ListMatch MatchFacts FileFacts MatchComplete MatchExact.
From Coq Require Import Lia.

(* Only instances: whatever the node matcher accepts is an instance of the pattern (Inst,
   Proofs/MatchFacts.v: same tree up to position validity, comments and object links, each
   metavariable standing for the code recorded for it, each "..." for a run). *)
Theorem C01_only_instances : forall mk p t d d',
  mtch mk p t d = Some d' -> ext d d' /\ Inst mk (d_mv d') p t.
Proof. exact mtch_sound. Qed.
Print Assumptions C01_only_instances.

(* Near misses, spelled out on the instance relation: a different operator, literal or name
   is a different atom; variadic '...' and alias '=' are position validities; an extra or
   missing element changes a list length (without "..."). *)
Theorem C01_near_miss_atom : forall mk s ta a t,
  Inst mk s (Atom ta a) t -> t = Atom ta a.
Proof. intros mk s ta a t H. inversion H; subst; try discriminate; reflexivity. Qed.
Print Assumptions C01_near_miss_atom.

Theorem C01_near_miss_pos : forall mk s b t,
  Inst mk s (Pos b) t -> t = Pos b.
Proof. intros mk s b t H. inversion H; subst; try discriminate; reflexivity. Qed.
Print Assumptions C01_near_miss_pos.

Theorem C01_near_miss_length : forall mk s tp ps ts,
  InstL mk s tp ps ts -> (forall p, In p ps -> dots_item tp p = None) -> length ps = length ts.
Proof.
  intros mk s tp ps ts H. induction H as [tp|tp p t ps ts Hd Hi Hl IH|tp p i run ps ts Hd Hl IH]; intros Hn.
  - reflexivity.
  - simpl. f_equal. apply IH. intros q Hq. apply Hn. right. exact Hq.
  - rewrite (Hn p (or_introl eq_refl)) in Hd. discriminate.
Qed.
Print Assumptions C01_near_miss_length.

Theorem C01_near_miss_struct : forall mk s sp ps t,
  Inst mk s (Struct sp ps) t -> exists ts, t = Struct sp ts /\ InstF mk s ps ts.
Proof. intros mk s sp ps t H. inversion H; subst; try discriminate. eauto. Qed.
Print Assumptions C01_near_miss_struct.

(* Every instance that does not lie inside another rewritten instance is rewritten, at
   any depth and in any slot the traversal reaches: if the slot at path pi matches, no
   proper ancestor matches, and the instantiated replacement fits the slot, the result
   holds the replacement at pi. *)
Theorem C01_every_instance_wherever :
  forall mk ad minus plus dinit pi f v s tp st fs d give r,
  descend v pi = Some s ->
  (forall pi1 pi2 a, pi = pi1 ++ pi2 -> pi2 <> [] -> descend v pi1 = Some a ->
                     not_site mk minus dinit a) ->
  unwrap s = Ptr tp (Struct st fs) ->
  mtch_node mk minus (unwrap s) dinit = Some d ->
  inst_node mk ad (rw mk ad minus plus dinit f)
            (fun st0 fs0 => rwf mk ad minus plus dinit f fs0 (fields_of st0)) plus d = Ok give ->
  wrap_give s give tp = Some r ->
  descend (rw mk ad minus plus dinit (length pi + S f) v) pi = Some r.
Proof. exact rw_instance_rewritten. Qed.
Print Assumptions C01_every_instance_wherever.

(* ... and for LINEAR expression/declaration patterns - no metavariable occurs twice, none is
   bound by the import clauses - "matches" can be replaced by "is an instance": the matcher
   accepts every instance (completeness).  For patterns that repeat a metavariable across a
   nested elision list this is false (known finding F1b, Properties/C04.v). *)
Theorem C01_linear_patterns_complete : forall mk p s t d,
  Inst mk s p t -> NoDup (mvs mk p) -> (forall x, In x (mvs mk p) -> assoc x (d_mv d) = None) ->
  exists d', mtch mk p t d = Some d'.
Proof. exact mtch_complete_linear. Qed.
Print Assumptions C01_linear_patterns_complete.

(* A node the pattern does not match is never replaced: it is rebuilt from its own
   (rewritten) children. *)
Theorem C01_non_instance_kept : forall mk ad minus plus dinit f v tp st fs,
  unwrap v = Ptr tp (Struct st fs) ->
  mtch_node mk minus (unwrap v) dinit = None ->
  rw mk ad minus plus dinit (S f) v = rebuilt mk ad minus plus dinit f v tp st fs.
Proof. intros. rewrite (rw_node _ _ _ _ _ f v tp st fs H), H0. reflexivity. Qed.
Print Assumptions C01_non_instance_kept.

(* ... and for patterns without elisions completeness does not need linearity: if every
   occurrence of a metavariable stands for exactly the code the assignment gives it (an exact
   instance), the pattern is accepted, and what the match binds agrees with the assignment *)
Theorem C01_elision_free_patterns_complete : forall mk s p t d,
  InstX mk s p t -> compat d s -> exists d', mtch mk p t d = Some d' /\ compat d' s.
Proof. intros mk s p t d H. exact (mtch_complete_exact mk s p t H d). Qed.
Print Assumptions C01_elision_free_patterns_complete.

Theorem C01_exact_instances_are_instances : forall mk s p t, InstX mk s p t -> Inst mk s p t.
Proof. exact InstX_Inst. Qed.
Print Assumptions C01_exact_instances_are_instances.

(* Statement patterns: a block, case or comm clause is a site when some run of its
   statements is an instance; the leftmost-shortest choice is made (C04_shortest). *)
Theorem C01_stmt_first_instance : forall mk s e stmts t d d',
  stmts <> [] -> mtch_stmts mk s e stmts t d = Some d' ->
  exists st fs idx ts rs,
    stmt_container t = Some (st, fs, idx) /\ targets (nth_val idx fs) = Some ts /\
    Sol val val data (dots_item T_S_ast_Stmt) (mtch mk) push_dots
        (with_implicit s e stmts) ts (set_stmt st fs d) rs d'.
Proof.
  intros mk s e stmts t d d' Hne H. unfold mtch_stmts in H.
  destruct (stmt_container t) as [[[st fs] idx]|] eqn:C; [|discriminate].
  unfold stmt_pattern in H. destruct stmts as [|x l]; [congruence|].
  rewrite mtch_slice in H. destruct (targets (nth_val idx fs)) as [ts|] eqn:T; [|discriminate].
  apply ml_sound in H as [rs Hs]. exists st, fs, idx, ts, rs. auto.
Qed.
Print Assumptions C01_stmt_first_instance.

Example C01_ex :
  let mk := fun n : N => if N.eqb n 7 then Some KExpr else None in
  let id n := Ptr T_P_ast_Ident (Struct T_ast_Ident [Pos true; Atom T_string n; Nil T_P_ast_Object]) in
  let call f a := Ptr T_P_ast_CallExpr (Struct T_ast_CallExpr
                    [Iface T_ast_Expr f; Pos true; Slice T_S_ast_Expr [Iface T_ast_Expr a]; Pos false; Pos true]) in
  (* foo(x) with x an expression metavariable (atom 7), against foo(bar(q)) and against baz(bar(q)) *)
  option_map d_mv (mtch mk (call (id 3) (id 7)) (call (id 3) (call (id 4) (id 5))) d0)
    = Some [(7, call (id 4) (id 5))] /\
  mtch mk (call (id 3) (id 7)) (call (id 9) (call (id 4) (id 5))) d0 = None.
Proof. vm_compute. split; reflexivity. Qed.
