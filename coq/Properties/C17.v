(* C17 — comments in untouched declarations survive; none are invented or duplicated.
   PARTIAL: the bookkeeping that decides which comments are dropped is proved; which spans
   astdiff reports as changed and how go/printer places the surviving comments are
   observed, not modelled (see the end of this file). *)
From GP Require Import Comments CommentFacts.
Local Open Scope Z_scope.

(* No comment is invented, duplicated or reordered, whatever the changes report: after any
   number of changes the comment list is a sub-list of the original one. *)
Theorem C17_nothing_invented : forall steps cs, sublist (run_steps steps cs) cs.
Proof. exact run_steps_sublist. Qed.
Print Assumptions C17_nothing_invented.

Theorem C17_never_more_often : forall steps cs (same_text : cmt -> bool),
  (length (filter same_text (run_steps steps cs)) <= length (filter same_text cs))%nat.
Proof. intros. apply sublist_count, run_steps_sublist. Qed.
Print Assumptions C17_never_more_often.

(* A comment is dropped by a change exactly when it lies entirely inside one of the
   intervals of that change ... *)
Theorem C17_dropped_iff : forall steps cs c,
  In c (run_steps steps cs) <->
  In c cs /\ forall s, In s steps -> ~ removable (changed_intervals (fst s) (snd s)) c.
Proof. exact run_steps_In. Qed.
Print Assumptions C17_dropped_iff.

(* ... and those intervals are exactly the positions reported as changed and not reported
   as unchanged (elided runs, block preludes). *)
Theorem C17_intervals : forall plus minus p,
  covers (changed_intervals plus minus) p <-> covers plus p /\ ~ covers minus p.
Proof. exact changed_intervals_spec. Qed.
Print Assumptions C17_intervals.

(* Hence: if everything the changes report as changed lies within [lo, hi) - the rewritten
   declarations with the gaps around them - every comment not inside [lo, hi) survives:
   comments of the other declarations, the header and package comments. *)
Theorem C17_untouched_declarations_keep_their_comments : forall steps cs c lo hi,
  In c cs -> c_pos c < c_end c ->
  (forall s i, In s steps -> In i (fst s) -> fst i < snd i -> lo <= fst i /\ snd i <= hi) ->
  ~ (lo <= c_pos c /\ c_end c <= hi) ->
  In c (run_steps steps cs).
Proof. exact outside_changed_region_survives. Qed.
Print Assumptions C17_untouched_declarations_keep_their_comments.

(* the same for several rewritten declarations: R is the set of positions of the rewritten
   declarations and the gaps around them; a comment with a position outside R survives *)
Theorem C17_untouched_general : forall steps cs c (R : Z -> Prop),
  In c cs ->
  (forall s p, In s steps -> covers (fst s) p -> R p) ->
  (exists p, c_pos c <= p < c_end c /\ ~ R p) ->
  In c (run_steps steps cs).
Proof. exact outside_changed_set_survives. Qed.
Print Assumptions C17_untouched_general.

Example C17_ex :
  let cs := [ {| c_id := 1; c_pos := 0; c_end := 10 |};       (* header *)
              {| c_id := 2; c_pos := 40; c_end := 50 |};      (* inside the rewritten call *)
              {| c_id := 3; c_pos := 55; c_end := 60 |};      (* in an elided run of the same statement *)
              {| c_id := 4; c_pos := 100; c_end := 120 |} ]   (* doc comment of the next declaration *) in
  map c_id (run_steps [([(30, 90)], [(52, 70)])] cs) = [1%N; 3%N; 4%N].
Proof. vm_compute. reflexivity. Qed.

(* Not modelled: (a) internal/astdiff (which spans a changed subtree is charged with: the
   region of a changed list element stretches to its neighbours, clamped by the comments the
   comment map attaches to them) - checks/c17.py verifies on every case that the spans of a
   run stay within the rewritten declarations and their surrounding gaps, the hypothesis of
   the last theorem; (b) go/printer and imports.Process (that every comment left in
   File.Comments is printed once, next to the declaration its position belongs to) - judged on
   the re-parsed output per declaration. *)
