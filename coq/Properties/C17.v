(* C17 — comments in untouched declarations survive; none are invented or duplicated.
   PARTIAL: proved are (1) the bookkeeping that decides which comments are dropped, (2) that the
   spans internal/astdiff reports for a changed list element stay within that element and the
   gaps around it, and hence (3) that the comments the comment map attaches to a declaration
   which the edit script pairs as identical survive every clean-up.  How go/printer places
   the surviving comments, which comments ast.NewCommentMap attaches to which node and which
   pairs internal/diff finds identical are observed, not modelled (see the end of this file). *)
From GP Require Import Comments CommentFacts AstDiff AstDiffFacts DiffFacts DiffDiag WalkSame FileWalk.
Local Open Scope Z_scope.

(* No comment is invented, duplicated or reordered, whatever the changes report: after any
   number of changes the comment list is a sub-list of the original one. *)
Theorem C17_nothing_invented : forall steps cs, sublist (run_steps steps cs) cs.
Proof. exact run_steps_sublist. Qed.
Print Assumptions C17_nothing_invented.

Theorem C17_never_more_often : forall steps cs (same_text : cmt -> bool),
  (length (filter same_text (run_steps steps cs)) <= length (filter same_text cs))%nat.
Proof. intros. apply sublist_count, run_steps_sublist. Qed.
Print Assumptions C17_never_more_often.

(* A comment is dropped by a change exactly when it lies entirely inside one of the
   intervals of that change ... *)
Theorem C17_dropped_iff : forall steps cs c,
  In c (run_steps steps cs) <->
  In c cs /\ forall s, In s steps -> ~ removable (changed_intervals (fst s) (snd s)) c.
Proof. exact run_steps_In. Qed.
Print Assumptions C17_dropped_iff.

(* ... and those intervals are exactly the positions reported as changed and not reported
   as unchanged (elided runs, block preludes). *)
Theorem C17_intervals : forall plus minus p,
  covers (changed_intervals plus minus) p <-> covers plus p /\ ~ covers minus p.
Proof. exact changed_intervals_spec. Qed.
Print Assumptions C17_intervals.

(* Hence: if everything the changes report as changed lies within [lo, hi) - the rewritten
   declarations with the gaps around them - every comment not inside [lo, hi) survives:
   comments of the other declarations, the header and package comments. *)
Theorem C17_untouched_declarations_keep_their_comments : forall steps cs c lo hi,
  In c cs -> c_pos c < c_end c ->
  (forall s i, In s steps -> In i (fst s) -> fst i < snd i -> lo <= fst i /\ snd i <= hi) ->
  ~ (lo <= c_pos c /\ c_end c <= hi) ->
  In c (run_steps steps cs).
Proof. exact outside_changed_region_survives. Qed.
Print Assumptions C17_untouched_declarations_keep_their_comments.

(* the same for several rewritten declarations: R is the set of positions of the rewritten
   declarations and the gaps around them; a comment with a position outside R survives *)
Theorem C17_untouched_general : forall steps cs c (R : Z -> Prop),
  In c cs ->
  (forall s p, In s steps -> covers (fst s) p -> R p) ->
  (exists p, c_pos c <= p < c_end c /\ ~ R p) ->
  In c (run_steps steps cs).
Proof. exact outside_changed_set_survives. Qed.
Print Assumptions C17_untouched_general.

(* ---- internal/astdiff (Model/AstDiff.v: changeFinder.Walk, walkStruct, walkSlice, commentsFor) ----
   Every span a walk reports starts at NoPos, is empty, or lies within [lo, hi], when the walked
   subtree is bounded by [lo, hi] (positions of its nodes and tokens and of the comments attached
   to nested nodes), the region the walk starts with is, and the end of the enclosing node
   (nend, which endOf clamps to) is unknown (NoPos) or not below lo. *)
Theorem C17_spans_stay_within_the_walked_subtree : forall lo hi, nopos < lo -> lo <= hi ->
  forall script k nend r from to w,
  bounded_root lo hi from -> Inv lo hi r -> lowok lo nend -> walk script k nend r from to = Some w ->
  Forall (Good lo hi) (w_log w).
Proof. intros lo hi H1 H2 script k nend r from to w. exact (walk_bounded_root lo hi H1 H2 script k nend r from to w). Qed.
Print Assumptions C17_spans_stay_within_the_walked_subtree.

(* A list of nodes in source order (the declarations of a file, the statements of a block) is
   diffed against its new version; element j is paired as identical by the edit script.  Then
   no span the walk of the list reports holds a position of a comment attached to element j
   (before it and after the previous element, after it and before the next element, or inside
   it), unless the span starts at NoPos.  The side conditions are boolean and evaluated on every
   snapshot of a check run. *)
Theorem C17_identical_declaration_is_clear_of_every_span :
  forall script k nend r t xs t' en ys w j xj c,
  walk script (S k) nend r (VSlice t true xs) (VSlice t' en ys) = Some w ->
  N.eqb t t' = true -> N.eqb t T_object = false -> N.eqb t T_cgroup = false ->
  list_okb nend r xs (xedits (script xs ys)) = true ->
  nth_error xs j = Some xj -> nth_error (xedits (script xs ys)) j = Some Identity ->
  fst c < snd c -> attachedb xs j xj c = true ->
  Forall (not_inside c) (w_log w).
Proof. exact identity_element_keeps_its_comments_b. Qed.
Print Assumptions C17_identical_declaration_is_clear_of_every_span.

(* One whole step on a file (Snapshot.Diff from the root).  When every field of the file other
   than its declarations is the same in the two snapshots (file_okb: the package clause, the
   position fields, File.Unresolved, File.Comments; "the same" is up to positions, of which only
   validity counts, and attached comments), the Changed calls of the step are exactly those of the
   walk of the declaration list, so - under the side conditions above - every call of the step
   keeps clear of every comment attached to a declaration that is paired as identical. *)
Theorem C17_file_step_is_clear_of_identical_declarations : forall from to w j xj c r xs,
  diff_snapshot from to = Some w ->
  file_okb from to = true ->
  file_decls from = Some (r, xs) ->
  list_okb (file_nend from) r xs (xedits (the_script xs (file_decls_to to))) = true ->
  nth_error xs j = Some xj -> nth_error (xedits (the_script xs (file_decls_to to))) j = Some Identity ->
  fst c < snd c -> attachedb xs j xj c = true ->
  Forall (not_inside c) (w_log w).
Proof. exact file_step_clear. Qed.
Print Assumptions C17_file_step_is_clear_of_identical_declarations.

(* A subtree in which nothing changed (the same tree up to positions and attached comments) makes
   no Changed call at all, at any depth and in any region: a change that does not touch a file,
   a declaration or a field deletes no comment there. *)
Theorem C17_equal_subtrees_report_nothing : forall k nend r x y w,
  same x y -> walk the_script k nend r x y = Some w -> w_log w = [].
Proof. exact (walk_same the_script the_script_same). Qed.
Print Assumptions C17_equal_subtrees_report_nothing.

(* ... because internal/diff.Difference pairs two lists whose elements are pairwise equal element
   by element (every edit is Identity), whatever the comparison says off the diagonal - its
   first probe is the diagonal, which it follows to the end *)
Theorem C17_equal_lists_are_paired_elementwise : forall f n, 0 <= n ->
  (forall i, 0 <= i < n -> r_equal (f i i) = true) ->
  difference f n n = Some (repeat Identity (Z.to_nat n)).
Proof. exact difference_diagonal. Qed.
Print Assumptions C17_equal_lists_are_paired_elementwise.

Theorem C17_equal_declaration_lists_are_identical : forall xs ys,
  same_all xs ys -> the_script xs ys = repeat Identity (length xs).
Proof. exact the_script_same. Qed.
Print Assumptions C17_equal_declaration_lists_are_identical.

(* Which declarations are paired as identical: when a step changes ONE declaration (the lists have
   the same length, every other declaration is the same tree up to positions and attached comments,
   and nodeComparer finds a difference at index a), Difference pairs every other declaration with
   its counterpart as Identity - unconditionally: nothing is assumed about how declarations
   compare with each other (off the diagonal), and the search budget plays no part.  With several
   changed declarations the pairing is not proved (the search is greedy and budgeted); the check
   runs the transcription on every step. *)
Theorem C17_single_change_pairs_every_other_declaration : forall xs ys (a j : nat),
  length xs = length ys -> (a < length xs)%nat ->
  (forall i, (i < length xs)%nat -> i <> a -> same (nth i xs (VNil 0)) (nth i ys (VNil 0))) ->
  r_equal (compare_nodes (nth a xs (VNil 0)) (nth a ys (VNil 0))) = false ->
  (j < length xs)%nat -> j <> a ->
  nth_error (xedits (the_script xs ys)) j = Some Identity.
Proof. exact one_change_others_identical. Qed.
Print Assumptions C17_single_change_pairs_every_other_declaration.

(* ... and such a comment survives all clean-ups of the run, whatever the replacers report as
   unchanged: the changelog records the spans that do not start at NoPos (record_changed), the
   changed intervals are those minus the unchanged spans, and a comment is dropped only when it
   lies entirely inside one of them. *)
Theorem C17_clear_comment_survives : forall (steps : list (list region * list iv)) cs cm,
  In cm cs -> c_pos cm < c_end cm ->
  (forall s, In s steps -> Forall (not_inside (c_pos cm, c_end cm)) (fst s)) ->
  In cm (run_steps (map (fun s => (record_changed (fst s), snd s)) steps) cs).
Proof. exact clear_comment_survives. Qed.
Print Assumptions C17_clear_comment_survives.

(* the edit script marks a pair as identical only if the two nodes compare equal (no differing
   leaf): comments are handed over (changeFinder.unchanged) between equal nodes only *)
Theorem C17_identical_means_equal : forall f nx ny es, 0 <= nx -> 0 <= ny ->
  difference f nx ny = Some es -> vpath f es 0 0 nx ny.
Proof. exact difference_is_a_path. Qed.
Print Assumptions C17_identical_means_equal.

(* F22, in the model: without the filter of [record_changed] - i.e. recording the spans that
   start at NoPos too, as the code did before fix 0c337b7 - two match sites suffice to delete a
   comment that no span with a valid start comes near: the unchanged spans of the two sites cut
   the NoPos spans into pieces, and the piece between the sites starts at a valid position *)
Example C17_nopos_spans_refuted :
  let calls := [(nopos, 50); (nopos, 200)] in            (* the '(' added at two sites *)
  let unchanged := [(10, 40); (120, 180)] in             (* the elided bodies of the two functions *)
  let cm := {| c_id := 7; c_pos := 60; c_end := 75 |} in (* a comment of a declaration in between *)
  run_steps [(calls, unchanged)] [cm] = []
  /\ run_steps [(record_changed calls, unchanged)] [cm] = [cm].
Proof. vm_compute. split; reflexivity. Qed.

(* the premises are satisfiable: three declarations, the middle one modified; the comments of the
   outer two (a doc comment, a trailing comment) are attached, the list is well-formed, the walk
   reports a non-empty span, and it keeps clear of both comments *)
Example C17_identical_ex :
  let mk := fun (p e : Z) (cm : list cgroup) (a : N) =>
    VRef 20 {| n_isnode := true; n_pos := p; n_end := e; n_cmts := cm |} (VStruct 21 [VPos p; VAtom 22 a]) in
  let xs := [mk 20 30 [[(10, 19)]] 1%N; mk 40 50 [] 2%N; mk 60 70 [[(71, 80)]] 3%N] in
  let ys := [mk 20 30 [] 1%N; mk 40 50 [] 9%N; mk 60 70 [] 3%N] in
  let r := (5, 90) in
  match walk the_script 5 95 r (VSlice 18 true xs) (VSlice 18 true ys) with
  | Some w => w_log w = [(30, 60)]
              /\ xedits (the_script xs ys) = [Identity; Modified; Identity]
              /\ list_okb 95 r xs (xedits (the_script xs ys)) = true
              /\ attachedb xs 0 (mk 20 30 [[(10, 19)]] 1%N) (10, 19) = true
              /\ attachedb xs 2 (mk 60 70 [[(71, 80)]] 3%N) (71, 80) = true
  | None => False
  end.
Proof. vm_compute. repeat split; reflexivity. Qed.

(* non-vacuity of the file-level theorem: a file (doc, package position, name, three declarations,
   two position fields) whose middle declaration changes *)
Example C17_file_step_ex :
  let mk := fun (p e : Z) (cm : list cgroup) (a : N) =>
    VRef 20 {| n_isnode := true; n_pos := p; n_end := e; n_cmts := cm |} (VStruct 21 [VPos p; VAtom 22 a]) in
  let xs := [mk 20 30 [[(10, 19)]] 1%N; mk 40 50 [] 2%N; mk 60 70 [[(71, 80)]] 3%N] in
  let ys := [mk 20 30 [] 1%N; mk 40 50 [] 9%N; mk 60 70 [] 3%N] in
  let file := fun ds => VRef 13 {| n_isnode := true; n_pos := 1; n_end := 70; n_cmts := [] |}
                          (VStruct 14 [VNil 2; VPos 1; mk 9 10 [] 7%N; VSlice 18 true ds; VPos 0; VPos 95; VAtom 17 5]) in
  match diff_snapshot (file xs) (file ys), file_decls (file xs) with
  | Some w, Some (r, ds) =>
      w_log w = [(30, 60)] /\ ds = xs /\ file_okb (file xs) (file ys) = true
      /\ list_okb (file_nend (file xs)) r ds (xedits (the_script ds (file_decls_to (file ys)))) = true
      /\ attachedb ds 0 (mk 20 30 [[(10, 19)]] 1%N) (10, 19) = true
  | _, _ => False
  end.
Proof. vm_compute. repeat split; reflexivity. Qed.

Example C17_ex :
  let cs := [ {| c_id := 1; c_pos := 0; c_end := 10 |};       (* header *)
              {| c_id := 2; c_pos := 40; c_end := 50 |};      (* inside the rewritten call *)
              {| c_id := 3; c_pos := 55; c_end := 60 |};      (* in an elided run of the same statement *)
              {| c_id := 4; c_pos := 100; c_end := 120 |} ]   (* doc comment of the next declaration *) in
  map c_id (run_steps [([(30, 90)], [(52, 70)])] cs) = [1%N; 3%N; 4%N].
Proof. vm_compute. reflexivity. Qed.

(* Not modelled: (a) ast.NewCommentMap (which comments a node carries: an input of the astdiff
   model, read from the snapshot) and the pairing found by internal/diff.Difference (transcribed
   and executed in Model/AstDiff.v, an oracle [script] in the theorems) - checks/c17.py runs the
   model on the snapshots of every step and compares the Changed calls and the new snapshot
   with the code's, and evaluates the side conditions; (b) go/printer and imports.Process (that every comment left in
   File.Comments is printed once, next to the declaration its position belongs to) - judged on
   the re-parsed output per declaration. *)
