(* C14 — each file's result depends only on the patches and that file.
   This file states the part carried by the driver model; the engine part (fresh match
   data per attempt, immutability of the compiled patch) is in Properties/C14 engine
   theorems added with the engine model.  Goroutine schedules cannot be exhibited by any
   model here: that half is tested (race detector), not proved — see DESIGN.md. *)
From GP Require Import Bytes Generated Cli CliFacts DriverProofs.

(* The events produced for a file, and the errors reported for it, are the same in
   whatever run, at whatever position, next to whatever other files (matching,
   unparseable, unreadable, generated) it is processed. *)
Theorem C14_history_independent :
  forall parses header_of engine process o ts ts' i j t,
  nth_error ts i = Some t -> nth_error ts' j = Some t ->
  events_of j (run parses header_of engine process o ts')
  = map (retag j) (events_of i (run parses header_of engine process o ts)) /\
  all_errors (solo parses header_of engine process o j t)
  = all_errors (solo parses header_of engine process o i t).
Proof. exact history_independent. Qed.
Print Assumptions C14_history_independent.

(* In particular: processed together = processed alone. *)
Theorem C14_alone_or_together :
  forall parses header_of engine process o ts i t,
  nth_error ts i = Some t ->
  map (retag 0) (events_of i (run parses header_of engine process o ts))
  = r_events (run parses header_of engine process o [t]) /\
  all_errors (solo parses header_of engine process o i t)
  = all_errors (run parses header_of engine process o [t]).
Proof. exact alone_or_together. Qed.
Print Assumptions C14_alone_or_together.

(* A run is the concatenation, in list order, of what each file contributes. *)
Theorem C14_run_is_concatenation :
  forall parses header_of engine process o ts,
  run parses header_of engine process o ts = contribs parses header_of engine process o 0 ts.
Proof. exact run_contribs. Qed.
Print Assumptions C14_run_is_concatenation.
