(* C04 — elision '...' matches any run of elements and reproduces it unchanged. *)
From GP Require Import Tree Meta Match Replace ListMatch MatchFacts MatchComplete ListMemo MatchFrame DotsSole.
From Coq Require Import Lia.

(* [Sol ps ts d rs d']: the list ts decomposes, in order, into the explicit elements of the
   pattern list ps (each accepted by the element matcher, the bindings threaded left to
   right) and one run per "...", rs being the runs.  (ListMatch.v) *)
Notation Decomp mk tp := (Sol val val data (dots_item tp) (mtch mk) push_dots).

(* A pattern list with elisions matches a list exactly when some choice of runs makes
   every explicit element match in order. *)
Theorem C04_match_iff : forall mk tp ps t d,
  (exists d', mtch mk (Slice tp ps) t d = Some d') <->
  (exists ts rs d', targets t = Some ts /\ Decomp mk tp ps ts d rs d').
Proof.
  intros mk tp ps t d. rewrite mtch_slice. destruct (targets t) as [ts|]; split.
  - intros [d' H]. apply ml_sound in H as [rs Hs]. exists ts, rs, d'. auto.
  - intros [ts' [rs [d' [E Hs]]]]. inversion E; subst. eapply ml_complete; eauto.
  - intros [d' H]. discriminate.
  - intros [ts' [rs [d' [E _]]]]. discriminate.
Qed.
Print Assumptions C04_match_iff.

(* Each "..." takes the shortest run that allows a match, left to right: the vector of
   run lengths of the decomposition found is lexicographically least among all. *)
Theorem C04_shortest : forall mk tp ps ts d e,
  ml val val data (dots_item tp) (mtch mk) push_dots ps ts d = Some e ->
  exists rs, Decomp mk tp ps ts d rs e /\
    forall rs' e', Decomp mk tp ps ts d rs' e' ->
      lexle (map (@length val) rs) (map (@length val) rs').
Proof. intros mk tp. apply ml_least. Qed.
Print Assumptions C04_shortest.

(* The runs are literally sub-lists of the target: a decomposition re-assembles to it. *)
Fixpoint reassemble {P V} (isdots : P -> option N) (ps : list P) (elems : list V) (rs : list (list V)) : list V :=
  match ps with
  | [] => []
  | p :: ps' =>
      match isdots p with
      | Some _ => match rs with r :: rs' => r ++ reassemble isdots ps' elems rs' | [] => [] end
      | None => match elems with x :: elems' => x :: reassemble isdots ps' elems' rs | [] => [] end
      end
  end.

Theorem C04_runs_exact : forall mk tp ps ts d rs d',
  Decomp mk tp ps ts d rs d' ->
  exists elems, ts = reassemble (dots_item tp) ps elems rs /\
                length rs = length (filter (fun p => match dots_item tp p with Some _ => true | None => false end) ps).
Proof.
  intros mk tp ps ts d rs d' H. induction H as [d|p ps t ts d d1 rs d2 Hd Hm Hs [el [E L]]|p i ps run ts d rs d2 Hd Hs [el [E L]]].
  - exists []. auto.
  - exists (t :: el). simpl. rewrite Hd. simpl. split; [congruence|exact L].
  - exists el. simpl. rewrite Hd. simpl. split; [congruence|lia].
Qed.
Print Assumptions C04_runs_exact.

(* Statement patterns: an implicit "..." at both ends of the pattern list. *)
Theorem C04_stmt_implicit : forall mk s e stmts t d d',
  stmts <> [] ->
  mtch_stmts mk s e stmts t d = Some d' ->
  exists st fs idx ts rs,
    stmt_container t = Some (st, fs, idx) /\ targets (nth_val idx fs) = Some ts /\
    Decomp mk T_S_ast_Stmt (with_implicit s e stmts) ts (set_stmt st fs d) rs d'.
Proof.
  intros mk s e stmts t d d' Hne H. unfold mtch_stmts in H.
  destruct (stmt_container t) as [[[st fs] idx]|] eqn:C; [|discriminate].
  unfold stmt_pattern in H. destruct stmts as [|x l]; [congruence|].
  rewrite mtch_slice in H. destruct (targets (nth_val idx fs)) as [ts|] eqn:T; [|discriminate].
  apply ml_sound in H as [rs Hs]. exists st, fs, idx, ts, rs. auto.
Qed.
Print Assumptions C04_stmt_implicit.

(* "for ... {" matches for and range statements alike, and records every header field. *)
Theorem C04_for_dots : forall mk p i body tq st fs d,
  for_dots_pat p = Some (i, body) ->
  (N.eqb tq T_P_ast_ForStmt = true \/ N.eqb tq T_P_ast_RangeStmt = true) ->
  mtch mk p (Ptr tq (Struct st fs)) d =
  mtch mk body (nth_val (if N.eqb tq T_P_ast_ForStmt then I_ForStmt_Body else I_RangeStmt_Body) fs)
       (push_for i st fs d).
Proof.
  intros mk p i body tq st fs d H Hq. rewrite (mtch_for mk p i body _ d H).
  destruct (N.eqb tq T_P_ast_ForStmt) eqn:E; [reflexivity|].
  destruct Hq as [Hq|Hq]; [discriminate|]. rewrite Hq. reflexivity.
Qed.
Print Assumptions C04_for_dots.

(* ---- pairing of '+' elisions with '-' elisions (connectDots) ---- *)
(* a '+' elision with no '-' elision at or before it is a compile error (after fix 713ef99), never a
   silently dropped run; the implicit "..." in front of a statement patch does not count for an
   elision written in the '+' section (after fix e818090) *)
Theorem C04_assoc_error_not_silent : forall lead lhs rhs,
  connect_dots lead lhs rhs = None <-> exists r, In r rhs /\ pick lead lhs r = None.
Proof.
  intros lead lhs rhs. induction rhs as [|r rhs IH]; simpl.
  - split; [discriminate|intros [r [[] _]]].
  - destruct (pick lead lhs r) as [l|] eqn:B.
    + destruct (connect_dots lead lhs rhs) as [m|] eqn:C.
      * split; [discriminate|]. intros [r' [[<-|Hin] Hb]]; [congruence|].
        assert (Some m = None) as E by (apply IH; exists r'; auto). discriminate.
      * split; [intros _|reflexivity]. destruct (proj1 IH eq_refl) as [r' [Hin Hb]]. exists r'. auto.
    + split; [intros _; exists r; auto|reflexivity].
Qed.
Print Assumptions C04_assoc_error_not_silent.

(* ... and what an elision of the '+' section is tied to: the closest '-' elision at or before it,
   which is the implicit leading one only for the elision at that very place (the statements in front
   of the patch are never carried into it) *)
Theorem C04_assoc_is_closest_before : forall lead lhs r l,
  pick lead lhs r = Some l ->
  best_le lhs r = Some l /\ (dp_id l = lead -> same_place l r = true).
Proof.
  intros lead lhs r l. unfold pick. destruct (best_le lhs r) as [b|]; [|discriminate].
  destruct (N.eqb (dp_id b) lead) eqn:E; cbn [andb].
  - destruct (same_place b r) eqn:P; cbn [negb]; [|discriminate]. intros H; inversion H; subst. auto.
  - intros H; inversion H; subst. split; [reflexivity|]. intros Hl. apply N.eqb_neq in E. contradiction.
Qed.
Print Assumptions C04_assoc_is_closest_before.

(* "... or is the only '...' on each side": the '+' elision is tied to the LAST '-' elision that is not after
   it in the patch - with one explicit elision on each side, '-' first, to that one, wherever on the '+'
   side it stands (the run moves) *)
Theorem C04_tied_to_the_last_elision_before : forall lead lhs l r,
  In l lhs -> dp_id l <> lead -> dpos_le l r = true ->
  (forall x, In x lhs -> dpos_le x r = true -> dpos_le x l = true) ->
  (forall x, In x lhs -> same_place x l = true -> x = l) ->
  pick lead lhs r = Some l.
Proof. exact pick_last_before. Qed.
Print Assumptions C04_tied_to_the_last_elision_before.

(* ... and written BEFORE every explicit '-' elision it is tied to nothing: the change does not compile *)
Theorem C04_elision_before_every_minus_elision_is_rejected : forall lead lhs rhs r,
  In r rhs ->
  (forall x, In x lhs -> dp_id x <> lead -> dpos_le x r = false) ->
  (forall x, In x lhs -> dp_id x = lead -> same_place x r = false) ->
  connect_dots lead lhs rhs = None.
Proof.
  intros lead lhs rhs r Hin H1 H2. apply C04_assoc_error_not_silent. exists r. split; [exact Hin|].
  exact (pick_before_all_explicit lead lhs r H1 H2).
Qed.
Print Assumptions C04_elision_before_every_minus_elision_is_rejected.

(* the layout of repo fix e818090: '+ ...' on line 2 ahead of the only explicit '- ...' on line 4 of a
   statement patch whose implicit leading elision (id 1) is at line 1, column 1: rejected *)
Example C04_plus_elision_before_minus_elision_ex :
  let lhs := [{| dp_id := 1; dp_line := 1; dp_col := 1 |}; {| dp_id := 2; dp_line := 4; dp_col := 4 |};
              {| dp_id := 3; dp_line := 6; dp_col := 1 |}] in
  let rhs := [{| dp_id := 1; dp_line := 1; dp_col := 1 |}; {| dp_id := 2; dp_line := 2; dp_col := 4 |};
              {| dp_id := 3; dp_line := 6; dp_col := 1 |}] in
  connect_dots 1 lhs rhs = None /\
  connect_dots 1 lhs [{| dp_id := 1; dp_line := 1; dp_col := 1 |}; {| dp_id := 2; dp_line := 5; dp_col := 4 |};
                      {| dp_id := 3; dp_line := 6; dp_col := 1 |}] = Some [(1, 1); (2, 2); (3, 3)]%N.
Proof. vm_compute. split; reflexivity. Qed.

(* ---- a limit of the matcher, refuted at full strength (known finding F1b) ----
   A list matcher hands its FIRST decomposition to the enclosing pattern and is never
   re-entered: with  -f(g(..., x, ...), x)  the inner list binds x := a on  f(g(a, b), b),
   the outer x then fails on b, and the decomposition x := b is never tried.  The target IS
   an instance: started from the binding x := b the same matcher accepts it. *)
Example C04_nested_nonlinear_refuted :
  let mk := fun n : N => if N.eqb n 8 then Some KExpr else None in
  let id n := Iface T_ast_Expr (Ptr T_P_ast_Ident (Struct T_ast_Ident [Pos true; Atom T_string n; Nil T_P_ast_Object])) in
  let dots i := Iface T_ast_Expr (Ptr T_P_pgo_Dots (Struct T_pgo_Dots [Nil T_ast_Expr; Atom T_pgo_DotsPos i])) in
  let call f args := Ptr T_P_ast_CallExpr (Struct T_ast_CallExpr [id f; Pos true; Slice T_S_ast_Expr args; Pos false; Pos true]) in
  (* atoms: 3 = a, 4 = f, 5 = g, 6 = b, 8 = x *)
  let pat := call 4 [Iface T_ast_Expr (call 5 [dots 1; id 8; dots 2]); id 8] in
  let tgt := call 4 [Iface T_ast_Expr (call 5 [id 3; id 6]); id 6] in
  let with_b := push_mv 8 (Ptr T_P_ast_Ident (Struct T_ast_Ident [Pos true; Atom T_string 6; Nil T_P_ast_Object])) d0 in
  mtch mk pat tgt d0 = None /\
  (exists d, mtch mk pat tgt with_b = Some d /\ assoc 8 (d_mv d) = assoc 8 (d_mv with_b)).
Proof. vm_compute. split; [reflexivity|eexists; split; reflexivity]. Qed.

(* ---- a second limit, refuted at full strength (known finding F54) ----
   The result list of a function is a *ast.FieldList: opening parenthesis, fields, closing parenthesis.
   A pattern list "(...)" has its parentheses; a result list written without them ("func r() error") has
   none, one not written at all ("func r()") is a nil pointer - and the matcher compares these fields
   one by one.  So the pattern matches "(error)" and not "error", although both are the list [error]. *)
Example C04_result_list_without_parentheses_refuted :
  let mk := fun _ : N => @None mkind in
  let id n := Iface T_ast_Expr (Ptr T_P_ast_Ident (Struct T_ast_Ident [Pos true; Atom T_string n; Nil T_P_ast_Object])) in
  let dots i := Iface T_ast_Expr (Ptr T_P_pgo_Dots (Struct T_pgo_Dots [Nil T_ast_Expr; Atom T_pgo_DotsPos i])) in
  let field ty := Ptr T_P_ast_Field (Struct T_ast_Field [Nil T_P_ast_CommentGroup; Slice T_S_P_ast_Ident []; ty;
                                                         Nil T_P_ast_BasicLit; Nil T_P_ast_CommentGroup]) in
  let flist paren fs := Ptr T_P_ast_FieldList (Struct T_ast_FieldList [Pos paren; Slice T_S_P_ast_Field fs; Pos paren]) in
  (* atom 7 = error;  pattern "(...)" *)
  let pat := flist true [field (dots 1)] in
  (exists d, mtch mk pat (flist true [field (id 7)]) d0 = Some d) /\      (* func r() (error) *)
  mtch mk pat (flist false [field (id 7)]) d0 = None /\                   (* func r() error   *)
  mtch mk pat (Nil T_P_ast_FieldList) d0 = None.                          (* func r()         *)
Proof. vm_compute. split; [eexists; reflexivity|split; reflexivity]. Qed.

Example C04_ex :
  let mk := fun _ : N => @None mkind in
  let a := Iface T_ast_Expr (Atom 5 1) in
  let b := Iface T_ast_Expr (Atom 5 2) in
  let dots i := Iface T_ast_Expr (Ptr T_P_pgo_Dots (Struct T_pgo_Dots [Nil T_ast_Expr; Atom T_pgo_DotsPos i])) in
  (* f(..., a) against f(a, b, a): the run is [a; b] — needs backtracking past the first a *)
  option_map d_dots (mtch mk (Slice T_S_ast_Expr [dots 1; a]) (Slice T_S_ast_Expr [a; b; a]) d0)
  = Some [(1, [a; b])].
Proof. vm_compute. reflexivity. Qed.

(* The list matcher as the code runs it since fix 58040e3: places (remaining sections, remaining
   elements, what the metavariables of the remaining sections stand for) from which the remaining
   sections were found not to match are remembered and not searched again.  For the engine's matcher
   this returns exactly what the plain search returns - the same answer and the same match data -
   because the outcome of a match depends on the data only through what the pattern's metavariables
   stand for (mtch_frame).  [placeb] is any test that says "equal" only of equal places. *)
Theorem C04_memoised_search_is_the_plain_search : forall mk tp placeb ps ts d,
  (forall a b, placeb a b = true -> a = b) ->
  fst (mlm val val data _ (dots_item tp) (mtch mk) push_dots (lkey mk []) placeb ps ts d [])
  = ml val val data (dots_item tp) (mtch mk) push_dots ps ts d.
Proof. exact engine_memo_is_plain_search. Qed.
Print Assumptions C04_memoised_search_is_the_plain_search.

(* ... the frame property itself: matching a pattern reads and extends the match data only at the
   pattern's own metavariables; two data that agree there give the same outcome and still agree *)
Theorem C04_match_depends_on_its_metavariables_only : forall mk p t d1 d2 d1' L,
  mtch mk p t d1 = Some d1' -> agree (mvs mk p ++ L) d1 d2 ->
  exists d2', mtch mk p t d2 = Some d2' /\ agree (mvs mk p ++ L) d1' d2'.
Proof. exact mtch_frame. Qed.
Print Assumptions C04_match_depends_on_its_metavariables_only.
