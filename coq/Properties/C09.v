(* C09 — changes and patch files are applied strictly in order. *)
From GP Require Import Tree Meta Match Replace FileEngine Program ProgramFacts.

(* The loop over changes is a left fold: applying cs1 ++ cs2 is applying cs2 to the state
   (file, errors) that cs1 left behind; each change is matched against the file the
   previous ones produced. *)
Theorem C09_app : forall ab cs1 cs2 g,
  run_changes ab (cs1 ++ cs2) g =
  fold_left (pstep ab) cs2 (run_changes ab cs1 g).
Proof. intros. unfold run_changes. apply fold_pstep_app. Qed.
Print Assumptions C09_app.

(* several patch files (-p, -P, stdin) are one list of changes, in the order given *)
Theorem C09_flag_order : forall ab progs g,
  run_programs ab progs g = run_changes ab (concat progs) g.
Proof. exact run_programs_concat. Qed.
Print Assumptions C09_flag_order.

(* a change that applies hands its result to the next one *)
Theorem C09_next_sees_result : forall ab s c g',
  ps_errs s = [] -> apply_change c (ps_file s) = OOk g' ->
  ps_file (pstep ab s c) = g' /\ ps_matched (pstep ab s c) = true.
Proof. exact pstep_ok. Qed.
Print Assumptions C09_next_sees_result.

(* a change that does not match is a no-op: file and errors are as before *)
Theorem C09_nomatch_noop : forall ab s c,
  apply_change c (ps_file s) = ONoMatch ->
  ps_file (pstep ab s c) = ps_file s /\ ps_errs (pstep ab s c) = ps_errs s.
Proof. exact pstep_nomatch. Qed.
Print Assumptions C09_nomatch_noop.

(* if a step fails, the failure is kept to the end (the command line also stops there), and
   the driver then writes nothing for the file (C06/C12: outcome ReplaceErr issues no write) *)
Theorem C09_failure_sticks : forall cs s e es,
  ps_errs s = e :: es -> fold_left (pstep true) cs s = s.
Proof. exact fold_after_error. Qed.
Print Assumptions C09_failure_sticks.

Theorem C09_failure_reported : forall ab s c,
  ps_errs s <> [] -> ps_errs (pstep ab s c) <> [].
Proof. exact pstep_error_kept. Qed.
Print Assumptions C09_failure_reported.
