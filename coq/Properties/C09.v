(* C09 — changes and patch files are applied strictly in order. *)
From GP Require Import Tree Meta Match Replace FileEngine Program ProgramFacts Bytes Loader LoaderFacts.

(* The loop over changes is a left fold: applying cs1 ++ cs2 is applying cs2 to the state
   (file, errors) that cs1 left behind; each change is matched against the file the
   previous ones produced. *)
Theorem C09_app : forall ab cs1 cs2 g,
  run_changes ab (cs1 ++ cs2) g =
  fold_left (pstep ab) cs2 (run_changes ab cs1 g).
Proof. intros. unfold run_changes. apply fold_pstep_app. Qed.
Print Assumptions C09_app.

(* several patch files (-p, -P, stdin) are one list of changes, in the order given *)
Theorem C09_flag_order : forall ab progs g,
  run_programs ab progs g = run_changes ab (concat progs) g.
Proof. exact run_programs_concat. Qed.
Print Assumptions C09_flag_order.

(* a change that applies hands its result to the next one *)
Theorem C09_next_sees_result : forall ab s c g',
  ps_errs s = [] -> apply_change c (ps_file s) = OOk g' ->
  ps_file (pstep ab s c) = g' /\ ps_matched (pstep ab s c) = true.
Proof. exact pstep_ok. Qed.
Print Assumptions C09_next_sees_result.

(* a change that does not match is a no-op: file and errors are as before *)
Theorem C09_nomatch_noop : forall ab s c,
  apply_change c (ps_file s) = ONoMatch ->
  ps_file (pstep ab s c) = ps_file s /\ ps_errs (pstep ab s c) = ps_errs s.
Proof. exact pstep_nomatch. Qed.
Print Assumptions C09_nomatch_noop.

(* if a step fails, the failure is kept to the end (the command line also stops there), and
   the driver then writes nothing for the file (C06/C12: outcome ReplaceErr issues no write) *)
Theorem C09_failure_sticks : forall cs s e es,
  ps_errs s = e :: es -> fold_left (pstep true) cs s = s.
Proof. exact fold_after_error. Qed.
Print Assumptions C09_failure_sticks.

Theorem C09_failure_reported : forall ab s c,
  ps_errs s <> [] -> ps_errs (pstep ab s c) <> [].
Proof. exact pstep_error_kept. Qed.
Print Assumptions C09_failure_reported.

(* ---- which patch files are loaded, in which order (Model/Loader.v: main.go loadPatches, loader.go) ----
   the -p files in the order given, then the files the -P list names, in the order of its lines; a
   file named twice is loaded twice; standard input is not read *)
Theorem C09_patch_files_in_order : forall P read compile patches lp content stdin prs1 prs2,
  read lp = Some content ->
  Forall2 (fun p pr => load_file P read compile p = Some pr) patches prs1 ->
  Forall2 (fun p pr => load_file P read compile p = Some pr) (listed content) prs2 ->
  load_patches P read compile patches (Some lp) stdin = LOk (prs1 ++ prs2).
Proof. exact load_order. Qed.
Print Assumptions C09_patch_files_in_order.

Theorem C09_patch_files_in_order_no_list : forall P read compile patches stdin prs, patches <> [] ->
  Forall2 (fun p pr => load_file P read compile p = Some pr) patches prs ->
  load_patches P read compile patches None stdin = LOk prs.
Proof. exact load_order_no_list. Qed.
Print Assumptions C09_patch_files_in_order_no_list.

(* standard input is the patch exactly when neither -p nor -P is given *)
Theorem C09_stdin_only_without_flags : forall P read compile patches plist s1 s2,
  (patches <> [] \/ plist <> None) ->
  load_patches P read compile patches plist s1 = load_patches P read compile patches plist s2.
Proof. exact stdin_ignored. Qed.
Print Assumptions C09_stdin_only_without_flags.

Theorem C09_stdin_is_the_patch : forall P read compile stdin pr,
  compile STDIN_NAME stdin = Some pr -> load_patches P read compile [] None stdin = LOk [pr].
Proof. exact load_stdin. Qed.
Print Assumptions C09_stdin_is_the_patch.

(* the first patch file that cannot be read or does not compile ends the loading and is the one named;
   nothing is applied *)
Theorem C09_first_bad_patch_file_is_reported : forall P read compile ps1 p ps2 plist stdin prs,
  Forall2 (fun q pr => load_file P read compile q = Some pr) ps1 prs -> load_file P read compile p = None ->
  load_patches P read compile (ps1 ++ p :: ps2) plist stdin = LErr 1 p.
Proof. exact load_first_failure_p. Qed.
Print Assumptions C09_first_bad_patch_file_is_reported.
