(* C15 — exactly the requested Go files are processed, each once. *)
From GP Require Import Bytes Discover DiscoverFacts.
From Coq Require Import Sorted.

(* What a walk from a node reaches (Reach, Proofs/DiscoverFacts.v): a regular file with a
   name ending in .go, through directories none of which — the starting one included — is
   named vendor or testdata or starts with '.' or '_'.  Symlinks and other non-regular
   files are never reached; a file named directly is reached wherever it lives. *)
Theorem C15_walk_spec : forall n p q,
  In q (walk p n) <-> exists rest, q = p ++ rest /\ Reach (last_name p) n rest.
Proof. exact walk_spec. Qed.
Print Assumptions C15_walk_spec.

(* The set of files processed: exactly those reached from some argument. *)
Theorem C15_spec : forall root cwd args q,
  In q (map f_abs (fst (find_files root cwd args))) <->
  exists arg p rel n rest,
    In arg args /\ resolve cwd arg = (p, rel) /\ locate root p = Some n /\
    q = p ++ rest /\ Reach (last_name p) n rest.
Proof. exact find_files_spec. Qed.
Print Assumptions C15_spec.

(* Each file exactly once, however the arguments overlap or repeat. *)
Theorem C15_nodup : forall root cwd args,
  NoDup (map f_abs (fst (find_files root cwd args))).
Proof. exact find_files_nodup. Qed.
Print Assumptions C15_nodup.

(* In a fixed order: ascending byte order of the absolute path string, whatever the
   order of the arguments. *)
Theorem C15_sorted : forall root cwd args,
  Sorted le_found (fst (find_files root cwd args)).
Proof. exact find_files_sorted. Qed.
Print Assumptions C15_sorted.

(* One walk never yields a file twice (entries of a directory have distinct names). *)
Theorem C15_walk_nodup : forall n, wf_node n -> forall p, NoDup (walk p n).
Proof. exact walk_nodup. Qed.
Print Assumptions C15_walk_nodup.

(* Inversion facts making the negative half explicit. *)
Theorem C15_no_symlink_no_other : forall p, walk p Sym = [] /\ walk p Other = [].
Proof. intros p. split; reflexivity. Qed.
Print Assumptions C15_no_symlink_no_other.

Theorem C15_explicit_file_anywhere : forall p,
  go_name (last_name p) = true -> walk p File = [p].
Proof. intros p H. simpl. rewrite H. reflexivity. Qed.
Print Assumptions C15_explicit_file_anywhere.

(* Non-vacuity *)
From Coq Require Import String.
Example C15_ex :
  let b := fun s => s2b s in
  let tree := Dir [ (b "w"%string, Dir [ (b "a.go"%string, File); (b "b.txt"%string, File);
                               (b "l.go"%string, Sym);
                               (b "vendor"%string, Dir [(b "v.go"%string, File)]);
                               (b "x.go"%string, Dir [(b "y.go"%string, File)]) ]) ] in
  map f_provided (fst (find_files tree [b "w"%string] [b "./..."%string; b "vendor/v.go"%string; b "a.go"%string]))
  = [b "a.go"%string; b "vendor/v.go"%string; b "x.go/y.go"%string].
Proof. vm_compute. reflexivity. Qed.
