(* C12 — dry-run modes never write, and all output modes agree. *)
From GP Require Import Bytes Generated Cli CliFacts DriverProofs.

(* With --diff or --print-only the run issues no write operation at all: for every
   patch outcome, every set of files (readable or not, parseable or not) and every
   other flag. *)
Theorem C12_dry_run_no_write :
  forall parses header_of engine process o ts e,
  o_diff o || o_print o = true ->
  In e (r_events (run parses header_of engine process o ts)) -> is_write e = false.
Proof. exact dry_run_no_write. Qed.
Print Assumptions C12_dry_run_no_write.

(* The new content of a file is the same list (empty or one element) in the three
   modes: what the default mode writes = what --print-only prints = the "new" side
   handed to the diff printer. *)
Theorem C12_modes_agree :
  forall parses header_of engine process o i t,
  emitted_list (solo parses header_of engine process (as_write o) i t)
  = emitted_list (solo parses header_of engine process (as_print o) i t) /\
  emitted_list (solo parses header_of engine process (as_write o) i t)
  = emitted_list (solo parses header_of engine process (as_diff o) i t).
Proof. exact modes_agree. Qed.
Print Assumptions C12_modes_agree.

(* ... and the "old" side of every diff is the file's original content, printed
   under the path as the user provided it. *)
Theorem C12_diff_old_is_content :
  forall parses header_of engine process o ts j p old new,
  In (EvDiff j p old new) (r_events (run parses header_of engine process o ts)) ->
  exists t, nth_error ts j = Some t /\ p = t_provided t /\ t_read t = inl old.
Proof. exact diff_old_is_content. Qed.
Print Assumptions C12_diff_old_is_content.

(* The library API returns the same bytes (it always processes imports). *)
Theorem C12_api_agrees :
  forall parses header_of engine process o i t c,
  o_skip_imports o = false -> t_read t = inl c -> parses c = None ->
  o_skip_generated o && check_generated_code (header_of c) = false ->
  forall bs,
    (emitted_list (solo parses header_of engine process o i t) = [bs] ->
       api_apply parses engine process c = inl bs) /\
    (api_apply parses engine process c = inl bs ->
       (engine c = NoMatch /\ bs = c) \/
       emitted_list (solo parses header_of engine process o i t) = [bs]).
Proof. exact api_agrees. Qed.
Print Assumptions C12_api_agrees.

(* Descriptions are printed (on stderr: EvDesc) only in the preview modes, only for a
   file in which a change matched, and are that change's description lines. *)
Theorem C12_descriptions :
  forall parses header_of engine process o ts j p d,
  In (EvDesc j p d) (r_events (run parses header_of engine process o ts)) ->
  o_diff o || o_print o = true /\
  exists t c cs fmt, nth_error ts j = Some t /\ p = t_provided t /\ t_read t = inl c /\
                     engine c = Matched cs (inl fmt) /\ In d cs.
Proof. exact descriptions. Qed.
Print Assumptions C12_descriptions.

Example C12_ex :
  let parses := fun _ : bytes => @None bytes in
  let header_of := fun _ : bytes => {| h_groups := []; h_doc := [] |} in
  let engine := fun b : bytes => Matched [[35%N]] (inl (b ++ [1%N])) in
  let process := fun b : bytes => @inl bytes bytes (b ++ [2%N]) in
  let o := {| o_diff := false; o_print := false; o_skip_imports := false;
              o_skip_generated := false; o_verbose := false |} in
  let t1 := {| t_abs := [1%N]; t_provided := [9%N]; t_read := inl [10%N]; t_write_err := None |} in
  emitted_list (solo parses header_of engine process (as_write o) 0 t1) = [[10%N; 1%N; 2%N]] /\
  r_events (run parses header_of engine process (as_diff o) [t1])
  = [EvDesc 0 [9%N] [35%N]; EvDiff 0 [9%N] [10%N] [10%N; 1%N; 2%N]; EvLog 0 [1%N] LPatched].
Proof. vm_compute. split; reflexivity. Qed.
