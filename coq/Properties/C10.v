(* C10 — package and import clauses in a change guard the whole file. *)
From GP Require Import Tree Meta Match Replace FileEngine MatchFacts ImportFacts.

(* An import clause of the '-' side is satisfied exactly by an import of the same path in
   the stated form (after fix ec32fb3: ANY import of that path). *)
Theorem C10_import_any_spec : forall mk p specs d b r,
  match_import mk p specs d b = Some r ->
  exists s, In s specs /\ i_path s = p_path p /\ match_spec mk p s d b = Some r.
Proof. exact match_import_any. Qed.
Print Assumptions C10_import_any_spec.

Theorem C10_import_some_spec : forall mk p specs d b s r,
  In s specs -> i_path s = p_path p -> match_spec mk p s d b = Some r ->
  exists r', match_import mk p specs d b = Some r'.
Proof. exact match_import_some. Qed.
Print Assumptions C10_import_some_spec.

(* the table: unnamed <-> unnamed *)
Theorem C10_unnamed : forall mk p s d b,
  p_name p = None -> (exists r, match_spec mk p s d b = Some r) <-> i_name s = None.
Proof. exact spec_unnamed_unnamed. Qed.
Print Assumptions C10_unnamed.

(* a literal name (including "." and "_") <-> exactly that name *)
Theorem C10_literal_name : forall mk p pn s d b,
  p_name p = Some pn -> mk pn = None ->
  (exists r, match_spec mk p s d b = Some r) <-> i_name s = Some pn.
Proof. exact spec_literal. Qed.
Print Assumptions C10_literal_name.

(* an identifier metavariable (not yet bound) <-> any name, or none *)
Theorem C10_metavariable_name : forall mk p pn s b,
  p_name p = Some pn -> mk pn = Some KIdent -> assoc pn (d_mv d0) = None ->
  exists r, match_spec mk p s d0 b = Some r.
Proof. exact spec_metavar_unbound. Qed.
Print Assumptions C10_metavariable_name.

(* a failing guard: the change has no effect on the file, whatever its code pattern *)
Theorem C10_package_guard_fails : forall c g p,
  ch_minus_pkg c = Some p -> pkg_name (g_tree g) <> Some p -> apply_change c g = ONoMatch.
Proof.
  intros c g p Hp Hq. unfold apply_change. rewrite Hp.
  destruct (pkg_name (g_tree g)) as [q|]; [|reflexivity].
  destruct (N.eqb p q) eqn:E; [apply N.eqb_eq in E; subst; congruence|reflexivity].
Qed.
Print Assumptions C10_package_guard_fails.

Theorem C10_import_guard_fails : forall c g,
  match ch_minus_pkg c with
  | Some p => pkg_name (g_tree g) = Some p
  | None => True
  end ->
  match_imports (mk_of c) (ch_minus_imports c) (g_imports g) d0 {| id_bound := []; id_matched := [] |} = None ->
  apply_change c g = ONoMatch.
Proof.
  intros c g Hp Hm. unfold apply_change.
  destruct (ch_minus_pkg c) as [p|].
  - rewrite Hp, N.eqb_refl. simpl. rewrite Hm. reflexivity.
  - simpl. rewrite Hm. reflexivity.
Qed.
Print Assumptions C10_import_guard_fails.

Example C10_ex :
  let mk := fun n : N => if N.eqb n 9 then Some KIdent else None in
  let unnamed := {| i_name := None; i_path := 5; i_base := 6 |} in
  let named := {| i_name := Some 7; i_path := 5; i_base := 6 |} in
  (* patch: import "p5" (unnamed) / import n7 "p5" / import mv9 "p5" *)
  (match_import mk {| p_name := None; p_path := 5; p_base := 6 |} [named] d0 [] = None) /\
  (exists r, match_import mk {| p_name := None; p_path := 5; p_base := 6 |} [named; unnamed] d0 [] = Some r) /\
  (match_import mk {| p_name := Some 7; p_path := 5; p_base := 6 |} [unnamed] d0 [] = None) /\
  (exists r, match_import mk {| p_name := Some 9; p_path := 5; p_base := 6 |} [unnamed] d0 [] = Some r) /\
  (exists r, match_import mk {| p_name := Some 9; p_path := 5; p_base := 6 |} [named] d0 [] = Some r).
Proof. repeat split; try (eexists; vm_compute; reflexivity); vm_compute; reflexivity. Qed.
