(* Model of parse/meta.go (metaParser over go/scanner tokens) and of
   engine/meta.go:compileMeta.  The token list is an oracle (go/scanner run on the
   scratch buffer of the metavariable section); what is done with the tokens, and
   which token an error is pinned on, is transcribed. *)
From GP Require Export Bytes.
From Coq Require Import String.

Inductive tkind := TVar | TIdent | TComma | TSemi | TEof | TOther.

Record tok := { t_off : nat; t_kind : tkind; t_text : bytes }.

Definition tkind_eqb (a b : tkind) : bool :=
  match a, b with
  | TVar, TVar | TIdent, TIdent | TComma, TComma | TSemi, TSemi | TEof, TEof | TOther, TOther => true
  | _, _ => false
  end.

Inductive merr :=
| MExpectedVar (off : nat)       (* unexpected X, expected "var" *)
| MExpectedIdent (off : nat)     (* unexpected X, expected an identifier *)
| MExpectedSemi (off : nat)      (* unexpected X, expected ";" or a newline *)
| MUnknownType (off : nat) (ty : bytes)
| MDuplicate (off : nat) (nm : bytes) (first : nat).

Record vardecl := { d_var : nat; d_names : list (nat * bytes); d_type : nat * bytes }.

(* the scanner: a finite token list, then EOF forever *)
Definition cur (ts : list tok) (eof : nat) : tok :=
  match ts with t :: _ => t | [] => {| t_off := eof; t_kind := TEof; t_text := [] |} end.

(* names after "var" / ",": IDENT (COMMA IDENT)* ; returns names, rest, or the error *)
Fixpoint parse_names (fuel : nat) (ts : list tok) (eof : nat)
  : (list (nat * bytes) * list tok) + merr :=
  match fuel with
  | O => inr (MExpectedIdent eof)
  | S fuel' =>
      (* p.next() has skipped var or ',' : ts starts at the would-be identifier *)
      let t := cur ts eof in
      match t_kind t with
      | TIdent =>
          let ts1 := tl ts in
          match t_kind (cur ts1 eof) with
          | TComma =>
              match parse_names fuel' (tl ts1) eof with
              | inl (ns, r) => inl ((t_off t, t_text t) :: ns, r)
              | inr e => inr e
              end
          | _ => inl ([(t_off t, t_text t)], ts1)
          end
      | _ => inr (MExpectedIdent (t_off t))
      end
  end.

(* parseDecl; on success the remaining tokens (after the ';') *)
Definition parse_decl (ts : list tok) (eof : nat) : (vardecl * list tok) + merr :=
  let t := cur ts eof in
  match t_kind t with
  | TVar =>
      match parse_names (S (List.length ts)) (tl ts) eof with
      | inr e => inr e
      | inl (ns, r) =>
          let ty := cur r eof in
          match t_kind ty with
          | TIdent =>
              let r1 := tl r in
              match t_kind (cur r1 eof) with
              | TSemi => inl ({| d_var := t_off t; d_names := ns; d_type := (t_off ty, t_text ty) |}, tl r1)
              | _ => inr (MExpectedSemi (t_off (cur r1 eof)))
              end
          | _ => inr (MExpectedIdent (t_off ty))
          end
      end
  | _ => inr (MExpectedVar (t_off t))
  end.

(* parse: declarations until EOF or the first error *)
Fixpoint parse_meta (fuel : nat) (ts : list tok) (eof : nat) : list vardecl * list merr :=
  match fuel with
  | O => ([], [])
  | S fuel' =>
      match t_kind (cur ts eof) with
      | TEof => ([], [])
      | _ =>
          match parse_decl ts eof with
          | inr e => ([], [e])
          | inl (d, r) => let (ds, es) := parse_meta fuel' r eof in (d :: ds, es)
          end
      end
  end.

(* ---- engine/meta.go:compileMeta ---- *)
Inductive mkind := KExpr | KIdent.

Definition ty_identifier : bytes := s2b "identifier"%string.
Definition ty_expression : bytes := s2b "expression"%string.
Definition underscore : bytes := [95%N].

Fixpoint lookup_decl (tbl : list (bytes * (mkind * nat))) (nm : bytes) : option (mkind * nat) :=
  match tbl with
  | [] => None
  | (n, v) :: tbl' => if beq n nm then Some v else lookup_decl tbl' nm
  end.

Definition compile_names (k : mkind) (acc : list (bytes * (mkind * nat)) * list merr) (n : nat * bytes)
  : list (bytes * (mkind * nat)) * list merr :=
  let (tbl, es) := acc in
  if beq (snd n) underscore then acc
  else match lookup_decl tbl (snd n) with
       | Some (_, first) => (tbl, es ++ [MDuplicate (fst n) (snd n) first])
       | None => (tbl ++ [(snd n, (k, fst n))], es)
       end.

Definition compile_decl (acc : list (bytes * (mkind * nat)) * list merr) (d : vardecl)
  : list (bytes * (mkind * nat)) * list merr :=
  if beq (snd (d_type d)) ty_identifier then fold_left (compile_names KIdent) (d_names d) acc
  else if beq (snd (d_type d)) ty_expression then fold_left (compile_names KExpr) (d_names d) acc
  else (fst acc, snd acc ++ [MUnknownType (fst (d_type d)) (snd (d_type d))]).

Definition compile_meta (ds : list vardecl) : list (bytes * (mkind * nat)) * list merr :=
  fold_left compile_decl ds ([], []).

(* Meta.LookupVar *)
Definition lookup_var (tbl : list (bytes * (mkind * nat))) (nm : bytes) : option mkind :=
  match lookup_decl tbl nm with Some (k, _) => Some k | None => None end.
