(* Model of the replacer side of internal/engine: replacerCompiler.compile fused with
   Replacer.Replace (reflect_replace.go, replacer.go, metavar.go, slice_dots.go,
   for_dots.go, stmt_list.go, pos.go), and of engine/change.go:connectDots. *)
From GP Require Export Match.

Inductive rerr :=
| ENoMetavar (x : N)           (* could not find value for metavariable *)
| ENoForData                   (* match data not found for 'for ...' *)
| ENoStmtData                  (* no statement matches found *)
| ENotAssignable (give want : ty).  (* cannot use X where Y is expected *)

Inductive res (A : Type) := Ok (a : A) | Err (e : rerr).
Arguments Ok {A} a.
Arguments Err {A} e.

Definition slice_elem (t : ty) : ty := match assoc t slice_table with Some e => e | None => 0 end.

(* type of a value as reflect sees it when it is about to be stored *)
Definition give_type (v : val) : ty := dyn_type v.

Definition check_assignable (v : val) (want : ty) : res val :=
  if assignable (give_type v) want then Ok v else Err (ENotAssignable (give_type v) want).

(* every item must fit the element type (result.Index(i).Set(item)) *)
Fixpoint check_all (elem : ty) (vs : list val) : res (list val) :=
  match vs with
  | [] => Ok []
  | v :: vs' =>
      match (match v with Ptr _ _ | Iface _ _ | Nil _ => check_assignable v elem | _ => Ok v end) with
      | Ok _ => match check_all elem vs' with Ok r => Ok (v :: r) | Err e => Err e end
      | Err e => Err e
      end
  end.

(* the field loop of StructReplacer and the item loop of Slice(Dots)Replacer, generic in the
   replacer of the parts *)
Section Loops.
  Variable r : val -> ty -> res val.
  Fixpoint ifields (ps : list val) (fis : list finfo) : res (list val) :=
    match ps with
    | [] => Ok []
    | p :: ps' =>
        let want := match fis with fi :: _ => f_type fi | [] => 0 end in
        match r p want with
        | Ok v =>
            match (match v with
                   | Ptr _ _ | Iface _ _ => check_assignable v want   (* v.Field(i).Set(fv) *)
                   | _ => Ok v
                   end) with
            | Ok v' => match ifields ps' (tl fis) with
                       | Ok vs => Ok (v' :: vs)
                       | Err e => Err e
                       end
            | Err e => Err e
            end
        | Err e => Err e
        end
    end.

  Variable r1 : val -> res val.
  Variable run : N -> list val.
  Variable tp : ty.
  Fixpoint ilist (ps : list val) : res (list val) :=
    match ps with
    | [] => Ok []
    | p :: ps' =>
        match dots_item tp p with
        | Some i =>
            (* the run the associated '-' dots skipped, as it is now *)
            match ilist ps' with
            | Ok vs => Ok (run i ++ vs)
            | Err e => Err e
            end
        | None =>
            match r1 p with
            | Ok v => match ilist ps' with
                      | Ok vs => Ok (v :: vs)
                      | Err e => Err e
                      end
            | Err e => Err e
            end
        end
    end.
End Loops.

(* what the replacer compiled from a captured value reproduces: a copy of the value (comment
   groups are already absent from the trees).  Ident.Obj is kept - the object itself is not
   copied - so that a local variable is still told from the package of the same name when
   imports are cleaned up (repo fix 2ef8625; before it the copy lost its *ast.Object links) *)
Definition strip (v : val) : val := v.

Section Replace.
  Variable mk : N -> option mkind.            (* Meta.LookupVar *)
  Variable assoc_dots : N -> N.               (* dotAssoc: '+' dots id -> '-' dots id *)
  (* What a captured run element / header field looks like when the replacement is built:
     the engine reads them through references into the tree that is being rewritten, so
     rewrites already made below are seen (see FileEngine.v). *)
  Variable cap : val -> val.                      (* an element of a skipped run (a slot) *)
  Variable capf : ty -> list val -> list val.     (* the fields of a recorded for/range/block/clause *)

  (* fields of a struct pattern against the static field types of that struct *)
  Fixpoint inst (p : val) (want : ty) (d : data) {struct p} : res val :=
    match p with
    | Nil t => Ok (Nil t)
    | Pos b => Ok (Pos b)                 (* valid stays valid (matched or fallback position) *)
    | Atom t a => Ok (Atom t a)
    | Ptr tp ps =>
        if N.eqb tp T_P_ast_Object then Ok (Nil tp) else      (* *ast.Object: never reproduced *)
        let generic := fun (_ : unit) =>
          match inst ps 0 d with
          | Ok v => Ok (Ptr tp v)
          | Err e => Err e
          end in
        match ps with
        | Struct sp [ppos; Atom ta name; pobj] =>
            match (if N.eqb tp T_P_ast_Ident then mk name else None) with
            | Some _ =>
                (* MetavarReplacer: a fresh copy of what the metavariable stood for *)
                match assoc name (d_mv d) with
                | Some v => Ok (strip v)
                | None => Err (ENoMetavar name)
                end
            | None => generic tt
            end
        | Struct _ [_; Nil _; Iface _ c; Nil _; body] =>
            match (if N.eqb tp T_P_ast_ForStmt then is_dots c else None) with
            | Some i =>
                (* ForDotsReplacer: the recorded for/range header, with the new body *)
                match assoc (assoc_dots i) (d_for d) with
                | None => Err ENoForData
                | Some (st, fs) =>
                    match inst body T_P_ast_BlockStmt d with
                    | Ok vbody =>
                        let idx := if N.eqb st T_ast_RangeStmt then I_RangeStmt_Body else I_ForStmt_Body in
                        Ok (Ptr (if N.eqb st T_ast_RangeStmt then T_P_ast_RangeStmt else T_P_ast_ForStmt)
                                (Struct st (set_nth idx vbody (capf st fs))))
                    | Err e => Err e
                    end
                end
            | None => generic tt
            end
        | _ => generic tt
        end
    | Iface ti ps =>
        match inst ps ti d with
        | Ok v => match check_assignable v ti with
                  | Ok v' => Ok (Iface ti v')
                  | Err e => Err e
                  end
        | Err e => Err e
        end
    | Struct sp ps =>
        match ifields (fun p want => inst p want d) ps (fields_of sp) with
        | Ok vs => Ok (Struct sp vs)
        | Err e => Err e
        end
    | Slice tp ps =>
        let elem := slice_elem tp in
        let run := fun i => match assoc (assoc_dots i) (d_dots d) with
                            | Some r => map cap r
                            | None => []
                            end in
        match ilist (fun p => inst p elem d) run tp ps with
        | Err e => Err e
        | Ok vs =>
            if existsb (fun p => match dots_item tp p with Some _ => true | None => false end) ps
            then
              (* SliceDotsReplacer: nil when empty; every item must fit the element type *)
              match vs with
              | [] => Ok (Nil tp)
              | _ => match check_all elem vs with Ok vs' => Ok (Slice tp vs') | Err e => Err e end
              end
            else
              match check_all elem vs with Ok vs' => Ok (Slice tp vs') | Err e => Err e end
        end
    end.

  (* statement patterns: the recorded block / clause with its statement list rebuilt *)
  Definition inst_stmts (id_start id_end : N) (stmts : list val) (d : data) : res val :=
    match d_stmt d with
    | None => Err ENoStmtData
    | Some (st, fs) =>
        let '(pt, idx) :=
          if N.eqb st T_ast_BlockStmt then (T_P_ast_BlockStmt, I_BlockStmt_List)
          else if N.eqb st T_ast_CaseClause then (T_P_ast_CaseClause, I_CaseClause_Body)
          else (T_P_ast_CommClause, I_CommClause_Body) in
        match inst (stmt_pattern id_start id_end stmts) T_S_ast_Stmt d with
        | Ok vs => Ok (Ptr pt (Struct st (set_nth idx vs (capf st fs))))
        | Err e => Err e
        end
    end.

  Definition inst_node (p : npat) (d : data) : res val :=
    match p with
    | PNode v => inst v 0 d
    | PStmts s e l => inst_stmts s e l d
    end.
End Replace.

(* ---- engine/change.go:connectDots: each '+' dots is paired with the closest '-' dots
   that is not after it in the patch file ((line, column) order) ---- *)
Record dpos := { dp_id : N; dp_line : N; dp_col : N }.

Definition dpos_le (a b : dpos) : bool :=
  N.ltb (dp_line a) (dp_line b) || (N.eqb (dp_line a) (dp_line b) && N.leb (dp_col a) (dp_col b)).

(* the greatest '-' dots that is <= r; None: "does not have an associated ..." *)
Definition best_le (lhs : list dpos) (r : dpos) : option dpos :=
  fold_left (fun best l =>
               if dpos_le l r
               then match best with
                    | Some b => if dpos_le b l then Some l else Some b
                    | None => Some l
                    end
               else best) lhs None.

(* The implicit "..." in front of a statement patch ([lead]: its id on the '-' side, 0 when there is
   none) stands for code OUTSIDE the patch: only the '+' elision at the same place - the implicit one
   of the '+' side - repeats it (repo fix e818090).  A '+' elision written before every explicit '-'
   elision has no counterpart. *)
Definition same_place (a b : dpos) : bool := dpos_le a b && dpos_le b a.

Definition pick (lead : N) (lhs : list dpos) (r : dpos) : option dpos :=
  match best_le lhs r with
  | Some l => if N.eqb (dp_id l) lead && negb (same_place l r) then None else Some l
  | None => None
  end.

Fixpoint connect_dots (lead : N) (lhs rhs : list dpos) : option (list (N * N)) :=
  match rhs with
  | [] => Some []
  | r :: rhs' =>
      match pick lead lhs r with
      | None => None
      | Some l => match connect_dots lead lhs rhs' with
                  | Some m => Some ((dp_id r, dp_id l) :: m)
                  | None => None
                  end
      end
  end.

Definition assoc_of (m : list (N * N)) (i : N) : N :=
  match assoc i m with Some j => j | None => 0 end.

(* ---- which "..." take part in the association ----
   Only the elisions the compilers record (matcherCompiler.dots / replacerCompiler.dots):
   items of expression, statement and field lists, the condition of "for ... {", and the
   implicit elisions around a statement-list pattern.  A pgo.Dots anywhere else (a type
   assertion "x.(...)", an array length "[...]T") is compiled as an ordinary node. *)
Fixpoint elisions (p : val) : list N :=
  match p with
  | Ptr tp ps =>
      match ps with
      | Struct _ [_; Nil _; Iface _ c; Nil _; body] =>
          match (if N.eqb tp T_P_ast_ForStmt then is_dots c else None) with
          | Some i => i :: elisions body
          | None => elisions ps
          end
      | _ => elisions ps
      end
  | Iface _ ps => elisions ps
  | Struct _ ps => (fix go (l : list val) : list N := match l with [] => [] | x :: l' => elisions x ++ go l' end) ps
  | Slice tp ps =>
      (fix go (l : list val) : list N :=
         match l with
         | [] => []
         | x :: l' => match dots_item tp x with Some i => [i] | None => elisions x end ++ go l'
         end) ps
  | _ => []
  end.

Definition elisions_n (p : npat) : list N :=
  match p with
  | PNode v => elisions v
  | PStmts s e vs => (if N.eqb s 0 then [] else [s]) ++ e :: elisions (Slice T_S_ast_Stmt vs)
  end.

Definition recorded (p : npat) (ds : list dpos) : list dpos :=
  filter (fun d => existsb (N.eqb (dp_id d)) (elisions_n p)) ds.

(* compileChange: connectDots over the recorded elisions of the two sides *)
Definition change_assoc (minus plus : npat) (mdots pdots : list dpos) : option (list (N * N)) :=
  connect_dots (match minus with PStmts s _ _ => s | PNode _ => 0 end)
               (recorded minus mdots) (recorded plus pdots).
