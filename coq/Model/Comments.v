(* Model of the comment bookkeeping after each change:
     engine/changelog.go   Changelog.ChangedIntervals = changed spans minus unchanged spans
     main.go / patch/gopatch.go   cleanupFilePos: delete the comments that lie entirely
                                  inside a changed interval
   Positions are integers relative to the start of the target file; [nopos] stands for
   token.NoPos.  The spans themselves (what astdiff and the replacers report) are inputs. *)
From Coq Require Export List ZArith Bool.
Export ListNotations.
Local Open Scope Z_scope.

Definition nopos : Z := - 2 ^ 40.

Record cmt := { c_id : N; c_pos : Z; c_end : Z }.       (* c_end = c_pos + len(text) *)
Definition iv : Type := (Z * Z)%type.                      (* [start, end) *)

(* ---- Changelog ---- *)
Definition nonempty (i : iv) : bool := fst i <? snd i.

(* a \ m  (span.Bisect around the intersection) *)
Definition sub1 (m a : iv) : list iv :=
  let (s, e) := a in
  let (ms, me) := m in
  if (me <=? s) || (e <=? ms) || negb (nonempty m) then [a]
  else (if s <? ms then [(s, ms)] else []) ++ (if me <? e then [(me, e)] else []).

Definition sub_all (ps : list iv) (m : iv) : list iv := flat_map (sub1 m) ps.

(* set.Add(plus); set.Sub(minus); set.Intervals *)
Definition changed_intervals (plus minus : list iv) : list iv :=
  fold_left sub_all minus (filter nonempty plus).

Definition covers (ivs : list iv) (p : Z) : Prop := exists i, In i ivs /\ fst i <= p < snd i.

(* ---- cleanupFilePos, the comment part ---- *)
Definition inside (i : iv) (c : cmt) : bool := (fst i <=? c_pos c) && (c_end c <=? snd i).

Definition cleanup1 (cs : list cmt) (i : iv) : list cmt :=
  if fst i =? nopos then cs else filter (fun c => negb (inside i c)) cs.

Definition cleanup (ivs : list iv) (cs : list cmt) : list cmt := fold_left cleanup1 ivs cs.

(* one change: the intervals come from the changelog *)
Definition step (cs : list cmt) (pm : list iv * list iv) : list cmt :=
  cleanup (changed_intervals (fst pm) (snd pm)) cs.

Definition run_steps (steps : list (list iv * list iv)) (cs : list cmt) : list cmt := fold_left step steps cs.

(* ---- the lines merged by cleanupFilePos ----
   for i := Line(start); i < Line(end); i++ : delete line i (i > 0) *)
Definition line_of (starts : list Z) (p : Z) : nat :=      (* token.File.Line: number of line starts <= p *)
  length (filter (fun s => s <=? p) starts).

Definition lines_to_merge (starts : list Z) (ivs : list iv) : list nat :=
  flat_map (fun i => if fst i =? nopos then []
                     else filter (fun l => Nat.ltb 0 l) (seq (line_of starts (fst i)) (line_of starts (snd i) - line_of starts (fst i)))) ivs.
