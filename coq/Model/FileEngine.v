(* Model of engine/file.go (FileMatcher.Match, FileReplacer.Replace), engine/import.go and
   engine/cchange.go: what one change does to one parsed file.

   The real code records every traversed node at which the node matcher succeeds, then
   replaces them in place innermost-first through (parent, field, index).  Replacement
   values are fresh except for skipped runs and recorded for/block headers, which are
   read through references into the tree being rewritten.  Read that way, the result is
   the recursive function [rw] below (see DESIGN.md): at a node where the pattern matches
   the ORIGINAL subtree, the '+' pattern instantiated with the bindings, in which runs
   and headers are the rewritten ones; elsewhere the node with its children rewritten. *)
From GP Require Export Replace.

(* ---- imports, abstracted to what the engine reads ---- *)
Record imp := { i_name : option N; i_path : N; i_base : N }.       (* a file's import spec *)
Record pimp := { p_name : option N; p_path : N; p_base : N }.      (* an import clause of a pattern *)

(* importKey: an import clause of the patch is identified by its path and its name in the patch
   (a patch may list the same path more than once, under different names) *)
Definition ikey : Type := (N * option N)%type.
Definition ikey_eqb (a b : ikey) : bool :=
  N.eqb (fst a) (fst b) &&
  match snd a, snd b with Some x, Some y => N.eqb x y | None, None => true | _, _ => false end.
Fixpoint assoc_ikey {A} (k : ikey) (l : list (ikey * A)) : option A :=
  match l with
  | [] => None
  | (k', v) :: l' => if ikey_eqb k k' then Some v else assoc_ikey k l'
  end.

Record idata := {
  id_bound : list (ikey * (N * bool));       (* import clause -> (package name recorded for it, bound through an unnamed import?) *)
  id_matched : list (N * (option N * N))     (* MatchedImports (path, (name in the patch, filepath.Base of the path)), in patch order *)
}.

Definition ident_val (name : N) : val :=
  Ptr T_P_ast_Ident (Struct T_ast_Ident [Pos true; Atom T_string name; Nil T_P_ast_Object]).

Section Change.
  Variable mk : N -> option mkind.

  (* the identifier matcher of an import name: a metavariable binds/compares, a literal compares *)
  Definition match_import_name (pname : N) (got : N) (d : data) : option data :=
    match mk pname with
    | Some k =>
        (* an identifier always passes both kind tests *)
        match assoc pname (d_mv d) with
        | Some c => if eqvb c (ident_val got) then Some d else None
        | None => Some (push_mv pname (ident_val got) d)
        end
    | None => if N.eqb pname got then Some d else None
    end.

  Definition is_ident_mv (n : N) : bool :=
    match mk n with Some KIdent => true | _ => false end.

  (* ImportMatcher.matchSpec *)
  Definition match_spec (p : pimp) (s : imp) (d : data) (b : list (ikey * (N * bool)))
    : option (data * list (ikey * (N * bool))) :=
    match p_name p, i_name s with
    | None, None => Some (d, b)
    | None, Some _ => None
    | Some pn, None =>
        if is_ident_mv pn then
          match match_import_name pn pn d with
          | Some d' => Some (d', ((p_path p, p_name p), (pn, true)) :: b)
          | None => None
          end
        else None
    | Some pn, Some sn =>
        match match_import_name pn sn d with
        | Some d' => Some (d', ((p_path p, p_name p), (sn, false)) :: b)
        | None => None
        end
    end.

  (* ImportMatcher.Match: any import of the path in the requested form *)
  Fixpoint match_import (p : pimp) (specs : list imp) (d : data) (b : list (ikey * (N * bool)))
    : option (data * list (ikey * (N * bool))) :=
    match specs with
    | [] => None
    | s :: specs' =>
        if N.eqb (i_path s) (p_path p)
        then match match_spec p s d b with
             | Some r => Some r
             | None => match_import p specs' d b
             end
        else match_import p specs' d b
    end.

  (* ImportsMatcher.Match *)
  Fixpoint match_imports (ps : list pimp) (specs : list imp) (d : data) (id : idata) : option (data * idata) :=
    match ps with
    | [] => Some (d, id)
    | p :: ps' =>
        match match_import p specs d (id_bound id) with
        | Some (d', b') =>
            match_imports ps' specs d' {| id_bound := b'; id_matched := id_matched id ++ [(p_path p, (p_name p, p_base p))] |}
        | None => None
        end
    end.

  (* ---- the traversal and the per-node rewrite ---- *)
  Variable assoc_dots : N -> N.
  Variable minus plus : npat.
  Variable dinit : data.          (* bindings made by the import clauses *)

  Definition unwrap (v : val) : val := match v with Iface _ x => x | _ => v end.

  (* the fields of a node that astutil.Apply descends into are rewritten by [r]; a
     slice-typed field element by element *)
  Fixpoint rw_fields (r : val -> val) (fs : list val) (fis : list finfo) : list val :=
    match fs, fis with
    | x :: fs', fi :: fis' =>
        (if f_visited fi then
           match x with
           | Slice t xs => Slice t (map r xs)
           | _ => r x
           end
         else x) :: rw_fields r fs' fis'
    | _, _ => fs
    end.

  Fixpoint rw (fuel : nat) (v : val) {struct fuel} : val :=
    match fuel with
    | O => v
    | S f =>
        let capf := fun (st : ty) (fs : list val) => rw_fields (rw f) fs (fields_of st) in
        match unwrap v with
        | Ptr tp (Struct st fs) =>
            let rebuilt := fun (_ : unit) =>
              let below := Ptr tp (Struct st (capf st fs)) in
              match v with Iface ti _ => Iface ti below | _ => below end in
            match mtch_node mk minus (unwrap v) dinit with
            | Some d =>
                match inst_node mk assoc_dots (rw f) capf plus d with
                | Ok give =>
                    (* FileReplacer: the slot keeps its content when the value does not fit *)
                    match v with
                    | Iface ti _ => if assignable (dyn_type give) ti then Iface ti give else rebuilt tt
                    | _ => match give with
                           | Ptr tq _ => if N.eqb tq tp then give else rebuilt tt
                           | _ => rebuilt tt
                           end
                    end
                | Err _ => rebuilt tt
                end
            | None => rebuilt tt
            end
        | _ => v
        end
    end.

  (* the nodes at which the matcher succeeds, and whether some replacement fails *)
  Fixpoint scan (fuel : nat) (v : val) {struct fuel} : nat * list rerr :=
    match fuel with
    | O => (0%nat, [])
    | S f =>
        match unwrap v with
        | Ptr tp (Struct st fs) =>
            let here :=
              match mtch_node mk minus (unwrap v) dinit with
              | Some d =>
                  match inst_node mk assoc_dots (fun x => x) (fun _ fs => fs) plus d with
                  | Ok _ => (1%nat, [])
                  | Err e => (1%nat, [e])
                  end
              | None => (0%nat, [])
              end in
            (fix go (fs : list val) (fis : list finfo) (acc : nat * list rerr) : nat * list rerr :=
               match fs, fis with
               | x :: fs', fi :: fis' =>
                   let acc' :=
                     if f_visited fi then
                       match x with
                       | Slice _ xs =>
                           fold_left (fun a y => let r := scan f y in ((fst a + fst r)%nat, snd a ++ snd r)) xs acc
                       | _ => let r := scan f x in ((fst acc + fst r)%nat, snd acc ++ snd r)
                       end
                     else acc in
                   go fs' fis' acc'
               | _, _ => acc
               end) fs (fields_of st) here
        | _ => (0%nat, [])
        end
    end.
End Change.

(* ---- a parsed target file and a compiled change ---- *)
Record gofile := {
  g_imports : list imp;
  g_tree : val           (* the *ast.File; import declarations left out of Decls *)
}.

Record cchange := {
  ch_mk : list (N * mkind);
  ch_minus_pkg : option N;  ch_plus_pkg : option N;
  ch_minus_imports : list pimp;  ch_plus_imports : list pimp;
  ch_minus : npat;  ch_plus : npat;
  ch_assoc : list (N * N);
  ch_blank : N;  ch_dot : N           (* the atoms of "_" and "." *)
}.

Definition mk_of (c : cchange) : N -> option mkind := fun n => assoc n (ch_mk c).

(* file.Name.Name *)
Definition pkg_name (tree : val) : option N :=
  match tree with
  | Ptr _ (Struct _ fs) => ident_name (nth_val I_File_Name fs)
  | _ => None
  end.

Definition set_pkg_name (tree : val) (n : N) : val :=
  match tree with
  | Ptr tp (Struct st fs) =>
      match nth_val I_File_Name fs with
      | Ptr ti (Struct si [p; Atom ta _; o]) => Ptr tp (Struct st (set_nth I_File_Name (Ptr ti (Struct si [p; Atom ta n; o])) fs))
      | _ => tree
      end
  | _ => tree
  end.

(* usesNameAsTopLevel: some selector expression whose operand is the identifier [name]
   with no object attached.  Selectors are not searched below their own operand/field. *)
Fixpoint uses_name (fuel : nat) (name : N) (v : val) {struct fuel} : bool :=
  match fuel with
  | O => false
  | S f =>
      match v with
      | Ptr tp (Struct st fs) =>
          if N.eqb tp T_P_ast_SelectorExpr then
            match nth_val I_SelectorExpr_X fs with
            | Iface _ (Ptr ti (Struct _ [_; Atom _ n; o])) =>
                if N.eqb ti T_P_ast_Ident
                then N.eqb n name && match o with Nil _ => true | _ => false end
                else existsb (uses_name f name) fs
            | _ => existsb (uses_name f name) fs
            end
          else existsb (uses_name f name) fs
      | Ptr _ x | Iface _ x => uses_name f name x
      | Struct _ fs => existsb (uses_name f name) fs
      | Slice _ xs => existsb (uses_name f name) xs
      | _ => false
      end
  end.

Definition imp_eqb (a b : imp) : bool :=
  N.eqb (i_path a) (i_path b) &&
  match i_name a, i_name b with
  | None, None => true
  | Some x, Some y => N.eqb x y
  | _, _ => false
  end.

(* astutil.AddNamedImport / DeleteNamedImport on the (name, path) pairs *)
Definition add_import (l : list imp) (i : imp) : list imp * bool :=
  if existsb (imp_eqb i) l then (l, false) else (l ++ [i], true).
Definition del_import (l : list imp) (name : option N) (path : N) : list imp :=
  filter (fun x => negb (imp_eqb x {| i_name := name; i_path := path; i_base := 0 |})) l.

Fixpoint size (v : val) : nat :=
  match v with
  | Struct _ fs => S (fold_right (fun x n => (size x + n)%nat) 0%nat fs)
  | Slice _ xs => S (fold_right (fun x n => (size x + n)%nat) 0%nat xs)
  | Ptr _ x | Iface _ x => S (size x)
  | _ => 1%nat
  end.

(* ImportReplacer.Replace for one import clause of the '+' side *)
Definition add_plus_import (mk : N -> option mkind) (id : idata) (dinit : data)
           (acc : res (list imp * list N)) (p : pimp) : res (list imp * list N) :=
  match acc with
  | Err e => Err e
  | Ok (imps, names) =>
      let via_unnamed := match p_name p with
                         | Some pn => is_ident_mv mk pn &&
                                      existsb (fun b => N.eqb (fst (snd b)) pn && snd (snd b)) (id_bound id)
                         | None => false
                         end in
      let nm : res (option N * N) :=
        match p_name p with
        | None => Ok (None, p_base p)
        | Some pn =>
            if via_unnamed then Ok (None, pn)
            else match mk pn with
                 | Some _ => match assoc pn (d_mv dinit) with
                             | Some v => match ident_name v with
                                         | Some n => Ok (Some n, n)
                                         | None => Err (ENoMetavar pn)
                                         end
                             | None => Err (ENoMetavar pn)
                             end
                 | None => Ok (Some pn, pn)
                 end
        end in
      match nm with
      | Err e => Err e
      | Ok (name, pkgname) =>
          let (imps', added) := add_import imps {| i_name := name; i_path := p_path p; i_base := p_base p |} in
          Ok (imps', if added then names ++ [pkgname] else names)
      end
  end.

(* ImportsReplacer.Cleanup for one matched import *)
(* [blank], [dot]: the atoms of the names "_" and "." (interned strings; given by the harness with each case) *)
Definition cleanup_import (blank dot : N) (plus : list pimp)
           (id : idata) (new_names : list N) (tree : val) (imps : list imp) (pb : N * (option N * N)) : list imp :=
  let path := fst pb in
  let '(pkgname, impname) :=
    match assoc_ikey (path, fst (snd pb)) (id_bound id) with
    | Some (n, true) => (n, None)
    | Some (n, false) => (n, Some n)
    | None => (snd (snd pb), None)
    end in
  (* a blank or dot import that the "+" side lists as well stays: nothing refers to it by name (repo fix 6680ffc) *)
  let kept_by_patch := existsb (fun q => ikey_eqb (p_path q, p_name q) (path, fst (snd pb))) plus in
  if match impname with Some n => (N.eqb n blank || N.eqb n dot) && kept_by_patch | None => false end
  then imps
  else if existsb (N.eqb pkgname) new_names || negb (uses_name (S (size tree)) pkgname tree)
  then del_import imps impname path
  else imps.

Inductive coutcome :=
| ONoMatch
| OErr (e : rerr)
| OOk (f : gofile).

Definition apply_change (c : cchange) (g : gofile) : coutcome :=
  let mk := mk_of c in
  let pkg_ok := match ch_minus_pkg c with
                | Some p => match pkg_name (g_tree g) with Some q => N.eqb p q | None => false end
                | None => true
                end in
  if negb pkg_ok then ONoMatch else
  match match_imports mk (ch_minus_imports c) (g_imports g) d0 {| id_bound := []; id_matched := [] |} with
  | None => ONoMatch
  | Some (dinit, id) =>
      let fuel := S (size (g_tree g)) in
      let ad := assoc_of (ch_assoc c) in
      let sc := scan mk ad (ch_minus c) (ch_plus c) dinit fuel (g_tree g) in
      match fst sc with
      | O => ONoMatch
      | _ =>
          (* FileReplacer.Replace *)

          (* imports named on the '+' side *)
          match fold_left (add_plus_import mk id dinit) (ch_plus_imports c) (Ok (g_imports g, [])) with
          | Err e => OErr e
          | Ok (imps1, new_names) =>
              match snd sc with
              | e :: _ => OErr e
              | [] =>
                  let tree1' := rw mk ad (ch_minus c) (ch_plus c) dinit fuel (g_tree g) in
                  let tree1 := match ch_plus_pkg c with Some p => set_pkg_name tree1' p | None => tree1' end in
                  (* ImportsReplacer.Cleanup *)
                  OOk {| g_imports := fold_left (cleanup_import (ch_blank c) (ch_dot c) (ch_plus_imports c) id new_names tree1) (id_matched id) imps1; g_tree := tree1 |}
              end
          end
      end
  end.
