(* Model of the per-file loop of main.go:mainCmd.Run (after patches have been
   loaded and files discovered) and of patch/gopatch.go:File.Apply.

   Everything gopatch delegates to a library, or to the rewriting engine
   (modelled separately in Engine/*.v), enters as an oracle: a Section
   variable.  The loop itself — which oracle is consulted when, what is
   emitted where, which failures abort and which are collected — is
   transcribed statement by statement. *)
From GP Require Export Bytes Generated.


Record opts := {
  o_diff : bool;            (* -d / --diff *)
  o_print : bool;           (* --print-only *)
  o_skip_imports : bool;    (* --skip-import-processing *)
  o_skip_generated : bool;  (* --skip-generated *)
  o_verbose : bool          (* -v *)
}.

(* Result of patchRunner.Apply followed by format.Node for one parsed file. *)
Inductive outcome :=
| NoMatch                                   (* no change of any patch matched *)
| ReplaceErr (msg : bytes)                  (* some Change.Replace returned an error *)
| Matched (comments : list bytes)           (* description of the last change that matched *)
          (formatted : bytes + bytes).      (* inl: format.Node output; inr: its error *)

(* One discovered file as the loop sees it. *)
Record target := {
  t_abs : path;                 (* sourcePath.Absolute *)
  t_provided : path;            (* sourcePath.Provided *)
  t_read : bytes + bytes;       (* os.ReadFile: content or error text *)
  t_write_err : option bytes    (* what os.WriteFile would answer for this path *)
}.

Inductive err :=
| ErrRead (p : path) (msg : bytes)
| ErrParse (p : path) (msg : bytes)          (* could not parse %q: %v *)
| ErrUpdate (p : path) (msg : bytes)         (* could not update %q: %v  (runner) *)
| ErrRewrite (p : path) (msg : bytes)        (* failed to rewrite %q: %v (format.Node) *)
| ErrReformat (p : path) (msg : bytes)       (* reformat %q: %w *)
| ErrWrite (p : path) (msg : bytes).

Inductive logline := LGenSkipped | LSkipped | LFailed (msg : bytes) | LPatched.

(* Everything observable the loop does, tagged with the index of the file it
   is done for. *)
Inductive event :=
| EvLog (i : nat) (p : path) (l : logline)            (* stdout when -v, else nowhere *)
| EvOut (i : nat) (echo : bool) (bs : bytes)          (* stdout: echo of the original / new content *)
| EvDiff (i : nat) (p : path) (old new : bytes)       (* stdout: diff.Text p p old new *)
| EvDesc (i : nat) (p : path) (c : bytes)             (* stderr: "p:c" *)
| EvWrite (i : nat) (p : path) (bs : bytes) (failed : bool). (* os.WriteFile(p, bs) *)

Record result := {
  r_events : list event;       (* in program order *)
  r_errors : list err;         (* the per-file errors list *)
  r_runner_errors : list err   (* patchRunner.errors, appended at the end *)
}.

Section Run.
  (* ---- oracles ---- *)
  Variable parses : bytes -> option bytes.   (* go/parser on a source: None = ok, Some msg = error *)
  Variable header_of : bytes -> header.      (* comment structure of a parsed source *)
  Variable engine : bytes -> outcome.        (* patchRunner.Apply + format.Node *)
  Variable process : bytes -> bytes + bytes. (* imports.Process(FormatOnly) *)

  (* what imports.Process returns has been through the printer once more: it is parsed before it is
     emitted, like what was given to it (repo fix 72f3dbc) *)
  Definition checked (b : bytes + bytes) : bytes + bytes :=
    match b with
    | inl bs => match parses bs with None => inl bs | Some m => inr m end
    | inr m => inr m
    end.

  Variable o : opts.

  Definition st0 : result :=
    {| r_events := []; r_errors := []; r_runner_errors := [] |}.

  Definition emit (r : result) (evs : list event) : result :=
    {| r_events := r_events r ++ evs; r_errors := r_errors r;
       r_runner_errors := r_runner_errors r |}.
  Definition fail (r : result) (e : err) : result :=
    {| r_events := r_events r; r_errors := r_errors r ++ [e];
       r_runner_errors := r_runner_errors r |}.
  Definition rfail (r : result) (e : err) : result :=
    {| r_events := r_events r; r_errors := r_errors r;
       r_runner_errors := r_runner_errors r ++ [e] |}.

  Definition descs (i : nat) (p : path) (cs : list bytes) : list event :=
    map (EvDesc i p) cs.

  (* The sink switch: preview / print / write. *)
  Definition sink (i : nat) (t : target) (content bs : bytes) (cs : list bytes)
    : list event * option bytes :=
    if o_diff o then (descs i (t_provided t) cs ++ [EvDiff i (t_provided t) content bs], None)
    else if o_print o then (descs i (t_provided t) cs ++ [EvOut i false bs], None)
    else match t_write_err t with
         | None => ([EvWrite i (t_abs t) bs false], None)
         | Some m => ([EvWrite i (t_abs t) bs true], Some m)
         end.

  (* Body of the [for _, sourcePath := range files] loop. *)
  Definition step (r : result) (it : nat * target) : result :=
    let (i, t) := it in
      match t_read t with
      | inr m => fail r (ErrRead (t_abs t) m)
      | inl content =>
        match parses content with
        | Some m => fail r (ErrParse (t_abs t) m)
        | None =>
          if o_skip_generated o && check_generated_code (header_of content)
          then emit r [EvLog i (t_abs t) LGenSkipped]
          else
            match engine content with
            | NoMatch =>
                emit r ((if o_print o then [EvOut i true content] else [])
                        ++ [EvLog i (t_abs t) LSkipped])
            | ReplaceErr m =>
                rfail (emit r ((if o_print o then [EvOut i true content] else [])
                               ++ [EvLog i (t_abs t) LSkipped]))
                      (ErrUpdate (t_abs t) m)
            | Matched cs (inr m) =>
                fail (emit r [EvLog i (t_abs t) (LFailed m)]) (ErrRewrite (t_abs t) m)
            | Matched cs (inl fmt) =>
                let final :=
                  if o_skip_imports o
                  then match parses fmt with None => inl fmt | Some m => inr m end
                  else checked (process fmt) in
                match final with
                | inr m => fail r (ErrReformat (t_abs t) m)
                | inl bs =>
                    let (evs, werr) := sink i t content bs cs in
                    match werr with
                    | Some m => fail (emit r (evs ++ [EvLog i (t_abs t) (LFailed m)]))
                                     (ErrWrite (t_abs t) m)
                    | None => emit r (evs ++ [EvLog i (t_abs t) LPatched])
                    end
                end
            end
        end
      end.

  Fixpoint number {A} (n : nat) (l : list A) : list (nat * A) :=
    match l with [] => [] | x :: l' => (n, x) :: number (S n) l' end.

  Definition run_from (r : result) (n : nat) (ts : list target) : result :=
    fold_left step (number n ts) r.

  Definition run (ts : list target) : result := run_from st0 0 ts.

  (* What Run returns: multierr.Combine(errors ++ runner errors). *)
  Definition all_errors (r : result) : list err := r_errors r ++ r_runner_errors r.

  Definition exit_status (r : result) : N :=
    match all_errors r with [] => 0 | _ => 1 end.

  (* ---- projections used by the properties ---- *)
  Definition ev_index (e : event) : nat :=
    match e with
    | EvLog i _ _ | EvOut i _ _ | EvDiff i _ _ _ | EvDesc i _ _ | EvWrite i _ _ _ => i
    end.
  Definition events_of (i : nat) (r : result) : list event :=
    filter (fun e => Nat.eqb (ev_index e) i) (r_events r).

  Definition is_write (e : event) : bool :=
    match e with EvWrite _ _ _ _ => true | _ => false end.
  Definition is_log (e : event) : bool :=
    match e with EvLog _ _ _ => true | _ => false end.

  (* contents gopatch emits as "the new version of a file" *)
  Definition emitted (e : event) : option bytes :=
    match e with
    | EvOut _ false bs => Some bs
    | EvDiff _ _ _ bs => Some bs
    | EvWrite _ _ bs _ => Some bs
    | _ => None
    end.

  (* ---- the library API: patch.File.Apply on one source ---- *)
  Definition api_apply (src : bytes) : bytes + bytes :=
    match parses src with
    | Some m => inr m
    | None =>
      match engine src with
      | NoMatch => inl src
      | ReplaceErr m => inr m
      | Matched _ (inr m) => inr m
      | Matched _ (inl fmt) => checked (process fmt)
      end
    end.
End Run.
