(* Byte strings as lists of N, and the handful of [strings] functions the
   modelled Go code uses.  Executable definitions only; lemmas are in
   Proofs/BytesFacts.v. *)
From Coq Require Export List NArith Bool.
From Coq Require Import String Ascii.
Export ListNotations.
Open Scope N_scope.

Definition bytes := list N.
Definition path := bytes.

Fixpoint beq (a b : bytes) : bool :=
  match a, b with
  | [], [] => true
  | x :: a', y :: b' => N.eqb x y && beq a' b'
  | _, _ => false
  end.

(* string literal -> bytes (used only to write constants readably) *)
Fixpoint s2b (s : string) : bytes :=
  match s with
  | EmptyString => []
  | String c s' => N_of_ascii c :: s2b s'
  end.

(* strings.HasPrefix s p *)
Fixpoint has_prefix (s p : bytes) {struct p} : bool :=
  match p, s with
  | [], _ => true
  | y :: p', x :: s' => N.eqb x y && has_prefix s' p'
  | _ :: _, [] => false
  end.

(* strings.CutPrefix *)
Fixpoint cut_prefix (s p : bytes) {struct p} : option bytes :=
  match p, s with
  | [], _ => Some s
  | y :: p', x :: s' => if N.eqb x y then cut_prefix s' p' else None
  | _ :: _, [] => None
  end.

(* strings.HasSuffix s p, through reversal *)
Definition has_suffix (s p : bytes) : bool := has_prefix (rev s) (rev p).

(* strings.CutSuffix *)
Definition cut_suffix (s p : bytes) : option bytes :=
  match cut_prefix (rev s) (rev p) with
  | Some r => Some (rev r)
  | None => None
  end.

(* strings.Contains s p *)
Fixpoint contains (s p : bytes) : bool :=
  has_prefix s p ||
  match s with
  | [] => false
  | _ :: s' => contains s' p
  end.

Definition NL : N := 10.

(* strings.Split s "\n" : always at least one line *)
Fixpoint split_lines_aux (cur : bytes) (s : bytes) : list bytes :=
  match s with
  | [] => [rev cur]
  | c :: s' => if N.eqb c NL then rev cur :: split_lines_aux [] s'
               else split_lines_aux (c :: cur) s'
  end.
Definition split_lines (s : bytes) : list bytes := split_lines_aux [] s.

Definition join_lines (ls : list bytes) : bytes :=
  match ls with
  | [] => []
  | l :: ls' => l ++ flat_map (fun x => NL :: x) ls'
  end.
