(* Position arithmetic of go/token.File as gopatch uses it: line tables
   (SetLinesForContent / AddLine), alternative positions (AddLineColumnInfo) and
   Position (unpack with adjusted = true). *)
From GP Require Export Bytes Section.
Local Open Scope nat_scope.

(* line table of a content: offsets at which lines start (SetLinesForContent) *)
Fixpoint line_starts_aux (off : nat) (s : bytes) : list nat :=
  match s with
  | [] => []
  | c :: s' => if N.eqb c NL then S off :: line_starts_aux (S off) s' else line_starts_aux (S off) s'
  end.
(* a line start equal to the size of the file is not recorded (AddLine / SetLinesForContent) *)
Definition line_starts (content : bytes) : list nat :=
  0 :: filter (fun o => Nat.ltb o (length content)) (line_starts_aux 0 content).

(* searchInts: index of the last element <= x (lines are ascending, lines[0] = 0) *)
Fixpoint search_le (l : list nat) (x : nat) : option nat :=
  match l with
  | [] => None
  | a :: l' =>
      if Nat.leb a x
      then match search_le l' x with
           | Some i => Some (S i)
           | None => Some 0
           end
      else None
  end.

(* plain position: (line, column), 1-based *)
Definition plain_pos (lines : list nat) (off : nat) : nat * nat :=
  match search_le lines off with
  | Some i => (S i, off - nth i lines 0 + 1)
  | None => (0, 0)
  end.

Record info := { in_off : nat; in_line : nat; in_col : nat }.

(* searchLineInfos: index of the last info with Offset <= x (infos ascending by offset) *)
Fixpoint search_info (l : list info) (x : nat) : option info :=
  match l with
  | [] => None
  | a :: l' =>
      if Nat.leb (in_off a) x
      then match search_info l' x with
           | Some b => Some b
           | None => Some a
           end
      else None
  end.

(* File.unpack(offset, adjusted=true), filename aside *)
Definition unpack (lines : list nat) (infos : list info) (off : nat) : nat * nat :=
  let (line, col) := plain_pos lines off in
  match search_info infos off with
  | None => (line, col)
  | Some alt =>
      match search_le lines (in_off alt) with
      | None => (line, col)
      | Some i =>
          let d := line - S i in
          (in_line alt + d,
           if Nat.eqb (in_col alt) 0 then 0
           else if Nat.eqb d 0 then in_col alt + (off - in_off alt)
           else col)
      end
  end.

(* the infos parseMeta records for a metavariable section: one per line, pointing at the
   line's position in the patch file *)
Definition meta_infos (patch_lines : list nat) (m : list (nat * nat)) : list info :=
  map (fun so => let (l, c) := plain_pos patch_lines (snd so) in
                 {| in_off := fst so; in_line := l; in_col := c |}) m.

(* position reported for a scratch-buffer offset of the metavariable section [ls] of a
   patch file [content] *)
Definition meta_position (content : bytes) (ls : list line) (scratch_off : nat) : nat * nat :=
  let (scratch, m) := to_bytes ls in
  unpack (line_starts scratch) (meta_infos (line_starts content) m) scratch_off.
