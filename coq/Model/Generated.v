(* Model of main.go:checkGeneratedCode and of go/ast.IsGenerated (which it
   calls).  A file header is abstracted to what those two functions read:
   the comment groups of the file, each comment with its text and whether
   its position is after the [package] keyword, and the texts of the
   comments of the package doc group ([File.Doc]; empty when nil). *)
From GP Require Export Bytes.
From Coq Require Import String.
Open Scope string_scope.

Record comment := { c_after_pkg : bool; c_text : bytes }.

Record header := {
  h_groups : list (list comment);
  h_doc : list bytes
}.

Definition gen_prefix : bytes := s2b "// Code generated ".
Definition gen_suffix : bytes := s2b " DO NOT EDIT.".
Definition at_generated : bytes := s2b "@generated".

(* the innermost loop of ast.generator: some line of the comment text has
   the prefix and, the prefix cut off, the suffix *)
Definition line_is_marker (line : bytes) : bool :=
  match cut_prefix line gen_prefix with
  | Some rest => match cut_suffix rest gen_suffix with Some _ => true | None => false end
  | None => false
  end.

Definition comment_is_marker (text : bytes) : bool :=
  if contains text gen_prefix          (* "opt: check Contains first" *)
  then existsb line_is_marker (split_lines text)
  else false.

(* for _, comment := range group.List { if comment.Pos() > file.Package { break } ... } *)
Fixpoint group_generated (g : list comment) : bool :=
  match g with
  | [] => false
  | c :: g' => if c_after_pkg c then false
               else comment_is_marker (c_text c) || group_generated g'
  end.

Definition ast_is_generated (h : header) : bool :=
  existsb group_generated (h_groups h).

Definition check_generated_code (h : header) : bool :=
  ast_is_generated h ||
  existsb (fun t => contains t at_generated) (h_doc h).
