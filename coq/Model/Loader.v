(* Model of loader.go / main.go:loadPatches: which patch files are loaded, in which order.
     -p FILE ... : in the order given;   -P LIST : the files LIST names, one per line, after all -p;
     neither given: standard input, under the name "stdin".
   Reading a file and parsing+compiling a patch are parameters (the file system; the front end,
   modelled elsewhere). *)
From GP Require Import Bytes.
From Coq Require Export List NArith Bool.
Export ListNotations.

Definition CR : N := 13.
Definition STDIN_NAME : path := [115; 116; 100; 105; 110]%N.       (* "stdin" *)

(* bufio.ScanLines: lines end at '\n'; one trailing '\r' is dropped; a last line without '\n' counts *)
Definition drop_cr (l : bytes) : bytes :=
  match rev l with c :: r => if N.eqb c CR then rev r else l | [] => l end.

Fixpoint scan_lines_aux (cur : bytes) (s : bytes) : list bytes :=
  match s with
  | [] => match cur with [] => [] | _ => [drop_cr (rev cur)] end
  | c :: s' => if N.eqb c NL then drop_cr (rev cur) :: scan_lines_aux [] s' else scan_lines_aux (c :: cur) s'
  end.
Definition scan_lines (s : bytes) : list bytes := scan_lines_aux [] s.

(* LoadFileList skips empty lines only *)
Definition listed (content : bytes) : list path :=
  filter (fun l => match l with [] => false | _ => true end) (scan_lines content).

Inductive lres (P : Type) := LOk (progs : list P) | LErr (stage : N) (p : path).
Arguments LOk {P}. Arguments LErr {P}.
(* stage: 0 stdin, 1 a -p file, 2 the -P list itself, 3 a file named in the list *)

Section Loader.
  Variable P : Type.
  Variable read : path -> option bytes.                 (* os.Open + io.ReadAll *)
  Variable compile : path -> bytes -> option P.         (* parse.Parse + engine.Compile *)

  Definition load_file (p : path) : option P :=
    match read p with Some c => compile p c | None => None end.

  (* the loader appends as it goes and stops at the first failure *)
  Fixpoint load_files (stage : N) (ps : list path) (acc : list P) : lres P :=
    match ps with
    | [] => LOk acc
    | p :: ps' => match load_file p with
                  | Some pr => load_files stage ps' (acc ++ [pr])
                  | None => LErr stage p
                  end
    end.

  Definition load_patches (patches : list path) (plist : option path) (stdin : bytes) : lres P :=
    let start :=
      match patches, plist with
      | [], None => match compile STDIN_NAME stdin with Some pr => LOk [pr] | None => LErr 0 STDIN_NAME end
      | _, _ => LOk []
      end in
    match start with
    | LErr s p => LErr s p
    | LOk acc0 =>
        match load_files 1 patches acc0 with
        | LErr s p => LErr s p
        | LOk acc1 =>
            match plist with
            | None => LOk acc1
            | Some lp => match read lp with
                         | None => LErr 2 lp
                         | Some content => load_files 3 (listed content) acc1
                         end
            end
        end
    end.
End Loader.
