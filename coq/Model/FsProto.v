(* The write protocol of main.go:writeFileAtomic as a sequence of file-system
   operations, and a tiny file-system model in which a run can be cut after
   any prefix (crash, signal, write error).  Also the protocol gopatch used
   before the fix (truncate, then write in place), kept for the record. *)
From GP Require Export Bytes.


Inductive fsop :=
| OCreate (p : path)                 (* open(p, O_CREAT|O_EXCL): new empty file *)
| OAppend (p : path) (bs : bytes)    (* write(fd of p, bs): appended at the end *)
| OChmod (p : path)                  (* fchmod: content unaffected *)
| ORename (src dst : path)           (* rename(src, dst): dst atomically becomes src's file *)
| OUnlink (p : path)                 (* unlink(p) *)
| OTruncate (p : path).              (* open(p, O_TRUNC) *)

(* a file system: association list path -> content, first binding wins *)
Definition fs := list (path * bytes).

Fixpoint lookup (f : fs) (p : path) : option bytes :=
  match f with
  | [] => None
  | (q, c) :: f' => if beq q p then Some c else lookup f' p
  end.

Fixpoint remove (f : fs) (p : path) : fs :=
  match f with
  | [] => []
  | (q, c) :: f' => if beq q p then remove f' p else (q, c) :: remove f' p
  end.

Definition set (f : fs) (p : path) (c : bytes) : fs := (p, c) :: remove f p.

Definition apply_op (f : fs) (op : fsop) : fs :=
  match op with
  | OCreate p => match lookup f p with Some _ => f | None => set f p [] end
  | OAppend p bs => match lookup f p with Some c => set f p (c ++ bs) | None => f end
  | OChmod _ => f
  | ORename s d => match lookup f s with Some c => set (remove f s) d c | None => f end
  | OUnlink p => remove f p
  | OTruncate p => match lookup f p with Some _ => set f p [] | None => f end
  end.

Definition apply_ops (f : fs) (ops : list fsop) : fs := fold_left apply_op ops f.

(* writeFileAtomic(target, bs) with the temporary name tmp; the kernel may
   split the write into chunks *)
Definition atomic_write (tmp target : path) (chunks : list bytes) : list fsop :=
  OCreate tmp :: map (OAppend tmp) chunks ++ [OChmod tmp; ORename tmp target].

(* the failure path: some prefix of the above, then the deferred os.Remove(tmp) *)
Definition atomic_write_failed (tmp target : path) (chunks : list bytes) (k : nat) : list fsop :=
  firstn k (OCreate tmp :: map (OAppend tmp) chunks ++ [OChmod tmp]) ++ [OUnlink tmp].

(* os.WriteFile(target, bs, 0644) as gopatch used it before the fix *)
Definition truncating_write (target : path) (chunks : list bytes) : list fsop :=
  OTruncate target :: map (OAppend target) chunks.

(* ---- a whole run: one protocol instance per file that reaches the write ---- *)
Record wr := { w_tmp : path; w_target : path; w_chunks : list bytes; w_fail : option nat }.

Definition wr_ops (w : wr) : list fsop :=
  match w_fail w with
  | None => atomic_write (w_tmp w) (w_target w) (w_chunks w)
  | Some k => atomic_write_failed (w_tmp w) (w_target w) (w_chunks w) k
  end.

Definition run_ops (ws : list wr) : list fsop := flat_map wr_ops ws.

Definition news_of (ws : list wr) : fs :=
  flat_map (fun w => match w_fail w with None => [(w_target w, concat (w_chunks w))] | Some _ => [] end) ws.

Definition fsop_eqb (a b : fsop) : bool :=
  match a, b with
  | OCreate p, OCreate q | OChmod p, OChmod q | OUnlink p, OUnlink q | OTruncate p, OTruncate q => beq p q
  | OAppend p x, OAppend q y => beq p q && beq x y
  | ORename s d, ORename s' d' => beq s s' && beq d d'
  | _, _ => false
  end.

Fixpoint ops_eqb (a b : list fsop) : bool :=
  match a, b with
  | [], [] => true
  | x :: a', y :: b' => fsop_eqb x y && ops_eqb a' b'
  | _, _ => false
  end.

(* ---- checking an observed trace ---- *)

(* every watched path holds its original or its complete new content *)
Definition state_ok (orig : fs) (news : fs) (cur : fs) (watched : list path) : bool :=
  forallb (fun p =>
    match lookup cur p, lookup orig p with
    | Some c, Some o => beq c o || match lookup news p with Some n => beq c n | None => false end
    | None, None => true
    | _, _ => false
    end) watched.

(* ... after every prefix of the trace *)
Fixpoint trace_safe (orig news cur : fs) (watched : list path) (ops : list fsop) : bool :=
  state_ok orig news cur watched &&
  match ops with
  | [] => true
  | op :: ops' => trace_safe orig news (apply_op cur op) watched ops'
  end.

(* an observed operation sequence is exactly a run of the protocol, and is safe *)
Definition check_run (orig : fs) (watched : list path) (ws : list wr) (ops : list fsop) : bool * bool :=
  (ops_eqb ops (run_ops ws), trace_safe orig (news_of ws) orig watched ops).
