(* The universal tree the reflection-generic engine works on, and the few facts
   about go/ast types it consults (from Gen/Schema.v, regenerated on every run). *)
From GP Require Export Schema.
From Coq Require Export List NArith Bool.
Export ListNotations.
Open Scope N_scope.

Inductive val :=
| Nil (t : ty)                      (* typed nil pointer / interface / slice *)
| Pos (valid : bool)                (* token.Pos, abstracted to IsValid() *)
| Atom (t : ty) (a : N)             (* string / token / bool / ChanDir ..., interned *)
| Struct (t : ty) (fs : list val)
| Ptr (t : ty) (v : val)
| Iface (t : ty) (v : val)
| Slice (t : ty) (vs : list val).   (* non-nil slice *)

(* dynamic type, as reflect.Value.Type() of the value (of the element for interfaces) *)
Definition dyn_type (v : val) : ty :=
  match v with
  | Nil t | Atom t _ | Struct t _ | Ptr t _ | Iface t _ | Slice t _ => t
  | Pos _ => T_token_Pos
  end.

Fixpoint assoc {A} (k : N) (l : list (N * A)) : option A :=
  match l with
  | [] => None
  | (k', v) :: l' => if N.eqb k k' then Some v else assoc k l'
  end.

Definition implements (concrete iface : ty) : bool :=
  match assoc iface implements_table with
  | Some l => existsb (N.eqb concrete) l
  | None => false
  end.

(* t.AssignableTo(slot type) for the two shapes of slots that hold nodes *)
Definition assignable (give : ty) (slot : ty) : bool :=
  N.eqb give slot || implements give slot.

Definition fields_of (st : ty) : list finfo :=
  match assoc st struct_table with Some l => l | None => [] end.

(* pgo.Dots is serialised as Ptr *pgo.Dots (Struct pgo.Dots [Nil ast.Expr; Atom pgo.DotsPos id]):
   the token.Pos of a dots is its identity in the engine (data key, association) *)
Definition is_dots (p : val) : option N :=
  match p with
  | Ptr t (Struct _ [_; Atom _ id]) => if N.eqb t T_P_pgo_Dots then Some id else None
  | _ => None
  end.

(* is this element of a []ast.Stmt / []ast.Expr / []*ast.Field pattern list a "..." ? *)
Definition dots_item (slice_ty : ty) (p : val) : option N :=
  if N.eqb slice_ty T_S_ast_Expr then
    match p with Iface _ x => is_dots x | _ => None end
  else if N.eqb slice_ty T_S_ast_Stmt then
    match p with
    | Iface _ (Ptr t (Struct _ [Iface _ x])) => if N.eqb t T_P_ast_ExprStmt then is_dots x else None
    | _ => None
    end
  else if N.eqb slice_ty T_S_P_ast_Field then
    match p with
    | Ptr t (Struct _ [_; _; Iface _ x; _; _]) => if N.eqb t T_P_ast_Field then is_dots x else None
    | _ => None
    end
  else None.

Definition dots_capable (slice_ty : ty) : bool :=
  N.eqb slice_ty T_S_ast_Expr || N.eqb slice_ty T_S_ast_Stmt || N.eqb slice_ty T_S_P_ast_Field.

(* identifier: Ptr *ast.Ident (Struct ast.Ident [NamePos; Name; Obj]) *)
Definition ident_name (p : val) : option N :=
  match p with
  | Ptr t (Struct _ [_; Atom _ name; _]) => if N.eqb t T_P_ast_Ident then Some name else None
  | _ => None
  end.

Fixpoint nth_val (n : nat) (l : list val) : val :=
  match n, l with
  | O, x :: _ => x
  | S n', _ :: l' => nth_val n' l'
  | _, [] => Nil 0
  end.

Fixpoint set_nth (n : nat) (x : val) (l : list val) : list val :=
  match n, l with
  | O, _ :: l' => x :: l'
  | S n', y :: l' => y :: set_nth n' x l'
  | _, [] => []
  end.
