(* Model of the matcher side of internal/engine: matcherCompiler.compile fused with
   Matcher.Match (reflect_match.go, matcher.go, metavar.go, slice_dots.go, for_dots.go,
   stmt_list.go, pos.go).  The matcher is reflection-generic; so is the model. *)
From GP Require Export Tree Meta.

(* ---- match data (internal/data): what a successful attempt has captured ---- *)
Record data := {
  d_mv : list (N * val);              (* metavariable name -> captured value *)
  d_dots : list (N * list val);       (* "..." id -> the run it skipped *)
  d_for : list (N * (ty * list val)); (* "for ..." id -> struct type and fields of the matched for/range *)
  d_stmt : option (ty * list val)     (* statement container: struct type and fields of the block/clause *)
}.

Definition d0 : data := {| d_mv := []; d_dots := []; d_for := []; d_stmt := None |}.

Definition push_mv (x : N) (v : val) (d : data) : data :=
  {| d_mv := (x, v) :: d_mv d; d_dots := d_dots d; d_for := d_for d; d_stmt := d_stmt d |}.
Definition push_dots (i : N) (run : list val) (d : data) : data :=
  {| d_mv := d_mv d; d_dots := (i, run) :: d_dots d; d_for := d_for d; d_stmt := d_stmt d |}.
Definition push_for (i : N) (t : ty) (fs : list val) (d : data) : data :=
  {| d_mv := d_mv d; d_dots := d_dots d; d_for := (i, (t, fs)) :: d_for d; d_stmt := d_stmt d |}.
Definition set_stmt (t : ty) (fs : list val) (d : data) : data :=
  {| d_mv := d_mv d; d_dots := d_dots d; d_for := d_for d; d_stmt := Some (t, fs) |}.

(* ---- the matcher compiled from an already matched value (metavar.go: second and
   later occurrences of a metavariable): structural equality where positions count by
   validity only, and nil and empty are the same for the three "..."-capable slice types *)
Fixpoint eqvb (p t : val) {struct p} : bool :=
  match p with
  | Nil a =>
      match t with
      | Nil b => N.eqb a b
      | Ptr tb _ => N.eqb a T_P_ast_Object          (* *ast.Object: never compared *)
      | Slice b [] => N.eqb a b && dots_capable a
      | _ => false
      end
  | Pos a => match t with Pos b => Bool.eqb a b | _ => false end
  | Atom ta a => match t with Atom tb b => N.eqb ta tb && N.eqb a b | _ => false end
  | Ptr ta p' =>
      match t with
      | Ptr tb t' => N.eqb ta T_P_ast_Object || eqvb p' t'
      | Nil b => N.eqb ta T_P_ast_Object
      | _ => false
      end
  | Iface ta p' => match t with Iface tb t' => eqvb p' t' | _ => false end
  | Struct ta ps =>
      match t with
      | Struct tb ts => N.eqb ta tb &&
          (fix go (ps ts : list val) {struct ps} : bool :=
             match ps, ts with
             | [], [] => true
             | p :: ps', t :: ts' => eqvb p t && go ps' ts'
             | _, _ => false
             end) ps ts
      | _ => false
      end
  | Slice ta ps =>
      match t with
      | Slice tb ts =>
          (fix go (ps ts : list val) {struct ps} : bool :=
             match ps, ts with
             | [], [] => true
             | p :: ps', t :: ts' => eqvb p t && go ps' ts'
             | _, _ => false
             end) ps ts
      | Nil b => match ps with [] => true | _ => false end
      | _ => false
      end
  end.

Section Match.
  Variable mk : N -> option mkind.        (* Meta.LookupVar *)

  (* got.Kind() == reflect.Ptr && got.IsNil() *)
  Definition nil_pointer (t : val) : bool :=
    match t with
    | Nil tp => match assoc tp ptr_table with Some _ => true | None => false end
    | _ => false
    end.

  (* MetavarMatcher.TypeMatches on the dynamic type of the candidate *)
  Definition kind_ok (k : mkind) (t : val) : bool :=
    match k with
    | KIdent => match t with Ptr tp _ => N.eqb tp T_P_ast_Ident | _ => false end    (* a nil *ast.Ident is no identifier *)
    | KExpr =>
        (* whatever implements ast.Expr, except what is no expression: the "key: value" of a composite
           literal and the "..." of [...]T and ...T (repo fix 63c8bdb) *)
        implements (dyn_type t) T_ast_Expr
        && negb (N.eqb (dyn_type t) T_P_ast_KeyValueExpr) && negb (N.eqb (dyn_type t) T_P_ast_Ellipsis)
        (* nor is a nil pointer (the label a bare "break" does not have), whatever its type implements *)
        && negb (nil_pointer t)
    end.

  (* "for ... {" : a *ast.ForStmt whose Cond is a dots and that has no Init/Post *)
  Definition for_dots (p : val) : option (N * val) :=
    match p with
    | Ptr t (Struct _ [_; Nil _; Iface _ c; Nil _; body]) =>
        if N.eqb t T_P_ast_ForStmt then
          match is_dots c with Some i => Some (i, body) | None => None end
        else None
    | _ => None
    end.

  Fixpoint mtch (p t : val) (d : data) {struct p} : option data :=
    match p with
    | Ptr tp ps =>
        if N.eqb tp T_P_ast_Object then Some d else      (* *ast.Object always matches *)
        let generic := fun (_ : unit) =>
          match t with
          | Ptr _ ts => mtch ps ts d
          | _ => None
          end in
        match ps with
        (* ---- *ast.Ident: metavariable, or an ordinary identifier ---- *)
        | Struct sp [ppos; Atom ta name; pobj] =>
            match (if N.eqb tp T_P_ast_Ident then mk name else None) with
            | Some k =>
                if kind_ok k t then
                  match assoc name (d_mv d) with
                  | Some c => if eqvb c t then Some d else None     (* data of the sub-match discarded *)
                  | None => Some (push_mv name t d)
                  end
                else None
            | None => generic tt
            end
        (* ---- "for ... {" ---- *)
        | Struct _ [_; Nil _; Iface _ c; Nil _; body] =>
            match (if N.eqb tp T_P_ast_ForStmt then is_dots c else None) with
            | Some i =>
                (* ForDotsMatcher: a for or a range statement; the header is recorded, the body matched *)
                match t with
                | Ptr tq (Struct st fs) =>
                    if N.eqb tq T_P_ast_ForStmt then
                      mtch body (nth_val I_ForStmt_Body fs) (push_for i st fs d)
                    else if N.eqb tq T_P_ast_RangeStmt then
                      mtch body (nth_val I_RangeStmt_Body fs) (push_for i st fs d)
                    else None
                | _ => None
                end
            | None => generic tt
            end
        | _ => generic tt
        end
    | Iface _ ps =>
        match t with
        | Iface _ ts => mtch ps ts d
        | _ => None
        end
    | Nil tp =>
        match t with
        | Nil _ => Some d
        | Slice _ [] => if dots_capable tp then Some d else None   (* compileSliceDots: nil pattern list = empty *)
        | Ptr _ _ => if N.eqb tp T_P_ast_Object then Some d else None   (* *ast.Object always matches *)
        | _ => None
        end
    | Pos a => match t with Pos b => if Bool.eqb a b then Some d else None | _ => None end
    | Atom ta a =>
        match t with
        | Atom tb b => if N.eqb ta tb && N.eqb a b then Some d else None
        | _ => None
        end
    | Struct sp ps =>
        match t with
        | Struct st ts =>
            if N.eqb sp st then
              (fix go (ps ts : list val) (d : data) {struct ps} : option data :=
                 match ps, ts with
                 | [], [] => Some d
                 | p :: ps', t :: ts' =>
                     match mtch p t d with Some d' => go ps' ts' d' | None => None end
                 | _, _ => None
                 end) ps ts d
            else None
        | _ => None
        end
    | Slice tp ps =>
        (* SliceMatcher / SliceDotsMatcher look at Len() only: a nil slice is an empty one *)
        let ts := match t with Slice _ ts => Some ts
                             | Nil _ => Some []
                             | _ => None end in
        match ts with
        | None => None
        | Some ts =>
          (fix ml (ps : list val) : list val -> data -> option data :=
             match ps with
             | [] => fun ts d => match ts with [] => Some d | _ => None end
             | p :: ps' =>
                 match dots_item tp p with
                 | Some i =>
                     (* "...": shortest run first; move on when the rest cannot be matched *)
                     (fix skip (acc : list val) (ts : list val) (d : data) {struct ts} : option data :=
                        match ml ps' ts (push_dots i (rev acc) d) with
                        | Some r => Some r
                        | None => match ts with
                                  | [] => None
                                  | t :: ts' => skip (t :: acc) ts' d
                                  end
                        end) []
                 | None => fun ts d =>
                     match ts with
                     | t :: ts' => match mtch p t d with Some d' => ml ps' ts' d' | None => None end
                     | [] => None
                     end
                 end
             end) ps ts d
        end
    end.

  (* ---- statement patterns (stmt_list.go): matched against a block, case clause or comm
     clause; the pattern list gets an implicit "..." at both ends ---- *)
  Definition stmt_container (t : val) : option (ty * list val * nat) :=
    match t with
    | Ptr tq (Struct st fs) =>
        if N.eqb tq T_P_ast_BlockStmt then Some (st, fs, I_BlockStmt_List)
        else if N.eqb tq T_P_ast_CaseClause then Some (st, fs, I_CaseClause_Body)
        else if N.eqb tq T_P_ast_CommClause then Some (st, fs, I_CommClause_Body)
        else None
    | _ => None
    end.

  Definition dots_stmt (i : N) : val :=
    Iface T_ast_Stmt (Ptr T_P_ast_ExprStmt (Struct T_ast_ExprStmt
      [Iface T_ast_Expr (Ptr T_P_pgo_Dots (Struct T_pgo_Dots [Nil T_ast_Expr; Atom T_pgo_DotsPos i]))])).

  (* the list the container matcher/replacer is compiled from: the statements of the patch between
     an implicit leading and an implicit trailing "...".  The leading one is left out (id_start = 0)
     when the patch itself begins with a "..." at the very place it would be put *)
  Definition with_implicit (id_start id_end : N) (stmts : list val) : list val :=
    (if N.eqb id_start 0 then [] else [dots_stmt id_start]) ++ stmts ++ [dots_stmt id_end].

  Definition stmt_pattern (id_start id_end : N) (stmts : list val) : val :=
    match stmts with
    | [] => Nil T_S_ast_Stmt
    | _ => Slice T_S_ast_Stmt (with_implicit id_start id_end stmts)
    end.

  Definition mtch_stmts (id_start id_end : N) (stmts : list val) (t : val) (d : data) : option data :=
    match stmt_container t with
    | Some (st, fs, idx) =>
        mtch (stmt_pattern id_start id_end stmts) (nth_val idx fs) (set_stmt st fs d)
    | None => None
    end.
End Match.

(* the node pattern of a change: an expression / declaration, or a statement list *)
Inductive npat :=
| PNode (p : val)
| PStmts (id_start id_end : N) (stmts : list val).

Definition mtch_node (mk : N -> option mkind) (p : npat) (t : val) (d : data) : option data :=
  match p with
  | PNode v => mtch mk v t d
  | PStmts s e l => mtch_stmts mk s e l t d
  end.
