(* Model of the loop over changes: main.go:patchRunner.Apply (command line: stops at the
   first replacement error) and patch/gopatch.go:File.Apply (library: carries on, reports
   the errors at the end).  Each cchange is matched against the tree the previous ones
   left behind (the same *ast.File object, mutated in place). *)
From GP Require Export FileEngine.

Inductive step_outcome := SNoMatch | SErr (e : rerr) | SOk.

Record pstate := {
  ps_file : gofile;
  ps_matched : bool;          (* some cchange matched and was applied *)
  ps_errs : list rerr;
  ps_steps : list step_outcome
}.

Definition pstep (abort_on_error : bool) (s : pstate) (c : cchange) : pstate :=
  if abort_on_error && negb (match ps_errs s with [] => true | _ => false end) then s
  else
    match apply_change c (ps_file s) with
    | ONoMatch => {| ps_file := ps_file s; ps_matched := ps_matched s; ps_errs := ps_errs s;
                     ps_steps := ps_steps s ++ [SNoMatch] |}
    | OErr e => {| ps_file := ps_file s; ps_matched := ps_matched s; ps_errs := ps_errs s ++ [e];
                   ps_steps := ps_steps s ++ [SErr e] |}
    | OOk g' => {| ps_file := g'; ps_matched := true; ps_errs := ps_errs s;
                   ps_steps := ps_steps s ++ [SOk] |}
    end.

Definition run_changes (abort_on_error : bool) (cs : list cchange) (g : gofile) : pstate :=
  fold_left (pstep abort_on_error) cs
            {| ps_file := g; ps_matched := false; ps_errs := []; ps_steps := [] |}.

(* several patch files: their changes one after the other, in the order given *)
Definition run_programs (abort_on_error : bool) (progs : list (list cchange)) (g : gofile) : pstate :=
  run_changes abort_on_error (concat progs) g.
