(* Model of internal/astdiff (diff.go, snapshot.go) and internal/diff (diff.go):
   which source regions a change is charged with.

     snapshot.go  value            -> [value]   (the dump of a snapshot; positions are relative
                                                 to the start of the target file, [nopos] = token.NoPos)
     diff.go      changeFinder.Walk / walkStruct / walkSlice / commentsFor / compareNodes
     diff/diff.go Difference, path.connect, zigzag            (transcribed; explicit fuel)

   The result of [diff_snapshot] is the list of Changelog.Changed(pos, end) calls, in order,
   and the new snapshot (the "to" tree with the comments that [unchanged] hands over). *)
From Coq Require Export List ZArith Bool.
From GP Require Export Comments.
Export ListNotations.
Local Open Scope Z_scope.

(* ---------------------------------------------------------------- values *)
(* reserved type ids *)
Definition T_object : N := 1.       (* *ast.Object *)
Definition T_cgroup : N := 2.       (* *ast.CommentGroup *)
Definition T_pos : N := 3.          (* token.Pos *)

(* a comment group: the (pos, end) of its comments, in order; may be empty after a clean-up *)
Definition cgroup : Type := list (Z * Z).

Record ninfo := { n_isnode : bool; n_pos : Z; n_end : Z; n_cmts : list cgroup }.

Inductive value :=
| VNil (t : N)                                   (* nil pointer or interface; *ast.Object, *ast.Scope, *ast.CommentGroup *)
| VPos (p : Z)                                   (* token.Pos *)
| VAtom (t : N) (a : N)                          (* string, int, bool, token.Token ... : an interned value *)
| VRef (t : N) (i : ninfo) (e : value)           (* non-nil pointer or interface *)
| VSlice (t : N) (elemnode : bool) (cs : list value)   (* elemnode: the element type implements ast.Node *)
| VStruct (t : N) (cs : list value).

Definition vtype (v : value) : N :=
  match v with
  | VNil t | VAtom t _ | VRef t _ _ | VSlice t _ _ | VStruct t _ => t
  | VPos _ => T_pos
  end.

Definition no_info : ninfo := {| n_isnode := false; n_pos := nopos; n_end := nopos; n_cmts := [] |}.

Definition info (v : value) : ninfo := match v with VRef _ i _ => i | _ => no_info end.
Definition is_node (v : value) : bool := n_isnode (info v).
Definition vpos (v : value) : Z := n_pos (info v).          (* value.Pos(): zero unless a node *)
Definition vend (v : value) : Z := n_end (info v).

Definition valid (p : Z) : bool := negb (p =? nopos).

(* ---------------------------------------------------------------- internal/diff *)
Inductive edit := Identity | UniqueX | UniqueY | Modified.

Record result := { num_same : Z; num_diff : Z }.
Definition r_equal (r : result) : bool := num_diff r =? 0.
Definition r_similar (r : result) : bool := num_diff r <=? num_same r + 1.

Record path := { p_dir : Z; p_x : Z; p_y : Z; p_es : list edit }.     (* p_es in order *)

Definition p_append (p : path) (t : edit) : path :=
  match t with
  | Identity | Modified => {| p_dir := p_dir p; p_x := p_x p + p_dir p; p_y := p_y p + p_dir p; p_es := p_es p ++ [t] |}
  | UniqueX => {| p_dir := p_dir p; p_x := p_x p + p_dir p; p_y := p_y p; p_es := p_es p ++ [t] |}
  | UniqueY => {| p_dir := p_dir p; p_x := p_x p; p_y := p_y p + p_dir p; p_es := p_es p ++ [t] |}
  end.

Definition zigzag (i : Z) : Z := if Z.odd i then - ((i + 1) / 2) else i / 2.

Section Difference.
  Variable f : Z -> Z -> result.

  (* path.connect, forward direction *)
  Fixpoint connect_fwd (fuel : nat) (p : path) (dx dy : Z) : option path :=
    match fuel with
    | O => None
    | S k =>
        if (p_x p <? dx) && (p_y p <? dy) then
          let r := f (p_x p) (p_y p) in
          connect_fwd k (p_append p (if r_equal r then Identity
                                     else if r_similar r then Modified
                                     else if dy - p_y p <=? dx - p_x p then UniqueX else UniqueY)) dx dy
        else if p_x p <? dx then connect_fwd k (p_append p UniqueX) dx dy
        else if p_y p <? dy then connect_fwd k (p_append p UniqueY) dx dy
        else Some p
    end.

  (* path.connect, reverse direction *)
  Fixpoint connect_rev (fuel : nat) (p : path) (dx dy : Z) : option path :=
    match fuel with
    | O => None
    | S k =>
        if (dx <? p_x p) && (dy <? p_y p) then
          let r := f (p_x p - 1) (p_y p - 1) in
          connect_rev k (p_append p (if r_equal r then Identity
                                     else if r_similar r then Modified
                                     else if p_x p - dx <=? p_y p - dy then UniqueY else UniqueX)) dx dy
        else if dx <? p_x p then connect_rev k (p_append p UniqueX) dx dy
        else if dy <? p_y p then connect_rev k (p_append p UniqueY) dx dy
        else Some p
    end.

  Definition connect (fuel : nat) (p : path) (dx dy : Z) : option path :=
    if 0 <? p_dir p then connect_fwd fuel p dx dy else connect_rev fuel p dx dy.

  (* "follow the sequence of matches as far as possible" *)
  Fixpoint follow_fwd (fuel : nat) (fp : path) (rx ry : Z) : option path :=
    match fuel with
    | O => None
    | S k =>
        if (p_x fp <? rx) && (p_y fp <? ry) then
          if r_equal (f (p_x fp) (p_y fp)) then follow_fwd k (p_append fp Identity) rx ry else Some fp
        else Some fp
    end.

  Fixpoint follow_rev (fuel : nat) (rp : path) (fx fy : Z) : option path :=
    match fuel with
    | O => None
    | S k =>
        if (fx <? p_x rp) && (fy <? p_y rp) then
          if r_equal (f (p_x rp - 1) (p_y rp - 1)) then follow_rev k (p_append rp Identity) fx fy else Some rp
        else Some rp
    end.

  Record dstate := { fwd : path; rev : path; ffx : Z; ffy : Z; rfx : Z; rfy : Z; budget : Z }.

  (* the zig-zag search from the forward frontier *)
  Fixpoint search_fwd (fuel cfuel : nat) (s : dstate) (stop1 stop2 : bool) (i : Z) : option dstate :=
    match fuel with
    | O => None
    | S k =>
        if (stop1 && stop2) || negb (0 <? budget s) then Some s else
        let z := zigzag i in
        let px := ffx s + z in
        let py := ffy s - z in
        if (p_x (rev s) <=? px) || (py <? p_y (fwd s)) then search_fwd k cfuel s true stop2 (i + 1)
        else if (p_y (rev s) <=? py) || (px <? p_x (fwd s)) then search_fwd k cfuel s stop1 true (i + 1)
        else if r_equal (f px py) then
          match connect cfuel (fwd s) px py with
          | None => None
          | Some fp =>
              match follow_fwd cfuel (p_append fp Identity) (p_x (rev s)) (p_y (rev s)) with
              | None => None
              | Some fp' =>
                  search_fwd k cfuel {| fwd := fp'; rev := rev s; ffx := p_x fp'; ffy := p_y fp';
                                        rfx := rfx s; rfy := rfy s; budget := budget s |} true true (i + 1)
              end
          end
        else search_fwd k cfuel {| fwd := fwd s; rev := rev s; ffx := ffx s; ffy := ffy s;
                                   rfx := rfx s; rfy := rfy s; budget := budget s - 1 |} stop1 stop2 (i + 1)
    end.

  Fixpoint search_rev (fuel cfuel : nat) (s : dstate) (stop1 stop2 : bool) (i : Z) : option dstate :=
    match fuel with
    | O => None
    | S k =>
        if (stop1 && stop2) || negb (0 <? budget s) then Some s else
        let z := zigzag i in
        let px := rfx s - z in
        let py := rfy s + z in
        if (px <=? p_x (fwd s)) || (p_y (rev s) <? py) then search_rev k cfuel s true stop2 (i + 1)
        else if (py <=? p_y (fwd s)) || (p_x (rev s) <? px) then search_rev k cfuel s stop1 true (i + 1)
        else if r_equal (f (px - 1) (py - 1)) then
          match connect cfuel (rev s) px py with
          | None => None
          | Some rp =>
              match follow_rev cfuel (p_append rp Identity) (p_x (fwd s)) (p_y (fwd s)) with
              | None => None
              | Some rp' =>
                  search_rev k cfuel {| fwd := fwd s; rev := rp'; ffx := ffx s; ffy := ffy s;
                                        rfx := p_x rp'; rfy := p_y rp'; budget := budget s |} true true (i + 1)
              end
          end
        else search_rev k cfuel {| fwd := fwd s; rev := rev s; ffx := ffx s; ffy := ffy s;
                                   rfx := rfx s; rfy := rfy s; budget := budget s - 1 |} stop1 stop2 (i + 1)
    end.

  Definition done (s : dstate) : bool :=
    (rfx s <=? ffx s) || (rfy s <=? ffy s) || (budget s =? 0).

  (* the outer loop *)
  Fixpoint outer (fuel sfuel cfuel : nat) (s : dstate) : option dstate :=
    match fuel with
    | O => None
    | S k =>
        if done s then Some s else
        match search_fwd sfuel cfuel s false false 0 with
        | None => None
        | Some s1 =>
            let s2 := if p_y (rev s1) - ffy s1 <=? p_x (rev s1) - ffx s1
                      then {| fwd := fwd s1; rev := rev s1; ffx := ffx s1 + 1; ffy := ffy s1; rfx := rfx s1; rfy := rfy s1; budget := budget s1 |}
                      else {| fwd := fwd s1; rev := rev s1; ffx := ffx s1; ffy := ffy s1 + 1; rfx := rfx s1; rfy := rfy s1; budget := budget s1 |} in
            if done s2 then Some s2 else
            match search_rev sfuel cfuel s2 false false 0 with
            | None => None
            | Some s3 =>
                let s4 := if rfy s3 - p_y (fwd s3) <=? rfx s3 - p_x (fwd s3)
                          then {| fwd := fwd s3; rev := rev s3; ffx := ffx s3; ffy := ffy s3; rfx := rfx s3 - 1; rfy := rfy s3; budget := budget s3 |}
                          else {| fwd := fwd s3; rev := rev s3; ffx := ffx s3; ffy := ffy s3; rfx := rfx s3; rfy := rfy s3 - 1; budget := budget s3 |} in
                outer k sfuel cfuel s4
            end
        end
    end.

  Definition difference (nx ny : Z) : option (list edit) :=
    let n := Z.to_nat (nx + ny) in
    let cfuel := S (S n) in
    let sfuel := (Z.to_nat (4 * (nx + ny)) + 2 * n + 8)%nat in
    let s0 := {| fwd := {| p_dir := 1; p_x := 0; p_y := 0; p_es := [] |};
                 rev := {| p_dir := -1; p_x := nx; p_y := ny; p_es := [] |};
                 ffx := 0; ffy := 0; rfx := nx; rfy := ny; budget := 4 * (nx + ny) |} in
    match outer (S (S n)) sfuel cfuel s0 with
    | None => None
    | Some s =>
        match connect cfuel (fwd s) (p_x (rev s)) (p_y (rev s)) with
        | None => None
        | Some fp => Some (p_es fp ++ List.rev (p_es (rev s)))
        end
    end.
End Difference.

(* ---------------------------------------------------------------- compareNodes *)
Definition radd (a b : result) : result := {| num_same := num_same a + num_same b; num_diff := num_diff a + num_diff b |}.
Definition r0 : result := {| num_same := 0; num_diff := 0 |}.
Definition rsame : result := {| num_same := 1; num_diff := 0 |}.
Definition rdiff : result := {| num_same := 0; num_diff := 1 |}.

Definition nthv (l : list value) (i : Z) : value := nth (Z.to_nat i) l (VNil 0).
Definition zlen {A} (l : list A) : Z := Z.of_nat (length l).

(* the script walked by nodeComparer.Walk (slice case) *)
Fixpoint sum_script (res : Z -> Z -> result) (es : list edit) (i j : Z) : result :=
  match es with
  | [] => r0
  | Identity :: es' | Modified :: es' => radd (res i j) (sum_script res es' (i + 1) (j + 1))
  | UniqueX :: es' => radd rdiff (sum_script res es' (i + 1) j)
  | UniqueY :: es' => radd rdiff (sum_script res es' i (j + 1))
  end.

(* nodeComparer.Walk; [None]: out of fuel (never, see the proofs) *)
Fixpoint compare (fuel : nat) (from to : value) : option result :=
  match fuel with
  | O => None
  | S k =>
      if negb (N.eqb (vtype from) (vtype to)) then Some {| num_same := 0; num_diff := 2 |}
      else if N.eqb (vtype from) T_object then Some r0
      else
        match from, to with
        | VPos a, VPos b => Some (if Bool.eqb (valid a) (valid b) then rsame else rdiff)
        | VNil _, VNil _ => Some rsame
        | VNil _, _ | _, VNil _ => Some rdiff
        | VRef _ _ a, VRef _ _ b => compare k a b
        | VSlice _ _ xs, VSlice _ _ ys =>
            (* every comparison the script asks for is made on children: tabulate lazily *)
            let res := fun i j => match compare k (nthv xs i) (nthv ys j) with Some r => r | None => r0 end in
            let ok := forallb (fun x => forallb (fun y => match compare k x y with Some _ => true | None => false end) ys) xs in
            if negb ok then None else
            match difference res (zlen xs) (zlen ys) with
            | None => None
            | Some es => Some (sum_script res es 0 0)
            end
        | VStruct _ xs, VStruct _ ys =>
            (fix go (xs ys : list value) : option result :=
               match xs, ys with
               | x :: xs', y :: ys' =>
                   match compare k x y, go xs' ys' with
                   | Some a, Some b => Some (radd a b)
                   | _, _ => None
                   end
               | _, _ => Some r0
               end) xs ys
        | VAtom _ a, VAtom _ b => Some (if N.eqb a b then rsame else rdiff)
        | _, _ => Some rdiff            (* same type, other shape: not produced by snapshot *)
        end
  end.

Fixpoint vdepth (v : value) : nat :=
  match v with
  | VRef _ _ e => S (vdepth e)
  | VSlice _ _ cs | VStruct _ cs => S (fold_right (fun c n => Nat.max (vdepth c) n) O cs)
  | _ => 1%nat
  end.

Definition compare_nodes (from to : value) : result :=
  match compare (S (vdepth from)) from to with Some r => r | None => {| num_same := 0; num_diff := 2 |} end.

(* ---------------------------------------------------------------- changeFinder *)
Definition region : Type := (Z * Z)%type.

Definition cg_pos (g : cgroup) : Z := match g with [] => nopos | c :: _ => fst c end.
Definition cg_end (g : cgroup) : Z := snd (last g (nopos, nopos)).

(* changeFinder.commentsFor *)
Definition comments_for (n : value) : list (Z * Z) * list (Z * Z) :=
  let gs := filter (fun g => match g with [] => false | _ => true end) (n_cmts (info n)) in
  (flat_map (fun g => if cg_end g <=? vpos n then g else []) gs,
   flat_map (fun g => if vend n <=? cg_pos g then g else []) gs).

Definition set_cmts (to : value) (cm : list cgroup) : value :=
  match to with
  | VRef t i e => VRef t {| n_isnode := n_isnode i; n_pos := n_pos i; n_end := n_end i; n_cmts := cm |} e
  | _ => to
  end.

(* changeFinder.unchanged: to.Comments = from.Comments *)
Definition unchanged (from to : value) : value := set_cmts to (n_cmts (info from)).

(* changeFinder.endOf: where a node that is about to be walked ends - not after the node it is a part
   of, nor after the region it is charged with (when that region is well-formed) *)
Definition end_of (nend : Z) (r : region) (n : value) : Z :=
  let e1 := if valid nend && (nend <? vend n) then nend else vend n in
  if (fst r <? snd r) && (snd r <? e1) then snd r else e1.

(* walkStruct: where each field starts; [eo] is changeFinder.endOf for the struct being walked *)
Fixpoint starts_of (eo : value -> Z) (cs : list value) (last_end : Z) : list Z :=
  match cs with
  | [] => []
  | c :: cs' =>
      if is_node c then
        let aft := snd (comments_for c) in
        let le := match aft with [] => eo c | _ => Z.max (eo c) (snd (last aft (nopos, nopos))) end in
        vpos c :: starts_of eo cs' le
      else match c with
           | VPos p => (if valid p then p else nopos) :: starts_of eo cs' last_end
           | _ => last_end :: starts_of eo cs' last_end
           end
  end.

(* walkStruct: where each field ends (computed from the last field backwards): a node field ends
   where endOf says - the positions of nodes added to the tree need not be those of their text *)
Fixpoint ends_of (eo : value -> Z) (cs : list value) (starts : list Z) (fend : Z) : list Z * Z :=     (* (ends, nextPos before the first) *)
  match cs, starts with
  | c :: cs', s :: ss' =>
      let (es, nextpos) := ends_of eo cs' ss' fend in
      ((if is_node c then eo c else nextpos) :: es, s)
  | _, _ => ([], fend)
  end.

(* walkSlice: the region of element i *)
Definition elem_region (r : region) (prev : option value) (n : value) (next : option value) : region :=
  let p0 := match prev with
            | None => fst r
            | Some pv => match snd (comments_for pv) with [] => Z.min (vend pv) (vpos n) | _ => vpos n end
            end in
  let e0 := match next with
            | None => snd r
            | Some nx => match fst (comments_for nx) with [] => vpos nx | b :: _ => Z.min (vend n) (fst b) end
            end in
  let (bef, aft) := comments_for n in
  let p1 := match bef with [] => p0 | _ => Z.max p0 (snd (last bef (nopos, nopos))) end in
  let e1 := match aft with [] => e0 | c :: _ => Z.min e0 (fst c) end in
  (p1, e1).

Fixpoint elem_regions (r : region) (prev : option value) (cs : list value) : list region :=
  match cs with
  | [] => []
  | n :: cs' => elem_region r prev n (match cs' with [] => None | nx :: _ => Some nx end) :: elem_regions r (Some n) cs'
  end.

Record wres := { w_equal : bool; w_to : value; w_log : list region }.

Definition nthr (l : list region) (i : nat) : region := nth i l (nopos, nopos).

Section Walk.
  (* diff.Difference as used by walkSlice: the script for two lists of nodes *)
  Variable script : list value -> list value -> list edit.

  (* changeFinder.Walk *)
  Fixpoint walk (fuel : nat) (nend : Z) (r : region) (from to : value) : option wres :=
    match fuel with
    | O => None
    | S k =>
        let changed := Some {| w_equal := false; w_to := to; w_log := [r] |} in
        if negb (N.eqb (vtype from) (vtype to)) then changed
        else if N.eqb (vtype from) T_object || N.eqb (vtype from) T_cgroup then
          Some {| w_equal := true; w_to := to; w_log := [] |}
        else
          match from, to with
          | VPos a, VPos b =>
              if Bool.eqb (valid a) (valid b) then Some {| w_equal := true; w_to := unchanged from to; w_log := [] |}
              else changed
          | VNil _, _ => Some {| w_equal := false; w_to := to; w_log := [] |}        (* "if from.IsNil() { return }" *)
          | VRef _ _ _, VNil _ => changed
          | VRef _ _ a, VRef t i b =>
              match walk k (if n_isnode (info from) then end_of nend r from else nend) r a b with
              | None => None
              | Some w =>
                  let to' := VRef t i (w_to w) in
                  Some {| w_equal := w_equal w; w_to := unchanged from to'; w_log := w_log w |}     (* the comments around a node are around what it has become, too *)
              end
          | VStruct _ xs, VStruct t ys =>
              let ss := starts_of (end_of nend r) xs (fst r) in
              let es := fst (ends_of (end_of nend r) xs ss (snd r)) in
              match (fix go (xs ys : list value) (ss es : list Z) : option (bool * list value * list region) :=
                       match xs, ys, ss, es with
                       | x :: xs', y :: ys', s :: ss', e :: es' =>
                           match walk k nend (s, e) x y with
                           | None => None
                           | Some w =>
                               match go xs' ys' ss' es' with
                               | None => None
                               | Some (eq, tos, lg) => Some (w_equal w && eq, w_to w :: tos, w_log w ++ lg)
                               end
                           end
                       | _, _, _, _ => Some (true, ys, [])
                       end) xs ys ss es with
              | None => None
              | Some (eq, tos, lg) => Some {| w_equal := eq; w_to := VStruct t tos; w_log := lg |}    (* a struct is not a node: unchanged() is not observable *)
              end
          | VSlice _ false xs, VSlice t en ys =>
              if negb (Nat.eqb (length xs) (length ys)) then changed else
              match (fix go (xs ys : list value) : option (bool * list value * list region) :=
                       match xs, ys with
                       | x :: xs', y :: ys' =>
                           match walk k nend r x y with
                           | None => None
                           | Some w =>
                               match go xs' ys' with
                               | None => None
                               | Some (eq, tos, lg) => Some (w_equal w && eq, w_to w :: tos, w_log w ++ lg)
                               end
                           end
                       | _, _ => Some (true, ys, [])
                       end) xs ys with
              | None => None
              | Some (eq, tos, lg) => Some {| w_equal := eq; w_to := VSlice t en tos; w_log := lg |}
              end
          | VSlice _ true xs, VSlice t en ys =>
              let regs := elem_regions r None xs in
              match (fix go (es : list edit) (xs ys : list value) (regs : list region) : option (bool * list value * list region) :=
                       match es with
                       | [] => Some (true, ys, [])
                       | Identity :: es' =>
                           match xs, ys, regs with
                           | x :: xs', y :: ys', _ :: regs' =>
                               match go es' xs' ys' regs' with
                               | None => None
                               | Some (eq, tos, lg) => Some (eq, unchanged x y :: tos, lg)
                               end
                           | _, _, _ => None                      (* index out of range *)
                           end
                       | Modified :: es' =>
                           match xs, ys, regs with
                           | x :: xs', y :: ys', rg :: regs' =>
                               match walk k nend rg x y with
                               | None => None
                               | Some w =>
                                   match go es' xs' ys' regs' with
                                   | None => None
                                   | Some (eq, tos, lg) => Some (false, w_to w :: tos, w_log w ++ lg)
                                   end
                               end
                           | _, _, _ => None
                           end
                       | UniqueX :: es' =>
                           match xs, regs with
                           | x :: xs', rg :: regs' =>
                               match go es' xs' ys regs' with
                               | None => None
                               | Some (eq, tos, lg) => Some (false, tos, rg :: lg)
                               end
                           | _, _ => None
                           end
                       | UniqueY :: es' =>
                           match ys with
                           | y :: ys' =>
                               match go es' xs ys' regs with
                               | None => None
                               | Some (eq, tos, lg) => Some (false, y :: tos, lg)
                               end
                           | _ => None
                           end
                       end) (script xs ys) xs ys regs with
              | None => None
              | Some (eq, tos, lg) => Some {| w_equal := eq; w_to := VSlice t en tos; w_log := lg |}
              end
          | VAtom _ a, VAtom _ b =>
              if N.eqb a b then Some {| w_equal := true; w_to := unchanged from to; w_log := [] |} else changed
          | _, _ => changed                     (* same type, other shape: not produced by snapshot *)
          end
    end.
End Walk.

(* diff.Difference over compareNodes *)
Definition the_script (xs ys : list value) : list edit :=
  match difference (fun i j => compare_nodes (nthv xs i) (nthv ys j)) (zlen xs) (zlen ys) with
  | Some es => es
  | None => []
  end.

(* Snapshot.Diff *)
Definition diff_snapshot (from to : value) : option wres :=
  walk the_script (S (vdepth from)) nopos (vpos from, vend from) from to.

(* engine.Changelog.Changed: a span that starts at NoPos is not recorded; the others go to the
   "plus" set of Model/Comments.v *)
Definition record_changed (calls : list region) : list iv := filter (fun r => valid (fst r)) calls.

(* ---------------------------------------------------------------- executable side conditions
   (evaluated on every snapshot of a check run; see Proofs/AstDiffFacts.v for what they give) *)
Definition okposb (lo hi x : Z) : bool := (x =? nopos) || ((lo <=? x) && (x <=? hi)).
Definition okcb (lo hi : Z) (c : Z * Z) : bool :=
  (lo <=? fst c) && (fst c <=? hi) && (lo <=? snd c) && (snd c <=? hi).

Definition inrb (lo hi x : Z) : bool := (lo <=? x) && (x <=? hi).

(* a node has a position and an end within the bounds; a list of nodes holds nodes only *)
Definition nodeposb (lo hi : Z) (i : ninfo) : bool :=
  negb (n_isnode i) || (inrb lo hi (n_pos i) && inrb lo hi (n_end i)).

Fixpoint boundedb (lo hi : Z) (v : value) : bool :=
  match v with
  | VRef _ i e => okposb lo hi (n_pos i) && okposb lo hi (n_end i) && nodeposb lo hi i
                  && forallb (forallb (okcb lo hi)) (n_cmts i) && boundedb lo hi e
  | VPos p => okposb lo hi p
  | VSlice _ en cs =>
      (fix all (l : list value) : bool := match l with [] => true | c :: l' => boundedb lo hi c && all l' end) cs
      && (negb en || forallb is_node cs)
  | VStruct _ cs =>
      (fix all (l : list value) : bool := match l with [] => true | c :: l' => boundedb lo hi c && all l' end) cs
  | _ => true
  end.

Fixpoint bounded_rootb (lo hi : Z) (v : value) : bool :=
  match v with
  | VRef _ i e => okposb lo hi (n_pos i) && okposb lo hi (n_end i) && nodeposb lo hi i && bounded_rootb lo hi e
  | _ => boundedb lo hi v
  end.

Definition node_okb (x : value) : bool := (nopos <? vpos x) && (vpos x <=? vend x).

Fixpoint orderedb (xs : list value) : bool :=
  match xs with
  | a :: ((b :: _) as tl) => (vend a <=? vpos b) && orderedb tl
  | _ => true
  end.

Definition pair_eqb (a b : Z * Z) : bool := (fst a =? fst b) && (snd a =? snd b).
Definition memb (c : Z * Z) (l : list (Z * Z)) : bool := existsb (pair_eqb c) l.

Definition prev_elem (xs : list value) (j : nat) : option value :=
  match j with O => None | S j' => nth_error xs j' end.

(* how comment c belongs to element j: before it (after the previous element), after it
   (before the next element), or within its extent *)
Definition attachedb (xs : list value) (j : nat) (xj : value) (c : Z * Z) : bool :=
  (memb c (fst (comments_for xj))
   && match prev_elem xs j with Some pv => vend pv <=? fst c | None => true end
   && (snd c <=? vpos xj))
  || (memb c (snd (comments_for xj))
      && (vend xj <=? fst c)
      && match nth_error xs (S j) with Some nx => snd c <=? vpos nx | None => true end)
  || ((vpos xj <=? fst c) && (snd c <=? vend xj)).

(* the list-level side conditions of the theorem *)
Definition is_identity (e : edit) : bool := match e with Identity => true | _ => false end.

Fixpoint xedits (es : list edit) : list edit :=
  match es with
  | [] => []
  | UniqueY :: es' => xedits es'
  | e :: es' => e :: xedits es'
  end.

(* [es]: the edits of the elements of xs (xedits of the script) *)
Definition list_okb (nend : Z) (r : region) (xs : list value) (es : list edit) : bool :=
  forallb node_okb xs && orderedb xs
  && forallb (fun xe => is_identity (snd xe) || bounded_rootb (vpos (fst xe)) (vend (fst xe)) (fst xe)) (combine xs es)
  && (nopos <? fst r) && match xs with x0 :: _ => fst r <=? vpos x0 | [] => true end
  && ((nend =? nopos) || forallb (fun x => vpos x <=? nend) xs).

(* the conjuncts of [list_okb] one by one (diagnostics of a check run: which side condition failed) *)
Definition list_ok_parts (nend : Z) (r : region) (xs : list value) (es : list edit) : list bool :=
  [ forallb node_okb xs; orderedb xs;
    forallb (fun xe => is_identity (snd xe) || bounded_rootb (vpos (fst xe)) (vend (fst xe)) (fst xe)) (combine xs es);
    (nopos <? fst r); match xs with x0 :: _ => fst r <=? vpos x0 | [] => true end;
    ((nend =? nopos) || forallb (fun x => vpos x <=? nend) xs) ].

Definition own_comments (x : value) : list (Z * Z) := concat (n_cmts (info x)).

(* every call keeps clear of the comment, or starts at NoPos *)
Definition clearb (c : Z * Z) (r : region) : bool :=
  (fst r =? nopos) || (snd r <=? fst r) || (snd r <=? fst c) || (snd c <=? fst r).

(* the declarations of a file snapshot and the region walkStruct gives their list *)
Fixpoint first_node_slice (cs : list value) (ss es : list Z) : option (region * list value) :=
  match cs, ss, es with
  | VSlice _ true xs :: _, s :: _, e :: _ => Some ((s, e), xs)
  | _ :: cs', _ :: ss', _ :: es' => first_node_slice cs' ss' es'
  | _, _, _ => None
  end.

Definition file_nend (from : value) : Z :=
  if is_node from then end_of nopos (vpos from, vend from) from else nopos.

(* the same tree up to positions (validity only), attached comments and "is a node" flags *)
Fixpoint sameb (x y : value) : bool :=
  match x, y with
  | VNil t, VNil t' => N.eqb t t'
  | VPos a, VPos b => Bool.eqb (valid a) (valid b)
  | VAtom t a, VAtom t' b => N.eqb t t' && N.eqb a b
  | VRef t _ e, VRef t' _ e' => N.eqb t t' && sameb e e'
  | VSlice t en xs, VSlice t' en' ys => N.eqb t t' && Bool.eqb en en' &&
      (fix all (xs ys : list value) : bool :=
         match xs, ys with [], [] => true | x :: xs', y :: ys' => sameb x y && all xs' ys' | _, _ => false end) xs ys
  | VStruct t xs, VStruct t' ys => N.eqb t t' &&
      (fix all (xs ys : list value) : bool :=
         match xs, ys with [], [] => true | x :: xs', y :: ys' => sameb x y && all xs' ys' | _, _ => false end) xs ys
  | _, _ => false
  end.

Fixpoint sameb_all (xs ys : list value) : bool :=
  match xs, ys with [], [] => true | x :: xs', y :: ys' => sameb x y && sameb_all xs' ys' | _, _ => false end.

Definition plain_type (t : N) : bool := negb (N.eqb t T_object) && negb (N.eqb t T_cgroup).

(* the fields of a file other than its first list of nodes (the declarations) are the same in both
   snapshots; the declarations are a list of nodes in both *)
Fixpoint others_sameb (cs cs' : list value) : bool :=
  match cs, cs' with
  | VSlice t true _ :: tl, VSlice t' true _ :: tl' => N.eqb t t' && plain_type t && sameb_all tl tl'
  | c :: tl, c' :: tl' => sameb c c' && others_sameb tl tl'
  | _, _ => false
  end.

Definition file_okb (from to : value) : bool :=
  match from, to with
  | VRef tF iF (VStruct tS cs), VRef tF' _ (VStruct tS' cs') =>
      N.eqb tF tF' && plain_type tF && N.eqb tS tS' && plain_type tS && n_isnode iF && others_sameb cs cs'
  | _, _ => false
  end.

Definition file_decls (from : value) : option (region * list value) :=
  match from with
  | VRef _ _ (VStruct _ cs) =>
      let r := (vpos from, vend from) in
      let eo := end_of (file_nend from) r in
      let ss := starts_of eo cs (fst r) in
      first_node_slice cs ss (fst (ends_of eo cs ss (snd r)))
  | _ => None
  end.

Fixpoint first_node_slice_to (l : list value) : option (list value) :=
  match l with VSlice _ true ys :: _ => Some ys | _ :: l' => first_node_slice_to l' | [] => None end.

Definition file_decls_to (to : value) : list value :=
  match to with
  | VRef _ _ (VStruct _ cs) => match first_node_slice_to cs with Some ys => ys | None => [] end
  | _ => []
  end.

(* report for one step: are the side conditions met; for each declaration the script pairs as
   identical: its index, whether all its comments are attached in the sense above, and those
   of the attached ones that some call does not keep clear of (a comment that the snapshot
   associates with the declaration but that lies beyond its neighbours - inherited from the
   declaration it was paired with as Modified by an earlier step - is none of its own) *)
Definition decl_report (from to : value) (calls : list region) : option (bool * list (nat * bool * list (Z * Z))) :=
  match file_decls from with
  | None => None
  | Some (r, xs) =>
      let es := xedits (the_script xs (file_decls_to to)) in
      Some (file_okb from to && list_okb (file_nend from) r xs es,
            flat_map (fun jx => let '(j, x, e) := jx in
                        if is_identity e then
                          let cs := filter (fun c => fst c <? snd c) (own_comments x) in
                          [(j, forallb (attachedb xs j x) cs, filter (fun c => attachedb xs j x c && negb (forallb (clearb c) calls)) cs)]
                        else [])
                     (combine (combine (seq 0 (length xs)) xs) es))
  end.

Definition decl_conditions (from to : value) : list bool :=
  match file_decls from with
  | None => []
  | Some (r, xs) => list_ok_parts (file_nend from) r xs (xedits (the_script xs (file_decls_to to))) ++ [file_okb from to]
  end.

(* does the step change exactly one declaration, in the sense of C17_single_change_pairs_every_other_declaration:
   lists of the same length, the same trees except at one index, where nodeComparer finds a difference *)
Definition one_change_at (xs ys : list value) : option nat :=
  if negb (Nat.eqb (length xs) (length ys)) then None else
  match filter (fun i => negb (sameb (nth i xs (VNil 0)) (nth i ys (VNil 0)))) (seq 0 (length xs)) with
  | [a] => if r_equal (compare_nodes (nth a xs (VNil 0)) (nth a ys (VNil 0))) then None else Some a
  | _ => None
  end.

(* -1: the hypotheses do not hold; 0: they hold and every other declaration is paired as identical; 1: they hold and one is not *)
Definition one_change_report (from to : value) : Z :=
  match file_decls from with
  | None => -1
  | Some (_, xs) =>
      let ys := file_decls_to to in
      match one_change_at xs ys with
      | None => -1
      | Some a =>
          let es := xedits (the_script xs ys) in
          if forallb (fun j => Nat.eqb j a || match nth_error es j with Some Identity => true | _ => false end) (seq 0 (length xs))
          then 0 else 1
      end
  end.
