(* Model of main.go:findFiles / findGoFiles, including the part of
   path/filepath.Walk they rely on (Lstat of the root, directory entries in
   lexical order, SkipDir).  A file system is an inductive tree; a path is
   the list of its components from the root. *)
From GP Require Export Bytes.
From Coq Require Import String.

Definition name := bytes.

Inductive node :=
| File                              (* regular file *)
| Sym                               (* symbolic link (Walk uses Lstat: never followed) *)
| Other                             (* fifo, socket, device ... *)
| Dir (es : list (name * node)).    (* entries as os.ReadDir returns them: sorted by name *)

Definition comps := list name.

(* ---- names ---- *)
Definition dot_go : bytes := s2b ".go"%string.
Definition n_vendor : bytes := s2b "vendor"%string.
Definition n_testdata : bytes := s2b "testdata"%string.

Definition go_name (n : name) : bool := has_suffix n dot_go.

(* the directory-name switch of findGoFiles *)
Definition excluded (n : name) : bool :=
  match n with
  | [] => true                                      (* len(base) == 0 *)
  | c :: _ => N.eqb c 46 || N.eqb c 95              (* '.'  '_' *)
              || beq n n_testdata || beq n n_vendor
  end.

Definition last_name (p : comps) : name := last p [].

(* ---- filepath.Walk with gopatch's callback, from node [n] located at [p] ---- *)
Fixpoint walk (p : comps) (n : node) : list comps :=
  match n with
  | File => if go_name (last_name p) then [p] else []
  | Sym | Other => []
  | Dir es =>
      if excluded (last_name p) then []              (* SkipDir *)
      else (fix entries (es : list (name * node)) : list comps :=
              match es with
              | [] => []
              | (x, c) :: es' => walk (p ++ [x]) c ++ entries es'
              end) es
  end.

(* ---- locating the node a path names (Lstat of the root of the walk) ---- *)
Fixpoint find_entry (es : list (name * node)) (x : name) : option node :=
  match es with
  | [] => None
  | (y, c) :: es' => if beq y x then Some c else find_entry es' x
  end.

Fixpoint locate (n : node) (p : comps) : option node :=
  match p with
  | [] => Some n
  | x :: p' => match n with
               | Dir es => match find_entry es x with
                           | Some c => locate c p'
                           | None => None
                           end
               | _ => None
               end
  end.

(* ---- argument resolution: TrimSuffix "...", IsAbs, Join(cwd, .) / Clean ---- *)
Definition SLASH : N := 47.
Definition dots3 : bytes := s2b "..."%string.

Fixpoint split_slash_aux (cur : bytes) (s : bytes) : list bytes :=
  match s with
  | [] => [rev cur]
  | c :: s' => if N.eqb c SLASH then rev cur :: split_slash_aux [] s'
               else split_slash_aux (c :: cur) s'
  end.
Definition split_slash (s : bytes) : list bytes := split_slash_aux [] s.

(* Clean of an absolute path given as raw components: drop "" and ".", ".." pops *)
Fixpoint normalize (acc : comps) (raw : list bytes) : comps :=
  match raw with
  | [] => rev acc
  | x :: raw' =>
      if beq x [] || beq x [46] then normalize acc raw'
      else if beq x [46; 46] then normalize (tl acc) raw'
      else normalize (x :: acc) raw'
  end.

Definition trim_dots (a : bytes) : bytes :=
  match cut_suffix a dots3 with Some r => r | None => a end.

Definition is_abs (a : bytes) : bool := match a with c :: _ => N.eqb c SLASH | [] => false end.

(* (absolute components, was the argument relative?) *)
Definition resolve (cwd : comps) (arg : bytes) : comps * bool :=
  let a := trim_dots arg in
  if is_abs a then (normalize [] (split_slash a), false)
  else (normalize (rev cwd) (split_slash a), true).

(* ---- rendering paths back to strings ---- *)
Definition abs_string (p : comps) : bytes :=
  match p with
  | [] => [SLASH]
  | _ => flat_map (fun x => SLASH :: x) p
  end.

Fixpoint strip_common (a b : comps) : comps * comps :=
  match a, b with
  | x :: a', y :: b' => if beq x y then strip_common a' b' else (a, b)
  | _, _ => (a, b)
  end.

Definition join_slash (p : comps) : bytes :=
  match p with
  | [] => [46]
  | x :: p' => x ++ flat_map (fun y => SLASH :: y) p'
  end.

(* filepath.Rel(cwd, p) for absolute clean paths *)
Definition rel_string (cwd p : comps) : bytes :=
  let (c, r) := strip_common cwd p in
  join_slash (map (fun _ => [46; 46]) c ++ r).

Record found := { f_abs : comps; f_provided : bytes }.

(* findGoFiles: None = the walk reported an error (the root does not exist) *)
Definition find_go_files (root : node) (cwd : comps) (arg : bytes) : option (list found) :=
  let (p, relative) := resolve cwd arg in
  match locate root p with
  | None => None
  | Some n =>
      Some (map (fun q => {| f_abs := q;
                             f_provided := if relative then rel_string cwd q else abs_string q |})
                (walk p n))
  end.

(* ---- the map keyed by absolute path, then sort.Slice by the absolute string ---- *)
Fixpoint comps_eqb (a b : comps) : bool :=
  match a, b with
  | [], [] => true
  | x :: a', y :: b' => beq x y && comps_eqb a' b'
  | _, _ => false
  end.

(* files[f.Absolute] = f : a later entry replaces an earlier one with the same key *)
Fixpoint upsert (m : list found) (f : found) : list found :=
  match m with
  | [] => [f]
  | g :: m' => if comps_eqb (f_abs g) (f_abs f) then f :: m' else g :: upsert m' f
  end.

(* byte-wise lexicographic "<" on strings *)
Fixpoint blt (a b : bytes) : bool :=
  match a, b with
  | _, [] => false
  | [], _ :: _ => true
  | x :: a', y :: b' => N.ltb x y || (N.eqb x y && blt a' b')
  end.

Fixpoint insert_sorted (f : found) (l : list found) : list found :=
  match l with
  | [] => [f]
  | g :: l' => if blt (abs_string (f_abs g)) (abs_string (f_abs f)) then g :: insert_sorted f l'
               else f :: l
  end.

Definition sort_found (l : list found) : list found := fold_right insert_sorted [] l.

(* findFiles: (sorted de-duplicated files, arguments that could not be enumerated) *)
Definition find_files (root : node) (cwd : comps) (args : list bytes) : list found * list bytes :=
  let step (acc : list found * list bytes) (arg : bytes) :=
    match find_go_files root cwd arg with
    | None => (fst acc, snd acc ++ [arg])
    | Some fs => (fold_left upsert fs (fst acc), snd acc)
    end in
  let (m, errs) := fold_left step args ([], []) in
  (sort_found m, errs).
