(* Model of internal/parse/section (the line splitter: headers, names, metavariable
   and patch sections, '#' comments) and of parse/patch.go:splitPatch and
   section/bytes.go:ToBytes.  Bytes are ASCII-level: the code's unicode.IsSpace /
   IsLetter are modelled on single bytes (bytes >= 128 count as letters). *)
From GP Require Export Bytes.
From Coq Require Import String.

Definition AT : N := 64.      (* '@' *)
Definition HASH : N := 35.    (* '#' *)
Definition MINUS : N := 45.
Definition PLUS : N := 43.
Definition SP : N := 32.

Definition is_space (c : N) : bool :=
  N.eqb c 32 || (N.leb 9 c && N.leb c 13).

Fixpoint trim_left (s : bytes) : bytes :=
  match s with
  | c :: s' => if is_space c then trim_left s' else s
  | [] => []
  end.
Definition trim_right (s : bytes) : bytes := rev (trim_left (rev s)).
Definition trim_space (s : bytes) : bytes := trim_right (trim_left s).

(* isComment *)
Definition is_comment (s : bytes) : bool :=
  match trim_left s with c :: _ => N.eqb c HASH | [] => false end.

Definition is_blank (s : bytes) : bool :=
  match trim_left s with [] => true | _ => false end.

(* ---- raw lines with their start offsets ---- *)
Record line := { l_off : nat; l_text : bytes }.

(* content split at '\n'; a final empty piece (content ends with a newline, or is
   empty) is not a line *)
Fixpoint raw_lines_aux (off start : nat) (cur : bytes) (s : bytes) : list line :=
  match s with
  | [] => match cur with [] => [] | _ => [{| l_off := start; l_text := rev cur |}] end
  | c :: s' =>
      if N.eqb c NL
      then {| l_off := start; l_text := rev cur |} :: raw_lines_aux (S off) (S off) [] s'
      else raw_lines_aux (S off) start (c :: cur) s'
  end.
Definition raw_lines (content : bytes) : list line := raw_lines_aux 0 0 [] content.

(* ---- programSplitter.next: non-comment lines, each with the comment block that
   directly precedes it (each comment: TrimSpace(text[1:])) ---- *)
Record item := { i_line : line; i_comments : list bytes }.

Fixpoint items_aux (pending : list bytes) (ls : list line) : list item :=
  match ls with
  | [] => []
  | l :: ls' =>
      if is_comment (l_text l)
      then items_aux (pending ++ [trim_space (tl (l_text l))]) ls'
      else {| i_line := l; i_comments := pending |} :: items_aux [] ls'
  end.
Definition items (content : bytes) : list item := items_aux [] (raw_lines content).

(* ---- change headers ---- *)
Definition is_letter (c : N) : bool :=
  (N.leb 65 c && N.leb c 90) || (N.leb 97 c && N.leb c 122) || N.leb 128 c.
Definition is_digit (c : N) : bool := N.leb 48 c && N.leb c 57.

(* validateChangeName: index of the first invalid byte *)
Fixpoint validate_name_aux (i : nat) (s : bytes) : option nat :=
  match s with
  | [] => None
  | c :: s' =>
      if is_letter c || N.eqb c 95 || (negb (Nat.eqb i 0) && is_digit c)
      then validate_name_aux (S i) s'
      else Some i
  end.
Definition validate_name (s : bytes) : option nat := validate_name_aux 0 s.

Inductive serr :=
| EBadName (off : nat)         (* invalid name: ... unexpected character, at this offset *)
| EBadHeader (off : nat)       (* unexpected "...", expected "@@" or "@ change_name @" *)
| ENoMetaEnd (off : nat)       (* unexpected EOF, expected "@@" *)
| ENoChange (off : nat).       (* unexpected EOF, at least one change is required *)

Definition atat : bytes := [AT; AT].

Fixpoint count_leading_space (s : bytes) : nat :=
  match s with c :: s' => if is_space c then S (count_leading_space s') else 0 | [] => 0 end.

(* readName: (name, error) *)
Definition read_name (l : line) : bytes * list serr :=
  let t := l_text l in
  if beq t atat then ([], [])
  else match t with
       | c :: rest =>
           if N.eqb c AT && Nat.ltb 2 (length t) && N.eqb (last t 0%N) AT
           then let inner := removelast rest in           (* between the two '@' *)
                let shift := 1 + (if is_blank inner then 0 else count_leading_space inner) in
                let nm := trim_space inner in
                match validate_name nm with
                | None => (nm, [])
                | Some i => ([], [EBadName (l_off l + shift + i)])
                end
           else ([], [EBadHeader (l_off l)])
       | [] => ([], [EBadHeader (l_off l)])
       end.

Record change := {
  c_header : nat;             (* offset of the header line *)
  c_name : bytes;
  c_meta : list line;
  c_at : option nat;          (* offset of the closing "@@" of the metavariable section *)
  c_patch : list line;
  c_comments : list bytes     (* description *)
}.

(* readMeta: lines up to the "@@" line *)
Fixpoint read_meta (its : list item) : list line * option (nat * list item) :=
  match its with
  | [] => ([], None)
  | it :: its' =>
      if beq (l_text (i_line it)) atat then ([], Some (l_off (i_line it), its'))
      else let (m, r) := read_meta its' in (i_line it :: m, r)
  end.

(* readPatch: lines until one that starts with '@' *)
Fixpoint read_patch (its : list item) : list line * list item :=
  match its with
  | [] => ([], [])
  | it :: its' =>
      match l_text (i_line it) with
      | c :: _ => if N.eqb c AT then ([], its)
                  else let (p, r) := read_patch its' in (i_line it :: p, r)
      | [] => let (p, r) := read_patch its' in (i_line it :: p, r)
      end
  end.

(* blank lines before a header are skipped (fix: "skip blank lines before a header") *)
Fixpoint skip_blank (its : list item) : list item :=
  match its with
  | it :: its' => if is_blank (l_text (i_line it)) then skip_blank its' else its
  | [] => []
  end.

(* readProgram; fuel = number of items (each change consumes at least its header) *)
Fixpoint read_changes (fuel : nat) (eof_off : nat) (its : list item) : list change * list serr :=
  match fuel with
  | O => ([], [])
  | S fuel' =>
      match skip_blank its with
      | [] => ([], [])
      | hd :: rest =>
          let (nm, e1) := read_name (i_line hd) in
          let (meta, r) := read_meta rest in
          match r with
          | None =>
              (* EOF inside the metavariable section *)
              ([{| c_header := l_off (i_line hd); c_name := nm; c_meta := [];
                   c_at := None; c_patch := []; c_comments := i_comments hd |}],
               e1 ++ [ENoMetaEnd eof_off])
          | Some (at_off, rest') =>
              let (patch, rest'') := read_patch rest' in
              let (cs, es) := read_changes fuel' eof_off rest'' in
              ({| c_header := l_off (i_line hd); c_name := nm; c_meta := meta;
                  c_at := Some at_off; c_patch := patch; c_comments := i_comments hd |} :: cs,
               e1 ++ es)
          end
      end
  end.

Definition split (content : bytes) : list change * list serr :=
  let its := items content in
  let (cs, es) := read_changes (S (length its)) (length content) its in
  match cs with
  | [] => ([], es ++ [ENoChange (length content)])
  | _ => (cs, es)
  end.

(* ---- section.ToBytes: scratch buffer of a section + (scratch offset, original offset) ---- *)
Fixpoint to_bytes_aux (off : nat) (ls : list line) : bytes * list (nat * nat) :=
  match ls with
  | [] => ([], [])
  | l :: ls' =>
      let (b, m) := to_bytes_aux (off + length (l_text l) + 1) ls' in
      (l_text l ++ NL :: b, (off, l_off l) :: m)
  end.
Definition to_bytes (ls : list line) : bytes * list (nat * nat) := to_bytes_aux 0 ls.

(* ---- parse/patch.go:splitPatch ---- *)
Record version := { v_contents : bytes; v_lines : list (nat * nat) }.  (* (offset in contents, original offset) *)

Definition add_line (v : version) (text : bytes) (orig : nat) : version :=
  {| v_contents := v_contents v ++ text ++ [NL];
     v_lines := v_lines v ++ [(length (v_contents v), orig)] |}.

Definition split_patch_step (acc : version * version) (l : line) : version * version :=
  let (m, p) := acc in
  match l_text l with
  | c :: rest =>
      if N.eqb c MINUS then (add_line m rest (S (l_off l)), p)
      else if N.eqb c PLUS then (m, add_line p rest (S (l_off l)))
      else (add_line m (l_text l) (l_off l), add_line p (l_text l) (l_off l))
  | [] => (add_line m [] (l_off l), add_line p [] (l_off l))
  end.

Definition v0 : version := {| v_contents := []; v_lines := [] |}.
Definition split_patch (ls : list line) : version * version :=
  fold_left split_patch_step ls (v0, v0).
