(* Model of internal/parse/section (the line splitter: headers, names, metavariable
   and patch sections, '#' comments) and of parse/patch.go:splitPatch and
   section/bytes.go:ToBytes.  Bytes are ASCII-level: the code's unicode.IsSpace /
   IsLetter are modelled on single bytes (bytes >= 128 count as letters). *)
From GP Require Export Bytes.

Definition AT : N := 64.      (* '@' *)
Definition HASH : N := 35.    (* '#' *)
Definition MINUS : N := 45.
Definition PLUS : N := 43.
Definition SP : N := 32.
Local Open Scope nat_scope.

Definition is_space (c : N) : bool :=
  N.eqb c 32 || (N.leb 9 c && N.leb c 13).

Fixpoint trim_left (s : bytes) : bytes :=
  match s with
  | c :: s' => if is_space c then trim_left s' else s
  | [] => []
  end.
Definition trim_right (s : bytes) : bytes := rev (trim_left (rev s)).
Definition trim_space (s : bytes) : bytes := trim_right (trim_left s).

(* isComment *)
Definition is_comment (s : bytes) : bool :=
  match trim_left s with c :: _ => N.eqb c HASH | [] => false end.

Definition is_blank (s : bytes) : bool :=
  match trim_left s with [] => true | _ => false end.

(* ---- raw lines with their start offsets ---- *)
Record line := { l_off : nat; l_text : bytes }.

(* content split at '\n'; a final empty piece (content ends with a newline, or is
   empty) is not a line *)
Fixpoint raw_lines_aux (off start : nat) (cur : bytes) (s : bytes) : list line :=
  match s with
  | [] => match cur with [] => [] | _ => [{| l_off := start; l_text := rev cur |}] end
  | c :: s' =>
      if N.eqb c NL
      then {| l_off := start; l_text := rev cur |} :: raw_lines_aux (S off) (S off) [] s'
      else raw_lines_aux (S off) start (c :: cur) s'
  end.
Definition raw_lines (content : bytes) : list line := raw_lines_aux 0 0 [] content.

(* ---- programSplitter.next: non-comment lines, each with the comment block that
   directly precedes it (each comment: TrimSpace(text[1:])) ---- *)
Record item := { i_line : line; i_comments : list bytes }.

Fixpoint items_aux (pending : list bytes) (ls : list line) : list item :=
  match ls with
  | [] => []
  | l :: ls' =>
      if is_comment (l_text l)
      then items_aux (pending ++ [trim_space (tl (l_text l))]) ls'
      else {| i_line := l; i_comments := pending |} :: items_aux [] ls'
  end.
Definition items (content : bytes) : list item := items_aux [] (raw_lines content).

(* ---- change headers ---- *)
Definition is_letter (c : N) : bool :=
  (N.leb 65 c && N.leb c 90) || (N.leb 97 c && N.leb c 122) || N.leb 128 c.
Definition is_digit (c : N) : bool := N.leb 48 c && N.leb c 57.

(* validateChangeName: index of the first invalid byte *)
Fixpoint validate_name_aux (i : nat) (s : bytes) : option nat :=
  match s with
  | [] => None
  | c :: s' =>
      if is_letter c || N.eqb c 95 || (negb (Nat.eqb i 0) && is_digit c)
      then validate_name_aux (S i) s'
      else Some i
  end.
Definition validate_name (s : bytes) : option nat := validate_name_aux 0 s.

Inductive serr :=
| EBadName (off : nat)         (* invalid name: ... unexpected character, at this offset *)
| EBadHeader (off : nat)       (* unexpected "...", expected "@@" or "@ change_name @" *)
| ENoMetaEnd (off : nat)       (* unexpected EOF, expected "@@" *)
| ENoChange (off : nat).       (* unexpected EOF, at least one change is required *)

Definition atat : bytes := [AT; AT].

Fixpoint count_leading_space (s : bytes) : nat :=
  match s with c :: s' => if is_space c then S (count_leading_space s') else 0 | [] => 0 end.

(* readName: (name, error) *)
Definition read_name (l : line) : bytes * list serr :=
  let t := l_text l in
  if beq t atat then ([], [])
  else match t with
       | c :: rest =>
           if N.eqb c AT && Nat.ltb 2 (length t) && N.eqb (last t 0%N) AT
           then let inner := removelast rest in           (* between the two '@' *)
                let shift := 1 + (if is_blank inner then 0 else count_leading_space inner) in
                let nm := trim_space inner in
                match validate_name nm with
                | None => (nm, [])
                | Some i => ([], [EBadName (l_off l + shift + i)])
                end
           else ([], [EBadHeader (l_off l)])
       | [] => ([], [EBadHeader (l_off l)])
       end.

Record change := {
  c_header : nat;             (* offset of the header line *)
  c_name : bytes;
  c_meta : list line;
  c_at : option nat;          (* offset of the closing "@@" of the metavariable section *)
  c_patch : list line;
  c_comments : list bytes     (* description *)
}.

(* The splitter as a state machine over the non-comment lines.  Each step is one
   programSplitter.next(); the states are the three loops of readChange:
     SHeader : at the top of readProgram, about to read a header
     SMeta c : inside readMeta of change c
     SPatch c: inside readPatch of change c *)
Inductive sstate :=
| SHeader
| SMeta (c : change)
| SPatch (c : change).

Record sacc := { a_done : list change; a_errs : list serr; a_state : sstate }.

Definition starts_with_at (t : bytes) : bool :=
  match t with c :: _ => N.eqb c AT | [] => false end.

Definition open_change (a : sacc) (it : item) : sacc :=
  let (nm, e) := read_name (i_line it) in
  {| a_done := a_done a; a_errs := a_errs a ++ e;
     a_state := SMeta {| c_header := l_off (i_line it); c_name := nm; c_meta := [];
                         c_at := None; c_patch := []; c_comments := i_comments it |} |}.

Definition sstep (a : sacc) (it : item) : sacc :=
  let t := l_text (i_line it) in
  match a_state a with
  | SHeader =>
      (* blank lines before a header are skipped *)
      if is_blank t then a else open_change a it
  | SMeta c =>
      if beq t atat
      then {| a_done := a_done a; a_errs := a_errs a;
              a_state := SPatch {| c_header := c_header c; c_name := c_name c; c_meta := c_meta c;
                                   c_at := Some (l_off (i_line it)); c_patch := [];
                                   c_comments := c_comments c |} |}
      else {| a_done := a_done a; a_errs := a_errs a;
              a_state := SMeta {| c_header := c_header c; c_name := c_name c;
                                  c_meta := c_meta c ++ [i_line it];
                                  c_at := None; c_patch := []; c_comments := c_comments c |} |}
  | SPatch c =>
      if starts_with_at t
      then open_change {| a_done := a_done a ++ [c]; a_errs := a_errs a; a_state := SHeader |} it
      else {| a_done := a_done a; a_errs := a_errs a;
              a_state := SPatch {| c_header := c_header c; c_name := c_name c; c_meta := c_meta c;
                                   c_at := c_at c; c_patch := c_patch c ++ [i_line it];
                                   c_comments := c_comments c |} |}
  end.

(* end of file *)
Definition sfinish (eof_off : nat) (a : sacc) : list change * list serr :=
  match a_state a with
  | SHeader => (a_done a, a_errs a)
  | SMeta c =>
      (* readMeta hits EOF: error, the section is dropped; readPatch then finds nothing *)
      (a_done a ++ [{| c_header := c_header c; c_name := c_name c; c_meta := [];
                       c_at := None; c_patch := []; c_comments := c_comments c |}],
       a_errs a ++ [ENoMetaEnd eof_off])
  | SPatch c => (a_done a ++ [c], a_errs a)
  end.

Definition a0 : sacc := {| a_done := []; a_errs := []; a_state := SHeader |}.

Definition read_changes (eof_off : nat) (its : list item) : list change * list serr :=
  sfinish eof_off (fold_left sstep its a0).

Definition split (content : bytes) : list change * list serr :=
  let (cs, es) := read_changes (length content) (items content) in
  match cs with
  | [] => ([], es ++ [ENoChange (length content)])
  | _ => (cs, es)
  end.

(* ---- section.ToBytes: scratch buffer of a section + (scratch offset, original offset) ---- *)
Fixpoint to_bytes_aux (off : nat) (ls : list line) : bytes * list (nat * nat) :=
  match ls with
  | [] => ([], [])
  | l :: ls' =>
      let (b, m) := to_bytes_aux (off + length (l_text l) + 1) ls' in
      (l_text l ++ NL :: b, (off, l_off l) :: m)
  end.
Definition to_bytes (ls : list line) : bytes * list (nat * nat) := to_bytes_aux 0 ls.

(* ---- parse/patch.go:splitPatch ---- *)
Record version := { v_contents : bytes; v_lines : list (nat * nat) }.  (* (offset in contents, original offset) *)

Definition add_line (v : version) (text : bytes) (orig : nat) : version :=
  {| v_contents := v_contents v ++ text ++ [NL];
     v_lines := v_lines v ++ [(length (v_contents v), orig)] |}.

Definition split_patch_step (acc : version * version) (l : line) : version * version :=
  let (m, p) := acc in
  match l_text l with
  | c :: rest =>
      if N.eqb c MINUS then (add_line m rest (S (l_off l)), p)
      else if N.eqb c PLUS then (m, add_line p rest (S (l_off l)))
      else (add_line m (l_text l) (l_off l), add_line p (l_text l) (l_off l))
  | [] => (add_line m [] (l_off l), add_line p [] (l_off l))
  end.

Definition v0 : version := {| v_contents := []; v_lines := [] |}.
Definition split_patch (ls : list line) : version * version :=
  fold_left split_patch_step ls (v0, v0).
