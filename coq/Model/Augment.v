(* Model of internal/pgo/augment: find.go (the token scanner that decides which "..." are
   elisions and whether a fake package clause / function header is needed) and rewrite.go
   (the byte-level rewrite into valid Go).  The token list is an oracle (go/scanner on the
   pgo source, flags 0); what the finder does with the tokens is transcribed loop by loop.

   Every loop of find.go is a recursion on [fuel]; running out of fuel is [None] and stands
   for "does not terminate" - Proofs/AugmentFacts.v shows 3 * tokens + 6 is always enough. *)
From GP Require Export Bytes.
From Coq Require Import Arith.
From Coq Require String.
Module AugConst.
  Import String.
  Definition fake_package : bytes := s2b "package _".
  Definition fake_func : bytes := s2b "func _() ".
  Definition lbrace : bytes := s2b "{".
  Definition rbrace : bytes := s2b "}".
  Definition named_dots : bytes := s2b "_ d".
  Definition plain_dots : bytes := s2b "dts".
End AugConst.
Export AugConst.
Local Open Scope nat_scope.

Inductive akind :=
| AK_EOF | AK_IDENT | AK_ELLIPSIS | AK_FUNC | AK_PACKAGE | AK_IMPORT | AK_LPAREN | AK_RPAREN
| AK_PERIOD | AK_COMMA | AK_TYPE | AK_CONST | AK_VAR | AK_LBRACE | AK_OTHER.

Record atok := { a_kind : akind; a_off : nat; a_line : nat }.

Inductive aug :=
| FakePackage (off : nat)
| FakeFunc (off : nat) (braces : bool)
| ADots (s e : nat) (named : bool).

Definition akind_eqb (a b : akind) : bool :=
  match a, b with
  | AK_EOF, AK_EOF | AK_IDENT, AK_IDENT | AK_ELLIPSIS, AK_ELLIPSIS | AK_FUNC, AK_FUNC
  | AK_PACKAGE, AK_PACKAGE | AK_IMPORT, AK_IMPORT | AK_LPAREN, AK_LPAREN | AK_RPAREN, AK_RPAREN
  | AK_PERIOD, AK_PERIOD | AK_COMMA, AK_COMMA | AK_TYPE, AK_TYPE | AK_CONST, AK_CONST
  | AK_VAR, AK_VAR | AK_LBRACE, AK_LBRACE | AK_OTHER, AK_OTHER => true
  | _, _ => false
  end.

Section Finder.
  (* position of the EOF token: offset = len(src), and its line *)
  Variable eoff eline : nat.

  (* the scanner: a finite token list, then EOF for ever (finder.next at EOF stays at EOF) *)
  Definition kcur (s : list atok) : akind := match s with t :: _ => a_kind t | [] => AK_EOF end.
  Definition ocur (s : list atok) : nat := match s with t :: _ => a_off t | [] => eoff end.
  Definition lcur (s : list atok) : nat := match s with t :: _ => a_line t | [] => eline end.
  Definition nxt (s : list atok) : list atok := tl s.

  (* finder.ident *)
  Definition f_ident (s : list atok) : list atok :=
    let s1 := nxt s in
    match kcur s1 with AK_ELLIPSIS => nxt s1 | _ => s1 end.

  (* finder.ellipsis *)
  Definition f_ellipsis (s : list atok) (acc : list aug) : list atok * list aug :=
    let off := ocur s in
    let line := lcur s in
    let s1 := nxt s in
    let same_line := Nat.eqb line (lcur s1) in
    match kcur s1 with
    | AK_IDENT => if same_line then (nxt s1, acc) else (s1, acc ++ [ADots off (off + 3) false])
    | _ => (s1, acc ++ [ADots off (off + 3) false])
    end.

  Inductive mode :=
  | MProcess                                  (* finder.process *)
  | MFunction                                 (* finder.function: func literal / type *)
  | MFieldList                                (* finder.fieldList, at the "(" *)
  | MFLLoop (ell : list nat) (named : bool)   (* the loop of fieldList *)
  | MRecv                                     (* the receiver loop of funcDecl *)
  | MFuncDecl                                 (* finder.funcDecl, at "func" *)
  | MImports                                  (* finder.imports *)
  | MMain.                                    (* for f.tok != token.EOF { f.process() } *)

  (* skip until ")" or EOF (import group) *)
  Fixpoint skip_group (s : list atok) : list atok :=
    match s with
    | [] => []
    | t :: s' => match a_kind t with AK_RPAREN => s | _ => skip_group s' end
    end.

  Fixpoint arun (fuel : nat) (m : mode) (s : list atok) (acc : list aug) {struct fuel}
    : option (list atok * list aug) :=
    match fuel with
    | O => None
    | S f =>
        match m with
        | MProcess =>
            match kcur s with
            | AK_IDENT => Some (f_ident s, acc)
            | AK_ELLIPSIS => Some (f_ellipsis s acc)
            | AK_FUNC => arun f MFunction s acc
            | _ => Some (nxt s, acc)
            end
        | MFunction =>
            (* next (func); params; results *)
            match arun f MFieldList (nxt s) acc with
            | Some (s1, a1) =>
                match kcur s1 with
                | AK_LPAREN => arun f MFieldList s1 a1
                | _ => Some (s1, a1)
                end
            | None => None
            end
        | MFieldList => arun f (MFLLoop [] false) (nxt s) acc
        | MFLLoop ell named =>
            match kcur s with
            | AK_RPAREN | AK_EOF =>
                Some (nxt s, acc ++ map (fun off => ADots off (off + 3) named) ell)
            | AK_FUNC =>
                match arun f MFunction s acc with
                | Some (s1, a1) => arun f (MFLLoop ell named) s1 a1
                | None => None
                end
            | AK_IDENT =>
                let s1 := nxt s in
                let s2 := match kcur s1 with AK_PERIOD => nxt (nxt s1) | _ => s1 end in
                let named' := match kcur s2 with AK_COMMA | AK_RPAREN => named | _ => true end in
                arun f (MFLLoop ell named') s2 acc
            | AK_ELLIPSIS =>
                let off := ocur s in
                let s1 := nxt s in
                match kcur s1 with
                | AK_IDENT => arun f (MFLLoop ell named) s1 acc
                | _ => arun f (MFLLoop (ell ++ [off]) named) s1 acc
                end
            | _ => arun f (MFLLoop ell named) (nxt s) acc
            end
        | MRecv =>
            match kcur s with
            | AK_RPAREN | AK_EOF => Some (s, acc)
            | _ =>
                match arun f MProcess s acc with
                | Some (s1, a1) => arun f MRecv s1 a1
                | None => None
                end
            end
        | MFuncDecl =>
            let s1 := nxt s in                                   (* func *)
            let after_recv :=
              match kcur s1 with
              | AK_LPAREN =>
                  match arun f MRecv (nxt s1) acc with
                  | Some (s3, a3) => Some (nxt s3, a3)           (* ) *)
                  | None => None
                  end
              | _ => Some (s1, acc)
              end in
            match after_recv with
            | Some (s4, a4) =>
                match arun f MFieldList (nxt s4) a4 with          (* func name; params *)
                | Some (s5, a5) =>
                    match kcur s5 with
                    | AK_LPAREN => arun f MFieldList s5 a5        (* results *)
                    | _ => Some (s5, a5)
                    end
                | None => None
                end
            | None => None
            end
        | MImports =>
            match kcur s with
            | AK_IMPORT =>
                let s1 := nxt s in
                match kcur s1 with
                | AK_LPAREN => arun f MImports (nxt (nxt (skip_group s1))) acc
                | AK_PERIOD | AK_IDENT => arun f MImports (nxt (nxt (nxt s1))) acc
                | AK_EOF => Some (s1, acc)
                | _ => arun f MImports (nxt (nxt s1)) acc
                end
            | _ => Some (s, acc)
            end
        | MMain =>
            match kcur s with
            | AK_EOF => Some (s, acc)
            | _ =>
                match arun f MProcess s acc with
                | Some (s1, a1) => arun f MMain s1 a1
                | None => None
                end
            end
        end
    end.

  (* finder.pkg *)
  Definition f_pkg (s : list atok) : list atok * list aug :=
    match kcur s with
    | AK_PACKAGE => (nxt (nxt (nxt s)), [])
    | _ => (s, [FakePackage (ocur s)])
    end.

  (* finder.topLevelDecl *)
  Definition f_top (fuel : nat) (s : list atok) (acc : list aug) : option (list atok * list aug) :=
    match kcur s with
    | AK_TYPE | AK_CONST | AK_VAR => Some (nxt s, acc)
    | AK_FUNC => arun fuel MFuncDecl s acc
    | AK_LBRACE => Some (nxt s, acc ++ [FakeFunc (ocur s) false])
    | _ => Some (s, acc ++ [FakeFunc (ocur s) true])
    end.

  Definition find_fuel (fuel : nat) (toks : list atok) : option (list aug) :=
    let '(s0, a0) := f_pkg toks in
    match arun fuel MImports s0 a0 with
    | Some (s1, a1) =>
        match f_top fuel s1 a1 with
        | Some (s2, a2) =>
            match arun fuel MMain s2 a2 with
            | Some (_, a3) => Some a3
            | None => None
            end
        | None => None
        end
    | None => None
    end.

  Definition find (toks : list atok) : option (list aug) := find_fuel (3 * length toks + 6) toks.
End Finder.

(* ---------------- rewrite.go ---------------- *)
Definition aug_start (a : aug) : nat := match a with FakePackage o => o | FakeFunc o _ => o | ADots s _ _ => s end.
Definition aug_end (a : aug) : nat := match a with FakePackage o => o | FakeFunc o _ => o | ADots _ e _ => e end.

(* sort.Slice by Start; the lists are short and gopatch relies on ties keeping their order
   (FakePackage before FakeFunc): modelled as a stable insertion sort *)
Fixpoint insert_aug (a : aug) (l : list aug) : list aug :=
  match l with
  | [] => [a]
  | b :: l' => if Nat.ltb (aug_start a) (aug_start b) then a :: l else b :: insert_aug a l'
  end.
Definition sort_augs (l : list aug) : list aug := fold_left (fun acc a => insert_aug a acc) l [].

(* src[lo:hi]; None = slice bounds out of range (a panic) *)
Definition slice (src : bytes) (lo hi : nat) : option bytes :=
  if Nat.leb lo hi && Nat.leb hi (length src) then Some (firstn (hi - lo) (skipn lo src)) else None.

Record adj := { adj_off : nat; adj_reduce : nat }.

Definition nl : N := 10%N.

Record rwstate := { r_pos : nat; r_dst : bytes; r_tail : bytes; r_adjs : list adj; r_reduce : nat; r_augs : list aug }.

Definition rewrite_step (src : bytes) (st : option rwstate) (a : aug) : option rwstate :=
  match st with
  | None => None
  | Some st =>
      match slice src (r_pos st) (aug_start a) with
      | None => None
      | Some seg =>
          let dst := (r_dst st ++ seg)%list in
          let here := length dst in
          match a with
          | FakePackage _ =>
              let dst' := (dst ++ fake_package ++ [nl])%list in
              let red := r_reduce st + (length dst' - here) in
              Some {| r_pos := aug_end a; r_dst := dst'; r_tail := r_tail st;
                      r_adjs := (r_adjs st ++ [{| adj_off := here; adj_reduce := red |}])%list; r_reduce := red;
                      r_augs := (r_augs st ++ [FakePackage here])%list |}
          | FakeFunc _ br =>
              let dst' := (dst ++ fake_func ++ (if br then lbrace ++ [nl] else []))%list in
              let red := r_reduce st + (length dst' - here) in
              Some {| r_pos := aug_end a; r_dst := dst';
                      r_tail := (r_tail st ++ (if br then rbrace ++ [nl] else []))%list;
                      r_adjs := (r_adjs st ++ [{| adj_off := here; adj_reduce := red |}])%list; r_reduce := red;
                      r_augs := (r_augs st ++ [FakeFunc here br])%list |}
          | ADots _ _ named =>
              let dst' := (dst ++ (if named then named_dots else plain_dots))%list in
              Some {| r_pos := aug_end a; r_dst := dst'; r_tail := r_tail st; r_adjs := r_adjs st; r_reduce := r_reduce st;
                      r_augs := (r_augs st ++ [ADots here (length dst') named])%list |}
          end
      end
  end.

(* -> (new source, augmentations with their offsets in the new source, adjustments) *)
Definition rewrite (src : bytes) (augs : list aug) : option (bytes * list aug * list adj) :=
  match fold_left (rewrite_step src) (sort_augs augs)
          (Some {| r_pos := 0; r_dst := []; r_tail := []; r_adjs := []; r_reduce := 0; r_augs := [] |}) with
  | None => None
  | Some st =>
      match slice src (r_pos st) (length src) with
      | None => None
      | Some rest => Some ((r_dst st ++ rest ++ r_tail st)%list, r_augs st, r_adjs st)
      end
  end.

Inductive aug_result :=
| AugScanError                     (* go/scanner reported errors: Augment returns them *)
| AugDiverges                      (* a scanner loop does not terminate *)
| AugPanics                        (* rewrite slices out of range *)
| AugOk (out : bytes) (augs : list aug) (adjs : list adj).

(* augment.Augment *)
Definition augment (src : bytes) (toks : list atok) (eline : nat) (scan_errors : bool) : aug_result :=
  match find (length src) eline toks with
  | None => AugDiverges
  | Some augs =>
      if scan_errors then AugScanError else
      match rewrite src augs with
      | None => AugPanics
      | Some (out, augs', adjs) => AugOk out augs' adjs
      end
  end.

(* ---- what rewrite needs of the augmentations, in the order find produced them ----
   each within the source; two of them are disjoint, and of two that start at the same
   offset the earlier one is empty (fake package / fake func before a leading "...") *)
Definition aug_wfb (n : nat) (a : aug) : bool := Nat.leb (aug_start a) (aug_end a) && Nat.leb (aug_end a) n.
Definition compatb (a b : aug) : bool :=          (* a was found before b *)
  Nat.leb (aug_end a) (aug_start b) || (Nat.leb (aug_end b) (aug_start a) && Nat.ltb (aug_start b) (aug_start a)).
Fixpoint augs_okb (n : nat) (l : list aug) : bool :=
  match l with
  | [] => true
  | a :: l' => aug_wfb n a && forallb (compatb a) l' && augs_okb n l'
  end.
