(* Termination of the token scanner of pgo/augment (find.go): every loop stops, on every
   token list; 3 * tokens + 6 steps of recursion depth are always enough. *)
From GP Require Import Augment.
From Coq Require Import Lia Arith.
Local Open Scope nat_scope.

Definition mcost (m : mode) : nat :=
  match m with
  | MFLLoop _ _ => 3 | MFunction => 2 | MFieldList => 4 | MProcess => 3
  | MRecv => 4 | MMain => 4 | MFuncDecl => 5 | MImports => 1
  end.

Definition mpre (m : mode) (s : list atok) : Prop :=
  match m with MFunction => s <> [] | _ => True end.

Lemma nxt_len s : length (nxt s) = length s - 1.
Proof. destruct s; simpl; lia. Qed.

Lemma skip_group_len s : length (skip_group s) <= length s.
Proof. induction s as [|t s IH]; simpl; [lia|]. destruct (a_kind t); simpl; lia. Qed.

Lemma f_ident_len s : s <> [] -> length (f_ident s) < length s.
Proof.
  intros H. unfold f_ident. destruct s as [|t s]; [congruence|]. simpl.
  destruct (kcur s); rewrite ?nxt_len; simpl; lia.
Qed.

Lemma f_ellipsis_len eoff eline s acc : s <> [] -> length (fst (f_ellipsis eoff eline s acc)) < length s.
Proof.
  intros H. unfold f_ellipsis. destruct s as [|t s]; [congruence|]. simpl.
  destruct (kcur s); simpl; try lia. destruct (Nat.eqb _ _); simpl; rewrite ?nxt_len; lia.
Qed.

Section T.
  Variable eoff eline : nat.
  Notation run := (arun eoff eline).

  Definition good (fuel : nat) (m : mode) (s : list atok) (acc : list aug) : Prop :=
    exists s' a', run fuel m s acc = Some (s', a') /\ length s' <= length s /\
                  ((m = MProcess \/ m = MFunction) -> s <> [] -> length s' < length s).

  Lemma run_total : forall fuel m s acc,
    3 * length s + mcost m <= fuel -> mpre m s -> good fuel m s acc.
  Proof.
    induction fuel as [|f IH]; intros m s acc Hf Hp.
    { destruct m; simpl in Hf; lia. }
    (* sub-calls *)
    assert (CALL : forall m' s' acc', 3 * length s' + mcost m' <= f -> mpre m' s' -> good f m' s' acc') by (intros; apply IH; assumption).
    unfold good. destruct m; cbn [Augment.arun].
    - (* MProcess *)
      destruct s as [|t s']; [simpl; eexists _, _; split; [reflexivity|split; [simpl; lia|intros _ H; congruence]]|].
      cbn [kcur]. destruct (a_kind t) eqn:K;
        try (eexists _, _; split; [reflexivity|split; [simpl; lia|intros _ _; simpl; lia]]).
      + (* IDENT *)
        eexists _, _; split; [reflexivity|].
        pose proof (f_ident_len (t :: s') ltac:(congruence)) as L. simpl in L |- *. split; [lia|intros _ _; lia].
      + (* ELLIPSIS *)
        destruct (f_ellipsis eoff eline (t :: s') acc) as [s1 a1] eqn:E.
        pose proof (f_ellipsis_len eoff eline (t :: s') acc ltac:(congruence)) as L. rewrite E in L. simpl in L.
        eexists _, _; split; [reflexivity|]. simpl. split; [lia|intros _ _; lia].
      + (* FUNC *)
        destruct (CALL MFunction (t :: s') acc) as [s1 [a1 [R [L1 L2]]]]; [simpl in *; lia|simpl; congruence|].
        eexists _, _; split; [exact R|]. split; [exact L1|intros _ Hn; apply L2; auto].
    - (* MFunction *)
      simpl in Hp. destruct s as [|t s']; [congruence|]. cbn [nxt tl].
      destruct (CALL MFieldList s' acc) as [s1 [a1 [R [L1 _]]]]; [simpl in *; lia|exact I|].
      rewrite R. destruct (kcur s1) eqn:K;
        try (eexists _, _; split; [reflexivity|split; [simpl; lia|intros _ _; simpl; lia]]).
      destruct (CALL MFieldList s1 a1) as [s2 [a2 [R2 [L2 _]]]]; [simpl in *; lia|exact I|].
      eexists _, _; split; [exact R2|split; [simpl; lia|intros _ _; simpl; lia]].
    - (* MFieldList *)
      destruct (CALL (MFLLoop [] false) (nxt s) acc) as [s1 [a1 [R [L1 _]]]]; [rewrite nxt_len; simpl in *; lia|exact I|].
      eexists _, _; split; [exact R|]. rewrite nxt_len in L1. split; [lia|intros [H|H]; discriminate].
    - (* MFLLoop *)
      destruct s as [|t s']; [simpl; eexists _, _; split; [reflexivity|split; [simpl; lia|intros [H|H]; discriminate]]|].
      cbn [kcur]. destruct (a_kind t) eqn:K;
        try (eexists _, _; split; [reflexivity|split; [simpl; lia|intros [H|H]; discriminate]]);
        try (cbn [nxt tl]; match goal with |- context [Augment.arun _ _ _ (MFLLoop ?e ?n) s' acc] =>
               destruct (CALL (MFLLoop e n) s' acc) as [s1 [a1 [R [L1 _]]]]; [simpl in *; lia|exact I|];
               eexists _, _; split; [exact R|split; [simpl; lia|intros [H|H]; discriminate]] end).
      + (* IDENT *)
        cbn [nxt tl].
        match goal with |- context [Augment.arun _ _ _ (MFLLoop ?e ?n) ?s2 acc] =>
          assert (length s2 <= length s') as L2 by (destruct (kcur s'); rewrite ?nxt_len; lia);
          destruct (CALL (MFLLoop e n) s2 acc) as [s1 [a1 [R [L1 _]]]]; [simpl in *; lia|exact I|];
          eexists _, _; split; [exact R|split; [simpl; lia|intros [H|H]; discriminate]] end.
      + (* ELLIPSIS *)
        cbn [nxt tl]. destruct (kcur s');
        match goal with |- context [Augment.arun _ _ _ (MFLLoop ?e ?n) s' acc] =>
          destruct (CALL (MFLLoop e n) s' acc) as [s1 [a1 [R [L1 _]]]]; [simpl in *; lia|exact I|];
          eexists _, _; split; [exact R|split; [simpl; lia|intros [H|H]; discriminate]] end.
      + (* FUNC *)
        destruct (CALL MFunction (t :: s') acc) as [s1 [a1 [R [L1 L2]]]]; [simpl in *; lia|simpl; congruence|].
        rewrite R. assert (length s1 < length (t :: s')) as L3 by (apply L2; [auto|congruence]).
        destruct (CALL (MFLLoop ell named) s1 a1) as [s2 [a2 [R2 [L4 _]]]]; [simpl in *; lia|exact I|].
        eexists _, _; split; [exact R2|split; [simpl in *; lia|intros [H|H]; discriminate]].
    - (* MRecv *)
      destruct s as [|t s']; [simpl; eexists _, _; split; [reflexivity|split; [simpl; lia|intros [H|H]; discriminate]]|].
      cbn [kcur]. destruct (a_kind t) eqn:K;
        try (eexists _, _; split; [reflexivity|split; [simpl; lia|intros [H|H]; discriminate]]);
        (destruct (CALL MProcess (t :: s') acc) as [s1 [a1 [R [L1 L2]]]]; [simpl in *; lia|exact I|];
         rewrite R; assert (length s1 < length (t :: s')) as L3 by (apply L2; [auto|congruence]);
         destruct (CALL MRecv s1 a1) as [s2 [a2 [R2 [L4 _]]]]; [simpl in *; lia|exact I|];
         eexists _, _; split; [exact R2|split; [simpl in *; lia|intros [H|H]; discriminate]]).
    - (* MFuncDecl *)
      set (s1 := nxt s). assert (length s1 <= length s) as Ls1 by (unfold s1; rewrite nxt_len; lia).
      assert (exists s4 a4, match kcur s1 with
                            | AK_LPAREN => match run f MRecv (nxt s1) acc with Some (s3, a3) => Some (nxt s3, a3) | None => None end
                            | _ => Some (s1, acc) end = Some (s4, a4) /\ length s4 <= length s) as [s4 [a4 [E4 L4]]].
      { destruct (kcur s1); try (eexists _, _; split; [reflexivity|exact Ls1]).
        destruct (CALL MRecv (nxt s1) acc) as [s3 [a3 [R [L1 _]]]]; [rewrite nxt_len; simpl in *; lia|exact I|].
        rewrite R. eexists _, _; split; [reflexivity|]. rewrite nxt_len in *. lia. }
      rewrite E4.
      destruct (CALL MFieldList (nxt s4) a4) as [s5 [a5 [R5 [L5 _]]]]; [rewrite nxt_len; simpl in *; lia|exact I|].
      rewrite R5. rewrite nxt_len in L5.
      destruct (kcur s5); try (eexists _, _; split; [reflexivity|split; [lia|intros [H|H]; discriminate]]).
      destruct (CALL MFieldList s5 a5) as [s6 [a6 [R6 [L6 _]]]]; [simpl in *; lia|exact I|].
      eexists _, _; split; [exact R6|split; [lia|intros [H|H]; discriminate]].
    - (* MImports *)
      destruct s as [|t s']; [simpl; eexists _, _; split; [reflexivity|split; [simpl; lia|intros [H|H]; discriminate]]|].
      cbn [kcur]. destruct (a_kind t) eqn:K;
        try (eexists _, _; split; [reflexivity|split; [simpl; lia|intros [H|H]; discriminate]]).
      cbn [nxt tl]. pose proof (skip_group_len s') as SG.
      destruct (kcur s') eqn:K2;
        try (eexists _, _; split; [reflexivity|split; [simpl; lia|intros [H|H]; discriminate]]);
        match goal with |- context [Augment.arun _ _ _ MImports ?s2 acc] =>
          assert (length s2 <= length s') as L2 by (rewrite ?nxt_len; lia);
          destruct (CALL MImports s2 acc) as [s3 [a3 [R [L3 _]]]]; [simpl in *; lia|exact I|];
          eexists _, _; split; [exact R|split; [simpl; lia|intros [H|H]; discriminate]] end.
    - (* MMain *)
      destruct s as [|t s']; [simpl; eexists _, _; split; [reflexivity|split; [simpl; lia|intros [H|H]; discriminate]]|].
      cbn [kcur]. destruct (a_kind t) eqn:K;
        try (eexists _, _; split; [reflexivity|split; [simpl; lia|intros [H|H]; discriminate]]);
        (destruct (CALL MProcess (t :: s') acc) as [s1 [a1 [R [L1 L2]]]]; [simpl in *; lia|exact I|];
         rewrite R; assert (length s1 < length (t :: s')) as L3 by (apply L2; [auto|congruence]);
         destruct (CALL MMain s1 a1) as [s2 [a2 [R2 [L4 _]]]]; [simpl in *; lia|exact I|];
         eexists _, _; split; [exact R2|split; [simpl in *; lia|intros [H|H]; discriminate]]).
  Qed.

  Lemma f_pkg_len s : length (fst (f_pkg eoff s)) <= length s.
  Proof. unfold f_pkg. destruct (kcur s); simpl; rewrite ?nxt_len; lia. Qed.

  (* the scanner terminates on every token list *)
  Theorem find_terminates : forall toks, exists augs, find eoff eline toks = Some augs.
  Proof.
    intros toks. unfold find, find_fuel.
    destruct (f_pkg eoff toks) as [s0 a0] eqn:P.
    pose proof (f_pkg_len toks) as L0. rewrite P in L0. simpl in L0.
    destruct (run_total (3 * length toks + 6) MImports s0 a0) as [s1 [a1 [R1 [L1 _]]]]; [simpl; lia|exact I|].
    rewrite R1.
    assert (exists s2 a2, f_top eoff eline (3 * length toks + 6) s1 a1 = Some (s2, a2) /\ length s2 <= length s1) as [s2 [a2 [R2 L2]]].
    { unfold f_top. destruct (kcur s1); try (eexists _, _; split; [reflexivity|rewrite ?nxt_len; lia]).
      destruct (run_total (3 * length toks + 6) MFuncDecl s1 a1) as [s2 [a2 [R2 [L2 _]]]]; [simpl; lia|exact I|].
      eexists _, _; split; [exact R2|exact L2]. }
    rewrite R2.
    destruct (run_total (3 * length toks + 6) MMain s2 a2) as [s3 [a3 [R3 _]]]; [simpl; lia|exact I|].
    rewrite R3. eauto.
  Qed.
End T.
