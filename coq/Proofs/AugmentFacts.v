(* Termination of the token scanner of pgo/augment (find.go): every loop stops, on every
   token list; 3 * tokens + 6 steps of recursion depth are always enough. *)
From GP Require Import Augment.
From Coq Require Import Lia Arith.
Local Open Scope nat_scope.

Definition mcost (m : mode) : nat :=
  match m with
  | MFLLoop _ _ => 3 | MFunction => 2 | MFieldList => 4 | MProcess => 3
  | MRecv => 4 | MMain => 4 | MFuncDecl => 5 | MImports => 1
  end.

Definition mpre (m : mode) (s : list atok) : Prop :=
  match m with MFunction => s <> [] | _ => True end.

Lemma nxt_len s : length (nxt s) = length s - 1.
Proof. destruct s; simpl; lia. Qed.

Lemma skip_group_len s : length (skip_group s) <= length s.
Proof. induction s as [|t s IH]; simpl; [lia|]. destruct (a_kind t); simpl; lia. Qed.

Lemma f_ident_len s : s <> [] -> length (f_ident s) < length s.
Proof.
  intros H. unfold f_ident. destruct s as [|t s]; [congruence|]. simpl.
  destruct (kcur s); rewrite ?nxt_len; simpl; lia.
Qed.

Lemma f_ellipsis_len eoff eline s acc : s <> [] -> length (fst (f_ellipsis eoff eline s acc)) < length s.
Proof.
  intros H. unfold f_ellipsis. destruct s as [|t s]; [congruence|]. simpl.
  destruct (kcur s); simpl; try lia. destruct (Nat.eqb _ _); simpl; rewrite ?nxt_len; lia.
Qed.

Section T.
  Variable eoff eline : nat.
  Notation run := (arun eoff eline).

  Definition good (fuel : nat) (m : mode) (s : list atok) (acc : list aug) : Prop :=
    exists s' a', run fuel m s acc = Some (s', a') /\ length s' <= length s /\
                  ((m = MProcess \/ m = MFunction) -> s <> [] -> length s' < length s).

  Lemma run_total : forall fuel m s acc,
    3 * length s + mcost m <= fuel -> mpre m s -> good fuel m s acc.
  Proof.
    induction fuel as [|f IH]; intros m s acc Hf Hp.
    { destruct m; simpl in Hf; lia. }
    (* sub-calls *)
    assert (CALL : forall m' s' acc', 3 * length s' + mcost m' <= f -> mpre m' s' -> good f m' s' acc') by (intros; apply IH; assumption).
    unfold good. destruct m; cbn [Augment.arun].
    - (* MProcess *)
      destruct s as [|t s']; [simpl; eexists _, _; split; [reflexivity|split; [simpl; lia|intros _ H; congruence]]|].
      cbn [kcur]. destruct (a_kind t) eqn:K;
        try (eexists _, _; split; [reflexivity|split; [simpl; lia|intros _ _; simpl; lia]]).
      + (* IDENT *)
        eexists _, _; split; [reflexivity|].
        pose proof (f_ident_len (t :: s') ltac:(congruence)) as L. simpl in L |- *. split; [lia|intros _ _; lia].
      + (* ELLIPSIS *)
        destruct (f_ellipsis eoff eline (t :: s') acc) as [s1 a1] eqn:E.
        pose proof (f_ellipsis_len eoff eline (t :: s') acc ltac:(congruence)) as L. rewrite E in L. simpl in L.
        eexists _, _; split; [reflexivity|]. simpl. split; [lia|intros _ _; lia].
      + (* FUNC *)
        destruct (CALL MFunction (t :: s') acc) as [s1 [a1 [R [L1 L2]]]]; [simpl in *; lia|simpl; congruence|].
        eexists _, _; split; [exact R|]. split; [exact L1|intros _ Hn; apply L2; auto].
    - (* MFunction *)
      simpl in Hp. destruct s as [|t s']; [congruence|]. cbn [nxt tl].
      destruct (CALL MFieldList s' acc) as [s1 [a1 [R [L1 _]]]]; [simpl in *; lia|exact I|].
      rewrite R. destruct (kcur s1) eqn:K;
        try (eexists _, _; split; [reflexivity|split; [simpl; lia|intros _ _; simpl; lia]]).
      destruct (CALL MFieldList s1 a1) as [s2 [a2 [R2 [L2 _]]]]; [simpl in *; lia|exact I|].
      eexists _, _; split; [exact R2|split; [simpl; lia|intros _ _; simpl; lia]].
    - (* MFieldList *)
      destruct (CALL (MFLLoop [] false) (nxt s) acc) as [s1 [a1 [R [L1 _]]]]; [rewrite nxt_len; simpl in *; lia|exact I|].
      eexists _, _; split; [exact R|]. rewrite nxt_len in L1. split; [lia|intros [H|H]; discriminate].
    - (* MFLLoop *)
      destruct s as [|t s']; [simpl; eexists _, _; split; [reflexivity|split; [simpl; lia|intros [H|H]; discriminate]]|].
      cbn [kcur]. destruct (a_kind t) eqn:K;
        try (eexists _, _; split; [reflexivity|split; [simpl; lia|intros [H|H]; discriminate]]);
        try (cbn [nxt tl]; match goal with |- context [Augment.arun _ _ _ (MFLLoop ?e ?n) s' acc] =>
               destruct (CALL (MFLLoop e n) s' acc) as [s1 [a1 [R [L1 _]]]]; [simpl in *; lia|exact I|];
               eexists _, _; split; [exact R|split; [simpl; lia|intros [H|H]; discriminate]] end).
      + (* IDENT *)
        cbn [nxt tl].
        match goal with |- context [Augment.arun _ _ _ (MFLLoop ?e ?n) ?s2 acc] =>
          assert (length s2 <= length s') as L2 by (destruct (kcur s'); rewrite ?nxt_len; lia);
          destruct (CALL (MFLLoop e n) s2 acc) as [s1 [a1 [R [L1 _]]]]; [simpl in *; lia|exact I|];
          eexists _, _; split; [exact R|split; [simpl; lia|intros [H|H]; discriminate]] end.
      + (* ELLIPSIS *)
        cbn [nxt tl]. destruct (kcur s');
        match goal with |- context [Augment.arun _ _ _ (MFLLoop ?e ?n) s' acc] =>
          destruct (CALL (MFLLoop e n) s' acc) as [s1 [a1 [R [L1 _]]]]; [simpl in *; lia|exact I|];
          eexists _, _; split; [exact R|split; [simpl; lia|intros [H|H]; discriminate]] end.
      + (* FUNC *)
        destruct (CALL MFunction (t :: s') acc) as [s1 [a1 [R [L1 L2]]]]; [simpl in *; lia|simpl; congruence|].
        rewrite R. assert (length s1 < length (t :: s')) as L3 by (apply L2; [auto|congruence]).
        destruct (CALL (MFLLoop ell named) s1 a1) as [s2 [a2 [R2 [L4 _]]]]; [simpl in *; lia|exact I|].
        eexists _, _; split; [exact R2|split; [simpl in *; lia|intros [H|H]; discriminate]].
    - (* MRecv *)
      destruct s as [|t s']; [simpl; eexists _, _; split; [reflexivity|split; [simpl; lia|intros [H|H]; discriminate]]|].
      cbn [kcur]. destruct (a_kind t) eqn:K;
        try (eexists _, _; split; [reflexivity|split; [simpl; lia|intros [H|H]; discriminate]]);
        (destruct (CALL MProcess (t :: s') acc) as [s1 [a1 [R [L1 L2]]]]; [simpl in *; lia|exact I|];
         rewrite R; assert (length s1 < length (t :: s')) as L3 by (apply L2; [auto|congruence]);
         destruct (CALL MRecv s1 a1) as [s2 [a2 [R2 [L4 _]]]]; [simpl in *; lia|exact I|];
         eexists _, _; split; [exact R2|split; [simpl in *; lia|intros [H|H]; discriminate]]).
    - (* MFuncDecl *)
      set (s1 := nxt s). assert (length s1 <= length s) as Ls1 by (unfold s1; rewrite nxt_len; lia).
      assert (exists s4 a4, match kcur s1 with
                            | AK_LPAREN => match run f MRecv (nxt s1) acc with Some (s3, a3) => Some (nxt s3, a3) | None => None end
                            | _ => Some (s1, acc) end = Some (s4, a4) /\ length s4 <= length s) as [s4 [a4 [E4 L4]]].
      { destruct (kcur s1); try (eexists _, _; split; [reflexivity|exact Ls1]).
        destruct (CALL MRecv (nxt s1) acc) as [s3 [a3 [R [L1 _]]]]; [rewrite nxt_len; simpl in *; lia|exact I|].
        rewrite R. eexists _, _; split; [reflexivity|]. rewrite nxt_len in *. lia. }
      rewrite E4.
      destruct (CALL MFieldList (nxt s4) a4) as [s5 [a5 [R5 [L5 _]]]]; [rewrite nxt_len; simpl in *; lia|exact I|].
      rewrite R5. rewrite nxt_len in L5.
      destruct (kcur s5); try (eexists _, _; split; [reflexivity|split; [lia|intros [H|H]; discriminate]]).
      destruct (CALL MFieldList s5 a5) as [s6 [a6 [R6 [L6 _]]]]; [simpl in *; lia|exact I|].
      eexists _, _; split; [exact R6|split; [lia|intros [H|H]; discriminate]].
    - (* MImports *)
      destruct s as [|t s']; [simpl; eexists _, _; split; [reflexivity|split; [simpl; lia|intros [H|H]; discriminate]]|].
      cbn [kcur]. destruct (a_kind t) eqn:K;
        try (eexists _, _; split; [reflexivity|split; [simpl; lia|intros [H|H]; discriminate]]).
      cbn [nxt tl]. pose proof (skip_group_len s') as SG.
      destruct (kcur s') eqn:K2;
        try (eexists _, _; split; [reflexivity|split; [simpl; lia|intros [H|H]; discriminate]]);
        match goal with |- context [Augment.arun _ _ _ MImports ?s2 acc] =>
          assert (length s2 <= length s') as L2 by (rewrite ?nxt_len; lia);
          destruct (CALL MImports s2 acc) as [s3 [a3 [R [L3 _]]]]; [simpl in *; lia|exact I|];
          eexists _, _; split; [exact R|split; [simpl; lia|intros [H|H]; discriminate]] end.
    - (* MMain *)
      destruct s as [|t s']; [simpl; eexists _, _; split; [reflexivity|split; [simpl; lia|intros [H|H]; discriminate]]|].
      cbn [kcur]. destruct (a_kind t) eqn:K;
        try (eexists _, _; split; [reflexivity|split; [simpl; lia|intros [H|H]; discriminate]]);
        (destruct (CALL MProcess (t :: s') acc) as [s1 [a1 [R [L1 L2]]]]; [simpl in *; lia|exact I|];
         rewrite R; assert (length s1 < length (t :: s')) as L3 by (apply L2; [auto|congruence]);
         destruct (CALL MMain s1 a1) as [s2 [a2 [R2 [L4 _]]]]; [simpl in *; lia|exact I|];
         eexists _, _; split; [exact R2|split; [simpl in *; lia|intros [H|H]; discriminate]]).
  Qed.

  Lemma f_pkg_len s : length (fst (f_pkg eoff s)) <= length s.
  Proof. unfold f_pkg. destruct (kcur s); simpl; rewrite ?nxt_len; lia. Qed.

  (* the scanner terminates on every token list *)
  Theorem find_terminates : forall toks, exists augs, find eoff eline toks = Some augs.
  Proof.
    intros toks. unfold find, find_fuel.
    destruct (f_pkg eoff toks) as [s0 a0] eqn:P.
    pose proof (f_pkg_len toks) as L0. rewrite P in L0. simpl in L0.
    destruct (run_total (3 * length toks + 6) MImports s0 a0) as [s1 [a1 [R1 [L1 _]]]]; [simpl; lia|exact I|].
    rewrite R1.
    assert (exists s2 a2, f_top eoff eline (3 * length toks + 6) s1 a1 = Some (s2, a2) /\ length s2 <= length s1) as [s2 [a2 [R2 L2]]].
    { unfold f_top. destruct (kcur s1); try (eexists _, _; split; [reflexivity|rewrite ?nxt_len; lia]).
      destruct (run_total (3 * length toks + 6) MFuncDecl s1 a1) as [s2 [a2 [R2 [L2 _]]]]; [simpl; lia|exact I|].
      eexists _, _; split; [exact R2|exact L2]. }
    rewrite R2.
    destruct (run_total (3 * length toks + 6) MMain s2 a2) as [s3 [a3 [R3 _]]]; [simpl; lia|exact I|].
    rewrite R3. eauto.
  Qed.
End T.

(* ---------------- rewrite.go never slices out of range ---------------- *)
Definition aug_wf (n : nat) (a : aug) : Prop := aug_start a <= aug_end a /\ aug_end a <= n.
Definition compat (a b : aug) : Prop :=
  aug_end a <= aug_start b \/ (aug_end b <= aug_start a /\ aug_start b < aug_start a).

Lemma aug_wfb_spec n a : aug_wfb n a = true <-> aug_wf n a.
Proof. unfold aug_wfb, aug_wf. rewrite Bool.andb_true_iff, !Nat.leb_le. tauto. Qed.

Lemma compatb_spec a b : compatb a b = true <-> compat a b.
Proof. unfold compatb, compat. rewrite Bool.orb_true_iff, Bool.andb_true_iff, !Nat.leb_le, Nat.ltb_lt. tauto. Qed.

(* sorted by start, each ending before the next starts, all within [lo, n] *)
Fixpoint chain (n lo : nat) (l : list aug) : Prop :=
  match l with
  | [] => lo <= n
  | a :: l' => lo <= aug_start a /\ aug_start a <= aug_end a /\ chain n (aug_end a) l'
  end.

Lemma chain_bound n lo l : chain n lo l -> lo <= n.
Proof. revert lo. induction l as [|a l IH]; simpl; intros lo H; [exact H|]. destruct H as [H1 [H2 H3]]. apply IH in H3. lia. Qed.

Lemma chain_weaken n lo lo' l : lo' <= lo -> chain n lo l -> chain n lo' l.
Proof. destruct l as [|a l]; simpl; intros; [lia|]. intuition lia. Qed.

(* inserting an augmentation found later than everything already sorted *)
Lemma insert_chain n a : aug_wf n a -> forall l lo,
  chain n lo l -> lo <= aug_start a -> Forall (fun x => compat x a) l -> chain n lo (insert_aug a l).
Proof.
  intros [Wa1 Wa2]. induction l as [|b l IH]; intros lo C Hlo Hc; cbn [insert_aug].
  - simpl. repeat split; lia.
  - simpl in C. destruct C as [C1 [C2 C3]]. inversion Hc as [|? ? Hb Hl]; subst.
    destruct (Nat.ltb_spec (aug_start a) (aug_start b)) as [L|L].
    + (* a goes before b: b, found earlier, must lie after a *)
      simpl. assert (aug_end a <= aug_start b) as K by (destruct Hb as [Hb|[Hb1 Hb2]]; lia).
      repeat split; try lia; exact C3.
    + (* a goes somewhere after b *)
      simpl. split; [exact C1|]. split; [exact C2|].
      apply IH; [exact C3| |exact Hl].
      destruct Hb as [Hb|[Hb1 Hb2]]; lia.
Qed.

Lemma insert_in a l x : In x (insert_aug a l) <-> x = a \/ In x l.
Proof.
  induction l as [|b l IH]; simpl; [intuition congruence|]. destruct (Nat.ltb _ _); simpl; [intuition congruence|]. rewrite IH. intuition congruence.
Qed.

Lemma sort_chain n : forall l acc,
  augs_okb n l = true -> chain n 0 acc -> (forall x, In x acc -> Forall (compat x) l) ->
  chain n 0 (fold_left (fun acc a => insert_aug a acc) l acc).
Proof.
  induction l as [|a l IH]; intros acc Hok Hc Hx; cbn [fold_left]; [exact Hc|].
  cbn [augs_okb] in Hok. apply Bool.andb_true_iff in Hok as [Hok H3]. apply Bool.andb_true_iff in Hok as [H1 H2].
  apply aug_wfb_spec in H1. apply IH; [exact H3| |].
  - apply insert_chain; [exact H1|exact Hc|lia|].
    apply Forall_forall. intros x Hin. specialize (Hx x Hin). inversion Hx; assumption.
  - intros x Hin. apply insert_in in Hin as [->|Hin].
    + apply Forall_forall. intros y Hy. rewrite forallb_forall in H2. apply compatb_spec, H2, Hy.
    + specialize (Hx x Hin). inversion Hx; assumption.
Qed.

Lemma slice_ok src lo hi : lo <= hi -> hi <= length src -> exists seg, slice src lo hi = Some seg.
Proof.
  intros H1 H2. unfold slice.
  destruct (Nat.leb_spec lo hi); [|lia]. destruct (Nat.leb_spec hi (length src)); [|lia]. simpl. eauto.
Qed.

Lemma rewrite_fold_ok src : forall l st,
  chain (length src) (r_pos st) l ->
  exists st', fold_left (rewrite_step src) l (Some st) = Some st' /\ r_pos st' <= length src.
Proof.
  induction l as [|a l IH]; intros st C; cbn [fold_left].
  - exists st. split; [reflexivity|exact C].
  - simpl in C. destruct C as [C1 [C2 C3]]. pose proof (chain_bound _ _ _ C3) as B.
    destruct (slice_ok src (r_pos st) (aug_start a)) as [seg E]; [lia|lia|].
    unfold rewrite_step at 2. rewrite E.
    destruct a as [o|o br|s e named]; cbn [aug_end aug_start] in *;
      match goal with |- context [fold_left _ l (Some ?st1)] => destruct (IH st1) as [st' [F L]]; [exact C3|]; exists st'; auto end.
Qed.

(* rewrite.go: on augmentation lists of the shape find produces, no slice is out of range *)
Theorem rewrite_no_panic src augs :
  augs_okb (length src) augs = true -> exists r, rewrite src augs = Some r.
Proof.
  intros Hok. unfold rewrite, sort_augs.
  assert (chain (length src) 0 (fold_left (fun acc a => insert_aug a acc) augs [])) as C.
  { apply sort_chain; [exact Hok|simpl; lia|intros x []]. }
  destruct (rewrite_fold_ok src _ {| r_pos := 0; r_dst := []; r_tail := []; r_adjs := []; r_reduce := 0; r_augs := [] |} C) as [st' [F L]].
  rewrite F. destruct (slice_ok src (r_pos st') (length src)) as [rest E]; [exact L|lia|]. rewrite E. eauto.
Qed.
