From GP Require Import Tree Meta Match Replace FileEngine Program.
From Coq Require Import Lia.

Lemma run_changes_from ab cs : forall s,
  fold_left (pstep ab) cs s = fold_left (pstep ab) cs s.
Proof. reflexivity. Qed.

(* applying cs1 ++ cs2 = applying cs2 to the state cs1 left behind *)
Lemma fold_pstep_app ab cs1 cs2 s :
  fold_left (pstep ab) (cs1 ++ cs2) s = fold_left (pstep ab) cs2 (fold_left (pstep ab) cs1 s).
Proof. apply fold_left_app. Qed.

(* a change that does not match leaves the file exactly as it was *)
Lemma pstep_nomatch ab s c :
  apply_change c (ps_file s) = ONoMatch -> ps_file (pstep ab s c) = ps_file s /\ ps_errs (pstep ab s c) = ps_errs s.
Proof.
  intros H. unfold pstep. destruct (ab && negb match ps_errs s with [] => true | _ => false end); [auto|].
  rewrite H. auto.
Qed.

(* the command line stops at the first replacement error: nothing changes afterwards *)
Lemma pstep_after_error s c e es : ps_errs s = e :: es -> pstep true s c = s.
Proof. intros H. unfold pstep. rewrite H. reflexivity. Qed.

Lemma fold_after_error cs s e es : ps_errs s = e :: es -> fold_left (pstep true) cs s = s.
Proof.
  revert s; induction cs as [|c cs IH]; intros s H; [reflexivity|]. simpl.
  rewrite (pstep_after_error s c e es H). apply IH. exact H.
Qed.

(* an error never disappears, and the file a failing change was applied to is kept as the
   previous step left it *)
Lemma pstep_error_kept ab s c : ps_errs s <> [] -> ps_errs (pstep ab s c) <> [].
Proof.
  intros H. unfold pstep. destruct (ab && negb match ps_errs s with [] => true | _ => false end); [exact H|].
  destruct (apply_change c (ps_file s)); simpl; auto. intros E. apply app_eq_nil in E as [E _]. auto.
Qed.

Lemma pstep_err_file ab s c e :
  apply_change c (ps_file s) = OErr e -> ps_file (pstep ab s c) = ps_file s.
Proof.
  intros H. unfold pstep. destruct (ab && negb match ps_errs s with [] => true | _ => false end); [reflexivity|].
  rewrite H. reflexivity.
Qed.

(* each change sees the file the previous one produced *)
Lemma pstep_ok ab s c g' :
  ps_errs s = [] -> apply_change c (ps_file s) = OOk g' ->
  ps_file (pstep ab s c) = g' /\ ps_matched (pstep ab s c) = true.
Proof.
  intros He H. unfold pstep. rewrite He. simpl. rewrite andb_false_r. rewrite H. auto.
Qed.

(* several patch files are one list of changes, in the order given *)
Lemma run_programs_concat ab progs g : run_programs ab progs g = run_changes ab (concat progs) g.
Proof. reflexivity. Qed.
