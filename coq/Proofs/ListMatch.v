(* The list matcher with "..." (shortest run first, backtracking), generic in the element
   matcher: sound and complete for the declarative solutions [Sol], and the solution it
   finds has the lexicographically least vector of run lengths. *)
From Coq Require Import List NArith Arith Lia.
Import ListNotations.

Section ML.
Variables (P V D : Type) (isdots : P -> option N)
          (m : P -> V -> D -> option D) (push : N -> list V -> D -> D).

Fixpoint ml (ps : list P) : list V -> D -> option D :=
  match ps with
  | [] => fun ts d => match ts with [] => Some d | _ => None end
  | p :: ps' =>
    match isdots p with
    | Some id =>
       (fix skip (acc : list V) (ts : list V) (d : D) {struct ts} : option D :=
          match ml ps' ts (push id (rev acc) d) with
          | Some r => Some r
          | None => match ts with [] => None | t :: ts' => skip (t :: acc) ts' d end
          end) []
    | None => fun ts d =>
        match ts with
        | t :: ts' => match m p t d with Some d' => ml ps' ts' d' | None => None end
        | [] => None
        end
    end
  end.

(* the skip loop, named *)
Fixpoint skip (id : N) (ps' : list P) (acc ts : list V) (d : D) : option D :=
  match ml ps' ts (push id (rev acc) d) with
  | Some r => Some r
  | None => match ts with [] => None | t :: ts' => skip id ps' (t :: acc) ts' d end
  end.

Lemma ml_dots p ps' id ts d : isdots p = Some id -> ml (p :: ps') ts d = skip id ps' [] ts d.
Proof.
  intros H. cbn [ml]. rewrite H.
  generalize (@nil V) as acc. revert d.
  induction ts as [|t ts IH]; intros d acc; cbn [skip]; destruct (ml ps' _ _); auto.
Qed.

Lemma ml_elem p ps' t ts d : isdots p = None ->
  ml (p :: ps') (t :: ts) d = match m p t d with Some d' => ml ps' ts d' | None => None end.
Proof. intros H. cbn [ml]. rewrite H. reflexivity. Qed.

Lemma ml_elem_nil p ps' d : isdots p = None -> ml (p :: ps') [] d = None.
Proof. intros H. cbn [ml]. rewrite H. reflexivity. Qed.

(* declarative solutions: rs = the runs chosen for the dots, left to right *)
Inductive Sol : list P -> list V -> D -> list (list V) -> D -> Prop :=
| S_nil d : Sol [] [] d [] d
| S_elem p ps t ts d d' rs d'' :
    isdots p = None -> m p t d = Some d' -> Sol ps ts d' rs d'' ->
    Sol (p :: ps) (t :: ts) d rs d''
| S_dots p id ps run ts d rs d'' :
    isdots p = Some id -> Sol ps ts (push id run d) rs d'' ->
    Sol (p :: ps) (run ++ ts) d (run :: rs) d''.

Lemma skip_sound id ps' :
  (forall ts d d'', ml ps' ts d = Some d'' -> exists rs, Sol ps' ts d rs d'') ->
  forall ts acc d d'', skip id ps' acc ts d = Some d'' ->
  exists run ts' rs, ts = run ++ ts' /\ Sol ps' ts' (push id (rev acc ++ run) d) rs d''.
Proof.
  intros IH ts. induction ts as [|t ts IHts]; intros acc d d'' H; cbn [skip] in H.
  - destruct (ml ps' [] _) eqn:E; [|discriminate]. inversion H; subst.
    apply IH in E as [rs Hs]. exists [], [], rs. rewrite !app_nil_r. split; [reflexivity|exact Hs].
  - destruct (ml ps' (t :: ts) _) eqn:E.
    + inversion H; subst. apply IH in E as [rs Hs]. exists [], (t :: ts), rs. rewrite !app_nil_r. split; [reflexivity|exact Hs].
    + apply IHts in H as (run & ts' & rs & -> & Hs). exists (t :: run), ts', rs. split; auto.
      cbn [rev] in Hs. rewrite <- app_assoc in Hs. exact Hs.
Qed.

Theorem ml_sound ps : forall ts d d'', ml ps ts d = Some d'' -> exists rs, Sol ps ts d rs d''.
Proof.
  induction ps as [|p ps IH]; intros ts d d'' H.
  - destruct ts; [|discriminate]. inversion H; subst. exists []. constructor.
  - destruct (isdots p) as [id|] eqn:Hd.
    + rewrite (ml_dots _ _ _ _ _ Hd) in H.
      apply (skip_sound id ps IH) in H as (run & ts' & rs & -> & Hs).
      exists (run :: rs). eapply S_dots; eauto.
    + destruct ts as [|t ts]; [rewrite ml_elem_nil in H by auto; discriminate|].
      rewrite ml_elem in H by auto. destruct (m p t d) eqn:Em; [|discriminate].
      apply IH in H as [rs Hs]. exists rs. eapply S_elem; eauto.
Qed.

Lemma skip_complete id ps' :
  (forall ts d rs d'', Sol ps' ts d rs d'' -> exists e, ml ps' ts d = Some e) ->
  forall run ts acc d rs d'', Sol ps' ts (push id (rev acc ++ run) d) rs d'' ->
  exists e, skip id ps' acc (run ++ ts) d = Some e.
Proof.
  intros IH run. induction run as [|t run IHr]; intros ts acc d rs d'' Hs.
  - rewrite app_nil_r in Hs. apply IH in Hs as [e He]. cbn [app].
    destruct ts; cbn [skip]; rewrite He; eexists; reflexivity.
  - cbn [app skip]. destruct (ml ps' (t :: run ++ ts) _); eauto.
    apply (IHr ts (t :: acc) d rs d''). cbn [rev]. rewrite <- app_assoc. exact Hs.
Qed.

Theorem ml_complete ps : forall ts d rs d'', Sol ps ts d rs d'' -> exists e, ml ps ts d = Some e.
Proof.
  induction ps as [|p ps IH]; intros ts d rs d'' H; inversion H; subst.
  - cbn. eauto.
  - rewrite ml_elem by assumption.
    match goal with Hm : m _ _ _ = Some _ |- _ => rewrite Hm end. eapply IH; eassumption.
  - match goal with Hd : isdots _ = Some _ |- _ => rewrite (ml_dots _ _ _ _ _ Hd) end.
    eapply (skip_complete _ ps IH run _ [] d). cbn [rev app]. eassumption.
Qed.

Inductive lexle : list nat -> list nat -> Prop :=
| L_nil : lexle [] []
| L_lt a b xs ys : a < b -> lexle (a :: xs) (b :: ys)
| L_eq a xs ys : lexle xs ys -> lexle (a :: xs) (a :: ys).

Lemma skip_first id ps' : forall ts acc d e,
  skip id ps' acc ts d = Some e ->
  exists run ts', ts = run ++ ts' /\ ml ps' ts' (push id (rev acc ++ run) d) = Some e /\
    forall run2 ts2, ts = run2 ++ ts2 -> length run2 < length run ->
       ml ps' ts2 (push id (rev acc ++ run2) d) = None.
Proof.
  induction ts as [|t ts IHts]; intros acc d e H; cbn [skip] in H.
  - destruct (ml ps' [] _) eqn:E; [|discriminate]. inversion H; subst.
    exists [], []. rewrite !app_nil_r. repeat split; auto. intros ? ? ? Hl. cbn in Hl. lia.
  - destruct (ml ps' (t :: ts) _) eqn:E.
    + inversion H; subst. exists [], (t :: ts). rewrite !app_nil_r. repeat split; auto.
      intros ? ? ? Hl. cbn in Hl. lia.
    + apply IHts in H as (run & ts' & -> & Hm & Hmin).
      exists (t :: run), ts'. cbn [rev] in Hm. rewrite <- app_assoc in Hm. repeat split; auto.
      intros run2 ts2 Heq Hl. destruct run2 as [|t2 run2].
      * cbn in Heq. subst ts2. rewrite app_nil_r. exact E.
      * cbn in Heq. inversion Heq; subst t2. cbn in Hl.
        specialize (Hmin run2 ts2 H1 ltac:(lia)). cbn [rev] in Hmin. rewrite <- app_assoc in Hmin. exact Hmin.
Qed.

Lemma app_eq_len {A} (a b c d : list A) : a ++ b = c ++ d -> length a = length c -> a = c /\ b = d.
Proof.
  revert c. induction a as [|x a IH]; intros [|y c] H Hl; cbn in *; try discriminate; auto.
  inversion H; subst. destruct (IH c H2 ltac:(lia)) as [-> ->]. auto.
Qed.

Theorem ml_least ps : forall ts d e, ml ps ts d = Some e ->
  exists rs, Sol ps ts d rs e /\
    forall rs' e', Sol ps ts d rs' e' -> lexle (map (@length V) rs) (map (@length V) rs').
Proof.
  induction ps as [|p ps IH]; intros ts d e H.
  - destruct ts; [|discriminate]. inversion H; subst. exists []. split; [constructor|].
    intros rs' e' Hs. inversion Hs; subst. constructor.
  - destruct (isdots p) as [id|] eqn:Hd.
    + rewrite (ml_dots _ _ _ _ _ Hd) in H.
      apply skip_first in H as (run & ts' & -> & Hm & Hmin). cbn [rev app] in *.
      apply IH in Hm as (rs & Hs & Hleast).
      exists (run :: rs). split; [eapply S_dots; eauto|].
      intros rs' e' Hs'. inversion Hs'; subst; [congruence|].
      match goal with Hd2 : isdots p = Some _ |- _ => rewrite Hd in Hd2; inversion Hd2; subst end.
      cbn [map].
      destruct (Nat.lt_trichotomy (length run) (length run0)) as [Hlt|[Heq|Hgt]].
      * apply L_lt; exact Hlt.
      * match goal with Happ : _ ++ _ = _ ++ _ |- _ =>
          destruct (app_eq_len _ _ _ _ Happ (eq_sym Heq)) as [-> ->] end.
        apply L_eq. eapply Hleast. eassumption.
      * exfalso.
        match goal with Happ : _ ++ _ = _ ++ _ |- _ => symmetry in Happ;
          specialize (Hmin _ _ Happ Hgt) end.
        match goal with Hsol : Sol ps _ (push _ run0 d) _ _ |- _ =>
          apply ml_complete in Hsol as [e2 He2]; congruence end.
    + destruct ts as [|t ts]; [rewrite ml_elem_nil in H by auto; discriminate|].
      rewrite ml_elem in H by auto. destruct (m p t d) eqn:Em; [|discriminate].
      apply IH in H as (rs & Hs & Hleast). exists rs. split; [eapply S_elem; eauto|].
      intros rs' e' Hs'. inversion Hs'; subst; [|congruence].
      match goal with Hm2 : m p t d = Some _ |- _ => rewrite Em in Hm2; inversion Hm2; subst end.
      eapply Hleast; eassumption.
Qed.
End ML.
