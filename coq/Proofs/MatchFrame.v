(* What a match depends on: the outcome of matching a pattern, and the bindings it makes, depend on
   the match data only through what the metavariables of the pattern stand for.  With it, the memo
   of failed places in SliceDotsMatcher.matchSections (repo fix 58040e3), keyed by what the
   metavariables of the remaining sections stand for, is sound: the memoised search of the engine's
   list matcher returns what the plain search returns. *)
From GP Require Import Tree Meta Match ListMatch MatchFacts MatchComplete ListMemo.
From Coq Require Import Lia Arith.

Section F.
  Variable mk : N -> option mkind.
  Notation mvs := (mvs mk).
  Notation mvsl := (mvsl mk).

  (* the two data agree on what the names of L stand for *)
  Definition agree (L : list N) (d1 d2 : data) : Prop :=
    forall x, In x L -> assoc x (d_mv d1) = assoc x (d_mv d2).

  Lemma agree_incl L1 L2 d1 d2 : incl L1 L2 -> agree L2 d1 d2 -> agree L1 d1 d2.
  Proof. intros Hi Ha x Hx. apply Ha, Hi, Hx. Qed.

  Lemma agree_push x v L d1 d2 : agree L d1 d2 -> agree L (push_mv x v d1) (push_mv x v d2).
  Proof. intros Ha y Hy. unfold push_mv. cbn [d_mv assoc]. destruct (N.eqb y x); [reflexivity|apply Ha, Hy]. Qed.

  Definition frame_at (p : val) : Prop :=
    forall t d1 d2 d1' L, mtch mk p t d1 = Some d1' -> agree (mvs p ++ L) d1 d2 ->
    exists d2', mtch mk p t d2 = Some d2' /\ agree (mvs p ++ L) d1' d2'.

  Lemma mfields_frame ps : Forall frame_at ps ->
    forall ts d1 d2 d1' L, mfields mk ps ts d1 = Some d1' -> agree (mvsl ps ++ L) d1 d2 ->
    exists d2', mfields mk ps ts d2 = Some d2' /\ agree (mvsl ps ++ L) d1' d2'.
  Proof.
    induction 1 as [|p ps Hp Hps IH]; intros [|t ts] d1 d2 d1' L H Ha; cbn [mfields] in *; try discriminate.
    - inversion H; subst. exists d2. split; [reflexivity|exact Ha].
    - destruct (mtch mk p t d1) as [d1a|] eqn:E; [|discriminate].
      unfold mvsl in *. cbn [flat_map] in *.
      destruct (Hp t d1 d2 d1a (flat_map mvs ps ++ L) E) as [d2a [E2 Ha2]]; [rewrite app_assoc; exact Ha|].
      rewrite E2.
      destruct (IH ts d1a d2a d1' (L ++ mvs p) H) as [d2' [E3 Ha3]].
      { eapply agree_incl; [|exact Ha2]. intros x Hx. apply in_app_iff in Hx as [Hx|Hx]; [apply in_app_iff; right; apply in_app_iff; left; exact Hx|].
        apply in_app_iff in Hx as [Hx|Hx]; apply in_app_iff; [right; apply in_app_iff; right; exact Hx|left; exact Hx]. }
      exists d2'. split; [exact E3|]. eapply agree_incl; [|exact Ha3].
      intros x Hx. rewrite <- app_assoc in Hx. apply in_app_iff in Hx as [Hx|Hx]; [apply in_app_iff; right; apply in_app_iff; right; exact Hx|].
      apply in_app_iff in Hx as [Hx|Hx]; apply in_app_iff; [left; exact Hx|right; apply in_app_iff; left; exact Hx].
  Qed.

  (* ---- lists: the key of the memo ---- *)
  Definition lkey (L : list N) (qs : list val) (d : data) : list (option val) :=
    map (fun x => assoc x (d_mv d)) (mvsl qs ++ L).

  Lemma lkey_agree L qs d1 d2 : lkey L qs d1 = lkey L qs d2 <-> agree (mvsl qs ++ L) d1 d2.
  Proof.
    unfold lkey, agree. generalize (mvsl qs ++ L) as l. intros l. split.
    - induction l as [|y l IH]; intros H x Hx; [contradiction|]. cbn [map] in H. inversion H.
      destruct Hx as [<-|Hx]; [assumption|apply IH; assumption].
    - intros H. apply map_ext_in. exact H.
  Qed.

  Lemma elem_ok_of_frame tp L p : frame_at p -> elem_ok val val data _ (dots_item tp) (mtch mk) (lkey L) p.
  Proof.
    intros Hf qs t d1 d2 d1' _ Hk E. apply lkey_agree in Hk. unfold mvsl in Hk. cbn [flat_map] in Hk. rewrite <- app_assoc in Hk.
    destruct (Hf t d1 d2 d1' (flat_map mvs qs ++ L) E Hk) as [d2' [E2 Ha]].
    exists d2'. split; [exact E2|]. apply lkey_agree. eapply agree_incl; [|exact Ha].
    intros x Hx. apply in_app_iff. right. exact Hx.
  Qed.

  Lemma lkey_dots L p qs i r1 r2 d1 d2 : lkey L (p :: qs) d1 = lkey L (p :: qs) d2 ->
    lkey L qs (push_dots i r1 d1) = lkey L qs (push_dots i r2 d2).
  Proof.
    intros Hk. apply lkey_agree in Hk. apply lkey_agree. intros x Hx. unfold push_dots. cbn [d_mv].
    apply Hk. unfold mvsl. cbn [flat_map]. rewrite <- app_assoc. apply in_app_iff. right. exact Hx.
  Qed.

  Lemma frame_n : forall k p, (vsize p <= k)%nat -> frame_at p.
  Proof.
    induction k as [|k IH]; intros p Hk; [destruct p; simpl in Hk; lia|].
    intros t d1 d2 d1' L H Ha.
    destruct p as [tp|b|ta a|sp ps|tp ps|ti ps|tp ps].
    - cbn [mtch] in *. destruct t as [tq| | | |tq y| |tq [|y l]]; try discriminate.
      + inversion H; subst. eauto.
      + destruct (N.eqb tp T_P_ast_Object); [|discriminate]. inversion H; subst. eauto.
      + destruct (dots_capable tp); [|discriminate]. inversion H; subst. eauto.
    - cbn [mtch] in *. destruct t; try discriminate. destruct (Bool.eqb b valid); [|discriminate]. inversion H; subst. eauto.
    - cbn [mtch] in *. destruct t; try discriminate. destruct (N.eqb ta t && N.eqb a a0)%bool; [|discriminate]. inversion H; subst. eauto.
    - destruct t as [| | |st ts| | |]; try (cbn [mtch] in H; discriminate).
      rewrite mtch_struct in H. rewrite mtch_struct. destruct (N.eqb sp st); [|discriminate]. rewrite (mvs_struct mk) in *.
      assert (Forall frame_at ps) as Hall by (apply Forall_forall; intros y Hy; apply IH; apply vsize_in in Hy; simpl in Hk; lia).
      exact (mfields_frame ps Hall ts d1 d2 d1' L H Ha).
    - destruct (N.eqb tp T_P_ast_Object) eqn:EO.
      { rewrite mtch_obj in H by exact EO. rewrite mtch_obj by exact EO. inversion H; subst. eauto. }
      destruct (mv_ident mk (Ptr tp ps)) as [[name kd]|] eqn:MV.
      { rewrite (mtch_mv _ _ _ _ _ _ MV) in H. rewrite (mtch_mv _ _ _ _ _ _ MV). rewrite (mvs_mv mk _ _ _ MV) in *. destruct (kind_ok kd t); [|discriminate].
        rewrite <- (Ha name (or_introl eq_refl)).
        destruct (assoc name (d_mv d1)) as [c|].
        - destruct (eqvb c t); [|discriminate]. inversion H; subst. eauto.
        - inversion H; subst. eexists. split; [reflexivity|]. apply agree_push. exact Ha. }
      destruct (for_dots_pat (Ptr tp ps)) as [[i body]|] eqn:FD.
      { rewrite (mtch_for _ _ _ _ _ _ FD) in H. rewrite (mtch_for _ _ _ _ _ _ FD).
        assert (frame_at body) as Hb.
        { apply IH. unfold for_dots_pat in FD.
          destruct ps as [| | |sp fs| | |]; try discriminate FD.
          destruct fs as [|f0 [|f1 [|f2 [|f3 [|f4 [|f5 r]]]]]]; try discriminate FD;
            destruct f1; try discriminate FD; destruct f2; try discriminate FD; destruct f3; try discriminate FD.
          destruct (N.eqb tp T_P_ast_ForStmt); [|discriminate FD]. destruct (is_dots f2); [|discriminate FD].
          inversion FD; subst. simpl in Hk. simpl. lia. }
        destruct (for_dots_mvs mk tp ps i body FD) as [l1 [l2 Em]].
        assert (forall st fs tb, mtch mk body tb (push_for i st fs d1) = Some d1' ->
                  exists d2', mtch mk body tb (push_for i st fs d2) = Some d2' /\ agree (mvs (Ptr tp ps) ++ L) d1' d2') as Hgo.
        { intros st fs tb E.
          destruct (Hb tb (push_for i st fs d1) (push_for i st fs d2) d1' (l1 ++ l2 ++ L) E) as [d2' [E2 Ha2]].
          { intros x Hx. unfold push_for. cbn [d_mv]. apply Ha. rewrite Em.
            apply in_app_iff in Hx as [Hx|Hx]; [apply in_app_iff; left; apply in_app_iff; right; apply in_app_iff; left; exact Hx|].
            apply in_app_iff in Hx as [Hx|Hx]; [apply in_app_iff; left; apply in_app_iff; left; exact Hx|].
            apply in_app_iff in Hx as [Hx|Hx]; [apply in_app_iff; left; apply in_app_iff; right; apply in_app_iff; right; exact Hx|apply in_app_iff; right; exact Hx]. }
          exists d2'. split; [exact E2|]. eapply agree_incl; [|exact Ha2]. rewrite Em. intros x Hx.
          apply in_app_iff in Hx as [Hx|Hx]; [|apply in_app_iff; right; apply in_app_iff; right; apply in_app_iff; right; exact Hx].
          apply in_app_iff in Hx as [Hx|Hx]; [apply in_app_iff; right; apply in_app_iff; left; exact Hx|].
          apply in_app_iff in Hx as [Hx|Hx]; [apply in_app_iff; left; exact Hx|apply in_app_iff; right; apply in_app_iff; right; apply in_app_iff; left; exact Hx]. }
        destruct t as [| | | |tq y| |]; try discriminate. destruct y as [| | |st fs| | |]; try discriminate.
        destruct (N.eqb tq T_P_ast_ForStmt); [apply Hgo; exact H|].
        destruct (N.eqb tq T_P_ast_RangeStmt); [apply Hgo; exact H|discriminate]. }
      rewrite (mtch_ptr _ _ _ _ _ MV FD EO) in H. rewrite (mtch_ptr _ _ _ _ _ MV FD EO). rewrite (mvs_ptr mk _ _ MV EO) in *.
      destruct t as [| | | |tq ts| |]; try discriminate.
      assert (frame_at ps) as Hp by (apply IH; simpl in Hk; lia). eapply Hp; eauto.
    - cbn [mtch] in *. destruct t as [| | | | |tj ts|]; try discriminate.
      assert (frame_at ps) as Hp by (apply IH; simpl in Hk; lia). cbn [MatchComplete.mvs] in *. eapply Hp; eauto.
    - rewrite mtch_slice in H. rewrite mtch_slice. destruct (targets t) as [ts|] eqn:T; [|discriminate]. rewrite (mvs_slice mk) in *.
      set (L' := mvsl ps ++ L).
      assert (Forall (elem_ok val val data _ (dots_item tp) (mtch mk) (lkey L')) ps) as Hall.
      { apply Forall_forall. intros y Hy. apply elem_ok_of_frame. apply IH. apply vsize_in in Hy. simpl in Hk. lia. }
      assert (lkey L' ps d1 = lkey L' ps d2) as Hk0.
      { apply lkey_agree. intros x Hx. apply Ha. unfold L' in Hx. apply in_app_iff in Hx as [Hx|Hx]; [apply in_app_iff; left; exact Hx|exact Hx]. }
      destruct (ml_succ_key val val data _ (dots_item tp) (mtch mk) push_dots (lkey L')
                  (fun p id qs r1 r2 e1 e2 _ Hq => lkey_dots L' p qs id r1 r2 e1 e2 Hq) ps Hall ts d1 d2 d1' Hk0 H) as [d2' [E2 K]].
      exists d2'. split; [exact E2|]. apply lkey_agree in K. exact K.
  Qed.

  Theorem mtch_frame p t d1 d2 d1' L : mtch mk p t d1 = Some d1' -> agree (mvs p ++ L) d1 d2 ->
    exists d2', mtch mk p t d2 = Some d2' /\ agree (mvs p ++ L) d1' d2'.
  Proof. exact (frame_n (vsize p) p (le_n _) t d1 d2 d1' L). Qed.

  (* ---- the memoised list search of the engine ---- *)
  (* the key of a place: what the metavariables of the remaining patterns stand for (placeb: any
     decision procedure that says "equal" only of equal places, e.g. the comparison of the strings
     the code builds from the identities of the captures) *)
  Theorem engine_memo_is_plain_search tp placeb ps ts d :
    (forall a b, placeb a b = true -> a = b) ->
    fst (mlm val val data _ (dots_item tp) (mtch mk) push_dots (lkey []) placeb ps ts d [])
    = ml val val data (dots_item tp) (mtch mk) push_dots ps ts d.
  Proof.
    intros Hb. apply (mlm_is_ml val val data _ (dots_item tp) (mtch mk) push_dots (lkey [])
                        (fun p id qs r1 r2 e1 e2 _ Hq => lkey_dots [] p qs id r1 r2 e1 e2 Hq) placeb Hb).
    apply Forall_forall. intros y _. apply elem_ok_of_frame. intros t0 e1 e2 e1' L0. apply mtch_frame.
  Qed.
End F.
