(* The augmentations found by the scanner have the shape rewrite needs: each within the source,
   pairwise disjoint, fake package clause and fake function header before every elision.  Hence
   (with AugmentFacts.rewrite_no_panic) augment.Augment never slices out of range, for every
   token stream that is ordered by offset with three-byte "..." tokens (wf). *)
From GP Require Import Augment AugmentFacts.
From Coq Require Import Lia Arith.
Local Open Scope nat_scope.

Definition tw (t : atok) : nat := match a_kind t with AK_ELLIPSIS => 3 | _ => 0 end.

Fixpoint doffs (l : list aug) : list nat :=
  match l with
  | [] => []
  | ADots s _ _ :: l' => s :: doffs l'
  | _ :: l' => doffs l'
  end.

Lemma doffs_app a b : doffs (a ++ b) = doffs a ++ doffs b.
Proof. induction a as [|x a IH]; simpl; [reflexivity|]. destruct x; simpl; rewrite IH; reflexivity. Qed.

Lemma doffs_map n ell : doffs (map (fun off => ADots off (off + 3) n) ell) = ell.
Proof. induction ell; simpl; congruence. Qed.

Definition far (a b : nat) : Prop := a + 3 <= b \/ b + 3 <= a.

Fixpoint sep (l : list nat) : Prop :=
  match l with [] => True | a :: l' => Forall (far a) l' /\ sep l' end.

Lemma far_sym a b : far a b -> far b a.
Proof. unfold far. tauto. Qed.

Lemma sep_insert A o : forall B, sep (A ++ B) -> (forall x, In x (A ++ B) -> far o x) -> sep (A ++ o :: B).
Proof.
  induction A as [|a A IH]; intros B S F; simpl in *.
  - split; [apply Forall_forall; exact F|exact S].
  - destruct S as [S1 S2]. split.
    + apply Forall_forall. intros x Hx. apply in_app_iff in Hx as [Hx|[<-|Hx]].
      * rewrite Forall_forall in S1. apply S1, in_app_iff. auto.
      * apply far_sym, F. auto.
      * rewrite Forall_forall in S1. apply S1, in_app_iff. auto.
    + apply IH; [exact S2|]. intros x Hx. apply F. auto.
Qed.

Definition only_dots (N : list aug) : Prop := Forall (fun a => exists o n, a = ADots o (o + 3) n) N.

Section W.
  Variable eoff eline : nat.
  Notation ocur := (ocur eoff).
  Notation lcur := (lcur eline).

  Fixpoint wf (s : list atok) : Prop :=
    match s with [] => True | t :: s' => a_off t + tw t <= ocur s' /\ wf s' end.

  Lemma wf_nxt s : wf s -> wf (nxt s).
  Proof. destruct s; simpl; tauto. Qed.

  Lemma ocur_nxt s : wf s -> ocur s <= ocur (nxt s).
  Proof. destruct s as [|t s]; simpl; [lia|]. intros [H _]. lia. Qed.

  Lemma ocur_nxt_dots s : wf s -> kcur s = AK_ELLIPSIS -> ocur s + 3 <= ocur (nxt s).
  Proof. destruct s as [|t s]; simpl; [discriminate|]. intros [H _] K. unfold tw in H. rewrite K in H. exact H. Qed.

  (* s' is reached from s by moving forward *)
  Definition adv (s s' : list atok) : Prop := wf s' /\ ocur s <= ocur s'.

  Lemma adv_refl s : wf s -> adv s s.
  Proof. split; [assumption|lia]. Qed.
  Lemma adv_trans s1 s2 s3 : adv s1 s2 -> adv s2 s3 -> adv s1 s3.
  Proof. intros [_ A] [W B]. split; [exact W|lia]. Qed.
  Lemma adv_nxt s : wf s -> adv s (nxt s).
  Proof. intros W. split; [apply wf_nxt, W|apply ocur_nxt, W]. Qed.
  Lemma adv_nxt' s s' : adv s s' -> adv s (nxt s').
  Proof. intros A. eapply adv_trans; [exact A|apply adv_nxt, A]. Qed.
  Lemma adv_skip_group s : wf s -> adv s (skip_group s).
  Proof.
    induction s as [|t s IH]; intros W; [apply adv_refl, W|]. cbn [skip_group].
    destruct (a_kind t); try (eapply adv_trans; [apply (adv_nxt (t :: s)), W|apply IH; simpl in W; tauto]).
    apply adv_refl, W.
  Qed.

  Definition Inv (s : list atok) (D : list nat) (L : nat) : Prop :=
    Forall (fun o => L <= o /\ o + 3 <= ocur s) D /\ sep D.

  Lemma Inv_adv s s' D L : adv s s' -> Inv s D L -> Inv s' D L.
  Proof.
    intros [_ A] [F S]. split; [|exact S]. eapply Forall_impl; [|exact F]. simpl. intros o [H1 H2]. lia.
  Qed.

  Lemma Inv_add s A B L : wf s -> kcur s = AK_ELLIPSIS -> L <= ocur s ->
    Inv s (A ++ B) L -> Inv (nxt s) (A ++ ocur s :: B) L.
  Proof.
    intros W K HL [F S]. pose proof (ocur_nxt_dots s W K) as D3. split.
    - apply Forall_forall. intros x Hx. rewrite Forall_forall in F. apply in_app_iff in Hx as [Hx|[<-|Hx]].
      + destruct (F x) as [F1 F2]; [apply in_app_iff; auto|]. lia.
      + lia.
      + destruct (F x) as [F1 F2]; [apply in_app_iff; auto|]. lia.
    - apply sep_insert; [exact S|]. intros x Hx. rewrite Forall_forall in F. destruct (F x Hx) as [_ F2]. right. exact F2.
  Qed.


  Definition pend (m : mode) : list nat := match m with MFLLoop ell _ => ell | _ => [] end.

  Definition post (s : list atok) (acc : list aug) (X : list nat) (L : nat) (s' : list atok) (a' : list aug) : Prop :=
    exists N, a' = acc ++ N /\ only_dots N /\ adv s s' /\ Inv s' (doffs a' ++ X) L.

  Lemma post_skip s acc X L s' :
    adv s s' -> Inv s (doffs acc ++ X) L -> post s acc X L s' acc.
  Proof.
    intros A I. exists []. rewrite app_nil_r. split; [reflexivity|]. split; [constructor|]. split; [exact A|].
    eapply Inv_adv; eauto.
  Qed.

  Lemma post_trans s acc X1 X L s1 a1 s2 a2 :
    post s acc X1 L s1 a1 -> post s1 a1 X L s2 a2 -> post s acc X L s2 a2.
  Proof.
    intros [N1 [E1 [O1 [A1 I1]]]] [N2 [E2 [O2 [A2 I2]]]]. exists (N1 ++ N2). subst.
    split; [symmetry; apply app_assoc|]. split; [apply Forall_app; auto|]. split; [eapply adv_trans; eauto|]. exact I2.
  Qed.

  Lemma f_ident_adv s : wf s -> adv s (f_ident s).
  Proof.
    intros W. unfold f_ident. destruct (kcur (nxt s)); try apply adv_nxt, W.
    apply adv_nxt', adv_nxt, W.
  Qed.

  Lemma f_ellipsis_post s acc X L : wf s -> kcur s = AK_ELLIPSIS -> L <= ocur s ->
    Inv s (doffs acc ++ X) L ->
    post s acc X L (fst (f_ellipsis eoff eline s acc)) (snd (f_ellipsis eoff eline s acc)).
  Proof.
    intros W K HL I. unfold f_ellipsis.
    assert (post s acc X L (nxt s) (acc ++ [ADots (ocur s) (ocur s + 3) false])) as P.
    { exists [ADots (ocur s) (ocur s + 3) false]. split; [reflexivity|]. split; [repeat constructor; eauto|].
      split; [apply adv_nxt, W|]. rewrite doffs_app. simpl. rewrite <- app_assoc. simpl. apply Inv_add; assumption. }
    destruct (kcur (nxt s)); simpl; try exact P.
    destruct (Nat.eqb _ _); simpl; [|exact P].
    apply post_skip; [apply adv_nxt', adv_nxt, W|exact I].
  Qed.

  Lemma arun_inv : forall fuel m s acc s' a' X L,
    wf s -> arun eoff eline fuel m s acc = Some (s', a') -> L <= ocur s ->
    Inv s (doffs acc ++ pend m ++ X) L ->
    post s acc X L s' a'.
  Proof.
    induction fuel as [|f IH]; intros m s acc s' a' X L W R HL I; [discriminate|].
    destruct m; cbn [arun pend] in R, I; simpl app in I.
    - (* MProcess *)
      destruct (kcur s) eqn:K;
        try (inversion R; subst; apply post_skip; [apply adv_nxt, W|exact I]).
      + inversion R; subst. apply post_skip; [apply f_ident_adv, W|exact I].
      + pose proof (f_ellipsis_post s acc X L W K HL I) as P.
        assert (f_ellipsis eoff eline s acc = (s', a')) as E by congruence. rewrite E in P. exact P.
      + eapply IH; eauto.
    - (* MFunction *)
      destruct (arun eoff eline f MFieldList (nxt s) acc) as [[s1 a1]|] eqn:R1; [|discriminate].
      assert (post s acc X L s1 a1) as P1.
      { eapply post_trans; [apply post_skip; [apply adv_nxt, W|exact I]|].
        eapply IH; [apply wf_nxt, W|exact R1|pose proof (ocur_nxt s W); lia|].
        simpl. eapply Inv_adv; [apply adv_nxt, W|exact I]. }
      destruct (kcur s1) eqn:K1; try (inversion R; subst; exact P1).
      destruct P1 as [N1 [E1 [O1 [A1 I1]]]].
      eapply post_trans; [exists N1; eauto|].
      eapply IH; [apply A1|exact R|destruct A1; lia|simpl; exact I1].
    - (* MFieldList *)
      eapply post_trans; [apply post_skip; [apply adv_nxt, W|exact I]|].
      eapply IH; [apply wf_nxt, W|exact R|pose proof (ocur_nxt s W); lia|].
      simpl. eapply Inv_adv; [apply adv_nxt, W|exact I].
    - (* MFLLoop *)
      assert (forall s2 n2, adv s s2 -> arun eoff eline f (MFLLoop ell n2) s2 acc = Some (s', a') -> post s acc X L s' a') as LOOP.
      { intros s2 n2 A R2.
        eapply (post_trans s acc (ell ++ X) X L s2 acc).
        - exists []. rewrite app_nil_r. split; [reflexivity|]. split; [constructor|]. split; [exact A|].
          eapply Inv_adv; [exact A|exact I].
        - eapply IH; [apply A|exact R2|destruct A; lia|]. simpl. eapply Inv_adv; [exact A|exact I]. }
      destruct (kcur s) eqn:K;
        try (eapply LOOP; [apply adv_nxt, W|exact R]).
      + (* EOF *)
        inversion R; subst. exists (map (fun off => ADots off (off + 3) named) ell).
        split; [reflexivity|]. split; [apply Forall_forall; intros a Ha; apply in_map_iff in Ha as [o [<- _]]; eauto|].
        split; [apply adv_nxt, W|]. rewrite doffs_app, doffs_map, <- app_assoc.
        eapply Inv_adv; [apply adv_nxt, W|exact I].
      + (* IDENT *)
        eapply LOOP; [|exact R]. destruct (kcur (nxt s)); try apply adv_nxt, W.
        apply adv_nxt', adv_nxt', adv_nxt, W.
      + (* ELLIPSIS *)
        destruct (kcur (nxt s)) eqn:K1; try (eapply LOOP; [apply adv_nxt, W|exact R]);
        (eapply (post_trans s acc ((ell ++ [ocur s]) ++ X) X L (nxt s) acc);
         [ exists []; rewrite app_nil_r; split; [reflexivity|]; split; [constructor|]; split; [apply adv_nxt, W|];
           replace (doffs acc ++ (ell ++ [ocur s]) ++ X) with ((doffs acc ++ ell) ++ ocur s :: X)
             by (rewrite <- !app_assoc; reflexivity);
           apply Inv_add; [exact W|exact K|exact HL|rewrite <- app_assoc; exact I]
         | eapply IH; [apply wf_nxt, W|exact R|pose proof (ocur_nxt s W); lia|];
           simpl; replace (doffs acc ++ (ell ++ [ocur s]) ++ X) with ((doffs acc ++ ell) ++ ocur s :: X)
             by (rewrite <- !app_assoc; reflexivity);
           apply Inv_add; [exact W|exact K|exact HL|rewrite <- app_assoc; exact I] ]).
      + (* FUNC *)
        destruct (arun eoff eline f MFunction s acc) as [[s1 a1]|] eqn:R1; [|discriminate].
        assert (post s acc (ell ++ X) L s1 a1) as P1 by (eapply IH; [exact W|exact R1|exact HL|simpl; exact I]).
        destruct P1 as [N1 [E1 [O1 [A1 I1]]]].
        eapply post_trans; [exists N1; eauto|].
        eapply IH; [apply A1|exact R|destruct A1; lia|simpl; exact I1].
      + (* RPAREN *)
        inversion R; subst. exists (map (fun off => ADots off (off + 3) named) ell).
        split; [reflexivity|]. split; [apply Forall_forall; intros a Ha; apply in_map_iff in Ha as [o [<- _]]; eauto|].
        split; [apply adv_nxt, W|]. rewrite doffs_app, doffs_map, <- app_assoc.
        eapply Inv_adv; [apply adv_nxt, W|exact I].
    - (* MRecv *)
      assert (post s acc X L s' a' \/ (s' = s /\ a' = acc)) as [P|[-> ->]]; [|exact P|apply post_skip; [apply adv_refl, W|exact I]].
      destruct (kcur s) eqn:K; try (right; inversion R; auto; fail); left;
        (destruct (arun eoff eline f MProcess s acc) as [[s1 a1]|] eqn:R1; [|discriminate];
         assert (post s acc X L s1 a1) as P1 by (eapply IH; [exact W|exact R1|exact HL|simpl; exact I]);
         destruct P1 as [N1 [E1 [O1 [A1 I1]]]];
         eapply post_trans; [exists N1; eauto|];
         eapply IH; [apply A1|exact R|destruct A1; lia|simpl; exact I1]).
    - (* MFuncDecl *)
      assert (TAIL : forall s4 a4, post s acc X L s4 a4 ->
                match arun eoff eline f MFieldList (nxt s4) a4 with
                | Some (s5, a5) => match kcur s5 with AK_LPAREN => arun eoff eline f MFieldList s5 a5 | _ => Some (s5, a5) end
                | None => None
                end = Some (s', a') -> post s acc X L s' a').
      { intros s4 a4 P4 R4.
        destruct (arun eoff eline f MFieldList (nxt s4) a4) as [[s5 a5]|] eqn:R5; [|discriminate].
        destruct P4 as [N4 [EE4 [O4 [A4 I4]]]].
        assert (post s acc X L s5 a5) as P5.
        { eapply post_trans; [exists N4; split; [exact EE4|]; split; [exact O4|]; split; [apply adv_nxt', A4|];
                              eapply Inv_adv; [apply adv_nxt, A4|exact I4]|].
          eapply IH; [apply wf_nxt, A4|exact R5|pose proof (ocur_nxt s4 (proj1 A4)); destruct A4; lia|].
          simpl. eapply Inv_adv; [apply adv_nxt, A4|exact I4]. }
        destruct (kcur s5) eqn:K5; try (inversion R4; subst; exact P5).
        destruct P5 as [N5 [E5 [O5 [A5 I5]]]].
        eapply post_trans; [exists N5; eauto|].
        eapply IH; [apply A5|exact R4|destruct A5; lia|simpl; exact I5]. }
      assert (adv s (nxt s)) as A1 by (apply adv_nxt, W).
      destruct (kcur (nxt s)) eqn:K1;
        try (apply (TAIL (nxt s) acc); [apply post_skip; [exact A1|exact I]|exact R]).
      destruct (arun eoff eline f MRecv (nxt (nxt s)) acc) as [[s3 a3]|] eqn:R3; [|discriminate].
      apply (TAIL (nxt s3) a3); [|exact R].
      assert (post s acc X L s3 a3) as P3.
      { eapply post_trans; [apply post_skip; [apply adv_nxt', A1|exact I]|].
        eapply IH; [apply wf_nxt, A1|exact R3|pose proof (ocur_nxt (nxt s) (proj1 A1)); destruct A1; lia|].
        simpl. eapply Inv_adv; [apply adv_nxt', A1|exact I]. }
      destruct P3 as [N3 [E3 [O3 [A3 I3]]]]. exists N3. split; [exact E3|]. split; [exact O3|].
      split; [apply adv_nxt', A3|]. eapply Inv_adv; [apply adv_nxt, A3|exact I3].
    - (* MImports *)
      assert (forall s2, adv s s2 -> arun eoff eline f MImports s2 acc = Some (s', a') -> post s acc X L s' a') as LOOP.
      { intros s2 A R2. eapply post_trans; [apply post_skip; [exact A|exact I]|].
        eapply IH; [apply A|exact R2|destruct A; lia|]. simpl. eapply Inv_adv; [exact A|exact I]. }
      destruct (kcur s) eqn:K; try (inversion R; subst; apply post_skip; [apply adv_refl, W|exact I]).
      destruct (kcur (nxt s)) eqn:K1;
        try (eapply LOOP; [|exact R];
             first [apply adv_nxt; exact W | apply adv_nxt', adv_nxt; exact W | apply adv_nxt', adv_nxt', adv_nxt; exact W
                   | apply adv_nxt', adv_nxt', adv_nxt', adv_nxt; exact W]).
      + inversion R; subst. apply post_skip; [apply adv_nxt, W|exact I].
      + eapply LOOP; [|exact R]. apply adv_nxt', adv_nxt'.
        eapply adv_trans; [apply adv_nxt, W|apply adv_skip_group, wf_nxt, W].
    - (* MMain *)
      assert (post s acc X L s' a' \/ (s' = s /\ a' = acc)) as [P|[-> ->]]; [|exact P|apply post_skip; [apply adv_refl, W|exact I]].
      destruct (kcur s) eqn:K; try (right; inversion R; auto; fail); left;
        (destruct (arun eoff eline f MProcess s acc) as [[s1 a1]|] eqn:R1; [|discriminate];
         assert (post s acc X L s1 a1) as P1 by (eapply IH; [exact W|exact R1|exact HL|simpl; exact I]);
         destruct P1 as [N1 [E1 [O1 [A1 I1]]]];
         eapply post_trans; [exists N1; eauto|];
         eapply IH; [apply A1|exact R|destruct A1; lia|simpl; exact I1]).
  Qed.


  (* the imports loop records nothing *)
  Lemma arun_imports_acc : forall fuel s acc s' a',
    arun eoff eline fuel MImports s acc = Some (s', a') -> a' = acc.
  Proof.
    induction fuel as [|f IH]; intros s acc s' a' R; [discriminate|]. cbn [arun] in R.
    destruct (kcur s); try (inversion R; reflexivity).
    destruct (kcur (nxt s)); try (eapply IH; exact R). inversion R; reflexivity.
  Qed.

  Lemma ocur_le_eoff s : wf s -> ocur s <= eoff.
  Proof. induction s as [|t s IH]; simpl; [lia|]. intros [H W]. specialize (IH W). lia. Qed.

  (* a list of elisions with separated, bounded offsets passes the shape test *)
  Lemma dots_okb n : forall N, only_dots N ->
    Forall (fun o => o + 3 <= n) (doffs N) -> sep (doffs N) -> augs_okb n N = true.
  Proof.
    induction N as [|a N IH]; intros O B S; [reflexivity|].
    inversion O as [|? ? [o [nm ->]] ON]; subst. cbn [doffs] in B, S. inversion B as [|? ? Bo BN]; subst.
    destruct S as [So SN]. cbn [augs_okb]. rewrite (IH ON BN SN), Bool.andb_true_r.
    apply Bool.andb_true_iff. split.
    - apply aug_wfb_spec. unfold aug_wf. simpl. lia.
    - apply forallb_forall. intros b Hb. apply compatb_spec.
      rewrite Forall_forall in ON. destruct (ON b Hb) as [o' [nm' ->]].
      assert (In o' (doffs N)) as Hin.
      { clear - Hb. induction N as [|x N IH]; [destruct Hb|]. destruct Hb as [->|Hb]; [simpl; auto|].
        destruct x; simpl; auto. }
      rewrite Forall_forall in So. destruct (So o' Hin) as [F|F]; unfold compat; simpl; lia.
  Qed.

  Lemma fake_before_dots (fk : aug) lo N :
    aug_start fk = aug_end fk -> aug_end fk <= lo ->
    only_dots N -> Forall (fun o => lo <= o) (doffs N) -> forallb (compatb fk) N = true.
  Proof.
    intros Z Hlo O B. apply forallb_forall. intros b Hb. apply compatb_spec.
    unfold only_dots in O. rewrite Forall_forall in O. destruct (O b Hb) as [o' [nm' ->]].
    assert (In o' (doffs N)) as Hin.
    { clear - Hb. induction N as [|x N IH]; [destruct Hb|]. destruct Hb as [->|Hb]; [simpl; auto|].
      destruct x; simpl; auto. }
    rewrite Forall_forall in B. specialize (B o' Hin). left. simpl. lia.
  Qed.

  Lemma doffs_fakes_only l : (forall a, In a l -> match a with ADots _ _ _ => False | _ => True end) -> doffs l = [].
  Proof.
    induction l as [|a l IH]; intros H; [reflexivity|]. pose proof (H a (or_introl eq_refl)) as Ha.
    destruct a; try contradiction; simpl; apply IH; intros b Hb; apply H; right; exact Hb.
  Qed.

  (* find's output has the shape rewrite needs *)
  Theorem find_output_shape toks augs :
    wf toks -> find eoff eline toks = Some augs -> augs_okb eoff augs = true.
  Proof.
    intros W. unfold find, find_fuel. set (fuel := 3 * length toks + 6). intros R.
    destruct (f_pkg eoff toks) as [s0 a0] eqn:P.
    destruct (arun eoff eline fuel MImports s0 a0) as [[s1 a1]|] eqn:R1; [|discriminate].
    destruct (f_top eoff eline fuel s1 a1) as [[s2 a2]|] eqn:R2; [|discriminate].
    destruct (arun eoff eline fuel MMain s2 a2) as [[s3 a3]|] eqn:R3; [|discriminate].
    inversion R; subst augs. clear R.
    (* f_pkg *)
    assert (adv toks s0 /\ (a0 = [] \/ a0 = [FakePackage (ocur toks)])) as [A0 Ha0].
    { unfold f_pkg in P. destruct (kcur toks); inversion P; subst;
        try (split; [apply adv_refl, W|right; reflexivity]).
      split; [apply adv_nxt', adv_nxt', adv_nxt, W|left; reflexivity]. }
    assert (doffs a0 = []) as D0 by (destruct Ha0 as [->| ->]; reflexivity).
    (* imports *)
    pose proof (arun_imports_acc _ _ _ _ _ R1) as ->.
    assert (adv s0 s1) as A1.
    { assert (post s0 a0 [] 0 s1 a0) as [N [_ [_ [A _]]]]; [|exact A].
      eapply arun_inv; [apply A0|exact R1|lia|]. simpl. rewrite D0. simpl. split; [constructor|exact I]. }
    set (q := ocur s1) in *.
    (* topLevelDecl and the main loop: everything recorded from here on is an elision at or after q *)
    assert (exists F N, a3 = (a0 ++ F) ++ N /\ (F = [] \/ exists b, F = [FakeFunc q b]) /\ only_dots N /\
                        Inv s3 (doffs N) q /\ wf s3) as [F [N [E3 [HF [ON [I3 W3]]]]]].
    { assert (forall s2' F, adv s1 s2' -> (F = [] \/ exists b, F = [FakeFunc q b]) ->
                     arun eoff eline fuel MMain s2' (a0 ++ F) = Some (s3, a3) ->
                     exists F N, a3 = (a0 ++ F) ++ N /\ (F = [] \/ exists b, F = [FakeFunc q b]) /\ only_dots N /\
                                 Inv s3 (doffs N) q /\ wf s3) as MAIN.
      { intros s2' F A2 HF RM.
        assert (doffs (a0 ++ F) = []) as DF by (rewrite doffs_app, D0; destruct HF as [->|[b ->]]; reflexivity).
        assert (post s2' (a0 ++ F) [] q s3 a3) as [N [E [O [A I]]]].
        { eapply arun_inv; [apply A2|exact RM|destruct A2; unfold q; lia|]. simpl. rewrite DF. simpl. split; [constructor|exact Logic.I]. }
        exists F, N. split; [exact E|]. split; [exact HF|]. split; [exact O|]. split; [|apply A].
        rewrite E, app_nil_r, doffs_app, DF in I. exact I. }
      unfold f_top in R2. destruct (kcur s1) eqn:K1;
        try (injection R2 as E1 E2; subst s2 a2; rewrite <- (app_nil_r a0) in R3; refine (MAIN _ [] _ _ R3); [first [apply adv_nxt, A1|apply adv_refl, A1]|left; reflexivity]; fail);
        try (injection R2 as E1 E2; subst s2 a2; refine (MAIN _ [FakeFunc q _] _ _ R3); [first [apply adv_nxt, A1|apply adv_refl, A1]|right; eexists; reflexivity]; fail).
      (* FUNC: a declaration header first *)
      assert (post s1 a0 [] q s2 a2) as [N2 [E2 [O2 [A2 I2]]]].
      { eapply arun_inv; [apply A1|exact R2|unfold q; lia|]. simpl. rewrite D0. simpl. split; [constructor|exact Logic.I]. }
      assert (post s2 a2 [] q s3 a3) as [N3 [E3 [O3 [A3 I3]]]].
      { eapply arun_inv; [apply A2|exact R3|destruct A2; unfold q in *; lia|]. simpl. exact I2. }
      exists [], (N2 ++ N3). subst. rewrite !app_nil_r in *. split; [rewrite app_assoc; reflexivity|].
      split; [left; reflexivity|]. split; [apply Forall_app; auto|]. split; [|apply A3].
      rewrite !doffs_app, D0 in I3. simpl in I3. rewrite doffs_app. exact I3. }
    (* assemble *)
    pose proof (ocur_le_eoff s3 W3) as Le3.
    destruct I3 as [B3 S3].
    assert (Forall (fun o => o + 3 <= eoff) (doffs N)) as BN by (eapply Forall_impl; [|exact B3]; simpl; intros o [? ?]; lia).
    assert (Forall (fun o => q <= o) (doffs N)) as LN by (eapply Forall_impl; [|exact B3]; simpl; intros o [? ?]; lia).
    pose proof (dots_okb eoff N ON BN S3) as OKN.
    assert (ocur toks <= q) as Hpq by (destruct A0, A1; unfold q; lia).
    assert (q <= eoff) as Hq by (unfold q; apply ocur_le_eoff, A1).
    subst a3. destruct Ha0 as [-> | ->]; destruct HF as [-> | [b ->]]; cbn [app augs_okb forallb];
      rewrite ?OKN, ?Bool.andb_true_r;
      repeat (apply Bool.andb_true_iff; split);
      try (apply aug_wfb_spec; unfold aug_wf; simpl; lia);
      try (apply Nat.leb_le; simpl; lia);
      try (apply compatb_spec; unfold compat; simpl; lia);
      try reflexivity;
      try (eapply (fake_before_dots _ q); [reflexivity|simpl; lia|exact ON|exact LN]).
  Qed.
End W.

(* boolean form of wf, evaluated on every token stream of the correspondence check *)
Fixpoint wfb (eoff : nat) (s : list atok) : bool :=
  match s with
  | [] => true
  | t :: s' => Nat.leb (a_off t + tw t) (ocur eoff s') && wfb eoff s'
  end.

Lemma wfb_spec eoff s : wfb eoff s = true <-> wf eoff s.
Proof.
  induction s as [|t s IH]; simpl; [tauto|]. rewrite Bool.andb_true_iff, Nat.leb_le, IH. tauto.
Qed.

Theorem augment_total src toks eline errs :
  wf (length src) toks ->
  augment src toks eline errs <> AugDiverges /\ augment src toks eline errs <> AugPanics.
Proof.
  intros W. unfold augment.
  destruct (find_terminates (length src) eline toks) as [augs E]. rewrite E.
  destruct errs; [split; discriminate|].
  destruct (rewrite_no_panic src augs (find_output_shape _ _ _ _ W E)) as [[[o a] j] R]. rewrite R.
  split; discriminate.
Qed.
