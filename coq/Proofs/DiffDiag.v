(* internal/diff.Difference on two lists whose elements are pairwise equal: the script pairs every
   element with its counterpart (all Identity), whatever the comparison says off the diagonal. *)
From GP Require Import AstDiff.
From Coq Require Import Lia.
Local Open Scope Z_scope.

Section Diag.
  Variable f : Z -> Z -> result.
  Variable n : Z.
  Hypothesis Hn : 0 <= n.
  Hypothesis Hdiag : forall i, 0 <= i < n -> r_equal (f i i) = true.

  Definition ids (k : Z) : list edit := repeat Identity (Z.to_nat k).

  Lemma ids_snoc k : 0 <= k -> ids k ++ [Identity] = ids (k + 1).
  Proof.
    intros Hk. unfold ids. replace (Z.to_nat (k + 1)) with (Z.to_nat k + 1)%nat by lia.
    rewrite repeat_app. reflexivity.
  Qed.

  (* following the diagonal from (x, x) reaches (n, n) *)
  Lemma follow_diag : forall fuel x es, 0 <= x <= n -> (Z.to_nat (n - x) < fuel)%nat ->
    follow_fwd f fuel {| p_dir := 1; p_x := x; p_y := x; p_es := es |} n n
    = Some {| p_dir := 1; p_x := n; p_y := n; p_es := es ++ ids (n - x) |}.
  Proof.
    induction fuel as [|k IH]; intros x es Hx Hf; [lia|].
    cbn [follow_fwd p_x p_y].
    destruct (Z.ltb_spec x n) as [L|L].
    - cbn [andb]. rewrite (Hdiag x) by lia.
      unfold p_append. cbn [p_dir p_x p_y p_es].
      rewrite (IH (x + 1) (es ++ [Identity])) by lia.
      f_equal. f_equal. rewrite <- app_assoc. f_equal.
      replace (n - x) with ((n - (x + 1)) + 1) by lia. rewrite <- ids_snoc by lia.
      unfold ids. clear. induction (Z.to_nat (n - (x + 1))) as [|m IHm]; [reflexivity|].
      cbn [repeat app]. f_equal. exact IHm.
    - cbn [andb]. assert (x = n) as -> by lia. replace (n - n) with 0 by lia. unfold ids. cbn. rewrite app_nil_r. reflexivity.
  Qed.

  Lemma connect_here fuel p : (0 < fuel)%nat -> p_dir p = 1 -> connect f fuel p (p_x p) (p_y p) = Some p.
  Proof.
    intros Hf Hd. unfold connect. rewrite Hd. cbn. destruct fuel as [|k]; [lia|]. cbn [connect_fwd].
    rewrite !Z.ltb_irrefl. reflexivity.
  Qed.

  Theorem difference_diagonal : difference f n n = Some (ids n).
  Proof.
    destruct (Z.eq_dec n 0) as [E0|E0].
    - (* empty lists *)
      rewrite E0. reflexivity.
    - unfold difference.
      set (cfuel := S (S (Z.to_nat (n + n)))).
      set (sfuel := (Z.to_nat (4 * (n + n)) + 2 * Z.to_nat (n + n) + 8)%nat).
      set (p0 := {| p_dir := 1; p_x := 0; p_y := 0; p_es := [] |}).
      set (q0 := {| p_dir := -1; p_x := n; p_y := n; p_es := [] |}).
      assert (0 < n) as Hpos by lia.
      unfold cfuel at 1. cbn [outer]. unfold done at 1. cbn [rfx ffx rfy ffy budget].
      replace (n <=? 0) with false by (symmetry; apply Z.leb_gt; lia).
      replace (4 * (n + n) =? 0) with false by (symmetry; apply Z.eqb_neq; lia). cbn [orb].
      (* the forward search: the first probe is (0, 0) *)
      assert (exists k, sfuel = S (S k)) as [k Ek] by (exists (sfuel - 2)%nat; unfold sfuel; lia).
      rewrite Ek. cbn [search_fwd]. cbn [budget fwd rev ffx ffy andb orb].
      replace (0 <? 4 * (n + n)) with true by (symmetry; apply Z.ltb_lt; lia). cbn [negb].
      change (zigzag 0) with 0. rewrite Z.add_0_r, Z.sub_0_r.
      change (p_x q0) with n. change (p_y q0) with n. change (p_x p0) with 0. change (p_y p0) with 0.
      replace (n <=? 0) with false by (symmetry; apply Z.leb_gt; lia). rewrite Z.ltb_irrefl. cbn [orb].
      rewrite (Hdiag 0) by lia.
      pose proof (connect_here cfuel p0 ltac:(unfold cfuel; lia) eq_refl) as Hc. change (p_x p0) with 0 in Hc. change (p_y p0) with 0 in Hc.
      rewrite Hc. unfold p_append. cbn [p_dir p_x p_y p_es p0 app].
      change (0 + 1) with 1.
      rewrite (follow_diag cfuel 1 [Identity]) by (unfold cfuel; lia).
      cbn [andb orb]. cbn [fwd rev ffx ffy rfx rfy budget p_x p_y].
      change (p_y q0) with n. change (p_x q0) with n. rewrite Z.sub_diag. rewrite Z.leb_refl.
      unfold done. cbn [rfx ffx]. replace (n <=? n + 1) with true by (symmetry; apply Z.leb_le; lia). cbn [orb fwd rev].
      change (p_x q0) with n. change (p_y q0) with n.
      pose proof (connect_here cfuel {| p_dir := 1; p_x := n; p_y := n; p_es := [Identity] ++ ids (n - 1) |} ltac:(unfold cfuel; lia) eq_refl) as Hc2.
      cbn [p_x p_y] in Hc2. rewrite Hc2. cbn [p_es q0 List.rev]. rewrite app_nil_r.
      f_equal. replace n with ((n - 1) + 1) at 2 by lia. rewrite <- ids_snoc by lia.
      unfold ids. clear. induction (Z.to_nat (n - 1)) as [|m IHm]; [reflexivity|]. cbn [repeat app]. f_equal. exact IHm.
  Qed.
End Diag.
