(* The list matcher with a memo of failed places (repo fix 58040e3, SliceDotsMatcher.matchSections):
   remembering from which places the remaining patterns were found not to match, and not searching
   from them again, changes neither the answer nor the match data it returns - provided that whether
   the remaining patterns match depends only on what the key says (for the engine: what the
   metavariables of the remaining sections already stand for). *)
From Coq Require Import List NArith Arith Lia.
Import ListNotations.
From GP Require Import ListMatch.

Section Memo.
Variables (P V D K : Type) (isdots : P -> option N)
          (m : P -> V -> D -> option D) (push : N -> list V -> D -> D).
Variable key : list P -> D -> K.

Notation ml := (ml P V D isdots m push).
Notation skip := (skip P V D isdots m push).

(* matching an element reads and extends the data only in ways the key sees; the run recorded for
   an elision is invisible to it *)
Definition elem_ok (p : P) : Prop := forall ps t d1 d2 d1', isdots p = None ->
  key (p :: ps) d1 = key (p :: ps) d2 -> m p t d1 = Some d1' ->
  exists d2', m p t d2 = Some d2' /\ key ps d1' = key ps d2'.
Hypothesis key_dots : forall p id ps r1 r2 d1 d2, isdots p = Some id ->
  key (p :: ps) d1 = key (p :: ps) d2 -> key ps (push id r1 d1) = key ps (push id r2 d2).

(* failure depends on the key only *)
Lemma skip_fail_key id ps' :
  (forall ts d1 d2, key ps' d1 = key ps' d2 -> ml ps' ts d1 = None -> ml ps' ts d2 = None) ->
  forall ts acc1 acc2 d1 d2, (forall r1 r2, key ps' (push id r1 d1) = key ps' (push id r2 d2)) ->
  skip id ps' acc1 ts d1 = None -> skip id ps' acc2 ts d2 = None.
Proof.
  intros IH ts. induction ts as [|t ts IHts]; intros acc1 acc2 d1 d2 Hk H; cbn [ListMatch.skip] in *.
  - destruct (ml ps' [] (push id (rev acc1) d1)) eqn:E; [discriminate|].
    rewrite (IH [] _ _ (Hk (rev acc1) (rev acc2)) E). reflexivity.
  - destruct (ml ps' (t :: ts) (push id (rev acc1) d1)) eqn:E; [discriminate|].
    rewrite (IH (t :: ts) _ _ (Hk (rev acc1) (rev acc2)) E). apply (IHts (t :: acc1) (t :: acc2) d1 d2 Hk H).
Qed.

Theorem ml_fail_key ps : Forall elem_ok ps -> forall ts d1 d2, key ps d1 = key ps d2 -> ml ps ts d1 = None -> ml ps ts d2 = None.
Proof.
  intros Hall. induction Hall as [|p ps key_elem0 Hall IH]; intros ts d1 d2 Hk H.
  - destruct ts; [discriminate|reflexivity].
  - destruct (isdots p) as [id|] eqn:Hd.
    + rewrite (ml_dots P V D isdots m push p ps id ts d1 Hd) in H. rewrite (ml_dots P V D isdots m push p ps id ts d2 Hd).
      apply (skip_fail_key id ps IH ts [] [] d1 d2); [|exact H].
      intros r1 r2. apply (key_dots p id ps r1 r2 d1 d2 Hd Hk).
    + destruct ts as [|t ts]; [apply ml_elem_nil; exact Hd|].
      rewrite (ml_elem P V D isdots m push p ps t ts d1 Hd) in H. rewrite (ml_elem P V D isdots m push p ps t ts d2 Hd).
      destruct (m p t d2) as [d2'|] eqn:E2; [|reflexivity].
      destruct (key_elem0 ps t d2 d1 d2' Hd (eq_sym Hk) E2) as [d1' [E1 Hk']].
      rewrite E1 in H. apply (IH ts d1' d2' (eq_sym Hk') H).
Qed.

(* ... and so does success, with the same runs: the data that come out agree on what the key of the
   empty pattern list sees *)
Lemma skip_succ_key id ps' : Forall elem_ok ps' ->
  (forall ts d1 d2 d1', key ps' d1 = key ps' d2 -> ml ps' ts d1 = Some d1' ->
                        exists d2', ml ps' ts d2 = Some d2' /\ key [] d1' = key [] d2') ->
  forall ts acc d1 d2 d1', (forall r, key ps' (push id r d1) = key ps' (push id r d2)) ->
  skip id ps' acc ts d1 = Some d1' -> exists d2', skip id ps' acc ts d2 = Some d2' /\ key [] d1' = key [] d2'.
Proof.
  intros Hall IH ts. induction ts as [|t ts IHts]; intros acc d1 d2 d1' Hk H; cbn [ListMatch.skip] in *.
  - destruct (ml ps' [] (push id (rev acc) d1)) as [r|] eqn:E; [|discriminate]. inversion H; subst r.
    destruct (IH [] _ _ _ (Hk (rev acc)) E) as [d2' [E2 Kq]]. rewrite E2. eauto.
  - destruct (ml ps' (t :: ts) (push id (rev acc) d1)) as [r|] eqn:E.
    + inversion H; subst r. destruct (IH (t :: ts) _ _ _ (Hk (rev acc)) E) as [d2' [E2 Kq]]. rewrite E2. eauto.
    + rewrite (ml_fail_key ps' Hall (t :: ts) _ _ (Hk (rev acc)) E). apply (IHts (t :: acc) d1 d2 d1' Hk H).
Qed.

Theorem ml_succ_key ps : Forall elem_ok ps -> forall ts d1 d2 d1', key ps d1 = key ps d2 -> ml ps ts d1 = Some d1' ->
  exists d2', ml ps ts d2 = Some d2' /\ key [] d1' = key [] d2'.
Proof.
  intros Hall. induction Hall as [|p ps key_elem0 Hall IH]; intros ts d1 d2 d1' Hk H.
  - destruct ts; [|discriminate]. inversion H; subst. exists d2. split; [reflexivity|exact Hk].
  - destruct (isdots p) as [id|] eqn:Hd.
    + rewrite (ml_dots P V D isdots m push p ps id ts d1 Hd) in H. rewrite (ml_dots P V D isdots m push p ps id ts d2 Hd).
      apply (skip_succ_key id ps Hall IH ts [] d1 d2 d1'); [|exact H].
      intros r. apply (key_dots p id ps r r d1 d2 Hd Hk).
    + destruct ts as [|t ts]; [rewrite (ml_elem_nil P V D isdots m push _ _ _ Hd) in H; discriminate|].
      rewrite (ml_elem P V D isdots m push p ps t ts d1 Hd) in H. rewrite (ml_elem P V D isdots m push p ps t ts d2 Hd).
      destruct (m p t d1) as [d1a|] eqn:E1; [|discriminate].
      destruct (key_elem0 ps t d1 d2 d1a Hd Hk E1) as [d2a [E2 Hk']]. rewrite E2. apply (IH ts d1a d2a d1' Hk' H).
Qed.

(* ---- the search with a memo of failed places ---- *)
Definition place : Type := (list P * list V * K)%type.
Variable place_eqb : place -> place -> bool.
Hypothesis place_eqb_eq : forall a b, place_eqb a b = true -> a = b.

Definition memo := list place.
Definition known (pl : place) (mm : memo) : bool := existsb (place_eqb pl) mm.

Fixpoint mlm (ps : list P) : list V -> D -> memo -> option D * memo :=
  match ps with
  | [] => fun ts d mm => (match ts with [] => Some d | _ => None end, mm)
  | p :: ps' =>
    match isdots p with
    | Some id => fun ts d mm =>
        let pl := (p :: ps', ts, key (p :: ps') d) in
        if known pl mm then (None, mm) else
        let '(r, mm') :=
          (fix skipm (acc : list V) (ts : list V) (mm : memo) {struct ts} : option D * memo :=
             match mlm ps' ts (push id (rev acc) d) mm with
             | (Some r, mm1) => (Some r, mm1)
             | (None, mm1) => match ts with [] => (None, mm1) | t :: ts' => skipm (t :: acc) ts' mm1 end
             end) [] ts mm in
        (r, match r with None => pl :: mm' | Some _ => mm' end)
    | None => fun ts d mm =>
        match ts with
        | t :: ts' => match m p t d with Some d' => mlm ps' ts' d' mm | None => (None, mm) end
        | [] => (None, mm)
        end
    end
  end.

(* every remembered place is a place from which the patterns do not match, whatever the rest of the data *)
Definition sound (mm : memo) : Prop :=
  forall ps ts k, In (ps, ts, k) mm -> forall d, key ps d = k -> ml ps ts d = None.


Fixpoint skipm (id : N) (ps' : list P) (d : D) (acc ts : list V) (mm : memo) : option D * memo :=
  match mlm ps' ts (push id (rev acc) d) mm with
  | (Some r, mm1) => (Some r, mm1)
  | (None, mm1) => match ts with [] => (None, mm1) | t :: ts' => skipm id ps' d (t :: acc) ts' mm1 end
  end.

Lemma mlm_dots p ps' id ts d mm : isdots p = Some id ->
  mlm (p :: ps') ts d mm =
    let pl := (p :: ps', ts, key (p :: ps') d) in
    if known pl mm then (None, mm) else
    let '(r, mm') := skipm id ps' d [] ts mm in
    (r, match r with None => pl :: mm' | Some _ => mm' end).
Proof.
  intros H. cbn [mlm]. rewrite H. cbv zeta. destruct (known _ mm); [reflexivity|].
  match goal with |- (let '(r, mm') := ?f [] ts mm in _) = _ =>
    assert (forall ts acc mm, f acc ts mm = skipm id ps' d acc ts mm) as E end.
  { clear. induction ts as [|t ts IH]; intros acc mm; cbn [skipm]; destruct (mlm ps' _ _ mm) as [[r|] mm1]; auto. }
  rewrite E. reflexivity.
Qed.

Lemma skipm_correct id ps' d :
  (forall ts d mm, sound mm -> fst (mlm ps' ts d mm) = ml ps' ts d /\ sound (snd (mlm ps' ts d mm))) ->
  forall ts acc mm, sound mm ->
    fst (skipm id ps' d acc ts mm) = skip id ps' acc ts d /\ sound (snd (skipm id ps' d acc ts mm)).
Proof.
  intros IH ts. induction ts as [|t ts IHts]; intros acc mm Hs; cbn [skipm ListMatch.skip].
  - destruct (IH [] (push id (rev acc) d) mm Hs) as [E S]. destruct (mlm ps' [] _ mm) as [[r|] mm1]; cbn [fst snd] in *; rewrite <- E; auto.
  - destruct (IH (t :: ts) (push id (rev acc) d) mm Hs) as [E S]. destruct (mlm ps' (t :: ts) _ mm) as [[r|] mm1]; cbn [fst snd] in *; rewrite <- E; auto.
Qed.

Theorem mlm_correct ps : Forall elem_ok ps -> forall ts d mm, sound mm ->
  fst (mlm ps ts d mm) = ml ps ts d /\ sound (snd (mlm ps ts d mm)).
Proof.
  intros Hall. induction Hall as [|p ps Hp Hall IH]; intros ts d mm Hs.
  - cbn. split; [reflexivity|exact Hs].
  - destruct (isdots p) as [id|] eqn:Hd.
    + rewrite (mlm_dots _ _ _ _ _ _ Hd). cbv zeta.
      destruct (known (p :: ps, ts, key (p :: ps) d) mm) eqn:Ek.
      * (* a remembered place *)
        cbn [fst snd]. split; [|exact Hs]. unfold known in Ek. apply existsb_exists in Ek as [pl [Hin He]].
        apply place_eqb_eq in He. subst pl. symmetry. exact (Hs _ _ _ Hin d eq_refl).
      * destruct (skipm_correct id ps d IH ts [] mm Hs) as [E S].
        destruct (skipm id ps d [] ts mm) as [r mm'] eqn:Es. cbn [fst snd] in *.
        rewrite (ml_dots P V D isdots m push _ _ _ _ _ Hd). split; [exact E|].
        destruct r as [r|]; [exact S|].
        (* the place is remembered: sound because failure depends on the key only *)
        intros ps0 ts0 k Hin0 d0 Hk0. destruct Hin0 as [Eq|Hin]; [|exact (S _ _ _ Hin d0 Hk0)].
        injection Eq as E1 E2 E3. rewrite <- E1, <- E2. rewrite <- E1, <- E3 in Hk0.
        apply (ml_fail_key (p :: ps) (Forall_cons p Hp Hall) ts d d0 (eq_sym Hk0)).
        rewrite (ml_dots P V D isdots m push _ _ _ _ _ Hd). symmetry. exact E.
    + cbn [mlm]. rewrite Hd. destruct ts as [|t ts].
      * cbn [fst snd]. rewrite (ml_elem_nil P V D isdots m push _ _ _ Hd). auto.
      * rewrite (ml_elem P V D isdots m push _ _ _ _ _ Hd). destruct (m p t d) as [d'|]; [apply IH; exact Hs|cbn; auto].
Qed.

(* from an empty memo: the same answer, the same match data *)
Corollary mlm_is_ml ps ts d : Forall elem_ok ps -> fst (mlm ps ts d []) = ml ps ts d.
Proof. intros Hall. apply (mlm_correct ps Hall). intros ? ? ? []. Qed.
End Memo.
