(* The replacer computes the declarative substitution of the '+' pattern. *)
From GP Require Import Tree Meta Match Replace MatchFacts.
From Coq Require Import Lia Arith.

Section S.
  Variable mk : N -> option mkind.
  Variable ad : N -> N.
  Variable cap : val -> val.
  Variable capf : ty -> list val -> list val.

  Definition has_dots (tp : ty) (ps : list val) : bool :=
    existsb (fun p => match dots_item tp p with Some _ => true | None => false end) ps.

  (* the '+' pattern with metavariables, elisions and for-headers filled in from the data
     of the site; no checks, no errors *)
  Fixpoint subst (d : data) (p : val) {struct p} : val :=
    match p with
    | Nil t => Nil t
    | Pos b => Pos b
    | Atom t a => Atom t a
    | Ptr tp ps =>
        if N.eqb tp T_P_ast_Object then Nil tp else
        match ps with
        | Struct sp [ppos; Atom ta name; pobj] =>
            match (if N.eqb tp T_P_ast_Ident then mk name else None) with
            | Some _ => match assoc name (d_mv d) with Some v => strip v | None => p end
            | None => Ptr tp (subst d ps)
            end
        | Struct _ [_; Nil _; Iface _ c; Nil _; body] =>
            match (if N.eqb tp T_P_ast_ForStmt then is_dots c else None) with
            | Some i =>
                match assoc (ad i) (d_for d) with
                | Some (st, fs) =>
                    let idx := if N.eqb st T_ast_RangeStmt then I_RangeStmt_Body else I_ForStmt_Body in
                    Ptr (if N.eqb st T_ast_RangeStmt then T_P_ast_RangeStmt else T_P_ast_ForStmt)
                        (Struct st (set_nth idx (subst d body) (capf st fs)))
                | None => p
                end
            | None => Ptr tp (subst d ps)
            end
        | _ => Ptr tp (subst d ps)
        end
    | Iface ti ps => Iface ti (subst d ps)
    | Struct sp ps => Struct sp (map (subst d) ps)
    | Slice tp ps =>
        let vs := flat_map (fun p => match dots_item tp p with
                                     | Some i => match assoc (ad i) (d_dots d) with
                                                 | Some r => map cap r
                                                 | None => []
                                                 end
                                     | None => [subst d p]
                                     end) ps in
        if has_dots tp ps then match vs with [] => Nil tp | _ => Slice tp vs end
        else Slice tp vs
    end.

  Notation inst := (inst mk ad cap capf).

  Lemma inst_mv p name k want d :
    mv_ident mk p = Some (name, k) ->
    inst p want d = match assoc name (d_mv d) with Some c => Ok (strip c) | None => Err (ENoMetavar name) end.
  Proof.
    unfold mv_ident. intros H.
    destruct p as [| | | |tp ps| |]; try discriminate H.
    destruct ps as [| | |sp fs| | |]; try discriminate H.
    destruct fs as [|f0 [|f1 [|f2 [|f3 r]]]]; try discriminate H;
      destruct f1 as [| |ta nm| | | |]; try discriminate H.
    destruct (N.eqb tp T_P_ast_Ident) eqn:E; [|discriminate H].
    destruct (mk nm) as [k'|] eqn:M; [|discriminate H]. inversion H; subst.
    apply N.eqb_eq in E. subst tp. cbn [Replace.inst].
    replace (N.eqb T_P_ast_Ident T_P_ast_Object) with false by reflexivity.
    rewrite N.eqb_refl, M. reflexivity.
  Qed.

  Definition irun (d : data) : N -> list val :=
    fun i => match assoc (ad i) (d_dots d) with Some r => map cap r | None => [] end.

  Lemma inst_struct sp ps want d :
    inst (Struct sp ps) want d =
    match ifields (fun p w => inst p w d) ps (fields_of sp) with Ok vs => Ok (Struct sp vs) | Err e => Err e end.
  Proof. reflexivity. Qed.

  Lemma check_assignable_ok v want v' : check_assignable v want = Ok v' -> v' = v.
  Proof. unfold check_assignable. destruct (assignable _ _); intros H; inversion H; reflexivity. Qed.

  Lemma inst_slice tp ps want d :
    inst (Slice tp ps) want d =
    match ilist (fun p => inst p (slice_elem tp) d) (irun d) tp ps with
    | Err e => Err e
    | Ok vs =>
        if has_dots tp ps then
          match vs with
          | [] => Ok (Nil tp)
          | _ => match check_all (slice_elem tp) vs with Ok vs' => Ok (Slice tp vs') | Err e => Err e end
          end
        else match check_all (slice_elem tp) vs with Ok vs' => Ok (Slice tp vs') | Err e => Err e end
    end.
  Proof. reflexivity. Qed.

  Lemma check_all_ok elem vs vs' : check_all elem vs = Ok vs' -> vs' = vs.
  Proof.
    revert vs'. induction vs as [|v vs IH]; intros vs' H; simpl in H; [inversion H; reflexivity|].
    match type of H with match ?c with _ => _ end = _ => destruct c; [|discriminate] end.
    destruct (check_all elem vs) as [r|]; [|discriminate]. inversion H. rewrite (IH r eq_refl). reflexivity.
  Qed.

  Definition inst_ok (p : val) : Prop := forall want d v, inst p want d = Ok v -> v = subst d p.

  Lemma ifields_subst ps : Forall inst_ok ps ->
    forall fis d vs, ifields (fun p w => inst p w d) ps fis = Ok vs -> vs = map (subst d) ps.
  Proof.
    induction 1 as [|p ps Hp Hps IH]; intros fis d vs H; cbn [ifields] in H; [inversion H; reflexivity|].
    destruct (inst p _ d) as [v|] eqn:E; [|discriminate]. apply Hp in E. subst v.
    match type of H with match ?c with _ => _ end = _ => destruct c as [v'|] eqn:C; [|discriminate] end.
    assert (v' = subst d p) as ->.
    { destruct (subst d p); try (inversion C; reflexivity); apply check_assignable_ok in C; exact C. }
    destruct (ifields (fun p0 w => inst p0 w d) ps (tl fis)) as [r|] eqn:R; [|discriminate]. inversion H. simpl. f_equal. eapply IH; eauto.
  Qed.

  Lemma ilist_subst tp ps : Forall inst_ok ps ->
    forall d vs, ilist (fun p => inst p (slice_elem tp) d) (irun d) tp ps = Ok vs ->
    vs = flat_map (fun p => match dots_item tp p with
                            | Some i => match assoc (ad i) (d_dots d) with Some r => map cap r | None => [] end
                            | None => [subst d p]
                            end) ps.
  Proof.
    induction 1 as [|p ps Hp Hps IH]; intros d vs H; cbn [ilist] in H; [inversion H; reflexivity|].
    simpl. destruct (dots_item tp p) as [i|].
    - destruct (ilist _ (irun d) tp ps) as [r|] eqn:R; [|discriminate]. inversion H. unfold irun at 1. f_equal. eapply IH; eauto.
    - destruct (inst p (slice_elem tp) d) as [v|] eqn:E; [|discriminate]. apply Hp in E. subst v.
      destruct (ilist _ (irun d) tp ps) as [r|] eqn:R; [|discriminate]. inversion H. simpl. f_equal. eapply IH; eauto.
  Qed.

  Lemma inst_ok_n : forall n p, (vsize p <= n)%nat -> inst_ok p.
  Proof.
    induction n as [|n IH]; intros p Hn; [destruct p; simpl in Hn; lia|].
    intros want d v H.
    destruct p as [tp|b|ta a|sp ps|tp ps|ti ps|tp ps].
    - inversion H. reflexivity.
    - inversion H. reflexivity.
    - inversion H. reflexivity.
    - rewrite inst_struct in H. destruct (ifields _ ps (fields_of sp)) as [vs|] eqn:E; [|discriminate].
      inversion H. cbn [subst]. f_equal. eapply ifields_subst; [|exact E].
      apply Forall_forall. intros x Hx. apply IH. apply vsize_in in Hx. simpl in Hn. lia.
    - (* Ptr *)
      assert (inst_ok ps) as Hps by (apply IH; simpl in Hn; lia).
      cbn [Replace.inst subst] in *.
      destruct (N.eqb tp T_P_ast_Object); [inversion H; reflexivity|].
      assert (forall r, match Replace.inst mk ad cap capf ps 0%N d with Ok v0 => Ok (Ptr tp v0) | Err e => Err e end = Ok r ->
                        r = Ptr tp (subst d ps)) as G.
      { intros r Hr. destruct (Replace.inst mk ad cap capf ps 0%N d) as [v0|] eqn:E; [|discriminate].
        apply Hps in E. subst. inversion Hr. reflexivity. }
      destruct ps as [| | |sp fs| | |]; try (apply G; exact H).
      destruct fs as [|f0 [|f1 [|f2 [|f3 [|f4 [|f5 r]]]]]]; try (apply G; exact H);
        repeat (match type of H with
                | context [match ?x with _ => _ end] => is_var x; match type of x with val => destruct x end
                end; try (apply G; exact H)).
      all: try (match type of H with context [mk ?nm] =>
                  destruct (if N.eqb tp T_P_ast_Ident then mk nm else None);
                    [destruct (assoc nm (d_mv d)); [inversion H; reflexivity|discriminate] | apply G; exact H]
                end).
      all: match type of H with context [is_dots ?c] =>
             destruct (if N.eqb tp T_P_ast_ForStmt then is_dots c else None) as [i|]; [|apply G; exact H]
           end.
      all: match type of H with context [assoc (ad ?j) (d_for ?dd)] =>
             destruct (assoc (ad j) (d_for dd)) as [[st fs]|]; [|discriminate]
           end.
      all: match type of H with context [Replace.inst mk ad cap capf ?b T_P_ast_BlockStmt ?dd] =>
             destruct (Replace.inst mk ad cap capf b T_P_ast_BlockStmt dd) as [vb|] eqn:E; [|discriminate];
             assert (inst_ok b) as Hb by (apply IH; simpl in Hn; simpl; lia);
             apply Hb in E; subst; inversion H; reflexivity
           end.
    - (* Iface *)
      cbn [Replace.inst subst] in *. destruct (Replace.inst mk ad cap capf ps ti d) as [v0|] eqn:E; [|discriminate].
      assert (inst_ok ps) as Hps by (apply IH; simpl in Hn; lia).
      apply Hps in E. subst. destruct (check_assignable (subst d ps) ti) as [v'|] eqn:C; [|discriminate].
      apply check_assignable_ok in C. subst. inversion H. reflexivity.
    - (* Slice *)
      rewrite inst_slice in H. destruct (ilist _ (irun d) tp ps) as [vs|] eqn:E; [|discriminate].
      assert (Forall inst_ok ps) as Hall.
      { apply Forall_forall. intros x Hx. apply IH. apply vsize_in in Hx. simpl in Hn. lia. }
      apply (ilist_subst tp ps Hall) in E. cbn [subst]. rewrite <- E.
      destruct (has_dots tp ps).
      + destruct vs as [|x l]; [inversion H; reflexivity|].
        destruct (check_all (slice_elem tp) (x :: l)) as [r|] eqn:C; [|discriminate].
        apply check_all_ok in C. subst. inversion H. reflexivity.
      + destruct (check_all (slice_elem tp) vs) as [r|] eqn:C; [|discriminate].
        apply check_all_ok in C. subst. inversion H. reflexivity.
  Qed.

  Theorem inst_is_subst p want d v : inst p want d = Ok v -> v = subst d p.
  Proof. apply (inst_ok_n (vsize p) p (le_n _)). Qed.
End S.
