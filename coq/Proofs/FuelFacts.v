(* The recursion fuel of the file rewrite is never what stops it: with any fuel above the
   size of the tree [rw] computes the same tree. *)
From GP Require Import Tree Meta Match Replace FileEngine ListMatch MatchFacts ReplaceFacts FileFacts.
From Coq Require Import Lia Arith.
Local Open Scope nat_scope.

Lemma size_in x l : In x l -> size x <= fold_right (fun x n => size x + n) 0 l.
Proof. induction l as [|y l IH]; simpl; [tauto|]. intros [->|H]; [lia|]. apply IH in H. lia. Qed.

Lemma size_pos v : 1 <= size v.
Proof. destruct v; simpl; lia. Qed.

Lemma assoc_In {A} k (l : list (N * A)) v : assoc k l = Some v -> In (k, v) l.
Proof.
  induction l as [|[k' v'] l IH]; simpl; [discriminate|]. destruct (N.eqb k k') eqn:E.
  - intros H. inversion H; subst. apply N.eqb_eq in E. subst. auto.
  - intros H. right. apply IH, H.
Qed.

(* everything the match data refers to (elided runs, recorded headers and containers) is
   smaller than n *)
Definition small (n : nat) (d : data) : Prop :=
  (forall i r x, In (i, r) (d_dots d) -> In x r -> size x < n) /\
  (forall i st fs x, In (i, (st, fs)) (d_for d) -> In x fs -> size x < n) /\
  (forall st fs x, d_stmt d = Some (st, fs) -> In x fs -> size x < n).

Lemma small_push_mv n x v d : small n d -> small n (push_mv x v d).
Proof. intros H. exact H. Qed.

Lemma small_push_dots n i run d : (forall x, In x run -> size x < n) -> small n d -> small n (push_dots i run d).
Proof.
  intros Hr [H1 [H2 H3]]. split; [|split; assumption].
  intros j r x [E|Hin] Hx; [inversion E; subst; auto|eapply H1; eauto].
Qed.

Lemma small_push_for n i st fs d : (forall x, In x fs -> size x < n) -> small n d -> small n (push_for i st fs d).
Proof.
  intros Hr [H1 [H2 H3]]. split; [assumption|]. split; [|assumption].
  intros j st' fs' x [E|Hin] Hx; [inversion E; subst; auto|eapply H2; eauto].
Qed.

Lemma small_set_stmt n st fs d : (forall x, In x fs -> size x < n) -> small n d -> small n (set_stmt st fs d).
Proof.
  intros Hr [H1 [H2 H3]]. split; [assumption|]. split; [assumption|].
  intros st' fs' x E Hx. simpl in E. inversion E; subst. auto.
Qed.

Lemma nth_val_in i : forall fs, In (nth_val i fs) fs \/ nth_val i fs = Nil 0%N.
Proof.
  induction i as [|i IH]; intros [|x fs]; simpl; auto.
  destruct (IH fs) as [H|H]; auto.
Qed.

Lemma nth_val_size i fs : fs <> [] -> size (nth_val i fs) <= fold_right (fun x n => size x + n) 0 fs.
Proof.
  intros Hne. destruct (nth_val_in i fs) as [H|H].
  - apply size_in, H.
  - rewrite H. simpl. destruct fs as [|y l]; [congruence|]. simpl. pose proof (size_pos y). lia.
Qed.

Section S.
  Variable mk : N -> option mkind.

  Definition small_at (p : val) : Prop :=
    forall n t d d', size t <= n -> small n d -> mtch mk p t d = Some d' -> small n d'.

  Lemma mfields_small ps : Forall small_at ps ->
    forall n ts d d', (forall t, In t ts -> size t <= n) -> small n d -> mfields mk ps ts d = Some d' -> small n d'.
  Proof.
    induction 1 as [|p ps Hp Hps IH]; intros n [|t ts] d d' Hts Hd H; cbn [mfields] in H; try discriminate.
    - inversion H; subst. exact Hd.
    - destruct (mtch mk p t d) as [d1|] eqn:E; [|discriminate].
      eapply IH; [| |exact H]; [intros; apply Hts; right; assumption|].
      eapply Hp; [|exact Hd|exact E]. apply Hts. left. reflexivity.
  Qed.

  Lemma sol_small tp ps : Forall small_at ps ->
    forall n ts d rs d', Sol val val data (dots_item tp) (mtch mk) push_dots ps ts d rs d' ->
    (forall t, In t ts -> size t < n) -> small n d -> small n d'.
  Proof.
    intros Hall n ts d rs d' H.
    induction H as [d|p ps t ts d d1 rs d2 Hd Hm Hs IH|p i ps run ts d rs d2 Hd Hs IH]; intros Hts Hsm.
    - exact Hsm.
    - inversion Hall as [|? ? Hp Hps]; subst. apply (IH Hps); [intros; apply Hts; right; assumption|].
      eapply Hp; [|exact Hsm|exact Hm]. specialize (Hts t (or_introl eq_refl)). lia.
    - inversion Hall as [|? ? Hp Hps]; subst. apply (IH Hps); [intros; apply Hts, in_app_iff; auto|].
      apply small_push_dots; [intros; apply Hts, in_app_iff; auto|exact Hsm].
  Qed.

  Lemma small_n : forall k p, vsize p <= k -> small_at p.
  Proof.
    induction k as [|k IH]; intros p Hk; [destruct p; simpl in Hk; lia|].
    intros n t d d' Hn Hd H.
    destruct p as [tp|b|ta a|sp ps|tp ps|ti ps|tp ps].
    - (* Nil *)
      cbn [mtch] in H. destruct t as [tq| | | |tq x| |tq [|y l]]; try discriminate.
      + inversion H; subst; exact Hd.
      + destruct (N.eqb tp T_P_ast_Object); [|discriminate]. inversion H; subst; exact Hd.
      + destruct (dots_capable tp); [|discriminate]. inversion H; subst; exact Hd.
    - cbn [mtch] in H. destruct t; try discriminate. destruct (Bool.eqb b valid); [|discriminate]. inversion H; subst; exact Hd.
    - cbn [mtch] in H. destruct t; try discriminate. destruct (N.eqb ta t && N.eqb a a0)%bool; [|discriminate]. inversion H; subst; exact Hd.
    - (* Struct *)
      destruct t as [| | |st ts| | |]; try (cbn [mtch] in H; discriminate).
      rewrite mtch_struct in H. destruct (N.eqb sp st); [|discriminate].
      assert (Forall small_at ps) as Hall.
      { apply Forall_forall. intros x Hx. apply IH. apply vsize_in in Hx. simpl in Hk. lia. }
      eapply (mfields_small ps Hall); [|exact Hd|exact H].
      intros x Hx. apply size_in in Hx. simpl in Hn. lia.
    - (* Ptr *)
      destruct (N.eqb tp T_P_ast_Object) eqn:EO.
      { rewrite mtch_obj in H by exact EO. inversion H; subst. exact Hd. }
      destruct (mv_ident mk (Ptr tp ps)) as [[name kd]|] eqn:MV.
      { rewrite (mtch_mv _ _ _ _ _ _ MV) in H. destruct (kind_ok kd t); [|discriminate].
        destruct (assoc name (d_mv d)) as [c|].
        - destruct (eqvb c t); [|discriminate]. inversion H; subst. exact Hd.
        - inversion H; subst. apply small_push_mv, Hd. }
      destruct (for_dots_pat (Ptr tp ps)) as [[i body]|] eqn:FD.
      { rewrite (mtch_for _ _ _ _ _ _ FD) in H.
        assert (small_at body) as Hb.
        { apply IH. unfold for_dots_pat in FD.
          destruct ps as [| | |sp fs| | |]; try discriminate FD.
          destruct fs as [|f0 [|f1 [|f2 [|f3 [|f4 [|f5 r]]]]]]; try discriminate FD;
            destruct f1; try discriminate FD; destruct f2; try discriminate FD; destruct f3; try discriminate FD.
          destruct (N.eqb tp T_P_ast_ForStmt); [|discriminate FD]. destruct (is_dots f2); [|discriminate FD].
          inversion FD; subst. simpl in Hk. simpl. lia. }
        destruct t as [| | | |tq x| |]; try discriminate. destruct x as [| | |st fs| | |]; try discriminate.
        assert (forall x, In x fs -> size x < n) as Hfs by (intros x Hx; apply size_in in Hx; simpl in Hn; lia).
        assert (forall idx, size (nth_val idx fs) <= n) as Hnth.
        { intros idx. destruct fs as [|y l]; [destruct idx; simpl; simpl in Hn; lia|].
          pose proof (nth_val_size idx (y :: l) ltac:(congruence)). simpl in Hn. simpl in H0. lia. }
        destruct (N.eqb tq T_P_ast_ForStmt).
        - eapply Hb; [apply Hnth|apply small_push_for; [exact Hfs|exact Hd]|exact H].
        - destruct (N.eqb tq T_P_ast_RangeStmt); [|discriminate].
          eapply Hb; [apply Hnth|apply small_push_for; [exact Hfs|exact Hd]|exact H]. }
      rewrite (mtch_ptr _ _ _ _ _ MV FD EO) in H. destruct t as [| | | |tq ts| |]; try discriminate.
      assert (small_at ps) as Hp by (apply IH; simpl in Hk; lia).
      eapply Hp; [|exact Hd|exact H]. simpl in Hn. lia.
    - (* Iface *)
      cbn [mtch] in H. destruct t as [| | | | |tj ts|]; try discriminate.
      assert (small_at ps) as Hp by (apply IH; simpl in Hk; lia).
      eapply Hp; [|exact Hd|exact H]. simpl in Hn. lia.
    - (* Slice *)
      rewrite mtch_slice in H. destruct (targets t) as [ts|] eqn:T; [|discriminate].
      assert (Forall small_at ps) as Hall.
      { apply Forall_forall. intros x Hx. apply IH. apply vsize_in in Hx. simpl in Hk. lia. }
      apply ml_sound in H as [rs Hs]. eapply (sol_small tp ps Hall); [exact Hs| |exact Hd].
      intros x Hx. destruct t; try discriminate T; inversion T; subst; [destruct Hx|].
      apply size_in in Hx. simpl in Hn. lia.
  Qed.

  Theorem mtch_small p n t d d' : size t <= n -> small n d -> mtch mk p t d = Some d' -> small n d'.
  Proof. apply (small_n (vsize p) p (le_n _)). Qed.

  Lemma mtch_node_small p n t d d' : size t <= n -> small n d -> mtch_node mk p t d = Some d' -> small n d'.
  Proof.
    destruct p as [v|s e l]; cbn [mtch_node]; [apply mtch_small|].
    intros Hn Hd H. unfold mtch_stmts in H. destruct (stmt_container t) as [[[st fs] idx]|] eqn:C; [|discriminate].
    assert (t = Ptr (match t with Ptr tq _ => tq | _ => 0%N end) (Struct st fs)) as Et.
    { unfold stmt_container in C. destruct t as [| | | |tq x| |]; try discriminate. destruct x; try discriminate.
      destruct (N.eqb tq T_P_ast_BlockStmt); [inversion C; subst; reflexivity|].
      destruct (N.eqb tq T_P_ast_CaseClause); [inversion C; subst; reflexivity|].
      destruct (N.eqb tq T_P_ast_CommClause); [inversion C; subst; reflexivity|discriminate]. }
    assert (forall x, In x fs -> size x < n) as Hfs by (intros x Hx; apply size_in in Hx; rewrite Et in Hn; simpl in Hn; lia).
    eapply mtch_small; [|apply small_set_stmt; [exact Hfs|exact Hd]|exact H].
    destruct fs as [|y l0]; [destruct idx; simpl; rewrite Et in Hn; simpl in Hn; lia|].
    pose proof (nth_val_size idx (y :: l0) ltac:(congruence)). rewrite Et in Hn. simpl in Hn. simpl in H0. lia.
  Qed.
End S.

(* ---- the replacer only reads its view functions on what the data refers to ---- *)
Section E.
  Variable mk : N -> option mkind.
  Variable ad : N -> N.

  Definition caps_agree (cap cap' : val -> val) (capf capf' : ty -> list val -> list val) (d : data) : Prop :=
    (forall i r x, In (i, r) (d_dots d) -> In x r -> cap x = cap' x) /\
    (forall i st fs, In (i, (st, fs)) (d_for d) -> capf st fs = capf' st fs) /\
    (forall st fs, d_stmt d = Some (st, fs) -> capf st fs = capf' st fs).

  Variable cap cap' : val -> val.
  Variable capf capf' : ty -> list val -> list val.
  Variable d : data.
  Hypothesis AG : caps_agree cap cap' capf capf' d.

  Definition ext_at (p : val) : Prop := forall want, inst mk ad cap capf p want d = inst mk ad cap' capf' p want d.

  Lemma ifields_ext ps : Forall ext_at ps -> forall fis,
    ifields (fun p w => inst mk ad cap capf p w d) ps fis = ifields (fun p w => inst mk ad cap' capf' p w d) ps fis.
  Proof.
    induction 1 as [|p ps Hp Hps IH]; intros fis; cbn [ifields]; [reflexivity|].
    rewrite Hp. destruct (inst mk ad cap' capf' p _ d); [|reflexivity]. rewrite IH. reflexivity.
  Qed.

  Lemma run_ext i : match assoc (ad i) (d_dots d) with Some r => map cap r | None => [] end =
                    match assoc (ad i) (d_dots d) with Some r => map cap' r | None => [] end.
  Proof.
    destruct (assoc (ad i) (d_dots d)) as [r|] eqn:A; [|reflexivity]. apply assoc_In in A.
    apply map_ext_in. intros x Hx. destruct AG as [A1 _]. eapply A1; eauto.
  Qed.

  Lemma ilist_ext tp ps elem : Forall ext_at ps ->
    ilist (fun p => inst mk ad cap capf p elem d) (fun i => match assoc (ad i) (d_dots d) with Some r => map cap r | None => [] end) tp ps =
    ilist (fun p => inst mk ad cap' capf' p elem d) (fun i => match assoc (ad i) (d_dots d) with Some r => map cap' r | None => [] end) tp ps.
  Proof.
    induction 1 as [|p ps Hp Hps IH]; cbn [ilist]; [reflexivity|].
    destruct (dots_item tp p) as [i|].
    - rewrite IH, run_ext. reflexivity.
    - rewrite Hp, IH. reflexivity.
  Qed.

  Lemma ext_n : forall k p, vsize p <= k -> ext_at p.
  Proof.
    induction k as [|k IH]; intros p Hk; [destruct p; simpl in Hk; lia|].
    intros want. destruct p as [tp|b|ta a|sp ps|tp ps|ti ps|tp ps]; try reflexivity.
    - (* Struct *)
      rewrite !inst_struct. rewrite ifields_ext; [reflexivity|].
      apply Forall_forall. intros x Hx. apply IH. apply vsize_in in Hx. simpl in Hk. lia.
    - (* Ptr *)
      assert (ext_at ps) as Hps by (apply IH; simpl in Hk; lia).
      cbn [inst]. destruct (N.eqb tp T_P_ast_Object); [reflexivity|].
      assert (G : match inst mk ad cap capf ps 0%N d with Ok v0 => Ok (Ptr tp v0) | Err e => Err e end =
                  match inst mk ad cap' capf' ps 0%N d with Ok v0 => Ok (Ptr tp v0) | Err e => Err e end) by (rewrite Hps; reflexivity).
      destruct ps as [| | |sp fs| | |]; try exact G.
      destruct fs as [|f0 [|f1 [|f2 [|f3 [|f4 [|f5 r]]]]]]; try exact G;
        repeat (match goal with
                | |- context [match ?x with _ => _ end] => is_var x; match type of x with val => destruct x end
                end; try exact G).
      all: try (match goal with |- context [mk ?nm] =>
                  destruct (if N.eqb tp T_P_ast_Ident then mk nm else None); [reflexivity|exact G] end).
      all: match goal with |- context [is_dots ?c] =>
             destruct (if N.eqb tp T_P_ast_ForStmt then is_dots c else None) as [i|]; [|exact G] end.
      all: match goal with |- context [assoc (ad ?j) (d_for d)] =>
             destruct (assoc (ad j) (d_for d)) as [[st fs]|] eqn:A; [|reflexivity] end.
      all: apply assoc_In in A; destruct AG as [_ [A2 _]]; rewrite (A2 _ _ _ A).
      all: match goal with |- context [inst mk ad cap capf ?b T_P_ast_BlockStmt d] =>
             assert (ext_at b) as Hb by (apply IH; simpl in Hk; simpl; lia); rewrite Hb; reflexivity end.
    - (* Iface *)
      cbn [inst]. assert (ext_at ps) as Hps by (apply IH; simpl in Hk; lia). rewrite Hps. reflexivity.
    - (* Slice *)
      rewrite !inst_slice. unfold irun. rewrite ilist_ext; [reflexivity|].
      apply Forall_forall. intros x Hx. apply IH. apply vsize_in in Hx. simpl in Hk. lia.
  Qed.

  Theorem inst_ext p want : inst mk ad cap capf p want d = inst mk ad cap' capf' p want d.
  Proof. apply (ext_n (vsize p) p (le_n _)). Qed.

  Lemma inst_node_ext p : inst_node mk ad cap capf p d = inst_node mk ad cap' capf' p d.
  Proof.
    destruct p as [v|s e l]; cbn [inst_node]; [apply inst_ext|].
    unfold inst_stmts. destruct (d_stmt d) as [[st fs]|] eqn:A; [|reflexivity].
    destruct AG as [_ [_ A3]]. rewrite (A3 _ _ A), inst_ext. reflexivity.
  Qed.
End E.

Lemma rw_fields_ext (r r' : val -> val) : forall fs fis,
  (forall x, In x fs -> r x = r' x) ->
  (forall t xs x, In (Slice t xs) fs -> In x xs -> r x = r' x) ->
  rw_fields r fs fis = rw_fields r' fs fis.
Proof.
  induction fs as [|y fs IH]; intros fis H1 H2; destruct fis as [|fi fis]; cbn [rw_fields]; try reflexivity.
  rewrite (IH fis); [|intros; apply H1; right; assumption|intros t xs x Hin; apply (H2 t xs x); right; assumption].
  f_equal. destruct (f_visited fi); [|reflexivity].
  destruct y; try (apply H1; left; reflexivity).
  f_equal. apply map_ext_in. intros x Hx. eapply H2; [left; reflexivity|exact Hx].
Qed.

Section R.
  Variable mk : N -> option mkind.
  Variable ad : N -> N.
  Variable minus plus : npat.
  Variable dinit : data.
  (* the bindings made by the import clauses refer to no runs, headers or containers *)
  Hypothesis CLEAN : forall n, small n dinit.

  Notation rw := (rw mk ad minus plus dinit).

  Lemma size_unwrap v : size (unwrap v) <= size v.
  Proof. destruct v; simpl; lia. Qed.

  Lemma rw_fuel : forall f f' v, size v < f -> size v < f' -> rw f v = rw f' v.
  Proof.
    induction f as [|f IH]; intros f' v Hf Hf'; [lia|]. destruct f' as [|f']; [lia|].
    destruct (unwrap v) as [| | | |tp x| |] eqn:U;
      try (rewrite !rw_leaf; [reflexivity|intros ? ? ?; rewrite U; discriminate|intros ? ? ?; rewrite U; discriminate]).
    destruct x as [| | |st fs| | |];
      try (rewrite !rw_leaf; [reflexivity|intros ? ? ?; rewrite U; discriminate|intros ? ? ?; rewrite U; discriminate]).
    pose proof (size_unwrap v) as SU. rewrite U in SU.
    assert (AGREE : forall x, size x < size (Ptr tp (Struct st fs)) -> rw f x = rw f' x).
    { intros x Hx. apply IH; lia. }
    assert (FIELDS : forall st' fs', (forall x, In x fs' -> size x < size (Ptr tp (Struct st fs))) ->
                     rwf mk ad minus plus dinit f fs' (fields_of st') = rwf mk ad minus plus dinit f' fs' (fields_of st')).
    { intros st' fs' Hs. unfold rwf. apply rw_fields_ext.
      - intros x Hx. apply AGREE, Hs, Hx.
      - intros t xs x Hin Hx. apply AGREE. specialize (Hs _ Hin). apply size_in in Hx. simpl in Hs |- *. lia. }
    assert (OWN : forall x, In x fs -> size x < size (Ptr tp (Struct st fs))) by (intros x Hx; apply size_in in Hx; simpl; lia).
    assert (REB : rebuilt mk ad minus plus dinit f v tp st fs = rebuilt mk ad minus plus dinit f' v tp st fs).
    { unfold rebuilt. rewrite (FIELDS st fs OWN). reflexivity. }
    rewrite (rw_node mk ad minus plus dinit f v tp st fs U), (rw_node mk ad minus plus dinit f' v tp st fs U), REB.
    rewrite U. destruct (mtch_node mk minus (Ptr tp (Struct st fs)) dinit) as [d|] eqn:M; [|reflexivity].
    pose proof (mtch_node_small mk minus _ _ _ _ (le_n _) (CLEAN _) M) as [S1 [S2 S3]].
    rewrite (inst_node_ext mk ad (rw f) (rw f') (fun st0 fs0 => rwf mk ad minus plus dinit f fs0 (fields_of st0))
                           (fun st0 fs0 => rwf mk ad minus plus dinit f' fs0 (fields_of st0)) d); [reflexivity|].
    split; [|split].
    - intros i r x Hi Hx. apply AGREE. eapply S1; eauto.
    - intros i st' fs' Hi. apply FIELDS. intros x Hx. eapply S2; eauto.
    - intros st' fs' Hi. apply FIELDS. intros x Hx. eapply S3; eauto.
  Qed.

  (* any fuel above the size of the tree gives the result apply_change uses *)
  Theorem rw_fuel_enough f v : size v < f -> rw f v = rw (S (size v)) v.
  Proof. intros H. apply rw_fuel; lia. Qed.
End R.

Section Sc.
  Variable mk : N -> option mkind.
  Variable ad : N -> N.
  Variable minus plus : npat.
  Variable dinit : data.
  Notation scan := (scan mk ad minus plus dinit).

  Lemma scan_fuel : forall f f' v, size v < f -> size v < f' -> scan f v = scan f' v.
  Proof.
    induction f as [|f IH]; intros f' v Hf Hf'; [lia|]. destruct f' as [|f']; [lia|].
    cbn [FileEngine.scan]. pose proof (size_unwrap v) as SU.
    destruct (unwrap v) as [| | | |tp x| |] eqn:U; try reflexivity.
    destruct x as [| | |st fs| | |]; try reflexivity.
    assert (AGREE : forall x, size x < size (Ptr tp (Struct st fs)) -> scan f x = scan f' x) by (intros x Hx; apply IH; lia).
    assert (OWN : forall x, In x fs -> size x < size (Ptr tp (Struct st fs))) by (intros x Hx; apply size_in in Hx; simpl; lia).
    remember (size (Ptr tp (Struct st fs))) as n eqn:En. clear En U SU Hf Hf'.
    match goal with |- ?g ?a ?b ?h = _ => generalize h; generalize b end.
    induction fs as [|y fs IHfs]; intros fis acc; [reflexivity|].
    destruct fis as [|fi fis]; [reflexivity|].
    rewrite IHfs by (intros; apply OWN; right; assumption).
    f_equal. destruct (f_visited fi); [|reflexivity].
    assert (size y < n) as Hy by (apply OWN; left; reflexivity).
    destruct y; try (rewrite (AGREE _ Hy); reflexivity).
    assert (forall z, In z vs -> size z < n) as Hz by (intros z Hz; apply size_in in Hz; simpl in Hy; lia).
    clear Hy OWN IHfs. revert acc. induction vs as [|z vs IHvs]; intros acc; [reflexivity|]. cbn [fold_left].
    rewrite (AGREE z) by (apply Hz; left; reflexivity). apply IHvs. intros; apply Hz; right; assumption.
  Qed.
End Sc.

(* ---- the bindings of the import clauses are "clean" ---- *)
Definition same_refs (d d' : data) : Prop := d_dots d' = d_dots d /\ d_for d' = d_for d /\ d_stmt d' = d_stmt d.

Lemma match_import_name_refs mk pn got d d' : match_import_name mk pn got d = Some d' -> same_refs d d'.
Proof.
  unfold match_import_name. destruct (mk pn).
  - destruct (assoc pn (d_mv d)).
    + destruct (eqvb v _); [|discriminate]. intros H; inversion H; subst. repeat split.
    + intros H; inversion H; subst. repeat split.
  - destruct (N.eqb pn got); [|discriminate]. intros H; inversion H; subst. repeat split.
Qed.

Lemma match_spec_refs mk p s d b d' b' : match_spec mk p s d b = Some (d', b') -> same_refs d d'.
Proof.
  unfold match_spec. destruct (p_name p) as [pn|], (i_name s) as [sn|]; try discriminate.
  - destruct (match_import_name mk pn sn d) as [d1|] eqn:E; [|discriminate].
    intros H; inversion H; subst. eapply match_import_name_refs; eauto.
  - destruct (is_ident_mv mk pn); [|discriminate].
    destruct (match_import_name mk pn pn d) as [d1|] eqn:E; [|discriminate].
    intros H; inversion H; subst. eapply match_import_name_refs; eauto.
  - intros H; inversion H; subst. repeat split.
Qed.

Lemma match_import_refs mk p specs : forall d b d' b', match_import mk p specs d b = Some (d', b') -> same_refs d d'.
Proof.
  induction specs as [|s specs IH]; intros d b d' b' H; cbn [match_import] in H; [discriminate|].
  destruct (N.eqb (i_path s) (p_path p)); [|eapply IH; eauto].
  destruct (match_spec mk p s d b) as [[d1 b1]|] eqn:E; [|eapply IH; eauto].
  inversion H; subst. eapply match_spec_refs; eauto.
Qed.

Lemma match_imports_refs mk ps specs : forall d id d' id', match_imports mk ps specs d id = Some (d', id') -> same_refs d d'.
Proof.
  induction ps as [|p ps IH]; intros d id d' id' H; cbn [match_imports] in H.
  - inversion H; subst. repeat split.
  - destruct (match_import mk p specs d (id_bound id)) as [[d1 b1]|] eqn:E; [|discriminate].
    apply match_import_refs in E as [E1 [E2 E3]]. apply IH in H as [H1 [H2 H3]].
    repeat split; congruence.
Qed.

Lemma small_d0_refs d n : same_refs d0 d -> small n d.
Proof.
  intros [E1 [E2 E3]]. unfold small. rewrite E1, E2, E3. simpl. repeat split; intros; try contradiction; discriminate.
Qed.

(* the rewrite apply_change performs does not depend on its fuel, as long as it exceeds the tree *)
Theorem apply_change_rw_fuel c g dinit id f :
  match_imports (mk_of c) (ch_minus_imports c) (g_imports g) d0 {| id_bound := []; id_matched := [] |} = Some (dinit, id) ->
  size (g_tree g) < f ->
  rw (mk_of c) (assoc_of (ch_assoc c)) (ch_minus c) (ch_plus c) dinit f (g_tree g) =
  rw (mk_of c) (assoc_of (ch_assoc c)) (ch_minus c) (ch_plus c) dinit (S (size (g_tree g))) (g_tree g) /\
  scan (mk_of c) (assoc_of (ch_assoc c)) (ch_minus c) (ch_plus c) dinit f (g_tree g) =
  scan (mk_of c) (assoc_of (ch_assoc c)) (ch_minus c) (ch_plus c) dinit (S (size (g_tree g))) (g_tree g).
Proof.
  intros M Hf. apply match_imports_refs in M. split.
  - apply rw_fuel; [intros n; apply small_d0_refs, M|exact Hf|lia].
  - apply scan_fuel; [exact Hf|lia].
Qed.
