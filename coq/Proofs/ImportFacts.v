(* Facts about the package/import guards and about how a change edits the import list. *)
From GP Require Import Tree Meta Match Replace FileEngine MatchFacts.
From Coq Require Import Lia.

Section G.
  Variable mk : N -> option mkind.

  (* ---- the guard table ---- *)
  Lemma match_import_any p specs d b r :
    match_import mk p specs d b = Some r ->
    exists s, In s specs /\ i_path s = p_path p /\ match_spec mk p s d b = Some r.
  Proof.
    induction specs as [|s specs IH]; simpl; [discriminate|].
    destruct (N.eqb (i_path s) (p_path p)) eqn:E.
    - destruct (match_spec mk p s d b) as [r'|] eqn:M.
      + intros H. inversion H; subst. exists s. apply N.eqb_eq in E. auto.
      + intros H. apply IH in H as [s' [H1 [H2 H3]]]. exists s'. auto.
    - intros H. apply IH in H as [s' [H1 [H2 H3]]]. exists s'. auto.
  Qed.

  Lemma match_import_some p specs d b s r :
    In s specs -> i_path s = p_path p -> match_spec mk p s d b = Some r ->
    exists r', match_import mk p specs d b = Some r'.
  Proof.
    induction specs as [|s0 specs IH]; simpl; [tauto|]. intros [->|Hin] Hp Hm.
    - rewrite Hp, N.eqb_refl, Hm. eauto.
    - destruct (N.eqb (i_path s0) (p_path p)); [|eauto].
      destruct (match_spec mk p s0 d b); eauto.
  Qed.

  (* the documented cells *)
  Lemma spec_unnamed_unnamed p s d b :
    p_name p = None -> (exists r, match_spec mk p s d b = Some r) <-> i_name s = None.
  Proof.
    intros Hp. unfold match_spec. rewrite Hp. destruct (i_name s); split; intros H; eauto; try discriminate.
    destruct H; discriminate.
  Qed.

  Lemma spec_literal p pn s d b :
    p_name p = Some pn -> mk pn = None ->
    (exists r, match_spec mk p s d b = Some r) <-> i_name s = Some pn.
  Proof.
    intros Hp Hm. unfold match_spec, is_ident_mv, match_import_name. rewrite Hp, Hm.
    destruct (i_name s) as [sn|]; split; intros H.
    - destruct H as [r H]. destruct (N.eqb pn sn) eqn:E; [|discriminate]. apply N.eqb_eq in E. congruence.
    - inversion H; subst. rewrite N.eqb_refl. eauto.
    - destruct H; discriminate.
    - discriminate.
  Qed.

  Lemma spec_metavar_unbound p pn s b :
    p_name p = Some pn -> mk pn = Some KIdent -> assoc pn (d_mv d0) = None ->
    exists r, match_spec mk p s d0 b = Some r.
  Proof.
    intros Hp Hm Ha. unfold match_spec, is_ident_mv, match_import_name. rewrite Hp, Hm, Ha.
    destruct (i_name s); eauto.
  Qed.

  (* ---- how the import list is edited ---- *)
  Lemma add_import_keeps l i j : In j l -> In j (fst (add_import l i)).
  Proof. unfold add_import. destruct (existsb (imp_eqb i) l); simpl; auto. intros H. apply in_app_iff. auto. Qed.

  Lemma add_import_from l i j : In j (fst (add_import l i)) -> In j l \/ j = i.
  Proof.
    unfold add_import. destruct (existsb (imp_eqb i) l); simpl; auto.
    intros H. apply in_app_iff in H as [H|[H|[]]]; auto.
  Qed.

  Lemma del_import_keeps l name path j : In j l -> i_path j <> path -> In j (del_import l name path).
  Proof.
    intros Hin Hp. unfold del_import. apply filter_In. split; [exact Hin|].
    unfold imp_eqb. simpl. destruct (N.eqb (i_path j) path) eqn:E; [apply N.eqb_eq in E; contradiction|reflexivity].
  Qed.

  Lemma del_import_sub l name path j : In j (del_import l name path) -> In j l.
  Proof. unfold del_import. intros H. apply filter_In in H. tauto. Qed.
End G.

Section Edit.
  Variable mk : N -> option mkind.

  Lemma add_plus_import_step id dinit imps names p imps' names' :
    add_plus_import mk id dinit (Ok (imps, names)) p = Ok (imps', names') ->
    (forall j, In j imps -> In j imps') /\
    (forall j, In j imps' -> In j imps \/ i_path j = p_path p) /\
    (exists nm, In {| i_name := nm; i_path := p_path p; i_base := p_base p |} imps' \/
                existsb (imp_eqb {| i_name := nm; i_path := p_path p; i_base := p_base p |}) imps = true).
  Proof.
    unfold add_plus_import.
    match goal with |- match ?nm with _ => _ end = _ -> _ => destruct nm as [[name pkg]|e] eqn:NM; [|discriminate] end.
    destruct (add_import imps {| i_name := name; i_path := p_path p; i_base := p_base p |}) as [l added] eqn:A.
    intros H. inversion H; subst imps' names'. clear H.
    assert (l = fst (add_import imps {| i_name := name; i_path := p_path p; i_base := p_base p |})) as -> by (rewrite A; reflexivity).
    split; [intros j Hj; apply add_import_keeps; exact Hj|]. split.
    - intros j Hj. apply add_import_from in Hj as [Hj| ->]; auto.
    - exists name. unfold add_import. destruct (existsb _ imps) eqn:E; [right; reflexivity|].
      left. simpl. apply in_app_iff. right. left. reflexivity.
  Qed.

  Lemma fold_add_plus_err id dinit ps e : fold_left (add_plus_import mk id dinit) ps (Err e) = Err e.
  Proof. induction ps; simpl; auto. Qed.

  Lemma fold_add_plus id dinit ps : forall imps names imps' names',
    fold_left (add_plus_import mk id dinit) ps (Ok (imps, names)) = Ok (imps', names') ->
    (forall j, In j imps -> In j imps') /\
    (forall j, In j imps' -> In j imps \/ exists p, In p ps /\ i_path j = p_path p).
  Proof.
    induction ps as [|p ps IH]; intros imps names imps' names' H; cbn [fold_left] in H.
    - inversion H; subst. split; auto.
    - destruct (add_plus_import mk id dinit (Ok (imps, names)) p) as [[i1 n1]|e] eqn:S;
        [|rewrite fold_add_plus_err in H; discriminate].
      apply add_plus_import_step in S as [K1 [K2 _]]. apply IH in H as [H1 H2]. split.
      + intros j Hj. apply H1, K1, Hj.
      + intros j Hj. apply H2 in Hj as [Hj|[q [Hq E]]].
        * apply K2 in Hj as [Hj|E]; [left; exact Hj|right; exists p; split; [left; reflexivity|exact E]].
        * right. exists q. split; [right; exact Hq|exact E].
  Qed.

  Lemma cleanup_import_step bl dt plus id names tree imps pb :
    (forall j, In j (cleanup_import bl dt plus id names tree imps pb) -> In j imps) /\
    (forall j, In j imps -> i_path j <> fst pb -> In j (cleanup_import bl dt plus id names tree imps pb)).
  Proof.
    unfold cleanup_import.
    destruct (match assoc_ikey (fst pb, fst (snd pb)) (id_bound id) with
              | Some (n, true) => (n, None) | Some (n, false) => (n, Some n) | None => (snd (snd pb), None) end) as [pk im].
    match goal with |- context [if ?c then _ else _] => destruct c end; [split; auto|].
    match goal with |- context [if ?c then _ else _] => destruct c end.
    - split.
      + intros j Hj. eapply (del_import_sub mk). exact Hj.
      + intros j Hj Hp. apply del_import_keeps; assumption.
    - split; auto.
  Qed.

  Lemma fold_cleanup bl dt plus id names tree ms : forall imps,
    (forall j, In j (fold_left (cleanup_import bl dt plus id names tree) ms imps) -> In j imps) /\
    (forall j, In j imps -> (forall pb, In pb ms -> i_path j <> fst pb) ->
               In j (fold_left (cleanup_import bl dt plus id names tree) ms imps)).
  Proof.
    induction ms as [|pb ms IH]; intros imps; simpl; [split; auto|].
    destruct (cleanup_import_step bl dt plus id names tree imps pb) as [S1 S2].
    destruct (IH (cleanup_import bl dt plus id names tree imps pb)) as [I1 I2]. split.
    - intros j Hj. apply S1, I1, Hj.
    - intros j Hj Hn. apply I2; [apply S2; [exact Hj|apply Hn; left; reflexivity]|].
      intros pb' Hpb. apply Hn. right. exact Hpb.
  Qed.

  (* the matched imports are exactly the import clauses of the '-' side, in order *)
  Lemma match_imports_matched ps specs : forall d id d' id',
    match_imports mk ps specs d id = Some (d', id') ->
    id_matched id' = id_matched id ++ map (fun p => (p_path p, (p_name p, p_base p))) ps.
  Proof.
    induction ps as [|p ps IH]; intros d id d' id' H; simpl in H.
    - inversion H; subst. rewrite app_nil_r. reflexivity.
    - destruct (match_import mk p specs d (id_bound id)) as [[d1 b1]|]; [|discriminate].
      apply IH in H. rewrite H. simpl. rewrite <- app_assoc. reflexivity.
  Qed.
End Edit.

(* ---- apply_change as a whole ---- *)
Lemma apply_change_ok_inv c g g' :
  apply_change c g = OOk g' ->
  exists dinit id imps1 names tree1,
    match_imports (mk_of c) (ch_minus_imports c) (g_imports g) d0 {| id_bound := []; id_matched := [] |} = Some (dinit, id) /\
    fold_left (add_plus_import (mk_of c) id dinit) (ch_plus_imports c) (Ok (g_imports g, [])) = Ok (imps1, names) /\
    g_imports g' = fold_left (cleanup_import (ch_blank c) (ch_dot c) (ch_plus_imports c) id names tree1) (id_matched id) imps1.
Proof.
  unfold apply_change. intros H.
  destruct (negb _); [discriminate|].
  destruct (match_imports _ _ _ _ _) as [[dinit id]|] eqn:M; [|discriminate].
  destruct (fst (scan _ _ _ _ _ _ _)); [discriminate|].
  destruct (fold_left _ (ch_plus_imports c) _) as [[imps1 names]|] eqn:A; [|discriminate].
  destruct (snd (scan _ _ _ _ _ _ _)); [|discriminate].
  inversion H; subst. simpl. exists dinit, id, imps1, names. eexists. repeat split; eauto.
Qed.

(* every import whose path the patch does not mention is still there *)
Theorem imports_unmentioned_kept c g g' j :
  apply_change c g = OOk g' -> In j (g_imports g) ->
  (forall p, In p (ch_minus_imports c) -> p_path p <> i_path j) ->
  In j (g_imports g').
Proof.
  intros H Hj Hn. apply apply_change_ok_inv in H as [dinit [id [imps1 [names [tree1 [M [A E]]]]]]].
  rewrite E. destruct (fold_cleanup (mk_of c) (ch_blank c) (ch_dot c) (ch_plus_imports c) id names tree1 (id_matched id) imps1) as [_ K]. apply K.
  - apply fold_add_plus in A as [A1 _]. apply A1. exact Hj.
  - intros pb Hpb. apply match_imports_matched in M. simpl in M. rewrite M in Hpb.
    apply in_map_iff in Hpb as [p [<- Hp]]. simpl. intros Eq. apply (Hn p Hp). auto.
Qed.

(* no import the patch does not mention is added *)
Theorem imports_nothing_unmentioned_added c g g' j :
  apply_change c g = OOk g' -> In j (g_imports g') ->
  In j (g_imports g) \/ exists p, In p (ch_plus_imports c) /\ i_path j = p_path p.
Proof.
  intros H Hj. apply apply_change_ok_inv in H as [dinit [id [imps1 [names [tree1 [M [A E]]]]]]].
  rewrite E in Hj. destruct (fold_cleanup (mk_of c) (ch_blank c) (ch_dot c) (ch_plus_imports c) id names tree1 (id_matched id) imps1) as [K _]. apply K in Hj.
  apply fold_add_plus in A as [_ A2]. apply A2. exact Hj.
Qed.
