(* Structure of the file loop: what one file contributes, and how the result
   of a run is assembled from the contributions. *)
From GP Require Import Bytes Generated Cli.
From Coq Require Import Lia Arith.
Local Open Scope nat_scope.

Lemma filter_none {A} (f : A -> bool) l : (forall x, In x l -> f x = false) -> filter f l = [].
Proof.
  induction l as [|x l IH]; simpl; intros H; [reflexivity|].
  rewrite (H x (or_introl eq_refl)). apply IH. intros y Hy. apply H. right. exact Hy.
Qed.

Lemma filter_all {A} (f : A -> bool) l : (forall x, In x l -> f x = true) -> filter f l = l.
Proof.
  induction l as [|x l IH]; simpl; intros H; [reflexivity|].
  rewrite (H x (or_introl eq_refl)). f_equal. apply IH. intros y Hy. apply H. right. exact Hy.
Qed.

Section Facts.
  Variable parses : bytes -> option bytes.
  Variable header_of : bytes -> header.
  Variable engine : bytes -> outcome.
  Variable process : bytes -> bytes + bytes.
  Variable o : opts.

  Notation step := (step parses header_of engine process o).
  Notation run := (run parses header_of engine process o).
  Notation run_from := (run_from parses header_of engine process o).
  Notation sink := (sink o).

  (* what file [t], processed as number [i], does when the loop reaches it *)
  Definition solo (i : nat) (t : target) : result := step st0 (i, t).

  Definition add (r k : result) : result :=
    {| r_events := r_events r ++ r_events k;
       r_errors := r_errors r ++ r_errors k;
       r_runner_errors := r_runner_errors r ++ r_runner_errors k |}.

  Lemma result_eq r1 r2 :
    r_events r1 = r_events r2 -> r_errors r1 = r_errors r2 ->
    r_runner_errors r1 = r_runner_errors r2 -> r1 = r2.
  Proof. destruct r1, r2; simpl; intros; subst; reflexivity. Qed.

  (* the final bytes for a formatted result: imports.Process, or the parse
     check when import processing is skipped *)
  Definition finalize (fmt : bytes) : bytes + bytes :=
    if o_skip_imports o
    then match parses fmt with None => inl fmt | Some m => inr m end
    else checked parses (process fmt).

  (* [solo], case by case *)
  Lemma solo_unreadable i t m : t_read t = inr m ->
    solo i t = {| r_events := []; r_errors := [ErrRead (t_abs t) m]; r_runner_errors := [] |}.
  Proof. intros H. unfold solo, Cli.step. rewrite H. reflexivity. Qed.

  Lemma solo_unparseable i t c m : t_read t = inl c -> parses c = Some m ->
    solo i t = {| r_events := []; r_errors := [ErrParse (t_abs t) m]; r_runner_errors := [] |}.
  Proof. intros H1 H2. unfold solo, Cli.step. rewrite H1, H2. reflexivity. Qed.

  Lemma solo_generated i t c : t_read t = inl c -> parses c = None ->
    o_skip_generated o && check_generated_code (header_of c) = true ->
    solo i t = {| r_events := [EvLog i (t_abs t) LGenSkipped]; r_errors := []; r_runner_errors := [] |}.
  Proof. intros H1 H2 H3. unfold solo, Cli.step. rewrite H1, H2, H3. reflexivity. Qed.

  Definition echo (i : nat) (c : bytes) : list event :=
    if o_print o then [EvOut i true c] else [].

  Lemma solo_nomatch i t c : t_read t = inl c -> parses c = None ->
    o_skip_generated o && check_generated_code (header_of c) = false ->
    engine c = NoMatch ->
    solo i t = {| r_events := echo i c ++ [EvLog i (t_abs t) LSkipped];
                  r_errors := []; r_runner_errors := [] |}.
  Proof. intros H1 H2 H3 H4. unfold solo, Cli.step. rewrite H1, H2, H3, H4. reflexivity. Qed.

  Lemma solo_replace_err i t c m : t_read t = inl c -> parses c = None ->
    o_skip_generated o && check_generated_code (header_of c) = false ->
    engine c = ReplaceErr m ->
    solo i t = {| r_events := echo i c ++ [EvLog i (t_abs t) LSkipped];
                  r_errors := []; r_runner_errors := [ErrUpdate (t_abs t) m] |}.
  Proof. intros H1 H2 H3 H4. unfold solo, Cli.step. rewrite H1, H2, H3, H4. reflexivity. Qed.

  Lemma solo_format_err i t c cs m : t_read t = inl c -> parses c = None ->
    o_skip_generated o && check_generated_code (header_of c) = false ->
    engine c = Matched cs (inr m) ->
    solo i t = {| r_events := [EvLog i (t_abs t) (LFailed m)];
                  r_errors := [ErrRewrite (t_abs t) m]; r_runner_errors := [] |}.
  Proof. intros H1 H2 H3 H4. unfold solo, Cli.step. rewrite H1, H2, H3, H4. reflexivity. Qed.

  Lemma solo_reformat_err i t c cs fmt m : t_read t = inl c -> parses c = None ->
    o_skip_generated o && check_generated_code (header_of c) = false ->
    engine c = Matched cs (inl fmt) -> finalize fmt = inr m ->
    solo i t = {| r_events := []; r_errors := [ErrReformat (t_abs t) m]; r_runner_errors := [] |}.
  Proof.
    intros H1 H2 H3 H4 H5. unfold solo, Cli.step. rewrite H1, H2, H3, H4.
    unfold finalize in H5. rewrite H5. reflexivity.
  Qed.

  Lemma solo_sunk i t c cs fmt bs : t_read t = inl c -> parses c = None ->
    o_skip_generated o && check_generated_code (header_of c) = false ->
    engine c = Matched cs (inl fmt) -> finalize fmt = inl bs ->
    solo i t =
      match sink i t c bs cs with
      | (evs, Some m) => {| r_events := evs ++ [EvLog i (t_abs t) (LFailed m)];
                            r_errors := [ErrWrite (t_abs t) m]; r_runner_errors := [] |}
      | (evs, None) => {| r_events := evs ++ [EvLog i (t_abs t) LPatched];
                          r_errors := []; r_runner_errors := [] |}
      end.
  Proof.
    intros H1 H2 H3 H4 H5. unfold solo, Cli.step. rewrite H1, H2, H3, H4.
    unfold finalize in H5. rewrite H5.
    destruct (Cli.sink o i t c bs cs) as [evs [m|]]; reflexivity.
  Qed.

  (* case analysis principle: every file falls in exactly one of the cases above *)
  Inductive file_case (t : target) : Prop :=
  | FUnreadable m : t_read t = inr m -> file_case t
  | FUnparseable c m : t_read t = inl c -> parses c = Some m -> file_case t
  | FGenerated c : t_read t = inl c -> parses c = None ->
      o_skip_generated o && check_generated_code (header_of c) = true -> file_case t
  | FNoMatch c : t_read t = inl c -> parses c = None ->
      o_skip_generated o && check_generated_code (header_of c) = false ->
      engine c = NoMatch -> file_case t
  | FReplaceErr c m : t_read t = inl c -> parses c = None ->
      o_skip_generated o && check_generated_code (header_of c) = false ->
      engine c = ReplaceErr m -> file_case t
  | FFormatErr c cs m : t_read t = inl c -> parses c = None ->
      o_skip_generated o && check_generated_code (header_of c) = false ->
      engine c = Matched cs (inr m) -> file_case t
  | FReformatErr c cs fmt m : t_read t = inl c -> parses c = None ->
      o_skip_generated o && check_generated_code (header_of c) = false ->
      engine c = Matched cs (inl fmt) -> finalize fmt = inr m -> file_case t
  | FSunk c cs fmt bs : t_read t = inl c -> parses c = None ->
      o_skip_generated o && check_generated_code (header_of c) = false ->
      engine c = Matched cs (inl fmt) -> finalize fmt = inl bs -> file_case t.

  Lemma file_cases t : file_case t.
  Proof.
    destruct (t_read t) as [c|m] eqn:H1; [|eapply FUnreadable; eauto].
    destruct (parses c) as [m|] eqn:H2; [eapply FUnparseable; eauto|].
    destruct (o_skip_generated o && check_generated_code (header_of c)) eqn:H3;
      [eapply FGenerated; eauto|].
    destruct (engine c) as [|m|cs [fmt|m]] eqn:H4.
    - eapply FNoMatch; eauto.
    - eapply FReplaceErr; eauto.
    - destruct (finalize fmt) as [bs|m] eqn:H5; [eapply FSunk | eapply FReformatErr]; eauto.
    - eapply FFormatErr; eauto.
  Qed.

  Lemma step_add r i t : step r (i, t) = add r (solo i t).
  Proof.
    unfold solo, Cli.step.
    destruct (t_read t) as [content|m].
    2:{ apply result_eq; simpl; rewrite ?app_nil_r; auto. }
    destruct (parses content).
    { apply result_eq; simpl; rewrite ?app_nil_r; auto. }
    destruct (o_skip_generated o && check_generated_code (header_of content)).
    { apply result_eq; simpl; rewrite ?app_nil_r; auto. }
    destruct (engine content) as [|m|cs [fmt|m]].
    1-2,4: apply result_eq; simpl; rewrite ?app_nil_r; auto.
    destruct (if o_skip_imports o then _ else _) as [bs|m].
    2:{ apply result_eq; simpl; rewrite ?app_nil_r; auto. }
    destruct (Cli.sink o i t content bs cs) as [evs [m|]];
      apply result_eq; simpl; rewrite ?app_nil_r; auto.
  Qed.

  Lemma sink_tag i t content bs cs e :
    In e (fst (sink i t content bs cs)) -> ev_index e = i.
  Proof.
    unfold Cli.sink, descs.
    destruct (o_diff o); [|destruct (o_print o); [|destruct (t_write_err t)]]; simpl;
      rewrite ?in_app_iff, ?in_map_iff; simpl; intros H;
      repeat match goal with
             | H : _ \/ _ |- _ => destruct H
             | H : exists _, _ |- _ => destruct H as [? [? ?]]
             | H : False |- _ => destruct H
             end; subst; reflexivity.
  Qed.

  (* every event of a file's contribution carries that file's index *)
  Lemma solo_tag i t e : In e (r_events (solo i t)) -> ev_index e = i.
  Proof.
    destruct (file_cases t) as [m H1|c m H1 H2|c H1 H2 H3|c H1 H2 H3 H4|c m H1 H2 H3 H4
                               |c cs m H1 H2 H3 H4|c cs fmt m H1 H2 H3 H4 H5|c cs fmt bs H1 H2 H3 H4 H5].
    - rewrite (solo_unreadable _ _ _ H1). simpl. tauto.
    - rewrite (solo_unparseable _ _ _ _ H1 H2). simpl. tauto.
    - rewrite (solo_generated _ _ _ H1 H2 H3). simpl. intros [<-|[]]. reflexivity.
    - rewrite (solo_nomatch _ _ _ H1 H2 H3 H4). unfold echo. simpl.
      destruct (o_print o); simpl; intros H; repeat (destruct H as [<-|H]; [reflexivity|]); destruct H.
    - rewrite (solo_replace_err _ _ _ _ H1 H2 H3 H4). unfold echo. simpl.
      destruct (o_print o); simpl; intros H; repeat (destruct H as [<-|H]; [reflexivity|]); destruct H.
    - rewrite (solo_format_err _ _ _ _ _ H1 H2 H3 H4). simpl. intros [<-|[]]. reflexivity.
    - rewrite (solo_reformat_err _ _ _ _ _ _ H1 H2 H3 H4 H5). simpl. tauto.
    - rewrite (solo_sunk _ _ _ _ _ _ H1 H2 H3 H4 H5).
      pose proof (sink_tag i t c bs cs) as Hs.
      destruct (Cli.sink o i t c bs cs) as [evs [m|]]; simpl in *;
        rewrite in_app_iff; simpl; intros [H|[<-|[]]]; auto.
  Qed.

  (* contributions of the files numbered [n, n+1, ...] *)
  Fixpoint contribs (n : nat) (ts : list target) : result :=
    match ts with
    | [] => st0
    | t :: ts' => add (solo n t) (contribs (S n) ts')
    end.

  Lemma add_assoc a b c : add (add a b) c = add a (add b c).
  Proof. apply result_eq; simpl; rewrite ?app_assoc; reflexivity. Qed.

  Lemma add_st0_r r : add r st0 = r.
  Proof. apply result_eq; simpl; rewrite ?app_nil_r; auto. Qed.

  Lemma add_st0_l r : add st0 r = r.
  Proof. apply result_eq; reflexivity. Qed.

  Lemma run_from_cons r n t ts : run_from r n (t :: ts) = run_from (step r (n, t)) (S n) ts.
  Proof. reflexivity. Qed.

  Lemma run_from_contribs r n ts : run_from r n ts = add r (contribs n ts).
  Proof.
    revert r n; induction ts as [|t ts IH]; intros r n.
    - simpl. symmetry. apply add_st0_r.
    - rewrite run_from_cons, step_add, IH. simpl. apply add_assoc.
  Qed.

  (* a run is the concatenation of its files' own contributions *)
  Lemma run_contribs ts : run ts = contribs 0 ts.
  Proof. unfold Cli.run. rewrite run_from_contribs. apply add_st0_l. Qed.

  Lemma contribs_tag n ts e : In e (r_events (contribs n ts)) -> n <= ev_index e.
  Proof.
    revert n; induction ts as [|t ts IH]; intros n; simpl; [tauto|].
    rewrite in_app_iff. intros [H|H].
    - apply solo_tag in H. lia.
    - apply IH in H. lia.
  Qed.

  Lemma contribs_events_of n ts i t :
    nth_error ts i = Some t ->
    filter (fun e => Nat.eqb (ev_index e) (n + i)) (r_events (contribs n ts))
    = r_events (solo (n + i) t).
  Proof.
    revert n i; induction ts as [|x ts IH]; intros n i Hn; [destruct i; discriminate|].
    destruct i as [|i]; simpl in *.
    - inversion Hn; subst x. rewrite Nat.add_0_r.
      rewrite filter_app, filter_all, filter_none, app_nil_r; [reflexivity| |].
      + intros e He. apply contribs_tag in He. apply Nat.eqb_neq. lia.
      + intros e He. apply solo_tag in He. apply Nat.eqb_eq. exact He.
    - rewrite filter_app, filter_none, app_nil_l.
      + replace (n + S i) with (S n + i) by lia. apply IH; assumption.
      + intros e He. apply solo_tag in He. apply Nat.eqb_neq. lia.
  Qed.

  (* The events a run produces for its i-th file are exactly that file's own
     contribution: they do not depend on the other files of the run. *)
  Theorem run_events_of ts i t :
    nth_error ts i = Some t -> events_of i (run ts) = r_events (solo i t).
  Proof.
    intros Hn. unfold events_of. rewrite run_contribs. apply (contribs_events_of 0 ts i t Hn).
  Qed.

  Lemma contribs_events_in n ts e :
    In e (r_events (contribs n ts)) <->
    exists i t, nth_error ts i = Some t /\ In e (r_events (solo (n + i) t)).
  Proof.
    revert n; induction ts as [|x ts IH]; intros n; simpl.
    - split; [tauto|]. intros [i [t [H _]]]. destruct i; discriminate.
    - rewrite in_app_iff, IH. split.
      + intros [H|[i [t [H1 H2]]]].
        * exists 0, x. rewrite Nat.add_0_r. auto.
        * exists (S i), t. split; [exact H1|].
          replace (n + S i) with (S n + i) by lia. exact H2.
      + intros [[|i] [t [H1 H2]]]; simpl in H1.
        * inversion H1; subst. rewrite Nat.add_0_r in H2. auto.
        * right. exists i, t. split; [exact H1|].
          replace (S n + i) with (n + S i) by lia. exact H2.
  Qed.

  Theorem run_events_in ts e :
    In e (r_events (run ts)) <->
    exists i t, nth_error ts i = Some t /\ In e (r_events (solo i t)).
  Proof. rewrite run_contribs. apply contribs_events_in. Qed.

  Lemma all_errors_add a b e :
    In e (all_errors (add a b)) <-> In e (all_errors a) \/ In e (all_errors b).
  Proof. unfold all_errors. simpl. rewrite !in_app_iff. tauto. Qed.

  Lemma contribs_errors_in n ts e :
    In e (all_errors (contribs n ts)) <->
    exists i t, nth_error ts i = Some t /\ In e (all_errors (solo (n + i) t)).
  Proof.
    revert n; induction ts as [|x ts IH]; intros n; simpl.
    - split; [intros []|]. intros [i [t [H _]]]. destruct i; discriminate.
    - rewrite all_errors_add, IH. split.
      + intros [H|[i [t [H1 H2]]]].
        * exists 0, x. rewrite Nat.add_0_r. auto.
        * exists (S i), t. split; [exact H1|].
          replace (n + S i) with (S n + i) by lia. exact H2.
      + intros [[|i] [t [H1 H2]]]; simpl in H1.
        * inversion H1; subst. rewrite Nat.add_0_r in H2. auto.
        * right. exists i, t. split; [exact H1|].
          replace (S n + i) with (n + S i) by lia. exact H2.
  Qed.

  (* the errors of a run are exactly the errors of its files *)
  Theorem run_errors_in ts e :
    In e (all_errors (run ts)) <->
    exists i t, nth_error ts i = Some t /\ In e (all_errors (solo i t)).
  Proof. rewrite run_contribs. apply contribs_errors_in. Qed.

  (* a file's errors do not depend on its index *)
  Lemma solo_errors_index i j t : all_errors (solo i t) = all_errors (solo j t).
  Proof.
    unfold all_errors.
    destruct (file_cases t) as [m H1|c m H1 H2|c H1 H2 H3|c H1 H2 H3 H4|c m H1 H2 H3 H4
                               |c cs m H1 H2 H3 H4|c cs fmt m H1 H2 H3 H4 H5|c cs fmt bs H1 H2 H3 H4 H5].
    - rewrite !(solo_unreadable _ _ _ H1). auto.
    - rewrite !(solo_unparseable _ _ _ _ H1 H2). auto.
    - rewrite !(solo_generated _ _ _ H1 H2 H3). auto.
    - rewrite !(solo_nomatch _ _ _ H1 H2 H3 H4). auto.
    - rewrite !(solo_replace_err _ _ _ _ H1 H2 H3 H4). auto.
    - rewrite !(solo_format_err _ _ _ _ _ H1 H2 H3 H4). auto.
    - rewrite !(solo_reformat_err _ _ _ _ _ _ H1 H2 H3 H4 H5). auto.
    - rewrite !(solo_sunk _ _ _ _ _ _ H1 H2 H3 H4 H5). unfold Cli.sink.
      destruct (o_diff o); [|destruct (o_print o); [|destruct (t_write_err t)]]; simpl; auto.
  Qed.

  Lemma exit_status_zero r : exit_status r = 0%N <-> all_errors r = [].
  Proof. unfold exit_status. destruct (all_errors r); split; intro H; auto; discriminate. Qed.
End Facts.
