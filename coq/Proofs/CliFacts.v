(* Structure of the file loop: what one file contributes, and how the result
   of a run is assembled from the contributions. *)
From GP Require Import Bytes Generated Cli.
From Coq Require Import Lia Arith.
Local Open Scope nat_scope.

Section Facts.
  Variable parses : bytes -> option bytes.
  Variable header_of : bytes -> header.
  Variable engine : bytes -> outcome.
  Variable process : bytes -> bytes + bytes.
  Variable o : opts.

  Notation step := (step parses header_of engine process o).
  Notation run := (run parses header_of engine process o).
  Notation run_from := (run_from parses header_of engine process o).
  Notation sink := (sink o).

  (* what file [t], processed as number [i], does when the loop reaches it *)
  Definition solo (i : nat) (t : target) : result := step st0 (i, t).

  Definition add (r k : result) : result :=
    {| r_events := r_events r ++ r_events k;
       r_errors := r_errors r ++ r_errors k;
       r_runner_errors := r_runner_errors r ++ r_runner_errors k;
       r_abort := r_abort k |}.

  Definition readable (t : target) : bool :=
    match t_read t with inl _ => true | inr _ => false end.

  Lemma result_eq r1 r2 :
    r_events r1 = r_events r2 -> r_errors r1 = r_errors r2 ->
    r_runner_errors r1 = r_runner_errors r2 -> r_abort r1 = r_abort r2 -> r1 = r2.
  Proof. destruct r1, r2; simpl; intros; subst; reflexivity. Qed.

  Lemma step_aborted r it e : r_abort r = Some e -> step r it = r.
  Proof. intros H. destruct it as [i t]. unfold Cli.step. rewrite H. reflexivity. Qed.

  Lemma step_add r i t : r_abort r = None -> step r (i, t) = add r (solo i t).
  Proof.
    intros H. unfold solo, Cli.step. rewrite H. simpl.
    destruct (t_read t) as [content|m].
    2:{ apply result_eq; simpl; rewrite ?app_nil_r; auto. }
    destruct (parses content).
    { apply result_eq; simpl; rewrite ?app_nil_r; auto. }
    destruct (o_skip_generated o && check_generated_code (header_of content)).
    { apply result_eq; simpl; rewrite ?app_nil_r; auto. }
    destruct (engine content) as [|m|cs [fmt|m]].
    1-2,4: apply result_eq; simpl; rewrite ?app_nil_r; auto.
    destruct (if o_skip_imports o then _ else _) as [bs|m].
    2:{ apply result_eq; simpl; rewrite ?app_nil_r; auto. }
    destruct (Cli.sink o i t content bs cs) as [evs [m|]];
      apply result_eq; simpl; rewrite ?app_nil_r; auto.
  Qed.

  Lemma solo_abort i t : r_abort (solo i t) = None <-> readable t = true.
  Proof.
    unfold solo, Cli.step, readable. simpl.
    destruct (t_read t) as [content|m]; simpl; [|split; discriminate].
    split; [reflexivity|intros _].
    destruct (parses content); [reflexivity|].
    destruct (o_skip_generated o && _); [reflexivity|].
    destruct (engine content) as [|m|cs [fmt|m]]; try reflexivity.
    destruct (if o_skip_imports o then _ else _) as [bs|m]; [|reflexivity].
    destruct (Cli.sink o i t content bs cs) as [evs [m|]]; reflexivity.
  Qed.

  Lemma sink_tag i t content bs cs e :
    In e (fst (sink i t content bs cs)) -> ev_index e = i.
  Proof.
    unfold Cli.sink, descs.
    destruct (o_diff o); [|destruct (o_print o); [|destruct (t_write_err t)]]; simpl;
      rewrite ?in_app_iff, ?in_map_iff; simpl; intros H;
      repeat match goal with
             | H : _ \/ _ |- _ => destruct H
             | H : exists _, _ |- _ => destruct H as [? [? ?]]
             | H : False |- _ => destruct H
             end; subst; reflexivity.
  Qed.

  (* every event of a file's contribution carries that file's index *)
  Lemma solo_tag i t e : In e (r_events (solo i t)) -> ev_index e = i.
  Proof.
    unfold solo, Cli.step. simpl.
    destruct (t_read t) as [content|m]; simpl; [|tauto].
    destruct (parses content); simpl; [tauto|].
    destruct (o_skip_generated o && _); simpl; [intros [<-|[]]; reflexivity|].
    destruct (engine content) as [|m|cs [fmt|m]]; simpl.
    1-2: destruct (o_print o); simpl; intros H;
         repeat (destruct H as [<-|H]; [reflexivity|]); destruct H.
    2: intros [<-|[]]; reflexivity.
    destruct (if o_skip_imports o then _ else _) as [bs|m]; simpl; [|tauto].
    pose proof (sink_tag i t content bs cs) as Hs.
    destruct (Cli.sink o i t content bs cs) as [evs [m|]]; simpl in *;
      rewrite in_app_iff; simpl; intros [H|[<-|[]]]; auto.
  Qed.

  (* contributions of the files [n, n+1, ...] until the first unreadable one *)
  Fixpoint contribs (n : nat) (ts : list target) : result :=
    match ts with
    | [] => st0
    | t :: ts' => if readable t then add (solo n t) (contribs (S n) ts')
                  else solo n t
    end.

  Lemma add_assoc a b c : add (add a b) c = add a (add b c).
  Proof. apply result_eq; simpl; rewrite ?app_assoc; reflexivity. Qed.

  Lemma add_st0_r r : r_abort r = None -> add r st0 = r.
  Proof. intros H. apply result_eq; simpl; rewrite ?app_nil_r; auto. Qed.

  Lemma run_from_cons r n t ts : run_from r n (t :: ts) = run_from (step r (n, t)) (S n) ts.
  Proof. reflexivity. Qed.

  Lemma run_from_aborted r n ts e : r_abort r = Some e -> run_from r n ts = r.
  Proof.
    revert r n; induction ts as [|t ts IH]; intros r n H; [reflexivity|].
    rewrite run_from_cons, (step_aborted _ _ _ H). apply IH; exact H.
  Qed.

  Lemma run_from_contribs r n ts :
    r_abort r = None -> run_from r n ts = add r (contribs n ts).
  Proof.
    revert r n; induction ts as [|t ts IH]; intros r n H.
    - simpl. symmetry. apply add_st0_r. exact H.
    - rewrite run_from_cons, (step_add _ _ _ H). simpl. destruct (readable t) eqn:R.
      + rewrite IH; [apply add_assoc|]. simpl. apply solo_abort. exact R.
      + destruct (r_abort (solo n t)) as [e|] eqn:A.
        * eapply run_from_aborted. simpl. exact A.
        * apply solo_abort in A. congruence.
  Qed.

  Lemma run_contribs ts : run ts = contribs 0 ts.
  Proof.
    unfold Cli.run. rewrite run_from_contribs by reflexivity.
    apply result_eq; reflexivity.
  Qed.

  Lemma contribs_tag n ts e : In e (r_events (contribs n ts)) -> n <= ev_index e.
  Proof.
    revert n; induction ts as [|t ts IH]; intros n; simpl; [tauto|].
    destruct (readable t); simpl.
    - rewrite in_app_iff. intros [H|H].
      + apply solo_tag in H. lia.
      + apply IH in H. lia.
    - intros H. apply solo_tag in H. lia.
  Qed.

  Lemma filter_none {A} (f : A -> bool) l : (forall x, In x l -> f x = false) -> filter f l = [].
  Proof.
    induction l as [|x l IH]; simpl; intros H; [reflexivity|].
    rewrite (H x (or_introl eq_refl)). apply IH. intros y Hy. apply H. right. exact Hy.
  Qed.

  Lemma filter_all {A} (f : A -> bool) l : (forall x, In x l -> f x = true) -> filter f l = l.
  Proof.
    induction l as [|x l IH]; simpl; intros H; [reflexivity|].
    rewrite (H x (or_introl eq_refl)). f_equal. apply IH. intros y Hy. apply H. right. exact Hy.
  Qed.

  (* The events a run produces for its i-th file are exactly that file's own
     contribution, provided the loop gets that far. *)
  Lemma contribs_events_of n ts i t :
    nth_error ts i = Some t ->
    forallb readable (firstn i ts) = true ->
    filter (fun e => Nat.eqb (ev_index e) (n + i)) (r_events (contribs n ts))
    = r_events (solo (n + i) t).
  Proof.
    revert n i; induction ts as [|x ts IH]; intros n i Hn Hr; [destruct i; discriminate|].
    destruct i as [|i]; simpl in *.
    - inversion Hn; subst x. rewrite Nat.add_0_r.
      destruct (readable t); simpl.
      + rewrite filter_app, filter_all, filter_none, app_nil_r; [reflexivity| |].
        * intros e He. apply contribs_tag in He. apply Nat.eqb_neq. lia.
        * intros e He. apply solo_tag in He. apply Nat.eqb_eq. exact He.
      + apply filter_all. intros e He. apply solo_tag in He. apply Nat.eqb_eq. exact He.
    - apply andb_true_iff in Hr as [Hx Hr]. rewrite Hx. simpl.
      rewrite filter_app, filter_none, app_nil_l.
      + replace (n + S i) with (S n + i) by lia. apply IH; assumption.
      + intros e He. apply solo_tag in He. apply Nat.eqb_neq. lia.
  Qed.

  Theorem run_events_of ts i t :
    nth_error ts i = Some t ->
    forallb readable (firstn i ts) = true ->
    events_of i (run ts) = r_events (solo i t).
  Proof.
    intros Hn Hr. unfold events_of. rewrite run_contribs.
    apply (contribs_events_of 0 ts i t Hn Hr).
  Qed.

  (* a file after an unreadable one is not processed at all *)
  Lemma contribs_cut n ts i :
    forallb readable (firstn i ts) = false ->
    forall e, In e (r_events (contribs n ts)) -> ev_index e < n + i.
  Proof.
    revert n i; induction ts as [|x ts IH]; intros n i Hr e He.
    - destruct i; simpl in *; try discriminate; tauto.
    - destruct i as [|i]; [discriminate|]. simpl in *.
      destruct (readable x) eqn:R; simpl in *.
      + rewrite in_app_iff in He. destruct He as [He|He].
        * apply solo_tag in He. lia.
        * apply (IH (S n) i Hr) in He. lia.
      + apply solo_tag in He. lia.
  Qed.

  Theorem run_events_after_abort ts i :
    forallb readable (firstn i ts) = false -> events_of i (run ts) = [].
  Proof.
    intros Hr. unfold events_of. rewrite run_contribs. apply filter_none.
    intros e He. apply (contribs_cut 0 ts i Hr) in He. apply Nat.eqb_neq. lia.
  Qed.

  (* all events of a run come from some file's contribution *)
  Lemma contribs_events_in n ts e :
    In e (r_events (contribs n ts)) ->
    exists i t, nth_error ts i = Some t /\ In e (r_events (solo (n + i) t)).
  Proof.
    revert n; induction ts as [|x ts IH]; intros n; simpl; [tauto|].
    destruct (readable x); simpl.
    - rewrite in_app_iff. intros [H|H].
      + exists 0, x. rewrite Nat.add_0_r. auto.
      + apply IH in H as [i [t [H1 H2]]]. exists (S i), t. split; [exact H1|].
        replace (n + S i) with (S n + i) by lia. exact H2.
    - intros H. exists 0, x. rewrite Nat.add_0_r. auto.
  Qed.

  Theorem run_events_in ts e :
    In e (r_events (run ts)) ->
    exists i t, nth_error ts i = Some t /\ In e (r_events (solo i t)).
  Proof. rewrite run_contribs. apply contribs_events_in. Qed.

  Lemma contribs_errors_in n ts e :
    In e (all_errors (contribs n ts)) ->
    exists i t, nth_error ts i = Some t /\ In e (all_errors (solo (n + i) t)).
  Proof.
    revert n; induction ts as [|x ts IH]; intros n; simpl; [tauto|].
    destruct (readable x) eqn:R; simpl.
    - pose proof (proj2 (solo_abort n x) R) as A.
      unfold all_errors at 1. simpl.
      destruct (r_abort (contribs (S n) ts)) as [a|] eqn:A2.
      + intros [<-|[]].
        destruct (IH (S n)) as [i [t [H1 H2]]]; [unfold all_errors; rewrite A2; left; reflexivity|].
        exists (S i), t. split; [exact H1|].
        replace (n + S i) with (S n + i) by lia. exact H2.
      + rewrite !in_app_iff. intros H.
        assert (In e (all_errors (solo n x)) \/ In e (all_errors (contribs (S n) ts))) as [H'|H'].
        { unfold all_errors. rewrite A, A2, !in_app_iff. tauto. }
        * exists 0, x. rewrite Nat.add_0_r. auto.
        * apply IH in H' as [i [t [H1 H2]]]. exists (S i), t. split; [exact H1|].
          replace (n + S i) with (S n + i) by lia. exact H2.
    - intros H. exists 0, x. rewrite Nat.add_0_r. auto.
  Qed.
End Facts.
