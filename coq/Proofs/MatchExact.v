(* Completeness of the matcher for patterns without elisions, repeated metavariables included:
   if every occurrence of a metavariable stands for exactly the code the assignment gives it,
   the match succeeds and binds nothing else. *)
From GP Require Import Tree Meta Match ListMatch MatchFacts MatchComplete.
From Coq Require Import Lia Arith.

Section X.
  Variable mk : N -> option mkind.

  (* [InstX s p t]: t is an exact instance of the elision-free pattern p under s *)
  Inductive InstX (s : list (N * val)) : val -> val -> Prop :=
  | X_mv p name k t :
      mv_ident mk p = Some (name, k) -> kind_ok k t = true -> assoc name s = Some t -> InstX s p t
  | X_obj p t : is_obj_ptr p = true -> InstX s p t
  | X_ptr tp ps tq ts :
      mv_ident mk (Ptr tp ps) = None -> for_dots_pat (Ptr tp ps) = None -> is_obj_ptr (Ptr tp ps) = false ->
      InstX s ps ts -> InstX s (Ptr tp ps) (Ptr tq ts)
  | X_iface ti ps tj ts : InstX s ps ts -> InstX s (Iface ti ps) (Iface tj ts)
  | X_nil tp tq : InstX s (Nil tp) (Nil tq)
  | X_nil_empty tp tq : dots_capable tp = true -> InstX s (Nil tp) (Slice tq [])
  | X_nil_obj tp tq x : N.eqb tp T_P_ast_Object = true -> InstX s (Nil tp) (Ptr tq x)
  | X_pos b : InstX s (Pos b) (Pos b)
  | X_atom ta a : InstX s (Atom ta a) (Atom ta a)
  | X_struct sp ps ts : InstXF s ps ts -> InstX s (Struct sp ps) (Struct sp ts)
  | X_slice tp ps t ts :
      targets t = Some ts -> Forall (fun p => dots_item tp p = None) ps -> InstXF s ps ts -> InstX s (Slice tp ps) t
  with InstXF (s : list (N * val)) : list val -> list val -> Prop :=
  | XF_nil : InstXF s [] []
  | XF_cons p t ps ts : InstX s p t -> InstXF s ps ts -> InstXF s (p :: ps) (t :: ts).

  Scheme InstX_mut := Induction for InstX Sort Prop
    with InstXF_mut := Induction for InstXF Sort Prop.

  (* an exact instance is an instance *)
  Lemma InstX_Inst s : forall p t, InstX s p t -> Inst mk s p t.
  Proof.
    apply (InstX_mut s (fun p t _ => Inst mk s p t)
             (fun ps ts _ => InstF mk s ps ts /\ forall tp, Forall (fun p => dots_item tp p = None) ps -> InstL mk s tp ps ts)); intros.
    - eapply I_mv; eauto. apply eqvb_refl.
    - apply I_obj; assumption.
    - apply I_ptr; assumption.
    - apply I_iface; assumption.
    - apply I_nil.
    - apply I_nil_empty; assumption.
    - apply I_nil_obj; assumption.
    - apply I_pos.
    - apply I_atom.
    - apply I_struct. apply H.
    - eapply I_slice; [eassumption|]. apply H. assumption.
    - split; [apply IF_nil|intros; apply IL_nil].
    - destruct H0 as [HF HL]. split; [apply IF_cons; assumption|].
      intros tp Hd. inversion Hd; subst. apply IL_elem; [assumption|assumption|apply HL; assumption].
  Qed.

  (* the bindings made so far agree with the assignment *)
  Definition compat (d : data) (s : list (N * val)) : Prop :=
    forall x c, assoc x (d_mv d) = Some c -> assoc x s = Some c.

  Lemma compat_push name t d s : compat d s -> assoc name s = Some t -> compat (push_mv name t d) s.
  Proof.
    intros Hc Hs x c H. unfold push_mv in H. cbn [d_mv assoc] in H.
    destruct (N.eqb x name) eqn:E; [apply N.eqb_eq in E; subst; inversion H; subst; exact Hs|apply Hc; exact H].
  Qed.

  Theorem mtch_complete_exact s : forall p t, InstX s p t ->
    forall d, compat d s -> exists d', mtch mk p t d = Some d' /\ compat d' s.
  Proof.
    apply (InstX_mut s (fun p t _ => forall d, compat d s -> exists d', mtch mk p t d = Some d' /\ compat d' s)
             (fun ps ts _ => (forall d, compat d s -> exists d', mfields mk ps ts d = Some d' /\ compat d' s) /\
                             (forall tp, Forall (fun p => dots_item tp p = None) ps -> forall d, compat d s ->
                                exists d', ml val val data (dots_item tp) (mtch mk) push_dots ps ts d = Some d' /\ compat d' s)));
      intros.
    - (* metavariable *)
      rewrite (mtch_mv _ _ _ _ _ _ e). rewrite e0.
      destruct (assoc name (d_mv d)) as [c|] eqn:A.
      + apply H in A. rewrite e1 in A. inversion A; subst. rewrite eqvb_refl. eauto.
      + eexists. split; [reflexivity|]. apply compat_push; assumption.
    - destruct p as [| | | |tp ps| |]; simpl in e; try discriminate. rewrite mtch_obj by exact e. eauto.
    - simpl in e1. rewrite (mtch_ptr _ _ _ _ _ e e0 e1). apply H. assumption.
    - cbn [mtch]. apply H. assumption.
    - cbn [mtch]. eauto.
    - cbn [mtch]. rewrite e. eauto.
    - cbn [mtch]. rewrite e. eauto.
    - cbn [mtch]. rewrite Bool.eqb_reflx. eauto.
    - cbn [mtch]. rewrite !N.eqb_refl. simpl. eauto.
    - rewrite mtch_struct, N.eqb_refl. apply H. assumption.
    - rewrite mtch_slice, e. apply H; assumption.
    - split; [intros d Hc; cbn [mfields]; eauto|intros tp _ d Hc; cbn [ml]; eauto].
    - destruct H0 as [HF HL]. split.
      + intros d Hc. cbn [mfields]. destruct (H d Hc) as [d1 [E1 C1]]. rewrite E1. apply HF. exact C1.
      + intros tp Hd d Hc. inversion Hd; subst.
        rewrite (ml_elem val val data (dots_item tp) (mtch mk) push_dots) by assumption.
        destruct (H d Hc) as [d1 [E1 C1]]. rewrite E1. apply HL; assumption.
  Qed.

  (* from no bindings: the result binds only what the assignment says *)
  Corollary mtch_complete_exact_fresh s p t : InstX s p t ->
    exists d', mtch mk p t d0 = Some d' /\ compat d' s.
  Proof. intros H. apply (mtch_complete_exact s p t H d0). intros x c A. discriminate A. Qed.
End X.
