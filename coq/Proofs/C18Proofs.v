From GP Require Import Bytes Generated Cli GeneratedFacts CliFacts.
From Coq Require Import Lia Arith.
Local Open Scope nat_scope.

Definition set_skip_generated (o : opts) (b : bool) : opts :=
  {| o_diff := o_diff o; o_print := o_print o; o_skip_imports := o_skip_imports o;
     o_skip_generated := b; o_verbose := o_verbose o |}.

Section P.
  Variable parses : bytes -> option bytes.
  Variable header_of : bytes -> header.
  Variable engine : bytes -> outcome.
  Variable process : bytes -> bytes + bytes.

  Lemma skip_untouched o ts i t content :
    o_skip_generated o = true ->
    nth_error ts i = Some t -> t_read t = inl content -> parses content = None ->
    check_generated_code (header_of content) = true ->
    events_of i (run parses header_of engine process o ts) = [EvLog i (t_abs t) LGenSkipped]
    /\ all_errors (solo parses header_of engine process o i t) = [].
  Proof.
    intros Hf Hn Hr Hp Hg.
    assert (o_skip_generated o && check_generated_code (header_of content) = true) as H3
        by (rewrite Hf, Hg; reflexivity).
    rewrite (run_events_of _ _ _ _ _ ts i t Hn).
    rewrite (solo_generated _ _ _ _ _ _ _ _ Hr Hp H3). split; reflexivity.
  Qed.

  Lemma only_them o i t :
    (forall content, t_read t = inl content -> check_generated_code (header_of content) = false) ->
    solo parses header_of engine process o i t
    = solo parses header_of engine process (set_skip_generated o false) i t.
  Proof.
    intros H. unfold solo, step. simpl.
    destruct (t_read t) as [content|m]; [|reflexivity].
    rewrite (H content eq_refl), andb_false_r. reflexivity.
  Qed.

  Lemma contribs_ext o o' n ts :
    (forall i t, In t ts -> solo parses header_of engine process o i t
                            = solo parses header_of engine process o' i t) ->
    contribs parses header_of engine process o n ts
    = contribs parses header_of engine process o' n ts.
  Proof.
    revert n; induction ts as [|t ts IH]; intros n H; simpl; [reflexivity|].
    rewrite (H n t (or_introl eq_refl)), IH; [reflexivity|].
    intros i t' Hin. apply H. right. exact Hin.
  Qed.

  Lemma only_them_run o ts :
    (forall t content, In t ts -> t_read t = inl content ->
                       check_generated_code (header_of content) = false) ->
    run parses header_of engine process o ts
    = run parses header_of engine process (set_skip_generated o false) ts.
  Proof.
    intros H. rewrite !run_contribs. apply contribs_ext.
    intros i t Hin. apply only_them. intros c Hc. eapply H; eauto.
  Qed.
End P.

Lemma flag_off parses header_of header_of' engine process o ts :
  o_skip_generated o = false ->
  run parses header_of engine process o ts = run parses header_of' engine process o ts.
Proof.
  intros Hf. rewrite !run_contribs. generalize 0.
  induction ts as [|t ts IH]; intros n; simpl; [reflexivity|].
  assert (solo parses header_of engine process o n t = solo parses header_of' engine process o n t) as E.
  { unfold solo, step. simpl. rewrite Hf. reflexivity. }
  rewrite E, IH. reflexivity.
Qed.
