From GP Require Import Bytes.
From Coq Require Import Lia.

Lemma beq_eq a b : beq a b = true <-> a = b.
Proof.
  revert b; induction a as [|x a IH]; intros [|y b]; simpl; split; intro H;
    try reflexivity; try discriminate.
  - apply andb_true_iff in H as [H1 H2]. apply N.eqb_eq in H1. apply IH in H2. congruence.
  - inversion H; subst. rewrite N.eqb_refl. simpl. apply IH. reflexivity.
Qed.

Lemma beq_refl a : beq a a = true.
Proof. apply beq_eq; reflexivity. Qed.

Lemma cut_prefix_spec s p r : cut_prefix s p = Some r <-> s = p ++ r.
Proof.
  revert s; induction p as [|y p IH]; intros s; simpl.
  - split; intro H; [inversion H | subst]; reflexivity.
  - destruct s as [|x s]; [split; intro H; discriminate|].
    destruct (N.eqb_spec x y) as [->|Hne].
    + rewrite IH. split; intro H; [subst|inversion H]; reflexivity.
    + split; intro H; [discriminate|inversion H; contradiction].
Qed.

Lemma has_prefix_spec s p : has_prefix s p = true <-> exists r, s = p ++ r.
Proof.
  revert s; induction p as [|y p IH]; intros s; simpl.
  - split; [intros _; exists s; reflexivity | reflexivity].
  - destruct s as [|x s]; [split; [discriminate | intros [r H]; discriminate]|].
    rewrite andb_true_iff, N.eqb_eq, IH. split.
    + intros [-> [r ->]]. exists r; reflexivity.
    + intros [r H]. inversion H; subst. split; [reflexivity | exists r; reflexivity].
Qed.

Lemma cut_suffix_spec s p r : cut_suffix s p = Some r <-> s = r ++ p.
Proof.
  unfold cut_suffix. destruct (cut_prefix (rev s) (rev p)) as [q|] eqn:E.
  - apply cut_prefix_spec in E.
    assert (Hs : s = rev q ++ p).
    { rewrite <- (rev_involutive s), E, rev_app_distr, rev_involutive. reflexivity. }
    split; intro H.
    + inversion H; subst r. exact Hs.
    + f_equal. rewrite Hs in H. apply app_inv_tail in H. exact H.
  - split; [discriminate|]. intro H. subst s.
    rewrite rev_app_distr in E.
    assert (cut_prefix (rev p ++ rev r) (rev p) = Some (rev r)) as E' by (apply cut_prefix_spec; reflexivity).
    congruence.
Qed.

Lemma contains_spec s p : contains s p = true <-> exists a b, s = a ++ p ++ b.
Proof.
  induction s as [|x s IH]; simpl.
  - rewrite orb_false_r, has_prefix_spec. split.
    + intros [r H]. exists [], r. exact H.
    + intros [a [b H]]. destruct a; simpl in H.
      * exists b; exact H.
      * discriminate.
  - rewrite orb_true_iff, IH.
    change (N.eqb x ?y && has_prefix s ?q) with (has_prefix (x :: s) (y :: q)).
    split.
    + intros [H|[a [b H]]].
      * apply has_prefix_spec in H as [r H]. exists [], r. exact H.
      * exists (x :: a), b. simpl. congruence.
    + intros [a [b H]]. destruct a as [|x' a]; simpl in H.
      * left. apply has_prefix_spec. exists b. exact H.
      * right. inversion H. exists a, b. reflexivity.
Qed.

(* ---- split_lines ---- *)

Lemma split_lines_aux_nonempty cur s : split_lines_aux cur s <> [].
Proof.
  revert cur; induction s as [|c s IH]; intros cur; simpl; [discriminate|].
  destruct (N.eqb c NL); [discriminate | apply IH].
Qed.

Lemma join_split_aux cur s : join_lines (split_lines_aux cur s) = rev cur ++ s.
Proof.
  revert cur; induction s as [|c s IH]; intros cur; simpl.
  - reflexivity.
  - destruct (N.eqb_spec c NL) as [->|Hne].
    + specialize (IH []). simpl in IH.
      destruct (split_lines_aux [] s) as [|l ls] eqn:E; [exfalso; eapply split_lines_aux_nonempty; eauto|].
      simpl in *. rewrite <- IH. reflexivity.
    + rewrite IH. simpl. rewrite <- app_assoc. reflexivity.
Qed.

(* splitting and re-joining with "\n" is the identity: split_lines loses nothing *)
Lemma join_split s : join_lines (split_lines s) = s.
Proof. unfold split_lines. rewrite join_split_aux. reflexivity. Qed.

Lemma split_lines_aux_no_nl cur s line :
  ~ In NL cur -> In line (split_lines_aux cur s) -> ~ In NL line.
Proof.
  revert cur; induction s as [|c s IH]; intros cur Hc; simpl.
  - intros [<-|[]]. rewrite <- in_rev. exact Hc.
  - destruct (N.eqb_spec c NL) as [->|Hne].
    + intros [<-|H]; [rewrite <- in_rev; exact Hc|]. eapply IH; [|exact H]. intros [].
    + apply IH. intros [->|H]; [congruence | auto].
Qed.

Lemma split_lines_no_nl s line : In line (split_lines s) -> ~ In NL line.
Proof. apply split_lines_aux_no_nl. intros []. Qed.

Lemma split_lines_aux_sub cur s line :
  In line (split_lines_aux cur s) -> exists a b, rev cur ++ s = a ++ line ++ b.
Proof.
  revert cur; induction s as [|c s IH]; intros cur; simpl.
  - intros [<-|[]]. exists [], []. rewrite !app_nil_r. reflexivity.
  - destruct (N.eqb_spec c NL) as [->|Hne].
    + intros [<-|H].
      * exists [], (NL :: s). reflexivity.
      * apply IH in H as [a [b H]]. simpl in H. exists (rev cur ++ NL :: a), b.
        rewrite <- app_assoc. simpl. congruence.
    + intro H. apply IH in H as [a [b H]]. simpl in H. exists a, b.
      rewrite <- H, <- app_assoc. reflexivity.
Qed.

(* every line is a contiguous part of the text *)
Lemma split_lines_sub s line : In line (split_lines s) -> exists a b, s = a ++ line ++ b.
Proof. intro H. apply split_lines_aux_sub in H. exact H. Qed.
