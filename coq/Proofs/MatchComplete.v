(* Completeness of the matcher for linear patterns: if no metavariable occurs twice in the
   pattern (and none of them is bound yet), every instance of the pattern is accepted. *)
From GP Require Import Tree Meta Match ListMatch MatchFacts.
From Coq Require Import Lia Arith.

Section C.
  Variable mk : N -> option mkind.
  Notation Inst := (Inst mk).
  Notation InstF := (InstF mk).
  Notation InstL := (InstL mk).

  (* the metavariable occurrences of a pattern, with multiplicity *)
  Fixpoint mvs (p : val) : list N :=
    match p with
    | Ptr tp ps =>
        if N.eqb tp T_P_ast_Object then [] else
        match ps with
        | Struct _ [_; Atom _ name; _] =>
            match (if N.eqb tp T_P_ast_Ident then mk name else None) with
            | Some _ => [name]
            | None => mvs ps
            end
        | _ => mvs ps
        end
    | Iface _ ps => mvs ps
    | Struct _ ps => (fix go (l : list val) : list N := match l with [] => [] | x :: l' => mvs x ++ go l' end) ps
    | Slice _ ps => (fix go (l : list val) : list N := match l with [] => [] | x :: l' => mvs x ++ go l' end) ps
    | _ => []
    end.

  Definition mvsl (ps : list val) : list N := flat_map mvs ps.

  Lemma mvs_struct sp ps : mvs (Struct sp ps) = mvsl ps.
  Proof. unfold mvsl. cbn [mvs]. induction ps as [|x ps IH]; simpl; [reflexivity|]. rewrite IH. reflexivity. Qed.

  Lemma mvs_slice tp ps : mvs (Slice tp ps) = mvsl ps.
  Proof. unfold mvsl. cbn [mvs]. induction ps as [|x ps IH]; simpl; [reflexivity|]. rewrite IH. reflexivity. Qed.

  Lemma mvs_mv p name k : mv_ident mk p = Some (name, k) -> mvs p = [name].
  Proof.
    unfold mv_ident. intros H.
    destruct p as [| | | |tp ps| |]; try discriminate H.
    destruct ps as [| | |sp fs| | |]; try discriminate H.
    destruct fs as [|f0 [|f1 [|f2 [|f3 r]]]]; try discriminate H;
      destruct f1 as [| |ta nm| | | |]; try discriminate H.
    destruct (N.eqb tp T_P_ast_Ident) eqn:E; [|discriminate H].
    destruct (mk nm) as [k'|] eqn:M; [|discriminate H]. inversion H; subst.
    apply N.eqb_eq in E. subst tp. cbn [mvs].
    replace (N.eqb T_P_ast_Ident T_P_ast_Object) with false by reflexivity.
    rewrite N.eqb_refl, M. reflexivity.
  Qed.

  Lemma mvs_ptr tp ps : mv_ident mk (Ptr tp ps) = None -> N.eqb tp T_P_ast_Object = false ->
    mvs (Ptr tp ps) = mvs ps.
  Proof.
    unfold mv_ident. intros H E. cbn [mvs]. rewrite E.
    destruct ps as [| | |sp fs| | |]; try reflexivity.
    destruct fs as [|f0 [|f1 [|f2 [|f3 r]]]]; try reflexivity;
      destruct f1 as [| |ta nm| | | |]; try reflexivity.
    destruct (N.eqb tp T_P_ast_Ident); [|reflexivity]. destruct (mk nm); [discriminate H|reflexivity].
  Qed.


  Definition unb (x : N) (d : data) : Prop := assoc x (d_mv d) = None.

  (* matching binds nothing but the metavariables of the pattern *)
  Definition binds_at (p : val) : Prop :=
    forall t d d', mtch mk p t d = Some d' -> forall x, unb x d -> ~ In x (mvs p) -> unb x d'.

  Lemma mfields_binds ps : Forall binds_at ps ->
    forall ts d d', mfields mk ps ts d = Some d' -> forall x, unb x d -> ~ In x (mvsl ps) -> unb x d'.
  Proof.
    induction 1 as [|p ps Hp Hps IH]; intros [|t ts] d d' H x Hu Hn; cbn [mfields] in H; try discriminate.
    - inversion H; subst. exact Hu.
    - destruct (mtch mk p t d) as [d1|] eqn:E; [|discriminate].
      unfold mvsl in Hn. simpl in Hn. eapply IH; [exact H| |intros C; apply Hn, in_app_iff; right; exact C].
      eapply Hp; [exact E|exact Hu|intros C; apply Hn, in_app_iff; left; exact C].
  Qed.

  Lemma sol_binds tp ps : Forall binds_at ps ->
    forall ts d rs d', Sol val val data (dots_item tp) (mtch mk) push_dots ps ts d rs d' ->
    forall x, unb x d -> ~ In x (mvsl ps) -> unb x d'.
  Proof.
    intros Hall ts d rs d' H.
    induction H as [d|p ps t ts d d1 rs d2 Hd Hm Hs IH|p i ps run ts d rs d2 Hd Hs IH]; intros x Hu Hn.
    - exact Hu.
    - inversion Hall as [|? ? Hp Hps]; subst. unfold mvsl in Hn. simpl in Hn.
      apply (IH Hps); [|intros C; apply Hn, in_app_iff; right; exact C].
      eapply Hp; [exact Hm|exact Hu|intros C; apply Hn, in_app_iff; left; exact C].
    - inversion Hall as [|? ? Hp Hps]; subst. unfold mvsl in Hn. simpl in Hn.
      apply (IH Hps); [exact Hu|intros C; apply Hn, in_app_iff; right; exact C].
  Qed.

  Lemma for_dots_body_mvs tp ps i body : for_dots_pat (Ptr tp ps) = Some (i, body) ->
    forall x, In x (mvs body) -> In x (mvs (Ptr tp ps)).
  Proof.
    unfold for_dots_pat. intros FD x Hx.
    destruct ps as [| | |sp fs| | |]; try discriminate FD.
    destruct fs as [|f0 [|f1 [|f2 [|f3 [|f4 [|f5 r]]]]]]; try discriminate FD;
      destruct f1; try discriminate FD; destruct f2; try discriminate FD; destruct f3; try discriminate FD.
    destruct (N.eqb tp T_P_ast_ForStmt) eqn:E; [|discriminate FD]. destruct (is_dots f2); [|discriminate FD].
    inversion FD; subst. apply N.eqb_eq in E. subst tp. cbn [mvs].
    replace (N.eqb T_P_ast_ForStmt T_P_ast_Object) with false by reflexivity.
    apply in_app_iff. right. apply in_app_iff. right. apply in_app_iff. right. apply in_app_iff. right.
    apply in_app_iff. left. exact Hx.
  Qed.

  Lemma for_dots_mvs tp ps i body : for_dots_pat (Ptr tp ps) = Some (i, body) ->
    exists l1 l2, mvs (Ptr tp ps) = l1 ++ mvs body ++ l2.
  Proof.
    unfold for_dots_pat. intros FD.
    destruct ps as [| | |sp fs| | |]; try discriminate FD.
    destruct fs as [|f0 [|f1 [|f2 [|f3 [|f4 [|f5 r]]]]]]; try discriminate FD;
      destruct f1; try discriminate FD; destruct f2; try discriminate FD; destruct f3; try discriminate FD.
    destruct (N.eqb tp T_P_ast_ForStmt) eqn:E; [|discriminate FD]. destruct (is_dots f2); [|discriminate FD].
    inversion FD; subst. apply N.eqb_eq in E. subst tp. cbn [mvs].
    replace (N.eqb T_P_ast_ForStmt T_P_ast_Object) with false by reflexivity.
    exists (mvs f0 ++ [] ++ mvs f2 ++ []), []. rewrite <- !app_assoc. simpl. rewrite !app_nil_r. reflexivity.
  Qed.

  Lemma binds_n : forall k p, (vsize p <= k)%nat -> binds_at p.
  Proof.
    induction k as [|k IH]; intros p Hk; [destruct p; simpl in Hk; lia|].
    intros t d d' H x Hu Hn.
    destruct p as [tp|b|ta a|sp ps|tp ps|ti ps|tp ps].
    - cbn [mtch] in H. destruct t as [tq| | | |tq y| |tq [|y l]]; try discriminate.
      + inversion H; subst; exact Hu.
      + destruct (N.eqb tp T_P_ast_Object); [|discriminate]. inversion H; subst; exact Hu.
      + destruct (dots_capable tp); [|discriminate]. inversion H; subst; exact Hu.
    - cbn [mtch] in H. destruct t; try discriminate. destruct (Bool.eqb b valid); [|discriminate]. inversion H; subst; exact Hu.
    - cbn [mtch] in H. destruct t; try discriminate. destruct (N.eqb ta t && N.eqb a a0)%bool; [|discriminate]. inversion H; subst; exact Hu.
    - destruct t as [| | |st ts| | |]; try (cbn [mtch] in H; discriminate).
      rewrite mtch_struct in H. destruct (N.eqb sp st); [|discriminate]. rewrite mvs_struct in Hn.
      eapply (mfields_binds ps); [|exact H|exact Hu|exact Hn].
      apply Forall_forall. intros y Hy. apply IH. apply vsize_in in Hy. simpl in Hk. lia.
    - destruct (N.eqb tp T_P_ast_Object) eqn:EO.
      { rewrite mtch_obj in H by exact EO. inversion H; subst. exact Hu. }
      destruct (mv_ident mk (Ptr tp ps)) as [[name kd]|] eqn:MV.
      { rewrite (mtch_mv _ _ _ _ _ _ MV) in H. rewrite (mvs_mv _ _ _ MV) in Hn. destruct (kind_ok kd t); [|discriminate].
        destruct (assoc name (d_mv d)) as [c|].
        - destruct (eqvb c t); [|discriminate]. inversion H; subst. exact Hu.
        - inversion H; subst. unfold unb, push_mv. simpl. destruct (N.eqb x name) eqn:E; [|exact Hu].
          apply N.eqb_eq in E. subst. exfalso. apply Hn. left. reflexivity. }
      destruct (for_dots_pat (Ptr tp ps)) as [[i body]|] eqn:FD.
      { rewrite (mtch_for _ _ _ _ _ _ FD) in H.
        assert (binds_at body) as Hb.
        { apply IH. unfold for_dots_pat in FD.
          destruct ps as [| | |sp fs| | |]; try discriminate FD.
          destruct fs as [|f0 [|f1 [|f2 [|f3 [|f4 [|f5 r]]]]]]; try discriminate FD;
            destruct f1; try discriminate FD; destruct f2; try discriminate FD; destruct f3; try discriminate FD.
          destruct (N.eqb tp T_P_ast_ForStmt); [|discriminate FD]. destruct (is_dots f2); [|discriminate FD].
          inversion FD; subst. simpl in Hk. simpl. lia. }
        assert (~ In x (mvs body)) as Hnb by (intros C; apply Hn; eapply for_dots_body_mvs; eauto).
        destruct t as [| | | |tq y| |]; try discriminate. destruct y as [| | |st fs| | |]; try discriminate.
        destruct (N.eqb tq T_P_ast_ForStmt).
        - eapply Hb; [exact H|exact Hu|exact Hnb].
        - destruct (N.eqb tq T_P_ast_RangeStmt); [|discriminate]. eapply Hb; [exact H|exact Hu|exact Hnb]. }
      rewrite (mtch_ptr _ _ _ _ _ MV FD EO) in H. rewrite (mvs_ptr _ _ MV EO) in Hn.
      destruct t as [| | | |tq ts| |]; try discriminate.
      assert (binds_at ps) as Hp by (apply IH; simpl in Hk; lia). eapply Hp; eauto.
    - cbn [mtch] in H. destruct t as [| | | | |tj ts|]; try discriminate.
      assert (binds_at ps) as Hp by (apply IH; simpl in Hk; lia). cbn [mvs] in Hn. eapply Hp; eauto.
    - rewrite mtch_slice in H. destruct (targets t) as [ts|] eqn:T; [|discriminate]. rewrite mvs_slice in Hn.
      apply ml_sound in H as [rs Hs]. eapply (sol_binds tp ps); [|exact Hs|exact Hu|exact Hn].
      apply Forall_forall. intros y Hy. apply IH. apply vsize_in in Hy. simpl in Hk. lia.
  Qed.

  Lemma mtch_binds p t d d' x : mtch mk p t d = Some d' -> unb x d -> ~ In x (mvs p) -> unb x d'.
  Proof. intros H. exact (binds_n (vsize p) p (le_n _) t d d' H x). Qed.


  Definition complete_at (p : val) : Prop :=
    forall s t d, Inst s p t -> NoDup (mvs p) -> (forall x, In x (mvs p) -> unb x d) ->
    exists d', mtch mk p t d = Some d'.

  Lemma nodup_app_l {A} (l1 l2 : list A) : NoDup (l1 ++ l2) -> NoDup l1.
  Proof. induction l1 as [|a l1 IH]; simpl; intros H; [constructor|]. inversion H; subst. constructor; [intros C; apply H2, in_app_iff; auto|auto]. Qed.
  Lemma nodup_app_r {A} (l1 l2 : list A) : NoDup (l1 ++ l2) -> NoDup l2.
  Proof. induction l1 as [|a l1 IH]; simpl; intros H; [exact H|]. inversion H; subst. auto. Qed.
  Lemma nodup_app_disj {A} (l1 l2 : list A) x : NoDup (l1 ++ l2) -> In x l1 -> ~ In x l2.
  Proof.
    induction l1 as [|a l1 IH]; simpl; intros H Hin; [contradiction|]. inversion H; subst. destruct Hin as [E|Hin].
    - subst. intros C. apply H2, in_app_iff. auto.
    - apply IH; assumption.
  Qed.

  Lemma mfields_complete ps : Forall complete_at ps ->
    forall s ts d, InstF s ps ts -> NoDup (mvsl ps) -> (forall x, In x (mvsl ps) -> unb x d) ->
    exists d', mfields mk ps ts d = Some d'.
  Proof.
    intros Hall s ts d HI. revert d Hall.
    induction HI as [|p t ps ts Hp Hps IH]; intros d Hall ND HU; cbn [mfields]; [eauto|].
    inversion Hall as [|? ? Cp Cps]; subst. unfold mvsl in ND, HU. simpl in ND, HU.
    destruct (Cp s t d Hp (nodup_app_l _ _ ND)) as [d1 E]; [intros x Hx; apply HU, in_app_iff; auto|].
    rewrite E. apply IH; [exact Cps|exact (nodup_app_r _ _ ND)|].
    intros x Hx. eapply mtch_binds; [exact E|apply HU, in_app_iff; auto|].
    intros C. exact (nodup_app_disj _ _ x ND C Hx).
  Qed.

  Lemma instl_sol tp ps : Forall complete_at ps ->
    forall s ts d, InstL s tp ps ts -> NoDup (mvsl ps) -> (forall x, In x (mvsl ps) -> unb x d) ->
    exists rs d', Sol val val data (dots_item tp) (mtch mk) push_dots ps ts d rs d'.
  Proof.
    intros Hall s ts d HI. revert d Hall.
    induction HI as [tp|tp p t ps ts Hd Hp Hps IH|tp p i run ps ts Hd Hps IH]; intros d Hall ND HU.
    - exists [], d. constructor.
    - inversion Hall as [|? ? Cp Cps]; subst. unfold mvsl in ND, HU. simpl in ND, HU.
      destruct (Cp s t d Hp (nodup_app_l _ _ ND)) as [d1 E]; [intros x Hx; apply HU, in_app_iff; auto|].
      destruct (IH d1 Cps (nodup_app_r _ _ ND)) as [rs [d2 S2]].
      { intros x Hx. eapply mtch_binds; [exact E|apply HU, in_app_iff; auto|]. intros C. exact (nodup_app_disj _ _ x ND C Hx). }
      exists rs, d2. eapply S_elem; eauto.
    - inversion Hall as [|? ? Cp Cps]; subst. unfold mvsl in ND, HU. simpl in ND, HU.
      destruct (IH (push_dots i run d) Cps (nodup_app_r _ _ ND)) as [rs [d2 S2]].
      { intros x Hx. unfold unb, push_dots. simpl. apply HU, in_app_iff. auto. }
      exists (run :: rs), d2. eapply S_dots; eauto.
  Qed.

  Lemma complete_n : forall k p, (vsize p <= k)%nat -> complete_at p.
  Proof.
    induction k as [|k IH]; intros p Hk; [destruct p; simpl in Hk; lia|].
    intros s t d HI ND HU.
    destruct p as [tp|b|ta a|sp ps|tp ps|ti ps|tp ps].
    - (* Nil *)
      inversion HI; subst; try discriminate; cbn [mtch]; eauto.
      + match goal with H : dots_capable _ = true |- _ => rewrite H end. eauto.
      + match goal with H : N.eqb _ T_P_ast_Object = true |- _ => rewrite H end. eauto.
    - inversion HI; subst; try discriminate. cbn [mtch]. rewrite Bool.eqb_reflx. eauto.
    - inversion HI; subst; try discriminate. cbn [mtch]. rewrite !N.eqb_refl. simpl. eauto.
    - (* Struct *)
      inversion HI; subst; try discriminate.
      rewrite mtch_struct, N.eqb_refl. rewrite mvs_struct in ND, HU.
      eapply (mfields_complete ps); eauto.
      apply Forall_forall. intros y Hy. apply IH. apply vsize_in in Hy. simpl in Hk. lia.
    - (* Ptr *)
      inversion HI; subst.
      + (* metavariable *)
        match goal with H : mv_ident mk _ = Some _ |- _ => rename H into MV end.
        rewrite (mtch_mv _ _ _ _ _ _ MV). rewrite (mvs_mv _ _ _ MV) in HU.
        match goal with H : kind_ok _ _ = true |- _ => rewrite H end.
        rewrite (HU name (or_introl eq_refl)). eauto.
      + (* object *)
        match goal with H : is_obj_ptr _ = true |- _ => simpl in H; rewrite mtch_obj by exact H end. eauto.
      + (* for *)
        match goal with H : for_dots_pat _ = Some _ |- _ => rename H into FD end.
        rewrite (mtch_for _ _ _ _ _ _ FD).
        match goal with H : N.eqb _ T_P_ast_ForStmt = true |- _ => rewrite H end.
        assert (complete_at body) as Cb.
        { apply IH. unfold for_dots_pat in FD.
          destruct ps as [| | |sp fs0| | |]; try discriminate FD.
          destruct fs0 as [|f0 [|f1 [|f2 [|f3 [|f4 [|f5 r]]]]]]; try discriminate FD;
            destruct f1; try discriminate FD; destruct f2; try discriminate FD; destruct f3; try discriminate FD.
          destruct (N.eqb tp T_P_ast_ForStmt); [|discriminate FD]. destruct (is_dots f2); [|discriminate FD].
          inversion FD; subst. simpl in Hk. simpl. lia. }
        destruct (for_dots_mvs _ _ _ _ FD) as [l1 [l2 EM]]. rewrite EM in ND.
        apply (Cb s); [assumption|exact (nodup_app_l _ _ (nodup_app_r _ _ ND))|].
        intros x Hx. unfold unb, push_for. simpl. apply HU. eapply for_dots_body_mvs; eauto.
      + (* range *)
        match goal with H : for_dots_pat _ = Some _ |- _ => rename H into FD end.
        rewrite (mtch_for _ _ _ _ _ _ FD).
        match goal with H : N.eqb _ T_P_ast_ForStmt = false |- _ => rewrite H end.
        match goal with H : N.eqb _ T_P_ast_RangeStmt = true |- _ => rewrite H end.
        assert (complete_at body) as Cb.
        { apply IH. unfold for_dots_pat in FD.
          destruct ps as [| | |sp fs0| | |]; try discriminate FD.
          destruct fs0 as [|f0 [|f1 [|f2 [|f3 [|f4 [|f5 r]]]]]]; try discriminate FD;
            destruct f1; try discriminate FD; destruct f2; try discriminate FD; destruct f3; try discriminate FD.
          destruct (N.eqb tp T_P_ast_ForStmt); [|discriminate FD]. destruct (is_dots f2); [|discriminate FD].
          inversion FD; subst. simpl in Hk. simpl. lia. }
        destruct (for_dots_mvs _ _ _ _ FD) as [l1 [l2 EM]]. rewrite EM in ND.
        apply (Cb s); [assumption|exact (nodup_app_l _ _ (nodup_app_r _ _ ND))|].
        intros x Hx. unfold unb, push_for. simpl. apply HU. eapply for_dots_body_mvs; eauto.
      + (* ordinary pointer *)
        match goal with H : is_obj_ptr _ = false |- _ => simpl in H; rename H into EO end.
        match goal with H : mv_ident mk _ = None |- _ => rename H into MV end.
        match goal with H : for_dots_pat _ = None |- _ => rename H into FD end.
        rewrite (mtch_ptr _ _ _ _ _ MV FD EO). rewrite (mvs_ptr _ _ MV EO) in ND, HU.
        assert (complete_at ps) as Cp by (apply IH; simpl in Hk; lia). eapply Cp; eauto.
    - (* Iface *)
      inversion HI; subst; try discriminate. cbn [mtch]. cbn [mvs] in ND, HU.
      assert (complete_at ps) as Cp by (apply IH; simpl in Hk; lia). eapply Cp; eauto.
    - (* Slice *)
      inversion HI; subst; try discriminate.
      match goal with H : targets _ = Some _ |- _ => rename H into T end.
      rewrite mtch_slice, T. rewrite mvs_slice in ND, HU.
      assert (Forall complete_at ps) as Hall.
      { apply Forall_forall. intros y Hy. apply IH. apply vsize_in in Hy. simpl in Hk. lia. }
      match goal with H : InstL _ _ _ _ |- _ => destruct (instl_sol tp ps Hall _ _ d H ND HU) as [rs [d2 S2]] end.
      eapply ml_complete. exact S2.
  Qed.

  (* Completeness for linear patterns: every instance is accepted *)
  Theorem mtch_complete_linear p s t d :
    Inst s p t -> NoDup (mvs p) -> (forall x, In x (mvs p) -> unb x d) ->
    exists d', mtch mk p t d = Some d'.
  Proof. apply (complete_n (vsize p) p (le_n _)). Qed.
End C.
