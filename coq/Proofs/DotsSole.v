(* connectDots, the clause "the only '...' on each side": the '+' elision is tied to the last '-'
   elision that is not after it; when that is the only explicit one, to that one. *)
From GP Require Import Tree Meta Match Replace.
From Coq Require Import Lia.

Lemma dpos_le_total a b : dpos_le a b = true \/ dpos_le b a = true.
Proof.
  unfold dpos_le.
  destruct (N.ltb_spec (dp_line a) (dp_line b)); [left; reflexivity|].
  destruct (N.ltb_spec (dp_line b) (dp_line a)); [right; reflexivity|].
  assert (dp_line a = dp_line b) as E by lia. rewrite E, N.eqb_refl. cbn [orb andb].
  destruct (N.leb_spec (dp_col a) (dp_col b)); [left; reflexivity|].
  right. apply N.leb_le. lia.
Qed.

Lemma dpos_le_trans a b c : dpos_le a b = true -> dpos_le b c = true -> dpos_le a c = true.
Proof.
  unfold dpos_le. intros H1 H2.
  apply Bool.orb_true_iff in H1. apply Bool.orb_true_iff in H2. apply Bool.orb_true_iff.
  destruct H1 as [H1|H1], H2 as [H2|H2].
  - left. apply N.ltb_lt in H1. apply N.ltb_lt in H2. apply N.ltb_lt. lia.
  - left. apply N.ltb_lt in H1. apply Bool.andb_true_iff in H2. destruct H2 as [H2 _]. apply N.eqb_eq in H2. apply N.ltb_lt. lia.
  - left. apply N.ltb_lt in H2. apply Bool.andb_true_iff in H1. destruct H1 as [H1 _]. apply N.eqb_eq in H1. apply N.ltb_lt. lia.
  - right. apply Bool.andb_true_iff in H1. apply Bool.andb_true_iff in H2. destruct H1 as [E1 L1], H2 as [E2 L2].
    apply N.eqb_eq in E1. apply N.eqb_eq in E2. apply N.leb_le in L1. apply N.leb_le in L2.
    apply Bool.andb_true_iff. split; [apply N.eqb_eq; lia|apply N.leb_le; lia].
Qed.

Definition bstep (r : dpos) (best : option dpos) (l : dpos) : option dpos :=
  if dpos_le l r
  then match best with
       | Some b => if dpos_le b l then Some l else Some b
       | None => Some l
       end
  else best.

Lemma best_le_is_fold lhs r : best_le lhs r = fold_left (bstep r) lhs None.
Proof. reflexivity. Qed.

(* invariant of the fold: the accumulator is the greatest element seen so far that is not after r *)
Definition good (r : dpos) (seen : list dpos) (acc : option dpos) : Prop :=
  match acc with
  | Some b => In b seen /\ dpos_le b r = true /\ forall x, In x seen -> dpos_le x r = true -> dpos_le x b = true
  | None => forall x, In x seen -> dpos_le x r = false
  end.

Lemma fold_good r : forall l seen acc, good r seen acc -> good r (seen ++ l) (fold_left (bstep r) l acc).
Proof.
  induction l as [|x l IH]; intros seen acc G; cbn [fold_left].
  - rewrite app_nil_r. exact G.
  - replace (seen ++ x :: l) with ((seen ++ [x]) ++ l) by (rewrite <- app_assoc; reflexivity).
    apply IH. unfold bstep. destruct (dpos_le x r) eqn:Hx.
    + destruct acc as [b|]; cbn [good] in *.
      * destruct G as [Hin [Hb Hmax]]. destruct (dpos_le b x) eqn:Hbx.
        -- split; [apply in_or_app; right; left; reflexivity|]. split; [exact Hx|].
           intros y Hy Hyr. apply in_app_or in Hy. destruct Hy as [Hy|[<-|[]]].
           ++ apply dpos_le_trans with b; [apply Hmax; assumption|exact Hbx].
           ++ destruct (dpos_le_total x x) as [H|H]; exact H.
        -- split; [apply in_or_app; left; exact Hin|]. split; [exact Hb|].
           intros y Hy Hyr. apply in_app_or in Hy. destruct Hy as [Hy|[<-|[]]].
           ++ apply Hmax; assumption.
           ++ destruct (dpos_le_total b x) as [H|H]; [congruence|exact H].
      * split; [apply in_or_app; right; left; reflexivity|]. split; [exact Hx|].
        intros y Hy Hyr. apply in_app_or in Hy. destruct Hy as [Hy|[<-|[]]].
        -- rewrite (G y Hy) in Hyr. discriminate.
        -- destruct (dpos_le_total x x) as [H|H]; exact H.
    + destruct acc as [b|]; cbn [good] in *.
      * destruct G as [Hin [Hb Hmax]]. split; [apply in_or_app; left; exact Hin|]. split; [exact Hb|].
        intros y Hy Hyr. apply in_app_or in Hy. destruct Hy as [Hy|[<-|[]]]; [apply Hmax; assumption|congruence].
      * intros y Hy. apply in_app_or in Hy. destruct Hy as [Hy|[<-|[]]]; [apply G; exact Hy|exact Hx].
Qed.

Theorem best_le_spec lhs r :
  match best_le lhs r with
  | Some b => In b lhs /\ dpos_le b r = true /\ forall x, In x lhs -> dpos_le x r = true -> dpos_le x b = true
  | None => forall x, In x lhs -> dpos_le x r = false
  end.
Proof.
  rewrite best_le_is_fold. apply (fold_good r lhs [] None). intros x [].
Qed.

(* the last '-' elision not after r, alone at its place and not the implicit lead: that is what r is tied to *)
Theorem pick_last_before lead lhs l r :
  In l lhs -> dp_id l <> lead -> dpos_le l r = true ->
  (forall x, In x lhs -> dpos_le x r = true -> dpos_le x l = true) ->
  (forall x, In x lhs -> same_place x l = true -> x = l) ->
  pick lead lhs r = Some l.
Proof.
  intros Hin Hid Hlr Hmax Huniq. unfold pick.
  pose proof (best_le_spec lhs r) as S. destruct (best_le lhs r) as [b|].
  - destruct S as [Hb [Hbr Hbmax]].
    assert (b = l) as ->.
    { apply Huniq; [exact Hb|]. unfold same_place. rewrite (Hmax b Hb Hbr), (Hbmax l Hin Hlr). reflexivity. }
    apply N.eqb_neq in Hid. rewrite Hid. reflexivity.
  - rewrite (S l Hin) in Hlr. discriminate.
Qed.

(* a '+' elision before every explicit '-' elision: an error, never the statements in front of the patch *)
Theorem pick_before_all_explicit lead lhs r :
  (forall x, In x lhs -> dp_id x <> lead -> dpos_le x r = false) ->
  (forall x, In x lhs -> dp_id x = lead -> same_place x r = false) ->
  pick lead lhs r = None.
Proof.
  intros Hexp Hlead. unfold pick. pose proof (best_le_spec lhs r) as S. destruct (best_le lhs r) as [b|]; [|reflexivity].
  destruct S as [Hb [Hbr _]]. destruct (N.eqb (dp_id b) lead) eqn:E.
  - apply N.eqb_eq in E. rewrite (Hlead b Hb E). reflexivity.
  - apply N.eqb_neq in E. rewrite (Hexp b Hb E) in Hbr. discriminate.
Qed.
