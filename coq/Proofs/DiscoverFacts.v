From GP Require Import Bytes BytesFacts Discover.
From Coq Require Import Lia Arith Sorted Permutation.
Local Open Scope nat_scope.

(* ---- induction principle for the nested type ---- *)
Section NodeInd.
  Variable P : node -> Prop.
  Hypothesis HFile : P File.
  Hypothesis HSym : P Sym.
  Hypothesis HOther : P Other.
  Hypothesis HDir : forall es, Forall (fun e => P (snd e)) es -> P (Dir es).

  Fixpoint node_ind' (n : node) : P n :=
    match n with
    | File => HFile
    | Sym => HSym
    | Other => HOther
    | Dir es =>
        HDir es ((fix go (es : list (name * node)) : Forall (fun e => P (snd e)) es :=
                    match es with
                    | [] => Forall_nil _
                    | e :: es' => Forall_cons e (node_ind' (snd e)) (go es')
                    end) es)
    end.
End NodeInd.

(* the local fixpoint of [walk], named *)
Fixpoint entries (p : comps) (es : list (name * node)) : list comps :=
  match es with
  | [] => []
  | (x, c) :: es' => walk (p ++ [x]) c ++ entries p es'
  end.

Lemma walk_dir p es :
  walk p (Dir es) = if excluded (last_name p) then [] else entries p es.
Proof.
  simpl. destruct (excluded (last_name p)); [reflexivity|].
  induction es as [|[x c] es IH]; simpl; [reflexivity|]. rewrite IH. reflexivity.
Qed.

Lemma last_name_snoc p x : last_name (p ++ [x]) = x.
Proof. unfold last_name. apply last_last. Qed.

(* ---- what the walk reaches, declaratively ---- *)
(* [Reach nm n rest]: starting at node [n] whose own name is [nm], the relative path
   [rest] leads to a regular file with a .go name, through directories none of which
   (the starting one included) has an excluded name. *)
Inductive Reach : name -> node -> comps -> Prop :=
| RFile nm : go_name nm = true -> Reach nm File []
| RDir nm es x c rest :
    excluded nm = false -> In (x, c) es -> Reach x c rest -> Reach nm (Dir es) (x :: rest).

Lemma entries_in p es q :
  In q (entries p es) <-> exists x c, In (x, c) es /\ In q (walk (p ++ [x]) c).
Proof.
  induction es as [|[x c] es IH]; simpl.
  - split; [tauto|]. intros [x [c [[] _]]].
  - rewrite in_app_iff, IH. split.
    + intros [H|[y [d [H1 H2]]]]; [exists x, c; auto | exists y, d; auto].
    + intros [y [d [[H1|H1] H2]]]; [inversion H1; subst; auto | right; exists y, d; auto].
Qed.

Theorem walk_spec n : forall p q,
  In q (walk p n) <-> exists rest, q = p ++ rest /\ Reach (last_name p) n rest.
Proof.
  induction n as [| | |es IH] using node_ind'; intros p q.
  - simpl. destruct (go_name (last_name p)) eqn:G; simpl.
    + split.
      * intros [<-|[]]. exists []. rewrite app_nil_r. split; [reflexivity|constructor; exact G].
      * intros [rest [-> R]]. inversion R; subst. rewrite app_nil_r. left. reflexivity.
    + split; [tauto|]. intros [rest [_ R]]. inversion R; subst. congruence.
  - simpl. split; [tauto|]. intros [rest [_ R]]. inversion R.
  - simpl. split; [tauto|]. intros [rest [_ R]]. inversion R.
  - rewrite walk_dir. destruct (excluded (last_name p)) eqn:E.
    + split; [intros []|]. intros [rest [_ R]]. inversion R; subst. congruence.
    + rewrite entries_in. rewrite Forall_forall in IH. split.
      * intros [x [c [Hin Hq]]]. apply (IH (x, c) Hin) in Hq as [rest [-> R]].
        rewrite last_name_snoc in R. exists (x :: rest). rewrite <- app_assoc. split; [reflexivity|].
        econstructor; eauto.
      * intros [rest [-> R]]. inversion R; subst. exists x, c. split; [assumption|].
        apply (IH (x, c)); [assumption|]. exists rest0. rewrite <- app_assoc, last_name_snoc. auto.
Qed.

(* ---- each file at most once ---- *)
Fixpoint wf_node (n : node) : Prop :=
  match n with
  | Dir es => NoDup (map fst es) /\
              (fix all (es : list (name * node)) : Prop :=
                 match es with [] => True | e :: es' => wf_node (snd e) /\ all es' end) es
  | _ => True
  end.

Lemma wf_dir es : wf_node (Dir es) <-> NoDup (map fst es) /\ Forall (fun e => wf_node (snd e)) es.
Proof.
  simpl.
  assert ((fix all (es : list (name * node)) : Prop :=
             match es with [] => True | e :: es' => wf_node (snd e) /\ all es' end) es
          <-> Forall (fun e => wf_node (snd e)) es) as K.
  { induction es as [|e es IH]; [split; [constructor | exact (fun _ => I)]|].
    split.
    - intros [Ha Hb]. constructor; [exact Ha | apply IH; exact Hb].
    - intros H. inversion H; subst. split; [assumption | apply IH; assumption]. }
  rewrite K. tauto.
Qed.

Lemma walk_prefix n p q : In q (walk p n) -> exists rest, q = p ++ rest.
Proof. intros H. apply walk_spec in H as [rest [-> _]]. eauto. Qed.


Lemma NoDup_app {A} (l1 l2 : list A) :
  NoDup l1 -> NoDup l2 -> (forall x, In x l1 -> ~ In x l2) -> NoDup (l1 ++ l2).
Proof.
  induction l1 as [|a l1 IH]; simpl; intros H1 H2 H; [exact H2|].
  inversion H1; subst. constructor.
  - rewrite in_app_iff. intros [Hin|Hin]; [contradiction|]. apply (H a); auto.
  - apply IH; auto.
Qed.

Lemma app_snoc_inj (p : comps) x y r1 r2 :
  (p ++ [x]) ++ r1 = (p ++ [y]) ++ r2 -> x = y.
Proof.
  rewrite <- !app_assoc. intros H. apply app_inv_head in H. simpl in H. inversion H. reflexivity.
Qed.

Lemma entries_nodup p es :
  NoDup (map fst es) ->
  (forall e, In e es -> forall p', NoDup (walk p' (snd e))) ->
  NoDup (entries p es).
Proof.
  induction es as [|[x c] es IH]; simpl; intros Hn Hw; [constructor|].
  inversion Hn as [|? ? Hx Hn']; subst.
  apply NoDup_app.
  - apply (Hw (x, c)). left. reflexivity.
  - apply IH; [exact Hn'|]. intros e He. apply Hw. right. exact He.
  - intros q H1 H2. apply walk_prefix in H1 as [r1 ->].
    apply entries_in in H2 as [y [d [Hin H2]]]. apply walk_prefix in H2 as [r2 H2].
    apply app_snoc_inj in H2. subst y. apply Hx. apply in_map_iff. exists (x, d). auto.
Qed.

Theorem walk_nodup n : wf_node n -> forall p, NoDup (walk p n).
Proof.
  induction n as [| | |es IH] using node_ind'; intros Hwf p.
  - simpl. destruct (go_name (last_name p)); repeat constructor. intros [].
  - constructor.
  - constructor.
  - rewrite walk_dir. destruct (excluded (last_name p)); [constructor|].
    apply wf_dir in Hwf as [Hn Hall]. rewrite Forall_forall in IH, Hall.
    apply entries_nodup; [exact Hn|]. intros e He p'. apply IH; auto.
Qed.

(* ---- the map: one entry per absolute path ---- *)
Lemma comps_eqb_eq a b : comps_eqb a b = true <-> a = b.
Proof.
  revert b; induction a as [|x a IH]; intros [|y b]; simpl; split; intro H; try reflexivity; try discriminate.
  - apply andb_true_iff in H as [H1 H2]. apply beq_eq in H1. apply IH in H2. congruence.
  - inversion H; subst. rewrite beq_refl. simpl. apply IH. reflexivity.
Qed.

Lemma upsert_keys m f :
  forall k, In k (map f_abs (upsert m f)) <-> In k (map f_abs m) \/ k = f_abs f.
Proof.
  induction m as [|g m IH]; simpl; intros k.
  - split; [intros [H|[]]; auto | intros [[]|H]; auto].
  - destruct (comps_eqb (f_abs g) (f_abs f)) eqn:E; simpl.
    + apply comps_eqb_eq in E. rewrite E. split; [intros [H|H]; auto | intros [[H|H]|H]; auto].
    + rewrite IH. tauto.
Qed.

Lemma upsert_nodup m f : NoDup (map f_abs m) -> NoDup (map f_abs (upsert m f)).
Proof.
  induction m as [|g m IH]; simpl; intros H.
  - constructor; [intros []|constructor].
  - inversion H as [|? ? Hg Hm]; subst.
    destruct (comps_eqb (f_abs g) (f_abs f)) eqn:E; simpl.
    + apply comps_eqb_eq in E. rewrite <- E. constructor; assumption.
    + constructor; [|apply IH; exact Hm]. rewrite upsert_keys. intros [Hin|Heq]; [contradiction|].
      rewrite Heq in E. assert (comps_eqb (f_abs f) (f_abs f) = true) by (apply comps_eqb_eq; reflexivity).
      congruence.
Qed.

Lemma fold_upsert_keys fs : forall m k,
  In k (map f_abs (fold_left upsert fs m)) <-> In k (map f_abs m) \/ In k (map f_abs fs).
Proof.
  induction fs as [|f fs IH]; simpl; intros m k; [tauto|].
  rewrite IH, upsert_keys. split; intros H; intuition (subst; auto).
Qed.

Lemma fold_upsert_nodup fs : forall m, NoDup (map f_abs m) -> NoDup (map f_abs (fold_left upsert fs m)).
Proof. induction fs as [|f fs IH]; simpl; intros m H; [exact H|]. apply IH. apply upsert_nodup. exact H. Qed.

(* ---- sorting ---- *)
Lemma blt_irrefl a : blt a a = false.
Proof. induction a as [|x a IH]; simpl; [reflexivity|]. rewrite N.ltb_irrefl, N.eqb_refl, IH. reflexivity. Qed.

Lemma blt_asym a : forall b, blt a b = true -> blt b a = false.
Proof.
  induction a as [|x a IH]; intros [|y b]; simpl; intros H; try reflexivity; try discriminate.
  apply orb_true_iff in H as [H|H].
  - apply N.ltb_lt in H. apply orb_false_iff. split.
    + apply N.ltb_ge. apply N.lt_le_incl. exact H.
    + apply andb_false_iff. left. apply N.eqb_neq. intros ->. apply N.lt_irrefl in H. exact H.
  - apply andb_true_iff in H as [H1 H2]. apply N.eqb_eq in H1. subst y.
    rewrite N.ltb_irrefl, N.eqb_refl. simpl. apply IH. exact H2.
Qed.

Definition key (f : found) : bytes := abs_string (f_abs f).
Definition le_found (f g : found) : Prop := blt (key g) (key f) = false.

Lemma insert_perm f l : Permutation (insert_sorted f l) (f :: l).
Proof.
  induction l as [|g l IH]; simpl; [apply Permutation_refl|].
  destruct (blt _ _); [|apply Permutation_refl].
  eapply Permutation_trans; [apply perm_skip; exact IH|apply perm_swap].
Qed.

Lemma insert_sorted_sorted f l : Sorted le_found l -> Sorted le_found (insert_sorted f l).
Proof.
  induction l as [|g l IH]; simpl; intros H; [repeat constructor|].
  destruct (blt (abs_string (f_abs g)) (abs_string (f_abs f))) eqn:E.
  - inversion H as [|? ? Hs Hh]; subst. constructor; [apply IH; exact Hs|].
    destruct l as [|h l]; simpl.
    + constructor. unfold le_found, key. apply blt_asym. exact E.
    + destruct (blt (abs_string (f_abs h)) (abs_string (f_abs f))).
      * inversion Hh; subst. constructor. assumption.
      * constructor. unfold le_found, key. apply blt_asym. exact E.
  - constructor; [exact H|]. constructor. exact E.
Qed.

Lemma sort_found_sorted l : Sorted le_found (sort_found l).
Proof. induction l as [|f l IH]; simpl; [constructor|]. apply insert_sorted_sorted. exact IH. Qed.

Lemma sort_found_perm l : Permutation (sort_found l) l.
Proof.
  induction l as [|f l IH]; simpl; [constructor|].
  eapply Permutation_trans; [apply insert_perm|]. apply perm_skip. exact IH.
Qed.

(* ---- findFiles as a whole ---- *)
Definition ff_step root cwd (acc : list found * list bytes) (arg : bytes) :=
  match find_go_files root cwd arg with
  | None => (fst acc, snd acc ++ [arg])
  | Some fs => (fold_left upsert fs (fst acc), snd acc)
  end.

Lemma find_files_unfold root cwd args :
  find_files root cwd args =
  (sort_found (fst (fold_left (ff_step root cwd) args ([], []))),
   snd (fold_left (ff_step root cwd) args ([], []))).
Proof.
  unfold find_files. fold (ff_step root cwd).
  destruct (fold_left (ff_step root cwd) args ([], [])). reflexivity.
Qed.

Lemma ff_fold_nodup root cwd args : forall acc,
  NoDup (map f_abs (fst acc)) -> NoDup (map f_abs (fst (fold_left (ff_step root cwd) args acc))).
Proof.
  induction args as [|a args IH]; simpl; intros acc H; [exact H|].
  apply IH. unfold ff_step. destruct (find_go_files root cwd a); simpl; [|exact H].
  apply fold_upsert_nodup. exact H.
Qed.

Lemma ff_fold_keys root cwd args : forall acc k,
  In k (map f_abs (fst (fold_left (ff_step root cwd) args acc))) <->
  In k (map f_abs (fst acc)) \/
  exists a fs, In a args /\ find_go_files root cwd a = Some fs /\ In k (map f_abs fs).
Proof.
  induction args as [|a args IH]; simpl; intros acc k.
  - split; [auto|]. intros [H|[a [fs [[] _]]]]. exact H.
  - rewrite IH. unfold ff_step. destruct (find_go_files root cwd a) as [fs|] eqn:E; simpl.
    + rewrite fold_upsert_keys. split.
      * intros [[H|H]|[b [gs [H1 [H2 H3]]]]]; auto.
        -- right. exists a, fs. auto.
        -- right. exists b, gs. auto.
      * intros [H|[b [gs [[<-|H1] [H2 H3]]]]]; auto.
        -- rewrite E in H2. inversion H2; subst. auto.
        -- right. exists b, gs. auto.
    + split.
      * intros [H|[b [gs [H1 [H2 H3]]]]]; auto. right. exists b, gs. auto.
      * intros [H|[b [gs [[<-|H1] [H2 H3]]]]]; auto.
        -- congruence.
        -- right. exists b, gs. auto.
Qed.

Lemma find_go_files_keys root cwd arg fs k :
  find_go_files root cwd arg = Some fs ->
  (In k (map f_abs fs) <->
   exists p rel n, resolve cwd arg = (p, rel) /\ locate root p = Some n /\ In k (walk p n)).
Proof.
  unfold find_go_files. destruct (resolve cwd arg) as [p rel]. destruct (locate root p) as [n|] eqn:L; [|discriminate].
  intros H. inversion H; subst. rewrite map_map. simpl. rewrite map_id. split.
  - intros Hk. exists p, rel, n. repeat split; auto.
  - intros [p' [rel' [n' [H1 [H2 H3]]]]]. inversion H1; subst. congruence.
Qed.

(* the set of files findFiles returns *)
Theorem find_files_spec root cwd args q :
  In q (map f_abs (fst (find_files root cwd args))) <->
  exists arg p rel n rest,
    In arg args /\ resolve cwd arg = (p, rel) /\ locate root p = Some n /\
    q = p ++ rest /\ Reach (last_name p) n rest.
Proof.
  rewrite find_files_unfold. simpl.
  assert (In q (map f_abs (sort_found (fst (fold_left (ff_step root cwd) args ([], []))))) <->
          In q (map f_abs (fst (fold_left (ff_step root cwd) args ([], []))))) as ->.
  { split; apply Permutation_in, Permutation_map; [apply sort_found_perm | apply Permutation_sym, sort_found_perm]. }
  rewrite ff_fold_keys. simpl. split.
  - intros [[]|[a [fs [H1 [H2 H3]]]]].
    apply (find_go_files_keys _ _ _ _ _ H2) in H3 as [p [rel [n [R1 [R2 R3]]]]].
    apply walk_spec in R3 as [rest [-> R3]]. exists a, p, rel, n, rest. auto.
  - intros [a [p [rel [n [rest [H1 [H2 [H3 [-> H5]]]]]]]]]. right.
    destruct (find_go_files root cwd a) as [fs|] eqn:E.
    + exists a, fs. repeat split; auto. apply (find_go_files_keys _ _ _ _ _ E).
      exists p, rel, n. repeat split; auto. apply walk_spec. exists rest. auto.
    + unfold find_go_files in E. rewrite H2, H3 in E. discriminate.
Qed.

Theorem find_files_nodup root cwd args : NoDup (map f_abs (fst (find_files root cwd args))).
Proof.
  rewrite find_files_unfold. simpl.
  eapply Permutation_NoDup; [apply Permutation_map, Permutation_sym, sort_found_perm|].
  apply ff_fold_nodup. constructor.
Qed.

Theorem find_files_sorted root cwd args : Sorted le_found (fst (find_files root cwd args)).
Proof. rewrite find_files_unfold. simpl. apply sort_found_sorted. Qed.
