From GP Require Import Bytes.
From GP Require Import Loader.

Section F.
  Variable P : Type.
  Variable read : path -> option bytes.
  Variable compile : path -> bytes -> option P.
  Notation load_file := (load_file P read compile).
  Notation load_files := (load_files P read compile).
  Notation load_patches := (load_patches P read compile).

  (* every path loads: the programs come out in the order of the paths, after what was there *)
  Lemma load_files_ok stage : forall ps acc prs,
    Forall2 (fun p pr => load_file p = Some pr) ps prs -> load_files stage ps acc = LOk (acc ++ prs).
  Proof.
    induction ps as [|p ps IH]; intros acc prs H; inversion H; subst; cbn [Loader.load_files].
    - rewrite app_nil_r. reflexivity.
    - match goal with H : load_file p = Some _ |- _ => rewrite H end.
      rewrite (IH _ _ ltac:(eassumption)). rewrite <- app_assoc. reflexivity.
  Qed.

  (* the first path that does not load is the one reported, and nothing after it is looked at *)
  Lemma load_files_err stage : forall ps1 p ps2 acc prs,
    Forall2 (fun q pr => load_file q = Some pr) ps1 prs -> load_file p = None ->
    load_files stage (ps1 ++ p :: ps2) acc = LErr stage p.
  Proof.
    induction ps1 as [|q ps1 IH]; intros p ps2 acc prs H Hp; inversion H; subst; cbn [Loader.load_files app].
    - rewrite Hp. reflexivity.
    - match goal with H : load_file q = Some _ |- _ => rewrite H end. eapply IH; eauto.
  Qed.

  (* -p files in the order given, then the files the -P list names in the order of its lines;
     a file named twice is loaded twice; standard input is not read *)
  Theorem load_order patches lp content stdin prs1 prs2 :
    read lp = Some content ->
    Forall2 (fun p pr => load_file p = Some pr) patches prs1 ->
    Forall2 (fun p pr => load_file p = Some pr) (listed content) prs2 ->
    load_patches patches (Some lp) stdin = LOk (prs1 ++ prs2).
  Proof.
    intros Hr H1 H2. unfold Loader.load_patches.
    assert (match patches, Some lp with [], None => match compile STDIN_NAME stdin with Some pr => LOk [pr] | None => LErr 0 STDIN_NAME end
            | _, _ => LOk [] end = @LOk P []) as -> by (destruct patches; reflexivity).
    rewrite (load_files_ok 1 patches [] prs1 H1). cbn [app]. rewrite Hr.
    exact (load_files_ok 3 (listed content) prs1 prs2 H2).
  Qed.

  Theorem load_order_no_list patches stdin prs : patches <> [] ->
    Forall2 (fun p pr => load_file p = Some pr) patches prs ->
    load_patches patches None stdin = LOk prs.
  Proof.
    intros Hne H. unfold Loader.load_patches. destruct patches as [|p ps]; [contradiction|].
    rewrite (load_files_ok 1 (p :: ps) [] prs H). reflexivity.
  Qed.

  (* standard input is the patch exactly when neither -p nor -P is given *)
  Theorem load_stdin stdin pr : compile STDIN_NAME stdin = Some pr -> load_patches [] None stdin = LOk [pr].
  Proof. intros H. unfold Loader.load_patches. rewrite H. reflexivity. Qed.

  Theorem stdin_ignored patches plist s1 s2 : (patches <> [] \/ plist <> None) ->
    load_patches patches plist s1 = load_patches patches plist s2.
  Proof.
    intros H. unfold Loader.load_patches. destruct patches as [|p ps]; destruct plist as [lp|]; try reflexivity.
    destruct H as [H|H]; contradiction.
  Qed.

  (* the first file that cannot be read or compiled ends the loading and is the one named *)
  Theorem load_first_failure_p ps1 p ps2 plist stdin prs :
    Forall2 (fun q pr => load_file q = Some pr) ps1 prs -> load_file p = None ->
    load_patches (ps1 ++ p :: ps2) plist stdin = LErr 1 p.
  Proof.
    intros H Hp. unfold Loader.load_patches.
    assert (match ps1 ++ p :: ps2, plist with [], None => match compile STDIN_NAME stdin with Some pr => LOk [pr] | None => LErr 0 STDIN_NAME end
            | _, _ => LOk [] end = @LOk P []) as -> by (destruct ps1; reflexivity).
    rewrite (load_files_err 1 ps1 p ps2 [] prs H Hp). reflexivity.
  Qed.
End F.

(* the list file: a line is a path; blank lines are skipped; CRLF line ends and a missing final newline are fine *)
Example listed_ex :
  listed [97; 10; 10; 98; 47; 99; 13; 10; 97]%N = [[97]; [98; 47; 99]; [97]]%N.      (* "a\n\nb/c\r\na" *)
Proof. vm_compute. reflexivity. Qed.
