(* Proofs of the driver properties that are invariants of the file loop
   (C06, C07, C12, C14, C16).  Statements are repeated in Properties/*.v. *)
From GP Require Import Bytes Generated Cli CliFacts.
From Coq Require Import Lia Arith.
Local Open Scope nat_scope.

Definition set_mode (o : opts) (d p : bool) : opts :=
  {| o_diff := d; o_print := p; o_skip_imports := o_skip_imports o;
     o_skip_generated := o_skip_generated o; o_verbose := o_verbose o |}.
Definition as_write o := set_mode o false false.
Definition as_print o := set_mode o false true.
Definition as_diff o := set_mode o true false.

Definition emitted_list (r : result) : list bytes :=
  flat_map (fun e => match emitted e with Some b => [b] | None => [] end) (r_events r).

Definition retag (j : nat) (e : event) : event :=
  match e with
  | EvLog _ p l => EvLog j p l
  | EvOut _ b bs => EvOut j b bs
  | EvDiff _ p a b => EvDiff j p a b
  | EvDesc _ p c => EvDesc j p c
  | EvWrite _ p bs f => EvWrite j p bs f
  end.

Definition err_path (e : err) : path :=
  match e with
  | ErrRead p _ | ErrParse p _ | ErrUpdate p _ | ErrRewrite p _ | ErrReformat p _ | ErrWrite p _ => p
  end.

Section P.
  Variable parses : bytes -> option bytes.
  Variable header_of : bytes -> header.
  Variable engine : bytes -> outcome.
  Variable process : bytes -> bytes + bytes.

  Notation run := (run parses header_of engine process).
  Notation solo := (solo parses header_of engine process).
  Notation finalize := (finalize parses process).
  Notation file_cases := (file_cases parses header_of engine process).

  Ltac cases o t :=
    destruct (file_cases o t) as [m H1|c m H1 H2|c H1 H2 H3|c H1 H2 H3 H4|c m H1 H2 H3 H4
                                 |c cs m H1 H2 H3 H4|c cs fmt m H1 H2 H3 H4 H5|c cs fmt bs H1 H2 H3 H4 H5].

  (* ------------------------------------------------------------ C06 *)
  Lemma no_match_exact o ts i t c :
    nth_error ts i = Some t -> t_read t = inl c -> parses c = None -> engine c = NoMatch ->
    o_skip_generated o && check_generated_code (header_of c) = false ->
    events_of i (run o ts)
    = (if o_print o then [EvOut i true c] else []) ++ [EvLog i (t_abs t) LSkipped]
    /\ all_errors (solo o i t) = [].
  Proof.
    intros Hn H1 H2 H4 H3. rewrite (run_events_of _ _ _ _ _ ts i t Hn).
    rewrite (solo_nomatch _ _ _ _ _ _ _ _ H1 H2 H3 H4). split; reflexivity.
  Qed.

  Lemma no_match_no_effect o ts i t c :
    nth_error ts i = Some t -> t_read t = inl c -> parses c = None -> engine c = NoMatch ->
    (forall e, In e (events_of i (run o ts)) ->
       e = EvLog i (t_abs t) LSkipped \/ e = EvLog i (t_abs t) LGenSkipped \/
       (o_print o = true /\ e = EvOut i true c))
    /\ all_errors (solo o i t) = [].
  Proof.
    intros Hn H1 H2 H4. rewrite (run_events_of _ _ _ _ _ ts i t Hn).
    destruct (o_skip_generated o && check_generated_code (header_of c)) eqn:H3.
    - rewrite (solo_generated _ _ _ _ _ _ _ _ H1 H2 H3). split; [|reflexivity].
      intros e [<-|[]]. auto.
    - rewrite (solo_nomatch _ _ _ _ _ _ _ _ H1 H2 H3 H4). split; [|reflexivity].
      unfold echo. simpl. destruct (o_print o); simpl; intros e He;
        repeat (destruct He as [<-|He]; auto); destruct He.
  Qed.

  Lemma all_nomatch o ts :
    (forall t, In t ts -> exists c, t_read t = inl c /\ parses c = None /\ engine c = NoMatch) ->
    exit_status (run o ts) = 0%N /\
    (forall e, In e (r_events (run o ts)) -> is_write e = false /\ emitted e = None).
  Proof.
    intros H. split.
    - apply exit_status_zero. destruct (all_errors (run o ts)) as [|e l] eqn:E; [reflexivity|].
      assert (In e (all_errors (run o ts))) as He by (rewrite E; left; reflexivity).
      apply run_errors_in in He as [i [t [Hn He]]].
      destruct (H t (nth_error_In _ _ Hn)) as [c [H1 [H2 H4]]].
      destruct (no_match_no_effect o ts i t c Hn H1 H2 H4) as [_ Hz]. rewrite Hz in He. destruct He.
    - intros e He. apply run_events_in in He as [i [t [Hn He]]].
      destruct (H t (nth_error_In _ _ Hn)) as [c [H1 [H2 H4]]].
      destruct (no_match_no_effect o ts i t c Hn H1 H2 H4) as [Hz _].
      rewrite (run_events_of _ _ _ _ _ ts i t Hn) in Hz.
      destruct (Hz e He) as [->|[->|[_ ->]]]; split; reflexivity.
  Qed.

  Lemma api_identity src : parses src = None -> engine src = NoMatch ->
    api_apply parses engine process src = inl src.
  Proof. intros H1 H2. unfold api_apply. rewrite H1, H2. reflexivity. Qed.

  (* ------------------------------------------------------------ C12 *)
  Lemma sink_no_write o i t c bs cs e :
    o_diff o || o_print o = true -> In e (fst (sink o i t c bs cs)) -> is_write e = false.
  Proof.
    unfold sink, descs. intros Hm.
    destruct (o_diff o); [|destruct (o_print o); [|discriminate]]; simpl;
      rewrite in_app_iff, in_map_iff; simpl; intros [[d [<- _]]|[<-|[]]]; reflexivity.
  Qed.

  Lemma solo_no_write o i t e :
    o_diff o || o_print o = true -> In e (r_events (solo o i t)) -> is_write e = false.
  Proof.
    intros Hm. cases o t.
    - rewrite (solo_unreadable _ _ _ _ _ _ _ _ H1). intros [].
    - rewrite (solo_unparseable _ _ _ _ _ _ _ _ _ H1 H2). intros [].
    - rewrite (solo_generated _ _ _ _ _ _ _ _ H1 H2 H3). intros [<-|[]]. reflexivity.
    - rewrite (solo_nomatch _ _ _ _ _ _ _ _ H1 H2 H3 H4). unfold echo. simpl.
      destruct (o_print o); simpl; intros H; repeat (destruct H as [<-|H]; [reflexivity|]); destruct H.
    - rewrite (solo_replace_err _ _ _ _ _ _ _ _ _ H1 H2 H3 H4). unfold echo. simpl.
      destruct (o_print o); simpl; intros H; repeat (destruct H as [<-|H]; [reflexivity|]); destruct H.
    - rewrite (solo_format_err _ _ _ _ _ _ _ _ _ _ H1 H2 H3 H4). intros [<-|[]]. reflexivity.
    - rewrite (solo_reformat_err _ _ _ _ _ _ _ _ _ _ _ H1 H2 H3 H4 H5). intros [].
    - rewrite (solo_sunk _ _ _ _ _ _ _ _ _ _ _ H1 H2 H3 H4 H5).
      pose proof (sink_no_write o i t c bs cs e Hm) as Hs.
      destruct (sink o i t c bs cs) as [evs [m|]]; simpl in *;
        rewrite in_app_iff; simpl; intros [H|[<-|[]]]; auto.
  Qed.

  Lemma dry_run_no_write o ts e :
    o_diff o || o_print o = true -> In e (r_events (run o ts)) -> is_write e = false.
  Proof.
    intros Hm He. apply run_events_in in He as [i [t [_ He]]]. eapply solo_no_write; eauto.
  Qed.

  Lemma flat_map_nil {A B} (f : A -> list B) l :
    (forall x, In x l -> f x = []) -> flat_map f l = [].
  Proof.
    induction l as [|x l IH]; simpl; intros H; [reflexivity|].
    rewrite (H x (or_introl eq_refl)), IH; [reflexivity|]. intros y Hy. apply H. right. exact Hy.
  Qed.

  Lemma emitted_descs i p cs :
    flat_map (fun e => match emitted e with Some b => [b] | None => [] end) (descs i p cs) = [].
  Proof. apply flat_map_nil. unfold descs. intros e He. apply in_map_iff in He as [d [<- _]]. reflexivity. Qed.

  (* what a file emits as its new content, in any mode: the final bytes, once, iff it got as
     far as the sink *)
  Lemma emitted_solo o i t :
    emitted_list (solo o i t) =
      match t_read t with
      | inl c =>
        match parses c with
        | None =>
          if o_skip_generated o && check_generated_code (header_of c) then []
          else match engine c with
               | Matched cs (inl fmt) =>
                   match finalize o fmt with inl bs => [bs] | inr _ => [] end
               | _ => []
               end
        | Some _ => []
        end
      | inr _ => []
      end.
  Proof.
    unfold emitted_list. cases o t.
    - rewrite (solo_unreadable _ _ _ _ _ _ _ _ H1), H1. reflexivity.
    - rewrite (solo_unparseable _ _ _ _ _ _ _ _ _ H1 H2), H1, H2. reflexivity.
    - rewrite (solo_generated _ _ _ _ _ _ _ _ H1 H2 H3), H1, H2, H3. reflexivity.
    - rewrite (solo_nomatch _ _ _ _ _ _ _ _ H1 H2 H3 H4), H1, H2, H3, H4. unfold echo.
      destruct (o_print o); reflexivity.
    - rewrite (solo_replace_err _ _ _ _ _ _ _ _ _ H1 H2 H3 H4), H1, H2, H3, H4. unfold echo.
      destruct (o_print o); reflexivity.
    - rewrite (solo_format_err _ _ _ _ _ _ _ _ _ _ H1 H2 H3 H4), H1, H2, H3, H4. reflexivity.
    - rewrite (solo_reformat_err _ _ _ _ _ _ _ _ _ _ _ H1 H2 H3 H4 H5), H1, H2, H3, H4, H5. reflexivity.
    - rewrite (solo_sunk _ _ _ _ _ _ _ _ _ _ _ H1 H2 H3 H4 H5), H1, H2, H3, H4, H5.
      unfold sink.
      destruct (o_diff o); [|destruct (o_print o); [|destruct (t_write_err t)]]; simpl;
        rewrite ?flat_map_app, ?emitted_descs; reflexivity.
  Qed.

  Lemma modes_agree o i t :
    emitted_list (solo (as_write o) i t) = emitted_list (solo (as_print o) i t) /\
    emitted_list (solo (as_write o) i t) = emitted_list (solo (as_diff o) i t).
  Proof. rewrite !emitted_solo. split; reflexivity. Qed.

  Lemma diff_old_is_content o ts j p old new :
    In (EvDiff j p old new) (r_events (run o ts)) ->
    exists t, nth_error ts j = Some t /\ p = t_provided t /\ t_read t = inl old.
  Proof.
    intros He. apply run_events_in in He as [i [t [Hn He]]].
    assert (i = j) as -> by (apply solo_tag in He; simpl in He; auto).
    exists t. split; [exact Hn|]. revert He. cases o t.
    - rewrite (solo_unreadable _ _ _ _ _ _ _ _ H1). intros [].
    - rewrite (solo_unparseable _ _ _ _ _ _ _ _ _ H1 H2). intros [].
    - rewrite (solo_generated _ _ _ _ _ _ _ _ H1 H2 H3). intros [H|[]]. discriminate.
    - rewrite (solo_nomatch _ _ _ _ _ _ _ _ H1 H2 H3 H4). unfold echo. simpl.
      destruct (o_print o); simpl; intros H; repeat (destruct H as [H|H]; [discriminate|]); destruct H.
    - rewrite (solo_replace_err _ _ _ _ _ _ _ _ _ H1 H2 H3 H4). unfold echo. simpl.
      destruct (o_print o); simpl; intros H; repeat (destruct H as [H|H]; [discriminate|]); destruct H.
    - rewrite (solo_format_err _ _ _ _ _ _ _ _ _ _ H1 H2 H3 H4). intros [H|[]]. discriminate.
    - rewrite (solo_reformat_err _ _ _ _ _ _ _ _ _ _ _ H1 H2 H3 H4 H5). intros [].
    - rewrite (solo_sunk _ _ _ _ _ _ _ _ _ _ _ H1 H2 H3 H4 H5). unfold sink, descs.
      destruct (o_diff o); [|destruct (o_print o); [|destruct (t_write_err t)]]; simpl;
        rewrite ?in_app_iff, ?in_map_iff; simpl; intros H;
        repeat match goal with
               | H : _ \/ _ |- _ => destruct H
               | H : exists _, _ |- _ => destruct H as [? [? ?]]
               | H : False |- _ => destruct H
               | H : _ = EvDiff _ _ _ _ |- _ => inversion H; clear H; subst
               end; auto.
  Qed.

  Lemma descriptions o ts j p d :
    In (EvDesc j p d) (r_events (run o ts)) ->
    o_diff o || o_print o = true /\
    exists t c cs fmt, nth_error ts j = Some t /\ p = t_provided t /\ t_read t = inl c /\
                       engine c = Matched cs (inl fmt) /\ In d cs.
  Proof.
    intros He. apply run_events_in in He as [i [t [Hn He]]].
    assert (i = j) as -> by (apply solo_tag in He; simpl in He; auto).
    revert He. cases o t.
    - rewrite (solo_unreadable _ _ _ _ _ _ _ _ H1). intros [].
    - rewrite (solo_unparseable _ _ _ _ _ _ _ _ _ H1 H2). intros [].
    - rewrite (solo_generated _ _ _ _ _ _ _ _ H1 H2 H3). intros [H|[]]. discriminate.
    - rewrite (solo_nomatch _ _ _ _ _ _ _ _ H1 H2 H3 H4). unfold echo. simpl.
      destruct (o_print o); simpl; intros H; repeat (destruct H as [H|H]; [discriminate|]); destruct H.
    - rewrite (solo_replace_err _ _ _ _ _ _ _ _ _ H1 H2 H3 H4). unfold echo. simpl.
      destruct (o_print o); simpl; intros H; repeat (destruct H as [H|H]; [discriminate|]); destruct H.
    - rewrite (solo_format_err _ _ _ _ _ _ _ _ _ _ H1 H2 H3 H4). intros [H|[]]. discriminate.
    - rewrite (solo_reformat_err _ _ _ _ _ _ _ _ _ _ _ H1 H2 H3 H4 H5). intros [].
    - rewrite (solo_sunk _ _ _ _ _ _ _ _ _ _ _ H1 H2 H3 H4 H5). unfold sink, descs.
      assert (forall P : Prop, P -> P /\ exists t0 c0 cs0 fmt0, nth_error ts j = Some t0 /\
                 t_provided t = t_provided t0 /\ t_read t0 = inl c0 /\
                 engine c0 = Matched cs0 (inl fmt0) /\ (In d cs -> In d cs0)) as K.
      { intros P HP. split; [exact HP|]. exists t, c, cs, fmt. auto. }
      destruct (o_diff o) eqn:D; [|destruct (o_print o) eqn:Pr; [|destruct (t_write_err t)]]; simpl;
        rewrite ?in_app_iff, ?in_map_iff; simpl; intros H;
        repeat match goal with
               | H : _ \/ _ |- _ => destruct H
               | H : exists _, _ |- _ => destruct H as [? [? ?]]
               | H : False |- _ => destruct H
               | H : _ = EvDesc _ _ _ |- _ => inversion H; clear H; subst
               end;
        (destruct (K True I) as [_ [t0 [c0 [cs0 [fmt0 [A [B [C [E F]]]]]]]]];
         split; [reflexivity|]; exists t0, c0, cs0, fmt0; repeat split; auto).
  Qed.

  Lemma api_agrees o i t c :
    o_skip_imports o = false -> t_read t = inl c -> parses c = None ->
    o_skip_generated o && check_generated_code (header_of c) = false ->
    forall bs,
      (emitted_list (solo o i t) = [bs] -> api_apply parses engine process c = inl bs) /\
      (api_apply parses engine process c = inl bs ->
         (engine c = NoMatch /\ bs = c) \/ emitted_list (solo o i t) = [bs]).
  Proof.
    intros Hs H1 H2 H3 bs. rewrite emitted_solo, H1, H2, H3. unfold api_apply, CliFacts.finalize.
    rewrite H2, Hs. destruct (engine c) as [|m|cs [fmt|m]].
    - split; [discriminate|]. intros H. inversion H. auto.
    - split; discriminate.
    - destruct (checked parses (process fmt)) as [b|m].
      + split; intros H; inversion H; auto.
      + split; discriminate.
    - split; discriminate.
  Qed.

  (* ------------------------------------------------------------ C07 *)
  Lemma checked_parses b bs : checked parses b = inl bs -> parses bs = None.
  Proof. unfold checked. destruct b as [b0|m]; [|discriminate]. destruct (parses b0) eqn:E; [discriminate|]. intros H. inversion H; subst. exact E. Qed.

  Lemma finalize_parses o fmt bs : finalize o fmt = inl bs -> parses bs = None.
  Proof.
    unfold CliFacts.finalize. destruct (o_skip_imports o).
    - destruct (parses fmt) eqn:E; [discriminate|]. intros H. inversion H; subst. exact E.
    - apply checked_parses.
  Qed.

  Lemma emitted_in_list r e bs :
    In e (r_events r) -> emitted e = Some bs -> In bs (emitted_list r).
  Proof.
    intros He Hb. unfold emitted_list. apply in_flat_map. exists e. rewrite Hb. split; [exact He|left; reflexivity].
  Qed.

  Lemma emitted_parses o ts e bs :
    In e (r_events (run o ts)) -> emitted e = Some bs -> parses bs = None.
  Proof.
    intros He Hb. apply run_events_in in He as [i [t [_ He]]].
    pose proof (emitted_in_list _ _ _ He Hb) as Hin. rewrite emitted_solo in Hin.
    destruct (t_read t) as [c|]; [|destruct Hin].
    destruct (parses c); [destruct Hin|].
    destruct (o_skip_generated o && _); [destruct Hin|].
    destruct (engine c) as [| |cs [fmt|]]; try destruct Hin.
    destruct (finalize o fmt) as [b|] eqn:F; [|destruct Hin].
    destruct Hin as [<-|[]]. eapply finalize_parses; eauto.
  Qed.

  Lemma unparseable_is_error o ts i t c cs fmt m :
    (forall b m, parses b = Some m -> exists m', process b = inr m') ->
    nth_error ts i = Some t -> t_read t = inl c -> parses c = None ->
    o_skip_generated o && check_generated_code (header_of c) = false ->
    engine c = Matched cs (inl fmt) -> parses fmt = Some m ->
    events_of i (run o ts) = [] /\
    (exists m', In (ErrReformat (t_abs t) m') (all_errors (run o ts))) /\
    exit_status (run o ts) <> 0%N.
  Proof.
    intros Hrej Hn H1 H2 H3 H4 Hbad.
    assert (exists m', finalize o fmt = inr m') as [m' H5].
    { unfold CliFacts.finalize. destruct (o_skip_imports o).
      - rewrite Hbad. eauto.
      - destruct (Hrej _ _ Hbad) as [m' E]. rewrite E. cbn [checked]. eauto. }
    rewrite (run_events_of _ _ _ _ _ ts i t Hn).
    pose proof (solo_reformat_err _ _ _ _ _ i _ _ _ _ _ H1 H2 H3 H4 H5) as S.
    assert (In (ErrReformat (t_abs t) m') (all_errors (run o ts))) as Hin.
    { apply run_errors_in. exists i, t. split; [exact Hn|]. rewrite S. left. reflexivity. }
    split; [rewrite S; reflexivity|]. split; [eauto|].
    intros Hz. apply exit_status_zero in Hz. rewrite Hz in Hin. destruct Hin.
  Qed.

  Lemma api_parses src bs :
    api_apply parses engine process src = inl bs -> parses bs = None.
  Proof.
    unfold api_apply. destruct (parses src) eqn:E; [discriminate|].
    destruct (engine src) as [| |cs [fmt|]]; try discriminate.
    - intros H. inversion H; subst. exact E.
    - apply checked_parses.
  Qed.

  (* ------------------------------------------------------------ C14 *)
  Lemma map_retag_descs j i p cs : map (retag j) (descs i p cs) = descs j p cs.
  Proof. unfold descs. rewrite map_map. reflexivity. Qed.

  Lemma solo_retag o i j t : r_events (solo o j t) = map (retag j) (r_events (solo o i t)).
  Proof.
    cases o t.
    - rewrite !(solo_unreadable _ _ _ _ _ _ _ _ H1). reflexivity.
    - rewrite !(solo_unparseable _ _ _ _ _ _ _ _ _ H1 H2). reflexivity.
    - rewrite !(solo_generated _ _ _ _ _ _ _ _ H1 H2 H3). reflexivity.
    - rewrite !(solo_nomatch _ _ _ _ _ _ _ _ H1 H2 H3 H4). unfold echo.
      destruct (o_print o); reflexivity.
    - rewrite !(solo_replace_err _ _ _ _ _ _ _ _ _ H1 H2 H3 H4). unfold echo.
      destruct (o_print o); reflexivity.
    - rewrite !(solo_format_err _ _ _ _ _ _ _ _ _ _ H1 H2 H3 H4). reflexivity.
    - rewrite !(solo_reformat_err _ _ _ _ _ _ _ _ _ _ _ H1 H2 H3 H4 H5). reflexivity.
    - rewrite !(solo_sunk _ _ _ _ _ _ _ _ _ _ _ H1 H2 H3 H4 H5). unfold sink.
      destruct (o_diff o); [|destruct (o_print o); [|destruct (t_write_err t)]]; simpl;
        rewrite ?map_app, ?map_retag_descs; reflexivity.
  Qed.

  (* what is done for a file, and the errors reported for it, are the same in whatever
     run and at whatever position the file is processed *)
  Lemma history_independent o ts ts' i j t :
    nth_error ts i = Some t -> nth_error ts' j = Some t ->
    events_of j (run o ts') = map (retag j) (events_of i (run o ts)) /\
    all_errors (solo o j t) = all_errors (solo o i t).
  Proof.
    intros H1 H2. rewrite (run_events_of _ _ _ _ _ ts i t H1), (run_events_of _ _ _ _ _ ts' j t H2).
    split; [apply solo_retag | apply solo_errors_index].
  Qed.

  Lemma alone_or_together o ts i t :
    nth_error ts i = Some t ->
    map (retag 0) (events_of i (run o ts)) = r_events (run o [t]) /\
    all_errors (solo o i t) = all_errors (run o [t]).
  Proof.
    intros H. rewrite (run_events_of _ _ _ _ _ ts i t H).
    rewrite (run_contribs _ _ _ _ _ [t]). cbn [contribs]. rewrite add_st0_r.
    split; [symmetry; apply solo_retag | apply solo_errors_index].
  Qed.

  (* ------------------------------------------------------------ C16 *)
  Definition file_ok (o : opts) (t : target) : Prop :=
    exists c, t_read t = inl c /\ parses c = None /\
      (o_skip_generated o && check_generated_code (header_of c) = true \/
       engine c = NoMatch \/
       exists cs fmt bs, engine c = Matched cs (inl fmt) /\ finalize o fmt = inl bs /\
                         (o_diff o = true \/ o_print o = true \/ t_write_err t = None)).

  Lemma solo_ok o i t : all_errors (solo o i t) = [] <-> file_ok o t.
  Proof.
    unfold file_ok, all_errors. cases o t.
    - rewrite (solo_unreadable _ _ _ _ _ _ _ _ H1). simpl. split; [discriminate|].
      intros [c [H _]]. congruence.
    - rewrite (solo_unparseable _ _ _ _ _ _ _ _ _ H1 H2). simpl. split; [discriminate|].
      intros [c' [Ha [Hb _]]]. congruence.
    - rewrite (solo_generated _ _ _ _ _ _ _ _ H1 H2 H3). simpl. split; [|reflexivity].
      intros _. exists c. auto.
    - rewrite (solo_nomatch _ _ _ _ _ _ _ _ H1 H2 H3 H4). simpl. split; [|reflexivity].
      intros _. exists c. auto.
    - rewrite (solo_replace_err _ _ _ _ _ _ _ _ _ H1 H2 H3 H4). simpl. split; [discriminate|].
      intros [c' [Ha [Hb [Hc|[Hc|[cs [fmt [bs [Hc _]]]]]]]]];
        assert (c' = c) by congruence; subst; congruence.
    - rewrite (solo_format_err _ _ _ _ _ _ _ _ _ _ H1 H2 H3 H4). simpl. split; [discriminate|].
      intros [c' [Ha [Hb [Hc|[Hc|[cs' [fmt [bs [Hc _]]]]]]]]];
        assert (c' = c) by congruence; subst; congruence.
    - rewrite (solo_reformat_err _ _ _ _ _ _ _ _ _ _ _ H1 H2 H3 H4 H5). simpl. split; [discriminate|].
      intros [c' [Ha [Hb [Hc|[Hc|[cs' [fmt' [bs [Hc [Hd _]]]]]]]]]];
        assert (c' = c) by congruence; subst; try congruence;
        assert (fmt' = fmt) by congruence; subst; congruence.
    - rewrite (solo_sunk _ _ _ _ _ _ _ _ _ _ _ H1 H2 H3 H4 H5). unfold sink.
      destruct (o_diff o) eqn:D; [|destruct (o_print o) eqn:P; [|destruct (t_write_err t) eqn:W]]; simpl.
      1-2,4: split; [|reflexivity]; intros _; exists c; repeat split; auto;
             right; right; exists cs, fmt, bs; auto.
      split; [discriminate|].
      intros [c' [Ha [Hb [Hc|[Hc|[cs' [fmt' [bs' [Hc [Hd [He|[He|He]]]]]]]]]]]];
        assert (c' = c) by congruence; subst; congruence.
  Qed.

  Lemma exit0_complete o ts :
    exit_status (run o ts) = 0%N <-> (forall t, In t ts -> file_ok o t).
  Proof.
    rewrite exit_status_zero. split.
    - intros Hz t Hin. apply In_nth_error in Hin as [i Hn].
      apply (solo_ok o i t). destruct (all_errors (solo o i t)) as [|e l] eqn:E; [reflexivity|].
      assert (In e (all_errors (run o ts))) as He.
      { apply run_errors_in. exists i, t. split; [exact Hn|]. rewrite E. left. reflexivity. }
      rewrite Hz in He. destruct He.
    - intros H. destruct (all_errors (run o ts)) as [|e l] eqn:E; [reflexivity|].
      assert (In e (all_errors (run o ts))) as He by (rewrite E; left; reflexivity).
      apply run_errors_in in He as [i [t [Hn He]]].
      apply nth_error_In in Hn. apply H in Hn. apply (solo_ok o i t) in Hn. rewrite Hn in He. destruct He.
  Qed.

  (* the cause carried by an error is the one the failing call returned *)
  Definition explains (o : opts) (t : target) (e : err) : Prop :=
    err_path e = t_abs t /\
    match e with
    | ErrRead _ m => t_read t = inr m
    | ErrParse _ m => exists c, t_read t = inl c /\ parses c = Some m
    | ErrUpdate _ m => exists c, t_read t = inl c /\ engine c = ReplaceErr m
    | ErrRewrite _ m => exists c cs, t_read t = inl c /\ engine c = Matched cs (inr m)
    | ErrReformat _ m => exists c cs fmt, t_read t = inl c /\ engine c = Matched cs (inl fmt) /\
                                          finalize o fmt = inr m
    | ErrWrite _ m => t_write_err t = Some m
    end.

  Lemma errors_explained o ts e :
    In e (all_errors (run o ts)) -> exists t, In t ts /\ explains o t e.
  Proof.
    intros He. apply run_errors_in in He as [i [t [Hn He]]].
    exists t. split; [eapply nth_error_In; eauto|]. revert He. unfold all_errors, explains. cases o t.
    - rewrite (solo_unreadable _ _ _ _ _ _ _ _ H1). simpl. intros [<-|[]]. auto.
    - rewrite (solo_unparseable _ _ _ _ _ _ _ _ _ H1 H2). simpl. intros [<-|[]]. simpl. eauto.
    - rewrite (solo_generated _ _ _ _ _ _ _ _ H1 H2 H3). simpl. intros [].
    - rewrite (solo_nomatch _ _ _ _ _ _ _ _ H1 H2 H3 H4). simpl. intros [].
    - rewrite (solo_replace_err _ _ _ _ _ _ _ _ _ H1 H2 H3 H4). simpl. intros [<-|[]]. simpl. eauto.
    - rewrite (solo_format_err _ _ _ _ _ _ _ _ _ _ H1 H2 H3 H4). simpl. intros [<-|[]]. simpl. eauto.
    - rewrite (solo_reformat_err _ _ _ _ _ _ _ _ _ _ _ H1 H2 H3 H4 H5). simpl. intros [<-|[]]. simpl.
      split; [reflexivity|]. exists c, cs, fmt. auto.
    - rewrite (solo_sunk _ _ _ _ _ _ _ _ _ _ _ H1 H2 H3 H4 H5). unfold sink.
      destruct (o_diff o); [simpl; intros []|].
      destruct (o_print o); [simpl; intros []|].
      destruct (t_write_err t) eqn:W; simpl; [|intros []].
      intros [<-|[]]. simpl. auto.
  Qed.

  Lemma isolated o ts ts' i :
    nth_error ts i = nth_error ts' i ->
    events_of i (run o ts) = events_of i (run o ts').
  Proof.
    intros H. destruct (nth_error ts i) as [t|] eqn:E.
    - rewrite (run_events_of _ _ _ _ _ ts i t E). symmetry. apply run_events_of. auto.
    - unfold events_of. rewrite !filter_none; [reflexivity| |].
      + intros e He. apply run_events_in in He as [k [t [Hn He]]]. apply solo_tag in He.
        rewrite He. apply Nat.eqb_neq. intros ->. rewrite <- H in Hn. discriminate.
      + intros e He. apply run_events_in in He as [k [t [Hn He]]]. apply solo_tag in He.
        rewrite He. apply Nat.eqb_neq. intros ->. congruence.
  Qed.
End P.
