(* Facts about the file-level rewrite [rw]: frame, sites, and "wherever it occurs". *)
From GP Require Import Tree Meta Match Replace FileEngine MatchFacts.
From Coq Require Import Lia Arith.

Section F.
  Variable mk : N -> option mkind.
  Variable ad : N -> N.
  Variable minus plus : npat.
  Variable dinit : data.

  Notation rw := (rw mk ad minus plus dinit).
  Notation scan := (scan mk ad minus plus dinit).

  Definition rwf (f : nat) (fs : list val) (fis : list finfo) : list val := rw_fields (rw f) fs fis.

  Definition rebuilt (f : nat) (v : val) (tp st : ty) (fs : list val) : val :=
    let below := Ptr tp (Struct st (rwf f fs (fields_of st))) in
    match v with Iface ti _ => Iface ti below | _ => below end.

  Definition wrap_give (v give : val) (tp : ty) : option val :=
    match v with
    | Iface ti _ => if assignable (dyn_type give) ti then Some (Iface ti give) else None
    | _ => match give with
           | Ptr tq _ => if N.eqb tq tp then Some give else None
           | _ => None
           end
    end.

  (* rw at a node, in one step *)
  Lemma rw_node f v tp st fs :
    unwrap v = Ptr tp (Struct st fs) ->
    rw (S f) v =
      match mtch_node mk minus (unwrap v) dinit with
      | Some d =>
          match inst_node mk ad (rw f) (fun st fs => rwf f fs (fields_of st)) plus d with
          | Ok give => match wrap_give v give tp with Some r => r | None => rebuilt f v tp st fs end
          | Err _ => rebuilt f v tp st fs
          end
      | None => rebuilt f v tp st fs
      end.
  Proof.
    intros U. cbn [FileEngine.rw]. rewrite U. unfold rebuilt, wrap_give, rwf.
    destruct (mtch_node mk minus (Ptr tp (Struct st fs)) dinit) as [d|]; [|destruct v; reflexivity].
    destruct (inst_node mk ad (rw f) (fun st0 fs0 => rw_fields (rw f) fs0 (fields_of st0)) plus d) as [give|e];
      destruct v; try reflexivity;
      try (match goal with |- context [if ?c then _ else _] => destruct c; reflexivity end);
      destruct give; try reflexivity;
      match goal with |- context [if ?c then _ else _] => destruct c; reflexivity end.
  Qed.

  Lemma rw_leaf f v : (forall tp st fs, unwrap v <> Ptr tp (Struct st fs)) -> rw f v = v.
  Proof.
    intros H. destruct f; [reflexivity|]. cbn [FileEngine.rw].
    destruct (unwrap v) as [| | | |tp x| |] eqn:U; try reflexivity.
    destruct x; try reflexivity. exfalso. eapply H. reflexivity.
  Qed.

  (* ---- frame: where nothing matches, nothing changes ---- *)
  Fixpoint quiet (f : nat) (v : val) {struct f} : Prop :=
    match f with
    | O => True
    | S f' =>
        match unwrap v with
        | Ptr tp (Struct st fs) =>
            mtch_node mk minus (unwrap v) dinit = None /\
            (fix qf (fs : list val) (fis : list finfo) : Prop :=
               match fs, fis with
               | x :: fs', fi :: fis' =>
                   (if f_visited fi then
                      match x with
                      | Slice _ xs => Forall (quiet f') xs
                      | _ => quiet f' x
                      end
                    else True) /\ qf fs' fis'
               | _, _ => True
               end) fs (fields_of st)
        | _ => True
        end
    end.

  Lemma map_id_on {A} (g : A -> A) l : Forall (fun x => g x = x) l -> map g l = l.
  Proof. induction 1; simpl; congruence. Qed.

  Theorem rw_quiet : forall f v, quiet f v -> rw f v = v.
  Proof.
    induction f as [|f IH]; intros v Q; [reflexivity|].
    destruct (unwrap v) as [| | | |tp x| |] eqn:U; try (apply rw_leaf; intros; congruence).
    destruct x as [| | |st fs| | |]; try (apply rw_leaf; intros; congruence).
    rewrite (rw_node f v tp st fs U). cbn [quiet] in Q. rewrite U in Q. destruct Q as [M Q].
    rewrite U, M. unfold rebuilt, rwf.
    assert (rw_fields (rw f) fs (fields_of st) = fs) as E.
    { clear M U. revert Q. generalize (fields_of st). induction fs as [|x fs IHfs]; intros [|fi fis] Q; cbn [rw_fields]; try reflexivity.
      destruct Q as [Qx Qr]. rewrite (IHfs fis Qr). f_equal.
      destruct (f_visited fi); [|reflexivity].
      destruct x; try (apply IH; exact Qx).
      f_equal. apply map_id_on. eapply Forall_impl; [|exact Qx]. intros y Hy. apply IH. exact Hy. }
    rewrite E. destruct v; simpl in U; try congruence; subst; reflexivity.
  Qed.

  (* ---- "wherever it occurs": slots reached through the fields Apply descends into ---- *)
  Inductive pstep := PField (i : nat) | PElem (i j : nat).

  Definition is_node (v : val) : bool :=
    match unwrap v with Ptr _ (Struct _ _) => true | _ => false end.

  Definition child (v : val) (s : pstep) : option val :=
    match unwrap v with
    | Ptr tp (Struct st fs) =>
        match s with
        | PField i =>
            match nth_error fs i, nth_error (fields_of st) i with
            | Some x, Some fi =>
                if f_visited fi then match x with Slice _ _ => None | _ => Some x end else None
            | _, _ => None
            end
        | PElem i j =>
            match nth_error fs i, nth_error (fields_of st) i with
            | Some (Slice _ xs), Some fi => if f_visited fi then nth_error xs j else None
            | _, _ => None
            end
        end
    | _ => None
    end.

  Fixpoint descend (v : val) (pi : list pstep) : option val :=
    match pi with
    | [] => Some v
    | s :: pi' => match child v s with Some c => descend c pi' | None => None end
    end.

  Lemma rw_not_slice f v : (forall t xs, v <> Slice t xs) -> forall t xs, rw f v <> Slice t xs.
  Proof.
    intros Hv. destruct f; [exact Hv|].
    destruct (unwrap v) as [| | | |tp x| |] eqn:U;
      try (rewrite rw_leaf by (intros; congruence); exact Hv).
    destruct x as [| | |st fs| | |];
      try (rewrite rw_leaf by (intros; congruence); exact Hv).
    rewrite (rw_node f v tp st fs U). intros t xs HH.
    assert (forall w, rebuilt f v tp st fs = w -> forall t xs, w <> Slice t xs) as RB.
    { intros w <- t1 xs1. unfold rebuilt. destruct v; discriminate. }
    destruct (mtch_node mk minus (unwrap v) dinit) as [d|]; [|eapply RB; eauto].
    destruct (inst_node mk ad (rw f) _ plus d) as [give|e]; [|eapply RB; eauto].
    destruct (wrap_give v give tp) as [r|] eqn:W; [|eapply RB; eauto].
    subst r. unfold wrap_give in W. destruct v; simpl in U; try congruence.
    - destruct give; try discriminate W.
      match type of W with (if ?c then _ else _) = _ => destruct c; discriminate W end.
    - match type of W with (if ?c then _ else _) = _ => destruct c; discriminate W end.
  Qed.

  Lemma nth_rw_fields r fs fis i x fi :
    nth_error fs i = Some x -> nth_error fis i = Some fi -> f_visited fi = true ->
    nth_error (rw_fields r fs fis) i
    = Some (match x with Slice t xs => Slice t (map r xs) | _ => r x end).
  Proof.
    revert fis i. induction fs as [|y fs IH]; intros [|gi fis] [|i] Hx Hf Hv; simpl in *; try discriminate.
    - inversion Hx; inversion Hf; subst. rewrite Hv. reflexivity.
    - eapply IH; eauto.
  Qed.

  (* a node that is not a site is rebuilt from its rewritten children: its child slots hold
     the rewritten children *)
  Lemma child_rebuilt f v tp st fs s c :
    unwrap v = Ptr tp (Struct st fs) -> child v s = Some c ->
    child (rebuilt f v tp st fs) s = Some (rw f c).
  Proof.
    intros U C. unfold child in *. rewrite U in C.
    assert (unwrap (rebuilt f v tp st fs) = Ptr tp (Struct st (rwf f fs (fields_of st)))) as U'.
    { unfold rebuilt. destruct v; reflexivity. }
    rewrite U'. unfold rwf. destruct s as [i|i j].
    - destruct (nth_error fs i) as [x|] eqn:Nx; [|discriminate].
      destruct (nth_error (fields_of st) i) as [fi|] eqn:Nf; [|discriminate].
      destruct (f_visited fi) eqn:V; [|discriminate].
      rewrite (nth_rw_fields _ _ _ _ _ _ Nx Nf V).
      destruct x; inversion C; subst;
        match goal with |- match ?r with _ => _ end = _ =>
          destruct r eqn:R; try reflexivity end;
        exfalso; refine (rw_not_slice f _ _ _ _ R); intros; discriminate.
    - destruct (nth_error fs i) as [x|] eqn:Nx; [|discriminate]. destruct x; try discriminate.
      destruct (nth_error (fields_of st) i) as [fi|] eqn:Nf; [|discriminate].
      destruct (f_visited fi) eqn:V; [|discriminate].
      rewrite (nth_rw_fields _ _ _ _ _ _ Nx Nf V).
      rewrite nth_error_map, C. reflexivity.
  Qed.

  Definition not_site (v : val) : Prop := mtch_node mk minus (unwrap v) dinit = None.

  (* Every slot below the root whose proper ancestors are not rewritten holds, in the
     result, the rewrite of what it held: no position or nesting depth is exempt. *)
  Theorem rw_descend : forall pi f v s,
    descend v pi = Some s ->
    (forall pi1 pi2 a, pi = pi1 ++ pi2 -> pi2 <> [] -> descend v pi1 = Some a -> not_site a) ->
    descend (rw (length pi + f) v) pi = Some (rw f s).
  Proof.
    induction pi as [|st0 pi IH]; intros f v s D A; cbn [descend length Nat.add] in *.
    - inversion D; subst. reflexivity.
    - destruct (child v st0) as [c|] eqn:C; [|discriminate].
      assert (not_site v) as NS by (apply (A [] (st0 :: pi) v eq_refl); [discriminate|reflexivity]).
      assert (exists tp st fs, unwrap v = Ptr tp (Struct st fs)) as [tp [st [fs U]]].
      { unfold child in C. destruct (unwrap v) as [| | | |tp x| |]; try discriminate.
        destruct x; try discriminate. eauto. }
      rewrite (rw_node _ v tp st fs U). unfold not_site in NS. rewrite NS.
      rewrite (child_rebuilt _ v tp st fs st0 c U C).
      apply IH; [exact D|].
      intros pi1 pi2 a E Hne Da. apply (A (st0 :: pi1) pi2 a); [simpl; congruence|exact Hne|].
      cbn [descend]. rewrite C. exact Da.
  Qed.

  (* ... and if that slot is an instance whose instantiated replacement fits, it holds the
     replacement. *)
  Corollary rw_instance_rewritten pi f v s tp st fs d give r :
    descend v pi = Some s ->
    (forall pi1 pi2 a, pi = pi1 ++ pi2 -> pi2 <> [] -> descend v pi1 = Some a -> not_site a) ->
    unwrap s = Ptr tp (Struct st fs) ->
    mtch_node mk minus (unwrap s) dinit = Some d ->
    inst_node mk ad (rw f) (fun st0 fs0 => rwf f fs0 (fields_of st0)) plus d = Ok give ->
    wrap_give s give tp = Some r ->
    descend (rw (length pi + S f) v) pi = Some r.
  Proof.
    intros D A U M I W. rewrite (rw_descend pi (S f) v s D A).
    rewrite (rw_node f s tp st fs U), M. unfold rwf in *. rewrite I, W. reflexivity.
  Qed.
End F.
