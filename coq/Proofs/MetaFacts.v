From GP Require Import Bytes BytesFacts Meta.
From Coq Require Import Lia Arith.
Local Open Scope nat_scope.

Definition all_names (ds : list vardecl) : list (nat * bytes) := flat_map d_names ds.

Definition tbl_ok (names : list (nat * bytes)) (tbl : list (bytes * (mkind * nat))) : Prop :=
  forall n k first, In (n, (k, first)) tbl -> In (first, n) names.

Lemma lookup_decl_in tbl nm k first : lookup_decl tbl nm = Some (k, first) -> In (nm, (k, first)) tbl.
Proof.
  induction tbl as [|[n v] tbl IH]; simpl; [discriminate|].
  destruct (beq n nm) eqn:E.
  - intros H. inversion H; subst. apply beq_eq in E. subst. left. reflexivity.
  - intros H. right. apply IH. exact H.
Qed.

Definition errs_ok (names : list (nat * bytes)) (types : list (nat * bytes)) (es : list merr) : Prop :=
  forall e, In e es ->
    match e with
    | MUnknownType o ty => In (o, ty) types /\ ty <> ty_identifier /\ ty <> ty_expression
    | MDuplicate o nm first => In (o, nm) names /\ In (first, nm) names /\ nm <> underscore
    | _ => False
    end.

Lemma compile_names_inv k names types ns : forall acc,
  (forall n, In n ns -> In n names) ->
  tbl_ok names (fst acc) -> errs_ok names types (snd acc) ->
  tbl_ok names (fst (fold_left (compile_names k) ns acc)) /\
  errs_ok names types (snd (fold_left (compile_names k) ns acc)).
Proof.
  induction ns as [|n ns IH]; intros [tbl es] Hsub Ht He; simpl; [auto|].
  apply IH; [intros x Hx; apply Hsub; right; exact Hx| |].
  - unfold compile_names. destruct (beq (snd n) underscore); [exact Ht|].
    destruct (lookup_decl tbl (snd n)) as [[k' first]|] eqn:L; simpl; [exact Ht|].
    intros m k0 f Hin. apply in_app_iff in Hin as [Hin|[Hin|[]]]; [eapply Ht; eauto|].
    inversion Hin; subst. destruct n as [o nm]. simpl. apply Hsub. left. reflexivity.
  - unfold compile_names. destruct (beq (snd n) underscore) eqn:U; [exact He|].
    destruct (lookup_decl tbl (snd n)) as [[k' first]|] eqn:L; simpl; [|exact He].
    intros e Hin. apply in_app_iff in Hin as [Hin|[<-|[]]]; [apply He; exact Hin|].
    destruct n as [o nm]. simpl in *. repeat split.
    + apply Hsub. left. reflexivity.
    + apply lookup_decl_in in L. eapply Ht. exact L.
    + intros ->. rewrite beq_refl in U. discriminate.
Qed.

Lemma compile_meta_inv ds0 ds : forall acc,
  (forall d, In d ds -> In d ds0) ->
  tbl_ok (all_names ds0) (fst acc) -> errs_ok (all_names ds0) (map d_type ds0) (snd acc) ->
  tbl_ok (all_names ds0) (fst (fold_left compile_decl ds acc)) /\
  errs_ok (all_names ds0) (map d_type ds0) (snd (fold_left compile_decl ds acc)).
Proof.
  induction ds as [|d ds IH]; intros acc Hsub Ht He; simpl; [auto|].
  assert (forall n, In n (d_names d) -> In n (all_names ds0)) as Hn.
  { intros n Hin. unfold all_names. apply in_flat_map. exists d. split; [apply Hsub; left; reflexivity|exact Hin]. }
  assert (tbl_ok (all_names ds0) (fst (compile_decl acc d)) /\
          errs_ok (all_names ds0) (map d_type ds0) (snd (compile_decl acc d))) as [Ht' He'].
  { unfold compile_decl. destruct (beq (snd (d_type d)) ty_identifier) eqn:E1.
    - apply compile_names_inv; assumption.
    - destruct (beq (snd (d_type d)) ty_expression) eqn:E2.
      + apply compile_names_inv; assumption.
      + simpl. split; [exact Ht|]. intros e Hin. apply in_app_iff in Hin as [Hin|[<-|[]]]; [apply He; exact Hin|].
        repeat split.
        * apply in_map_iff. exists d. split; [destruct (d_type d); reflexivity|apply Hsub; left; reflexivity].
        * intros H. rewrite H, beq_refl in E1. discriminate.
        * intros H. rewrite H, beq_refl in E2. discriminate. }
  apply IH; [intros x Hx; apply Hsub; right; exact Hx|exact Ht'|exact He'].
Qed.

(* compileMeta's diagnostics: an unknown type is reported at the type identifier of a
   declaration; a duplicate at an occurrence of the name, quoting another declared
   occurrence of the same name as "defined at". *)
Theorem compile_meta_errors ds e :
  In e (snd (compile_meta ds)) ->
  match e with
  | MUnknownType o ty => In (o, ty) (map d_type ds) /\ ty <> ty_identifier /\ ty <> ty_expression
  | MDuplicate o nm first => In (o, nm) (all_names ds) /\ In (first, nm) (all_names ds) /\ nm <> underscore
  | _ => False
  end.
Proof.
  intros H. unfold compile_meta in H.
  destruct (compile_meta_inv ds ds ([], [])) as [_ He]; try (intros; assumption).
  - intros n k f [].
  - intros x [].
  - apply He. exact H.
Qed.

(* lookup is insensitive to the order and grouping of declarations, as long as no name
   is declared twice: the table is determined by membership *)
Lemma lookup_decl_some tbl nm k first :
  NoDup (map fst tbl) -> In (nm, (k, first)) tbl -> lookup_decl tbl nm = Some (k, first).
Proof.
  induction tbl as [|[n v] tbl IH]; simpl; intros Hn Hin; [destruct Hin|].
  inversion Hn as [|? ? Hx Hn']; subst.
  destruct Hin as [Hin|Hin].
  - inversion Hin; subst. rewrite beq_refl. reflexivity.
  - destruct (beq n nm) eqn:E.
    + apply beq_eq in E. subst. exfalso. apply Hx. apply in_map_iff. exists (nm, (k, first)). auto.
    + apply IH; assumption.
Qed.

Theorem lookup_var_order_insensitive t1 t2 nm :
  NoDup (map fst t1) -> NoDup (map fst t2) ->
  (forall n k, (exists f, In (n, (k, f)) t1) <-> (exists f, In (n, (k, f)) t2)) ->
  lookup_var t1 nm = lookup_var t2 nm.
Proof.
  intros N1 N2 H. unfold lookup_var.
  destruct (lookup_decl t1 nm) as [[k f]|] eqn:L1.
  - apply lookup_decl_in in L1. destruct (proj1 (H nm k) (ex_intro _ f L1)) as [f2 H2].
    rewrite (lookup_decl_some t2 nm k f2 N2 H2). reflexivity.
  - destruct (lookup_decl t2 nm) as [[k f]|] eqn:L2; [|reflexivity].
    apply lookup_decl_in in L2. destruct (proj2 (H nm k) (ex_intro _ f L2)) as [f1 H1].
    rewrite (lookup_decl_some t1 nm k f1 N1 H1) in L1. discriminate.
Qed.

(* ---- the recursion fuel of the metavariable parser is never the reason it stops ---- *)
Lemma tl_length {A} (l : list A) : List.length (tl l) = (List.length l - 1)%nat.
Proof. destruct l; simpl; lia. Qed.

Lemma cur_ident_nonempty ts eof : t_kind (cur ts eof) = TIdent -> ts <> [].
Proof. destruct ts; simpl; [discriminate|congruence]. Qed.

Lemma parse_names_fuel eof : forall f1 f2 ts,
  (List.length ts < f1)%nat -> (List.length ts < f2)%nat -> parse_names f1 ts eof = parse_names f2 ts eof.
Proof.
  induction f1 as [|f1 IH]; intros f2 ts H1 H2; [lia|]. destruct f2 as [|f2]; [lia|].
  cbn [parse_names]. destruct (t_kind (cur ts eof)) eqn:K; try reflexivity.
  destruct (t_kind (cur (tl ts) eof)) eqn:K2; try reflexivity.
  assert (ts <> []) as Hne by (eapply cur_ident_nonempty; eauto).
  rewrite (IH f2 (tl (tl ts))); [reflexivity| |]; rewrite !tl_length; destruct ts; simpl in *; try congruence; lia.
Qed.

Lemma parse_names_rest eof : forall f ts ns r,
  parse_names f ts eof = inl (ns, r) -> (List.length r < List.length ts)%nat.
Proof.
  induction f as [|f IH]; intros ts ns r H; [discriminate|]. cbn [parse_names] in H.
  destruct (t_kind (cur ts eof)) eqn:K; try discriminate.
  assert (ts <> []) as Hne by (eapply cur_ident_nonempty; eauto).
  destruct (t_kind (cur (tl ts) eof)) eqn:K2;
    try (inversion H; subst; rewrite tl_length; destruct ts; simpl in *; [congruence|lia]).
  destruct (parse_names f (tl (tl ts)) eof) as [[ns' r']|e] eqn:P; [|discriminate].
  inversion H; subst. apply IH in P. rewrite !tl_length in P. destruct ts; simpl in *; [congruence|lia].
Qed.

Lemma parse_decl_rest ts eof d r : parse_decl ts eof = inl (d, r) -> (List.length r < List.length ts)%nat.
Proof.
  unfold parse_decl. destruct (t_kind (cur ts eof)) eqn:K; try discriminate.
  destruct (parse_names _ (tl ts) eof) as [[ns r0]|e] eqn:P; [|discriminate].
  apply parse_names_rest in P. rewrite tl_length in P.
  destruct (t_kind (cur r0 eof)); try discriminate.
  destruct (t_kind (cur (tl r0) eof)); try discriminate.
  intros H. inversion H; subst. rewrite !tl_length. lia.
Qed.

(* parse_meta with any fuel above the number of tokens gives the same result: the fuel case
   [O => ([], [])] is never what ends the parse *)
Theorem parse_meta_fuel eof : forall f1 f2 ts,
  (List.length ts < f1)%nat -> (List.length ts < f2)%nat -> parse_meta f1 ts eof = parse_meta f2 ts eof.
Proof.
  induction f1 as [|f1 IH]; intros f2 ts H1 H2; [lia|]. destruct f2 as [|f2]; [lia|].
  cbn [parse_meta]. destruct (t_kind (cur ts eof)); try reflexivity;
    (destruct (parse_decl ts eof) as [[d r]|e] eqn:P; [|reflexivity];
     apply parse_decl_rest in P; rewrite (IH f2 r); [reflexivity|lia|lia]).
Qed.
