(* Snapshot.Diff is total: with the script of internal/diff.Difference (or any script that
   consumes both lists exactly) the walk neither runs out of fuel nor indexes out of range. *)
From GP Require Import AstDiff DiffFacts.
From Coq Require Import Lia.
Local Open Scope Z_scope.

Lemma vdepth_in x l : In x l -> (vdepth x <= fold_right (fun c n => Nat.max (vdepth c) n) O l)%nat.
Proof. induction l as [|y l IH]; simpl; [tauto|]. intros [->|H]; [lia|]. apply IH in H. lia. Qed.

Lemma elem_regions_length r : forall cs prev, length (elem_regions r prev cs) = length cs.
Proof. induction cs as [|n cs IH]; intros prev; simpl; [reflexivity|]. rewrite IH. reflexivity. Qed.

Section W.
  Variable script : list value -> list value -> list edit.
  Hypothesis script_ok : forall xs ys, cx (script xs ys) = length xs /\ cy (script xs ys) = length ys.

  Theorem walk_total : forall k nend r from to, (vdepth from < k)%nat -> walk script k nend r from to <> None.
  Proof.
    induction k as [|k IH]; intros nend r from to Hk; [lia|]. cbn [walk].
    destruct (negb (N.eqb (vtype from) (vtype to))); [discriminate|].
    destruct (N.eqb (vtype from) T_object || N.eqb (vtype from) T_cgroup)%bool; [discriminate|].
    destruct from as [tf|pf|tf af|tf inf ef|tf enf xs|tf xs].
    - destruct to; discriminate.
    - destruct to; try discriminate. destruct (Bool.eqb _ _); discriminate.
    - destruct to; try discriminate. destruct (N.eqb _ _); discriminate.
    - destruct to as [tt|pt|tt at_|tt it et|tt ent ys|tt ys]; try discriminate.
      simpl in Hk. match goal with |- context [walk script k ?ne r ef et] => specialize (IH ne r ef et ltac:(lia)); destruct (walk script k ne r ef et); [discriminate|contradiction] end.
    - destruct to as [tt|pt|tt at_|tt it et|tt ent ys|tt ys]; try (destruct enf; discriminate).
      simpl in Hk.
      assert (forall x, In x xs -> (vdepth x < k)%nat) as Hd by (intros x Hx; apply vdepth_in in Hx; lia).
      destruct enf.
      + destruct (script_ok xs ys) as [Hcx Hcy].
        pose proof (elem_regions_length r xs None) as Hlen.
        revert Hcx Hcy Hlen. generalize (script xs ys) as es. generalize (elem_regions r None xs) as regs. intros regs es.
        match goal with |- context [ (fix go (es : list edit) (xs ys : list value) (regs : list region) {struct es} := _) es xs ys regs ] =>
          set (go := (fix go (es : list edit) (xs ys : list value) (regs : list region) {struct es} : option (bool * list value * list region) := _)) end.
        intros Hcx Hcy Hlen.
        assert (forall es xs ys regs, (forall x, In x xs -> (vdepth x < k)%nat) ->
                  cx es = length xs -> cy es = length ys -> length regs = length xs -> go es xs ys regs <> None) as Hgo.
        { clear - IH go. intros es. induction es as [|e es IHes]; intros xs ys regs Hd Hcx Hcy Hlen; [simpl; discriminate|].
          destruct e; simpl in Hcx, Hcy; simpl.
          - destruct xs as [|x xs']; [discriminate|]. destruct ys as [|y ys']; [discriminate|]. destruct regs as [|rg regs']; [discriminate|].
            simpl in *. specialize (IHes xs' ys' regs' (fun x0 H => Hd x0 (or_intror H)) ltac:(lia) ltac:(lia) ltac:(lia)).
            destruct (go es xs' ys' regs') as [[[? ?] ?]|]; [discriminate|contradiction].
          - destruct xs as [|x xs']; [discriminate|]. destruct regs as [|rg regs']; [discriminate|].
            simpl in *. specialize (IHes xs' ys regs' (fun x0 H => Hd x0 (or_intror H)) ltac:(lia) ltac:(lia) ltac:(lia)).
            destruct (go es xs' ys regs') as [[[? ?] ?]|]; [discriminate|contradiction].
          - destruct ys as [|y ys']; [discriminate|].
            simpl in *. specialize (IHes xs ys' regs Hd ltac:(lia) ltac:(lia) ltac:(lia)).
            destruct (go es xs ys' regs) as [[[? ?] ?]|]; [discriminate|contradiction].
          - destruct xs as [|x xs']; [discriminate|]. destruct ys as [|y ys']; [discriminate|]. destruct regs as [|rg regs']; [discriminate|].
            simpl in *. pose proof (IH nend rg x y (Hd x (or_introl eq_refl))) as Hw.
            destruct (walk script k nend rg x y) as [w|]; [|contradiction].
            specialize (IHes xs' ys' regs' (fun x0 H => Hd x0 (or_intror H)) ltac:(lia) ltac:(lia) ltac:(lia)).
            destruct (go es xs' ys' regs') as [[[? ?] ?]|]; [discriminate|contradiction]. }
        specialize (Hgo es xs ys regs Hd Hcx Hcy Hlen).
        destruct (go es xs ys regs) as [[[? ?] ?]|]; [discriminate|contradiction].
      + destruct (negb (Nat.eqb (length xs) (length ys))); [discriminate|].
        match goal with |- context [ (fix go (xs ys : list value) {struct xs} := _) xs ys ] =>
          set (go := (fix go (xs ys : list value) {struct xs} : option (bool * list value * list region) := _)) end.
        assert (forall xs ys, (forall x, In x xs -> (vdepth x < k)%nat) -> go xs ys <> None) as Hgo.
        { clear - IH go. induction xs as [|x xs IHxs]; intros ys Hd; [simpl; discriminate|].
          destruct ys as [|y ys']; simpl; [discriminate|].
          pose proof (IH nend r x y (Hd x (or_introl eq_refl))) as Hw. destruct (walk script k nend r x y) as [w|]; [|contradiction].
          specialize (IHxs ys' (fun x0 H => Hd x0 (or_intror H))). destruct (go xs ys') as [[[? ?] ?]|]; [discriminate|contradiction]. }
        specialize (Hgo xs ys Hd). destruct (go xs ys) as [[[? ?] ?]|]; [discriminate|contradiction].
    - destruct to as [tt|pt|tt at_|tt it et|tt ent ys|tt ys]; try discriminate.
      simpl in Hk.
      assert (forall x, In x xs -> (vdepth x < k)%nat) as Hd by (intros x Hx; apply vdepth_in in Hx; lia).
      generalize (starts_of (end_of nend r) xs (fst r)) as ss. intros ss. generalize (fst (ends_of (end_of nend r) xs ss (snd r))) as es. intros es.
      match goal with |- context [ (fix go (xs ys : list value) (ss es : list Z) {struct xs} := _) xs ys ss es ] =>
        set (go := (fix go (xs ys : list value) (ss es : list Z) {struct xs} : option (bool * list value * list region) := _)) end.
      assert (forall xs ys ss es, (forall x, In x xs -> (vdepth x < k)%nat) -> go xs ys ss es <> None) as Hgo.
      { clear - IH go. induction xs as [|x xs IHxs]; intros ys ss es Hd; [simpl; discriminate|].
        destruct ys as [|y ys']; simpl; [discriminate|]. destruct ss as [|s0 ss']; [discriminate|]. destruct es as [|e0 es']; [discriminate|].
        pose proof (IH nend (s0, e0) x y (Hd x (or_introl eq_refl))) as Hw. destruct (walk script k nend (s0, e0) x y) as [w|]; [|contradiction].
        specialize (IHxs ys' ss' es' (fun x0 H => Hd x0 (or_intror H))). destruct (go xs ys' ss' es') as [[[? ?] ?]|]; [discriminate|contradiction]. }
      specialize (Hgo xs ys ss es Hd). destruct (go xs ys ss es) as [[[? ?] ?]|]; [discriminate|contradiction].
  Qed.
End W.

(* the script of internal/diff.Difference over compareNodes consumes both lists exactly *)
Lemma the_script_ok xs ys : cx (the_script xs ys) = length xs /\ cy (the_script xs ys) = length ys.
Proof.
  unfold the_script.
  destruct (difference_total (fun i j => compare_nodes (nthv xs i) (nthv ys j)) (zlen xs) (zlen ys)) as [es E];
    [unfold zlen; lia|unfold zlen; lia|].
  rewrite E. apply difference_lengths in E; [|unfold zlen; lia|unfold zlen; lia]. unfold zlen in E. lia.
Qed.

(* Snapshot.Diff returns for every pair of snapshots *)
Theorem diff_snapshot_total from to : exists w, diff_snapshot from to = Some w.
Proof.
  unfold diff_snapshot. pose proof (walk_total the_script the_script_ok (S (vdepth from)) nopos (vpos from, vend from) from to ltac:(lia)) as H.
  destruct (walk the_script (S (vdepth from)) nopos (vpos from, vend from) from to) as [w|]; [eauto|contradiction].
Qed.
