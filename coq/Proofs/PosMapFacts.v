From GP Require Import Bytes BytesFacts Section PosMap.
From Coq Require Import Lia Arith.
Local Open Scope nat_scope.

(* scratch offsets at which the lines of a section start *)
Fixpoint starts (off : nat) (ls : list line) : list nat :=
  match ls with
  | [] => []
  | l :: ls' => off :: starts (off + length (l_text l) + 1) ls'
  end.

Definition no_nl (l : line) : Prop := ~ In NL (l_text l).

Lemma to_bytes_aux_map off ls : map fst (snd (to_bytes_aux off ls)) = starts off ls.
Proof.
  revert off; induction ls as [|l ls IH]; intros off; simpl; [reflexivity|].
  specialize (IH (off + length (l_text l) + 1)).
  destruct (to_bytes_aux (off + length (l_text l) + 1) ls) as [b m]. simpl in *. f_equal. exact IH.
Qed.

Lemma to_bytes_aux_origs off ls : map snd (snd (to_bytes_aux off ls)) = map l_off ls.
Proof.
  revert off; induction ls as [|l ls IH]; intros off; simpl; [reflexivity|].
  specialize (IH (off + length (l_text l) + 1)).
  destruct (to_bytes_aux (off + length (l_text l) + 1) ls) as [b m]. simpl in *. f_equal. exact IH.
Qed.

Lemma to_bytes_aux_length off ls :
  length (fst (to_bytes_aux off ls)) = fold_right (fun l n => length (l_text l) + 1 + n) 0 ls.
Proof.
  revert off; induction ls as [|l ls IH]; intros off; simpl; [reflexivity|].
  specialize (IH (off + length (l_text l) + 1)).
  destruct (to_bytes_aux (off + length (l_text l) + 1) ls) as [b m]. simpl in *.
  rewrite app_length. simpl. lia.
Qed.

Lemma line_starts_aux_text t : forall off rest,
  ~ In NL t ->
  line_starts_aux off (t ++ NL :: rest) = (off + length t + 1) :: line_starts_aux (off + length t + 1) rest.
Proof.
  induction t as [|c t IH]; intros off rest Hn; simpl.
  - replace (off + 0 + 1) with (S off) by lia. reflexivity.
  - destruct (N.eqb_spec c NL) as [->|Hc]; [exfalso; apply Hn; left; reflexivity|].
    rewrite IH by (intros H; apply Hn; right; exact H).
    replace (S off + length t + 1) with (off + S (length t) + 1) by lia. reflexivity.
Qed.

(* the newline offsets of the scratch buffer are the starts of the following lines *)
Lemma line_starts_aux_scratch ls : forall off soff,
  Forall no_nl ls ->
  line_starts_aux off (fst (to_bytes_aux soff ls))
  = match ls with [] => [] | l :: ls' => tl (starts off ls) ++ [off + length (fst (to_bytes_aux soff ls))] end.
Proof.
  induction ls as [|l ls IH]; intros off soff Hn; simpl; [reflexivity|].
  inversion Hn as [|? ? Hl Hls]; subst.
  specialize (IH (off + length (l_text l) + 1) (soff + length (l_text l) + 1) Hls).
  destruct (to_bytes_aux (soff + length (l_text l) + 1) ls) as [b m] eqn:E. simpl in *.
  rewrite line_starts_aux_text by exact Hl. rewrite IH.
  destruct ls as [|l2 ls2]; simpl.
  - simpl in E. inversion E; subst. simpl. rewrite app_length. simpl. f_equal. lia.
  - f_equal. rewrite app_length. simpl. f_equal. f_equal. lia.
Qed.

Lemma starts_lt off ls x : In x (starts off ls) -> off <= x.
Proof.
  revert off; induction ls as [|l ls IH]; intros off; simpl; [tauto|].
  intros [<-|H]; [lia|]. apply IH in H. lia.
Qed.

Lemma starts_below off ls x :
  In x (starts off ls) -> x < off + fold_right (fun l n => length (l_text l) + 1 + n) 0 ls.
Proof.
  revert off; induction ls as [|l ls IH]; intros off; simpl; [tauto|].
  intros [<-|H]; [lia|]. apply IH in H. lia.
Qed.

Lemma filter_all' {A} (f : A -> bool) l : (forall x, In x l -> f x = true) -> filter f l = l.
Proof.
  induction l as [|x l IH]; simpl; intros H; [reflexivity|].
  rewrite (H x (or_introl eq_refl)). f_equal. apply IH. intros y Hy. apply H. right. exact Hy.
Qed.

Lemma line_starts_scratch ls :
  Forall no_nl ls -> ls <> [] ->
  line_starts (fst (to_bytes ls)) = starts 0 ls.
Proof.
  intros Hn Hne. unfold line_starts, to_bytes.
  rewrite (line_starts_aux_scratch ls 0 0 Hn).
  destruct ls as [|l ls']; [congruence|]. simpl starts. f_equal.
  rewrite filter_app. simpl. rewrite Nat.ltb_irrefl, app_nil_r.
  apply filter_all'. intros x Hx. apply Nat.ltb_lt.
  pose proof (to_bytes_aux_length 0 (l :: ls')) as HL. simpl in HL. rewrite HL.
  apply starts_below in Hx. lia.
Qed.

(* ---- searching in the list of starts ---- *)
Lemma starts_length off ls : length (starts off ls) = length ls.
Proof. revert off; induction ls; intros off; simpl; [reflexivity|]. f_equal. apply IHls. Qed.

Lemma nth_starts_in off ls k l :
  nth_error ls k = Some l -> In (nth k (starts off ls) 0) (starts off ls).
Proof.
  intros Hk. apply nth_In. rewrite starts_length. apply nth_error_Some. congruence.
Qed.

Lemma search_le_starts ls : forall off k l j,
  nth_error ls k = Some l -> j <= length (l_text l) ->
  search_le (starts off ls) (nth k (starts off ls) 0 + j) = Some k.
Proof.
  induction ls as [|l0 ls IH]; intros off k l j Hk Hj; [destruct k; discriminate|].
  destruct k as [|k]; simpl in *.
  - inversion Hk; subst l0. assert (Nat.leb off (off + j) = true) as -> by (apply Nat.leb_le; lia).
    destruct ls as [|l1 ls1]; simpl; [reflexivity|].
    assert (Nat.leb (off + length (l_text l) + 1) (off + j) = false) as -> by (apply Nat.leb_gt; lia).
    reflexivity.
  - assert (off <= nth k (starts (off + length (l_text l0) + 1) ls) 0 + j) as Hle.
    { assert (In (nth k (starts (off + length (l_text l0) + 1) ls) 0) (starts (off + length (l_text l0) + 1) ls)) as Hin.
      { eapply nth_starts_in; eauto. }
      apply starts_lt in Hin. lia. }
    assert (Nat.leb off (nth k (starts (off + length (l_text l0) + 1) ls) 0 + j) = true) as -> by (apply Nat.leb_le; exact Hle).
    rewrite (IH _ k l j Hk Hj). reflexivity.
Qed.

Lemma nth_starts_offsets ls : forall off k l,
  nth_error ls k = Some l -> nth_error (starts off ls) k = Some (nth k (starts off ls) 0).
Proof.
  induction ls as [|l0 ls IH]; intros off [|k] l Hk; simpl in *; try discriminate; [reflexivity|].
  eapply IH; eauto.
Qed.

(* general form: infos whose offsets are the starts *)
Lemma search_info_at infos ls : forall off k l j,
  map in_off infos = starts off ls ->
  nth_error ls k = Some l -> j <= length (l_text l) ->
  search_info infos (nth k (starts off ls) 0 + j) = nth_error infos k.
Proof.
  revert infos. induction ls as [|l0 ls IH]; intros infos off k l j Hm Hk Hj; [destruct k; discriminate|].
  destruct infos as [|a infos]; [discriminate|].
  cbn [map starts] in Hm. injection Hm as Ha Hrest.
  destruct k as [|k].
  - cbn [nth_error] in Hk. injection Hk as ->. cbn [starts nth search_info nth_error].
    rewrite Ha. assert (Nat.leb off (off + j) = true) as -> by (apply Nat.leb_le; lia).
    destruct infos as [|b infos]; [reflexivity|].
    destruct ls as [|l1 ls1]; [discriminate|]. cbn [map starts] in Hrest. injection Hrest as Hb Hrest'.
    cbn [search_info]. rewrite Hb.
    assert (Nat.leb (off + length (l_text l) + 1) (off + j) = false) as -> by (apply Nat.leb_gt; lia).
    reflexivity.
  - cbn [nth_error] in Hk. cbn [starts nth search_info nth_error]. rewrite Ha.
    assert (off <= nth k (starts (off + length (l_text l0) + 1) ls) 0 + j) as Hle.
    { assert (In (nth k (starts (off + length (l_text l0) + 1) ls) 0) (starts (off + length (l_text l0) + 1) ls)) as Hin
          by (eapply nth_starts_in; eauto).
      apply starts_lt in Hin. lia. }
    assert (Nat.leb off (nth k (starts (off + length (l_text l0) + 1) ls) 0 + j) = true) as -> by (apply Nat.leb_le; exact Hle).
    rewrite (IH infos _ k l j Hrest Hk Hj).
    destruct (nth_error infos k) eqn:E; [reflexivity|].
    exfalso. apply nth_error_None in E.
    assert (length infos = length (starts (off + length (l_text l0) + 1) ls)) as Hlen by (rewrite <- Hrest, map_length; reflexivity).
    assert (k < length ls) by (apply nth_error_Some; congruence).
    rewrite starts_length in Hlen. lia.
Qed.

(* Every byte of a metavariable line — at index j of line k — is reported at the line of
   that line in the patch file, j columns right of the line's own column; whatever lines
   (changes, comments, blank lines) precede it in the patch file. *)
Theorem meta_position_roundtrip content ls k l j :
  Forall no_nl ls -> nth_error ls k = Some l -> j <= length (l_text l) ->
  let s_k := nth k (starts 0 ls) 0 in
  let (pl, pc) := plain_pos (line_starts content) (l_off l) in
  pc <> 0 ->
  meta_position content ls (s_k + j) = (pl, pc + j).
Proof.
  intros Hn Hk Hj s_k. destruct (plain_pos (line_starts content) (l_off l)) as [pl pc] eqn:P. intros Hpc.
  assert (ls <> []) as Hne by (intros ->; destruct k; discriminate).
  unfold meta_position.
  pose proof (line_starts_scratch ls Hn Hne) as Hls.
  pose proof (to_bytes_aux_map 0 ls) as Hm. pose proof (to_bytes_aux_origs 0 ls) as Ho.
  unfold to_bytes in *. destruct (to_bytes_aux 0 ls) as [scratch m]. simpl in *.
  unfold unpack. rewrite Hls. unfold plain_pos at 1.
  unfold s_k. rewrite (search_le_starts ls 0 k l j Hk Hj).
  assert (map in_off (meta_infos (line_starts content) m) = starts 0 ls) as Hio.
  { unfold meta_infos. rewrite map_map. rewrite <- Hm. apply map_ext. intros [a b]. simpl.
    destruct (plain_pos (line_starts content) b); reflexivity. }
  rewrite (search_info_at _ ls 0 k l j Hio Hk Hj).
  assert (nth_error m k = Some (nth k (starts 0 ls) 0, l_off l)) as Hmk.
  { assert (nth_error (map fst m) k = Some (nth k (starts 0 ls) 0)) as H1
        by (rewrite Hm; eapply nth_starts_offsets; eauto).
    assert (nth_error (map snd m) k = Some (l_off l)) as H2
        by (rewrite Ho; apply map_nth_error; exact Hk).
    rewrite nth_error_map in H1, H2. destruct (nth_error m k) as [[a b]|]; [|discriminate].
    simpl in *. inversion H1; inversion H2; subst. reflexivity. }
  unfold meta_infos. rewrite nth_error_map, Hmk. simpl. rewrite P. simpl.
  pose proof (search_le_starts ls 0 k l 0 Hk (Nat.le_0_l _)) as H0. rewrite Nat.add_0_r in H0. rewrite H0.
  replace (S k - S k) with 0 by lia. simpl.
  destruct (Nat.eqb pc 0) eqn:E; [apply Nat.eqb_eq in E; contradiction|].
  rewrite Nat.sub_diag. simpl. f_equal; lia.
Qed.
