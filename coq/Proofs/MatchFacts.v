(* Facts about the matcher model: unfolding lemmas, the link to the generic list matcher,
   and soundness with respect to the declarative instance relation. *)
From GP Require Import Tree Meta Match ListMatch.
From Coq Require Import Lia Arith.

(* ---- induction principle for the nested tree type ---- *)
Section ValInd.
  Variable P : val -> Prop.
  Hypothesis HNil : forall t, P (Nil t).
  Hypothesis HPos : forall b, P (Pos b).
  Hypothesis HAtom : forall t a, P (Atom t a).
  Hypothesis HStruct : forall t fs, Forall P fs -> P (Struct t fs).
  Hypothesis HPtr : forall t v, P v -> P (Ptr t v).
  Hypothesis HIface : forall t v, P v -> P (Iface t v).
  Hypothesis HSlice : forall t vs, Forall P vs -> P (Slice t vs).

  Fixpoint val_ind' (v : val) : P v :=
    match v with
    | Nil t => HNil t
    | Pos b => HPos b
    | Atom t a => HAtom t a
    | Struct t fs => HStruct t fs ((fix go (l : list val) : Forall P l :=
        match l with [] => Forall_nil _ | x :: l' => Forall_cons _ (val_ind' x) (go l') end) fs)
    | Ptr t v => HPtr t v (val_ind' v)
    | Iface t v => HIface t v (val_ind' v)
    | Slice t vs => HSlice t vs ((fix go (l : list val) : Forall P l :=
        match l with [] => Forall_nil _ | x :: l' => Forall_cons _ (val_ind' x) (go l') end) vs)
    end.
End ValInd.

Section Facts.
  Variable mk : N -> option mkind.

  (* the struct-field loop, named *)
  Fixpoint mfields (ps ts : list val) (d : data) : option data :=
    match ps, ts with
    | [], [] => Some d
    | p :: ps', t :: ts' => match mtch mk p t d with Some d' => mfields ps' ts' d' | None => None end
    | _, _ => None
    end.

  Lemma mtch_struct sp ps st ts d :
    mtch mk (Struct sp ps) (Struct st ts) d = if N.eqb sp st then mfields ps ts d else None.
  Proof.
    cbn [mtch]. destruct (N.eqb sp st); [|reflexivity].
    revert ts d; induction ps as [|p ps IH]; intros [|t ts] d; cbn [mfields]; try reflexivity.
    all: destruct (mtch mk p t d); [apply IH|reflexivity].
  Qed.

  Definition targets (t : val) : option (list val) :=
    match t with Slice _ ts => Some ts | Nil _ => Some [] | _ => None end.

  (* the slice case is the generic list matcher of ListMatch.v *)
  Lemma mtch_slice tp ps t d :
    mtch mk (Slice tp ps) t d =
    match targets t with
    | Some ts => ml val val data (dots_item tp) (mtch mk) push_dots ps ts d
    | None => None
    end.
  Proof. destruct t; reflexivity. Qed.
End Facts.

(* ================================================================== instances *)
(* [special p]: pattern nodes that are not matched structurally *)
Definition mv_ident (mk : N -> option mkind) (p : val) : option (N * mkind) :=
  match p with
  | Ptr tp (Struct _ [_; Atom _ name; _]) =>
      if N.eqb tp T_P_ast_Ident then
        match mk name with Some k => Some (name, k) | None => None end
      else None
  | _ => None
  end.

Definition for_dots_pat (p : val) : option (N * val) :=
  match p with
  | Ptr tp (Struct _ [_; Nil _; Iface _ c; Nil _; body]) =>
      if N.eqb tp T_P_ast_ForStmt then
        match is_dots c with Some i => Some (i, body) | None => None end
      else None
  | _ => None
  end.

Definition is_obj_ptr (p : val) : bool :=
  match p with Ptr tp _ => N.eqb tp T_P_ast_Object | _ => false end.

Section Inst.
  Variable mk : N -> option mkind.

  (* [Inst s p t]: the target tree t is an instance of the pattern tree p, metavariables
     standing for the code s assigns them.  Positions count by validity only; comment
     groups are absent from the trees; object links never count; a "..." in an argument,
     element, field or statement list stands for any run; "for ... {" stands for the
     header of any for or range statement. *)
  Inductive Inst (s : list (N * val)) : val -> val -> Prop :=
  | I_mv p name k t c :
      mv_ident mk p = Some (name, k) -> kind_ok k t = true ->
      assoc name s = Some c -> eqvb c t = true -> Inst s p t
  | I_obj p t : is_obj_ptr p = true -> Inst s p t
  | I_for p i body tq st fs :
      for_dots_pat p = Some (i, body) -> N.eqb tq T_P_ast_ForStmt = true ->
      Inst s body (nth_val I_ForStmt_Body fs) -> Inst s p (Ptr tq (Struct st fs))
  | I_range p i body tq st fs :
      for_dots_pat p = Some (i, body) ->
      N.eqb tq T_P_ast_ForStmt = false -> N.eqb tq T_P_ast_RangeStmt = true ->
      Inst s body (nth_val I_RangeStmt_Body fs) -> Inst s p (Ptr tq (Struct st fs))
  | I_ptr tp ps tq ts :
      mv_ident mk (Ptr tp ps) = None -> for_dots_pat (Ptr tp ps) = None -> is_obj_ptr (Ptr tp ps) = false ->
      Inst s ps ts -> Inst s (Ptr tp ps) (Ptr tq ts)
  | I_iface ti ps tj ts : Inst s ps ts -> Inst s (Iface ti ps) (Iface tj ts)
  | I_nil tp tq : Inst s (Nil tp) (Nil tq)
  | I_nil_empty tp tq : dots_capable tp = true -> Inst s (Nil tp) (Slice tq [])
  | I_nil_obj tp tq x : N.eqb tp T_P_ast_Object = true -> Inst s (Nil tp) (Ptr tq x)
  | I_pos b : Inst s (Pos b) (Pos b)
  | I_atom ta a : Inst s (Atom ta a) (Atom ta a)
  | I_struct sp ps ts : InstF s ps ts -> Inst s (Struct sp ps) (Struct sp ts)
  | I_slice tp ps t ts : targets t = Some ts -> InstL s tp ps ts -> Inst s (Slice tp ps) t
  with InstF (s : list (N * val)) : list val -> list val -> Prop :=
  | IF_nil : InstF s [] []
  | IF_cons p t ps ts : Inst s p t -> InstF s ps ts -> InstF s (p :: ps) (t :: ts)
  with InstL (s : list (N * val)) : ty -> list val -> list val -> Prop :=
  | IL_nil tp : InstL s tp [] []
  | IL_elem tp p t ps ts : dots_item tp p = None -> Inst s p t -> InstL s tp ps ts ->
                           InstL s tp (p :: ps) (t :: ts)
  | IL_dots tp p i run ps ts : dots_item tp p = Some i -> InstL s tp ps ts ->
                               InstL s tp (p :: ps) (run ++ ts).

  Scheme Inst_mut := Induction for Inst Sort Prop
    with InstF_mut := Induction for InstF Sort Prop
    with InstL_mut := Induction for InstL Sort Prop.

  Definition sub (s1 s2 : list (N * val)) : Prop :=
    forall x c, assoc x s1 = Some c -> assoc x s2 = Some c.

  Lemma sub_refl s : sub s s.
  Proof. intros x c H. exact H. Qed.
  Lemma sub_trans s1 s2 s3 : sub s1 s2 -> sub s2 s3 -> sub s1 s3.
  Proof. intros H1 H2 x c H. apply H2, H1, H. Qed.

  Lemma Inst_mono s1 s2 : sub s1 s2 -> forall p t, Inst s1 p t -> Inst s2 p t.
  Proof.
    intros Hs.
    apply (Inst_mut s1 (fun p t _ => Inst s2 p t) (fun ps ts _ => InstF s2 ps ts)
                    (fun tp ps ts _ => InstL s2 tp ps ts)); intros.
    - eapply I_mv; eauto.
    - apply I_obj; assumption.
    - eapply I_for; eauto.
    - eapply I_range; eauto.
    - apply I_ptr; assumption.
    - apply I_iface; assumption.
    - apply I_nil.
    - apply I_nil_empty; assumption.
    - apply I_nil_obj; assumption.
    - apply I_pos.
    - apply I_atom.
    - apply I_struct; assumption.
    - eapply I_slice; eauto.
    - apply IF_nil.
    - apply IF_cons; assumption.
    - apply IL_nil.
    - apply IL_elem; assumption.
    - eapply IL_dots; eauto.
  Qed.

  Lemma InstF_mono s1 s2 : sub s1 s2 -> forall ps ts, InstF s1 ps ts -> InstF s2 ps ts.
  Proof.
    intros Hs ps ts H. induction H; constructor; auto. eapply Inst_mono; eauto.
  Qed.

  Lemma InstL_mono s1 s2 : sub s1 s2 -> forall tp ps ts, InstL s1 tp ps ts -> InstL s2 tp ps ts.
  Proof.
    intros Hs tp ps ts H. induction H; econstructor; eauto. eapply Inst_mono; eauto.
  Qed.
End Inst.

(* ================================================================== soundness *)
Fixpoint vsize (v : val) : nat :=
  match v with
  | Struct _ fs => S (fold_right (fun x n => (vsize x + n)%nat) 0%nat fs)
  | Slice _ xs => S (fold_right (fun x n => (vsize x + n)%nat) 0%nat xs)
  | Ptr _ x | Iface _ x => S (vsize x)
  | _ => 1%nat
  end.

Lemma vsize_in x l : In x l -> (vsize x <= fold_right (fun x n => (vsize x + n)%nat) 0%nat l)%nat.
Proof.
  induction l as [|y l IH]; simpl; [tauto|]. intros [->|H]; [lia|]. apply IH in H. lia.
Qed.

Lemma eqvb_refl v : eqvb v v = true.
Proof.
  induction v as [t|b|t a|t fs IH|t v IH|t v IH|t vs IH] using val_ind'; cbn [eqvb].
  - apply N.eqb_refl.
  - destruct b; reflexivity.
  - rewrite !N.eqb_refl. reflexivity.
  - rewrite N.eqb_refl. simpl. induction IH as [|x l Hx Hl IHl]; [reflexivity|]. rewrite Hx. exact IHl.
  - rewrite IH. apply orb_true_r.
  - exact IH.
  - induction IH as [|y l' Hy Hl IHl]; [reflexivity|]. rewrite Hy. exact IHl.
Qed.

Section Sound.
  Variable mk : N -> option mkind.
  Notation Inst := (Inst mk).
  Notation InstF := (InstF mk).
  Notation InstL := (InstL mk).

  Definition ext (d d' : data) : Prop := sub (d_mv d) (d_mv d').

  Definition sound_at (p : val) : Prop :=
    forall t d d', mtch mk p t d = Some d' -> ext d d' /\ Inst (d_mv d') p t.

  (* ---- unfolding lemmas for the pointer case ---- *)
  Lemma mtch_mv p name k t d :
    mv_ident mk p = Some (name, k) ->
    mtch mk p t d =
      if kind_ok k t then
        match assoc name (d_mv d) with
        | Some c => if eqvb c t then Some d else None
        | None => Some (push_mv name t d)
        end
      else None.
  Proof.
    unfold mv_ident. intros H.
    destruct p as [| | | |tp ps| |]; try discriminate H.
    destruct ps as [| | |sp fs| | |]; try discriminate H.
    destruct fs as [|f0 [|f1 [|f2 [|f3 r]]]]; try discriminate H;
      destruct f1 as [| |ta nm| | | |]; try discriminate H.
    destruct (N.eqb tp T_P_ast_Ident) eqn:E; [|discriminate H].
    destruct (mk nm) as [k'|] eqn:M; [|discriminate H]. inversion H; subst.
    apply N.eqb_eq in E. subst tp. cbn [mtch].
    replace (N.eqb T_P_ast_Ident T_P_ast_Object) with false by reflexivity.
    rewrite N.eqb_refl, M. reflexivity.
  Qed.

  Lemma mtch_obj tp ps t d : N.eqb tp T_P_ast_Object = true -> mtch mk (Ptr tp ps) t d = Some d.
  Proof. intros E. cbn [mtch]. rewrite E. reflexivity. Qed.

  Lemma mtch_for p i body t d :
    for_dots_pat p = Some (i, body) ->
    mtch mk p t d =
      match t with
      | Ptr tq (Struct st fs) =>
          if N.eqb tq T_P_ast_ForStmt then mtch mk body (nth_val I_ForStmt_Body fs) (push_for i st fs d)
          else if N.eqb tq T_P_ast_RangeStmt then mtch mk body (nth_val I_RangeStmt_Body fs) (push_for i st fs d)
          else None
      | _ => None
      end.
  Proof.
    unfold for_dots_pat. intros H.
    destruct p as [| | | |tp ps| |]; try discriminate H.
    destruct ps as [| | |sp fs| | |]; try discriminate H.
    destruct fs as [|f0 [|f1 [|f2 [|f3 [|f4 [|f5 r]]]]]]; try discriminate H;
      destruct f1; try discriminate H; destruct f2; try discriminate H; destruct f3; try discriminate H.
    destruct (N.eqb tp T_P_ast_ForStmt) eqn:E; [|discriminate H].
    destruct (is_dots f2) as [j|] eqn:D; [|discriminate H]. inversion H; subst.
    apply N.eqb_eq in E. subst tp. cbn [mtch].
    replace (N.eqb T_P_ast_ForStmt T_P_ast_Object) with false by reflexivity.
    rewrite N.eqb_refl, D. reflexivity.
  Qed.

  Lemma mtch_ptr tp ps t d :
    mv_ident mk (Ptr tp ps) = None -> for_dots_pat (Ptr tp ps) = None -> N.eqb tp T_P_ast_Object = false ->
    mtch mk (Ptr tp ps) t d = match t with Ptr _ ts => mtch mk ps ts d | _ => None end.
  Proof.
    unfold mv_ident, for_dots_pat. intros H1 H2 E. cbn [mtch]. rewrite E. revert t d.
    destruct ps as [| | |sp fs| | |]; try (intros; reflexivity).
    destruct fs as [|f0 [|f1 [|f2 [|f3 [|f4 [|f5 r]]]]]]; try (intros; reflexivity);
      repeat (match goal with
              | |- context [match ?x with _ => _ end] => is_var x; destruct x
              end; try (intros; reflexivity)).
    all: try (destruct (N.eqb tp T_P_ast_Ident); [|intros; reflexivity];
              match goal with |- context [mk ?a] => destruct (mk a); [discriminate H1|intros; reflexivity] end).
    all: try (destruct (N.eqb tp T_P_ast_ForStmt); [|intros; reflexivity];
              match goal with |- context [is_dots ?c] => destruct (is_dots c); [discriminate H2|intros; reflexivity] end).
  Qed.

  Lemma ext_refl d : ext d d.
  Proof. apply sub_refl. Qed.
  Lemma ext_trans a b c : ext a b -> ext b c -> ext a c.
  Proof. apply sub_trans. Qed.

  Lemma assoc_cons_ne {A} x y (v : A) l : N.eqb x y = false -> assoc x ((y, v) :: l) = assoc x l.
  Proof. intros E. simpl. rewrite E. reflexivity. Qed.

  Lemma ext_push_mv name t d : assoc name (d_mv d) = None -> ext d (push_mv name t d).
  Proof.
    intros Hn x c Hx. unfold push_mv. simpl. destruct (N.eqb x name) eqn:E.
    - apply N.eqb_eq in E. subst. congruence.
    - exact Hx.
  Qed.

  (* struct fields *)
  Lemma mfields_sound ps : Forall sound_at ps ->
    forall ts d d', mfields mk ps ts d = Some d' -> ext d d' /\ InstF (d_mv d') ps ts.
  Proof.
    induction 1 as [|p ps Hp Hps IH]; intros [|t ts] d d' H; cbn [mfields] in H; try discriminate.
    - inversion H; subst. split; [apply ext_refl|constructor].
    - destruct (mtch mk p t d) as [d1|] eqn:E; [|discriminate].
      apply Hp in E as [E1 I1]. apply IH in H as [E2 I2].
      split; [eapply ext_trans; eauto|]. constructor; [|exact I2].
      eapply Inst_mono; [exact E2|exact I1].
  Qed.

  (* lists with "...": from the declarative solutions of ListMatch *)
  Lemma sol_sound tp ps : Forall sound_at ps ->
    forall ts d rs d', Sol val val data (dots_item tp) (mtch mk) push_dots ps ts d rs d' ->
    ext d d' /\ InstL (d_mv d') tp ps ts.
  Proof.
    intros Hall ts d rs d' H. induction H as [d|p ps t ts d d1 rs d2 Hd Hm Hs IH|p i ps run ts d rs d2 Hd Hs IH].
    - split; [apply ext_refl|constructor].
    - inversion Hall as [|? ? Hp Hps]; subst. apply Hp in Hm as [E1 I1]. destruct (IH Hps) as [E2 I2].
      split; [eapply ext_trans; eauto|]. apply IL_elem; [exact Hd| |exact I2].
      eapply Inst_mono; [exact E2|exact I1].
    - inversion Hall as [|? ? Hp Hps]; subst. destruct (IH Hps) as [E2 I2].
      split; [exact E2|]. eapply IL_dots; eauto.
  Qed.

  Lemma sound_n : forall n p, (vsize p <= n)%nat -> sound_at p.
  Proof.
    induction n as [|n IH]; intros p Hn; [destruct p; simpl in Hn; lia|].
    intros t d d' H.
    destruct p as [tp|b|ta a|sp ps|tp ps|ti ps|tp ps].
    - (* Nil *)
      cbn [mtch] in H. destruct t as [tq| | | |tq x| |tq [|y l]]; try discriminate.
      + inversion H; subst. split; [apply ext_refl|apply I_nil].
      + destruct (N.eqb tp T_P_ast_Object) eqn:E; [|discriminate]. inversion H; subst.
        split; [apply ext_refl|apply I_nil_obj; exact E].
      + destruct (dots_capable tp) eqn:E; [|discriminate]. inversion H; subst.
        split; [apply ext_refl|apply I_nil_empty; exact E].
    - (* Pos *)
      cbn [mtch] in H. destruct t; try discriminate. destruct (Bool.eqb b valid) eqn:E; [|discriminate].
      inversion H; subst. apply Bool.eqb_prop in E. subst. split; [apply ext_refl|apply I_pos].
    - (* Atom *)
      cbn [mtch] in H. destruct t; try discriminate.
      destruct (N.eqb ta t && N.eqb a a0) eqn:E; [|discriminate]. inversion H; subst.
      apply andb_true_iff in E as [E1 E2]. apply N.eqb_eq in E1, E2. subst.
      split; [apply ext_refl|apply I_atom].
    - (* Struct *)
      destruct t as [| | |st ts| | |]; try (cbn [mtch] in H; discriminate).
      rewrite mtch_struct in H. destruct (N.eqb sp st) eqn:E; [|discriminate].
      apply N.eqb_eq in E. subst st.
      assert (Forall sound_at ps) as Hall.
      { apply Forall_forall. intros x Hx. apply IH. apply vsize_in in Hx. simpl in Hn. lia. }
      apply (mfields_sound ps Hall) in H as [E1 I1]. split; [exact E1|apply I_struct; exact I1].
    - (* Ptr *)
      destruct (N.eqb tp T_P_ast_Object) eqn:EO.
      { rewrite mtch_obj in H by exact EO. inversion H; subst.
        split; [apply ext_refl|apply I_obj; simpl; exact EO]. }
      destruct (mv_ident mk (Ptr tp ps)) as [[name k]|] eqn:MV.
      { rewrite (mtch_mv _ _ _ _ _ MV) in H. destruct (kind_ok k t) eqn:K; [|discriminate].
        destruct (assoc name (d_mv d)) as [c|] eqn:A.
        - destruct (eqvb c t) eqn:Q; [|discriminate]. inversion H; subst.
          split; [apply ext_refl|]. eapply I_mv; eauto.
        - inversion H; subst. split; [apply ext_push_mv; exact A|].
          eapply I_mv; eauto; [unfold push_mv; simpl; rewrite N.eqb_refl; reflexivity|apply eqvb_refl]. }
      destruct (for_dots_pat (Ptr tp ps)) as [[i body]|] eqn:FD.
      { rewrite (mtch_for _ _ _ _ _ FD) in H.
        assert (sound_at body) as Hb.
        { apply IH. unfold for_dots_pat in FD.
          destruct ps as [| | |sp fs| | |]; try discriminate FD.
          destruct fs as [|f0 [|f1 [|f2 [|f3 [|f4 [|f5 r]]]]]]; try discriminate FD;
            destruct f1; try discriminate FD; destruct f2; try discriminate FD; destruct f3; try discriminate FD.
          destruct (N.eqb tp T_P_ast_ForStmt); [|discriminate FD]. destruct (is_dots f2); [|discriminate FD].
          inversion FD; subst. simpl in Hn. simpl. lia. }
        destruct t as [| | | |tq x| |]; try discriminate. destruct x as [| | |st fs| | |]; try discriminate.
        destruct (N.eqb tq T_P_ast_ForStmt) eqn:E1.
        - apply Hb in H as [E I]. split.
          + intros x c Hx. apply E. exact Hx.
          + eapply I_for; eauto.
        - destruct (N.eqb tq T_P_ast_RangeStmt) eqn:E2; [|discriminate].
          apply Hb in H as [E I]. split.
          + intros x c Hx. apply E. exact Hx.
          + eapply I_range; eauto. }
      rewrite (mtch_ptr _ _ _ _ MV FD EO) in H. destruct t as [| | | |tq ts| |]; try discriminate.
      assert (sound_at ps) as Hp by (apply IH; simpl in Hn; lia).
      apply Hp in H as [E I]. split; [exact E|]. apply I_ptr; auto.
    - (* Iface *)
      cbn [mtch] in H. destruct t as [| | | | |tj ts|]; try discriminate.
      assert (sound_at ps) as Hp by (apply IH; simpl in Hn; lia).
      apply Hp in H as [E I]. split; [exact E|apply I_iface; exact I].
    - (* Slice *)
      rewrite mtch_slice in H. destruct (targets t) as [ts|] eqn:T; [|discriminate].
      assert (Forall sound_at ps) as Hall.
      { apply Forall_forall. intros x Hx. apply IH. apply vsize_in in Hx. simpl in Hn. lia. }
      apply ml_sound in H as [rs Hs]. apply (sol_sound tp ps Hall) in Hs as [E I].
      split; [exact E|]. eapply I_slice; eauto.
  Qed.

  (* Soundness: whatever the matcher accepts is an instance of the pattern, with each
     metavariable standing for the code recorded for it; earlier bindings are kept. *)
  Theorem mtch_sound p t d d' :
    mtch mk p t d = Some d' -> ext d d' /\ Inst (d_mv d') p t.
  Proof. apply (sound_n (vsize p) p (le_n _)). Qed.
End Sound.
